# Hand-written mutants: small realistic breakages. {"name","file","old","new","what"}; 'old' must occur exactly once.
MUTANTS = {}

def M(pid, name, file, old, new, what=""):
    MUTANTS.setdefault(pid, []).append({"name": name, "file": file, "old": old, "new": new, "what": what})

# ----------------------------------------------------------------------------- C17
M("C17", "touching_as_overlap", "odc/geo/roi.py",
  "    if a.stop < b.start:\n        return slice(na, na), slice(0, 0), slice(a.stop, a.stop)",
  "    if a.stop <= b.start:\n        return slice(na, na), slice(0, 0), slice(a.stop + 1, a.stop + 1)",
  "3-way intersection: disjoint branch returns a region one past the contact")
M("C17", "norm_no_negative", "odc/geo/roi.py",
  "    start, stop = (x if x >= 0 else n + x for x in (start, stop))\n",
  "    start, stop = (x if x >= 0 else n + x + 1 for x in (start, stop))\n",
  "negative slice bounds off by one")
M("C17", "scaled_down_align_down", "odc/geo/roi.py",
  "    s1, s2 = (slice(s.start // scale, align_up(s.stop, scale) // scale) for s in roi)",
  "    s1, s2 = (slice(s.start // scale, align_down(s.stop, scale) // scale) for s in roi)",
  "scaled_down_roi rounds the stop down")
M("C17", "points_any_finite", "odc/geo/roi.py",
  "        keep = ok_mask.T[0] * ok_mask.T[1]\n",
  "        keep = ok_mask.T[0] + ok_mask.T[1]\n",
  "roi_from_points keeps rows with one finite coordinate")
M("C17", "points_pad_after_align", "odc/geo/roi.py",
  "    if align is not None:\n        _in = align_down(_in, align)\n        _out = align_up(_out, align)\n",
  "    if align is not None:\n        _in = align_down(_in + padding, align) - padding\n        _out = align_up(_out - padding, align) + padding\n",
  "padding applied after alignment")
M("C17", "points_int32_again", "odc/geo/roi.py",
  '.astype("int64") - padding', '.astype("int32") - padding', "harmless dtype change (should SURVIVE: values are clamped first)")
M("C17", "pad_no_clamp_low", "odc/geo/roi.py",
  "        return slice(max(0, s.start - pad), min(n, s.stop + pad))",
  "        return slice(s.start - pad if s.start >= pad else s.start, min(n, s.stop + pad))",
  "roi_pad does not grow when it would cross 0")
M("C17", "is_full_ignores_start", "odc/geo/roi.py",
  "        return s.start in (0, None) and s.stop in (n, None)",
  "        return s.stop in (n, None)", "roi_is_full ignores start")

# ----------------------------------------------------------------------------- C20
M("C20", "split_ge_half", "odc/geo/math.py", "    if x_part > 0.5:\n        x_part -= 1\n        x_whole += 1",
  "    if x_part >= 0.5:\n        x_part -= 1\n        x_whole += 1", "> 0.5 -> >= 0.5 (still within contract [-0.5,0.5]: may SURVIVE)")
M("C20", "align_up_off_by_one", "odc/geo/math.py", "    return align_down(x + (align - 1), align)", "    return align_down(x + align, align)", "align_up overshoots exact multiples")
M("C20", "snap_grid_neg_branch", "odc/geo/math.py", "    tx = _tx + nx * (-res)\n", "    tx = _tx\n", "negative resolution returns the low edge")
M("C20", "cholesky_of_AAt", "odc/geo/math.py", "    WS = np.linalg.cholesky(A.T @ A).T", "    WS = np.linalg.cholesky(A @ A.T).T", "decompose_rws uses A A^T")
M("C20", "bin_ceil", "odc/geo/math.py", "        ix = floor((x - self.origin) / self.sz)", "        ix = ceil((x - self.origin) / self.sz)", "Bin1D.bin with ceil")
M("C20", "fit_denorm_wrong_scale", "odc/geo/math.py",
  "        cc = cc * s\n        cc[0, :2] += (tx, ty)\n\n        cc = cc.reshape(2, 2, 2)\n",
  "        cc = cc * Ain.a\n        cc[0, :2] += (tx, ty)\n\n        cc = cc.reshape(2, 2, 2)\n", "bilinear fit de-normalised with the input scale")
M("C20", "is_almost_int_le", "odc/geo/math.py", "    if x > 0.5:\n        x = 1 - x\n    return x < tol", "    if x > 0.5:\n        x = 1 - x\n    return x <= tol", "boundary of the tolerance test")
M("C20", "snap_scale_no_inverse", "odc/geo/math.py", "    return 1 / s_inv_snapped", "    return s_inv_snapped", "snap_scale returns n instead of 1/n")
M("C20", "from_sample_bin_no_dir", "odc/geo/math.py", "        origin = x0 - sz * idx * direction", "        origin = x0 - sz * idx", "from_sample_bin ignores direction")
M("C20", "pow2_floor", "odc/geo/math.py", "    return 2 ** int(ceil(log2(x)))", "    return 2 ** int(round(log2(x)))", "align_up_pow2 rounds")
M("C20", "maybe_int_abs", "odc/geo/math.py", "    if abs(x_part) < tol:  # almost int", "    if x_part < tol:  # almost int", "maybe_int forgets abs")
M("C20", "axis_offset_full_pixel", "odc/geo/math.py", "    off = data[0] - 0.5 * res", "    off = data[0] - res", "axis offset by a full pixel")

# ----------------------------------------------------------------------------- C04
M("C04", "tile_count_floor", "odc/geo/roi.py", "            int(math.ceil(float(N) / n)) for N, n in zip(base_shape.yx, tile_shape.yx)",
  "            max(1, int(math.floor(float(N) / n))) for N, n in zip(base_shape.yx, tile_shape.yx)", "ceil -> floor in tile count")
M("C04", "last_tile_not_clamped", "odc/geo/roi.py", "                return slice(_in, min(_out, N))", "                return slice(_in, _out)", "last tile not clamped")
M("C04", "searchsorted_left", "odc/geo/roi.py", 'int(np.searchsorted(bins[1:], pix, "right"))', 'int(np.searchsorted(bins[1:], pix, "left"))', "locate uses side=left")
M("C04", "clip_no_rebase", "odc/geo/roi.py", "    sel_new = [(y - y1, x - x1) for y, x in selection]", "    sel_new = [(y, x) for y, x in selection]", "clip_tiles without re-basing")
M("C04", "asm_rois_swapped", "odc/geo/_blocks.py", "            s_roi, d_roi, _ = roi_intersect3(yx_roi_b, yx_roi)", "            d_roi, s_roi, _ = roi_intersect3(yx_roi_b, yx_roi)", "assembler source/destination regions swapped")
M("C04", "vtile_crop_off_by_one", "odc/geo/roi.py", "        y, x = (ch[s.start : s.stop] for ch, s in zip(self.chunks, roi))", "        y, x = (ch[s.start : max(s.stop - 1, s.start + 1)] for ch, s in zip(self.chunks, roi))", "variable crop drops last chunk")
M("C04", "edge_tile_shape", "odc/geo/roi.py", "                return total_sz - (i * tile_sz)", "                return tile_sz", "edge tile reports the nominal tile size")
M("C04", "gbt_crop_wrong_base", "odc/geo/geobox.py", "        gbox_new = self.base[self._tiles[roi]]\n", "        gbox_new = self.base\n", "GeoboxTiles crop keeps the un-cropped base")
M("C04", "asm_fill_zero_for_float", "odc/geo/_blocks.py", '            fill_value = dtype.type("nan" if np.issubdtype(dtype, np.floating) else 0)', "            fill_value = dtype.type(0)", "default fill 0 for floats")
M("C04", "chunks_last_wrong", "odc/geo/roi.py", "            (ny,) * (NY - 1) + (ny_,),", "            (ny,) * NY,", "regular chunks ignore ragged last tile")

# ----------------------------------------------------------------------------- C16
M("C16", "bbox_union_max_left", "odc/geo/geom.py", "        L = min(l, L)\n        B = min(b, B)\n        R = max(r, R)", "        L = max(l, L)\n        B = min(b, B)\n        R = max(r, R)", "union takes max of left edges")
M("C16", "bbox_isect_bottom_min", "odc/geo/geom.py", "        L = max(l, L)\n        B = max(b, B)", "        L = max(l, L)\n        B = min(b, B)", "intersection takes min of bottoms")
M("C16", "no_empty_normalisation", "odc/geo/geobox.py", "    if bbox.left > bbox.right:\n        bbox = BoundingBox(", "    if False and bbox.left > bbox.right:\n        bbox = BoundingBox(", "empty intersection (x) not normalised")
M("C16", "overlap_roi_not_clamped", "odc/geo/geobox.py", "        x0, y0 = max(0, x0), max(0, y0)\n", "", "overlap_roi not clamped at 0")
M("C16", "snap_to_whole", "odc/geo/geobox.py", "        _, subpix = split_translation(pixel_translation(other, self))", "        subpix, _ = split_translation(pixel_translation(other, self))", "snap_to uses whole part")
M("C16", "no_almost_int_test", "odc/geo/geobox.py", "    if not (is_almost_int(tx, tol) and is_almost_int(ty, tol)):", "    if not (is_almost_int(tx, 0.6) and is_almost_int(ty, 0.6)):", "sub-pixel offsets silently rounded")
M("C16", "almost_int_x_only", "odc/geo/geobox.py", "    if not (is_almost_int(tx, tol) and is_almost_int(ty, tol)):", "    if not is_almost_int(tx, tol):", "y offset not checked")
M("C16", "enclosing_no_round", "odc/geo/geobox.py", "        pix_bbox = self.project(region).boundingbox.round()\n        nx, ny = (max(1, int(span)) for span in (pix_bbox.span_x, pix_bbox.span_y))\n        tx, ty, *_ = pix_bbox.bbox", "        pix_bbox = self.project(region).boundingbox\n        nx, ny = (max(1, int(math.ceil(span))) for span in (pix_bbox.span_x, pix_bbox.span_y))\n        tx, ty, *_ = pix_bbox.bbox", "enclosing off the source grid")
M("C16", "union_uses_last_reference", "odc/geo/geobox.py", "    affine = reference.affine * Affine.translation(*bbox[:2])\n    return GeoBox(shape=bbox.shape, affine=affine, crs=reference.crs)\n\n\ndef geobox_intersection_conservative", "    affine = geoboxes[-1].affine * Affine.translation(*bbox[:2])\n    return GeoBox(shape=bbox.shape, affine=affine, crs=reference.crs)\n\n\ndef geobox_intersection_conservative", "union anchored at the wrong operand")
M("C16", "scale_check_dropped", "odc/geo/geobox.py", "        numpy.isclose(sx, 1)\n        and numpy.isclose(z1, 0)", "        numpy.isclose(z1, 0)", "x scale compatibility not checked")
M("C16", "bbox_round_floor_hi", "odc/geo/geom.py", "            math.floor(x0), math.floor(y0), math.ceil(x1), math.ceil(y1), crs=self._crs", "            math.floor(x0), math.floor(y0), math.ceil(x1), math.floor(y1), crs=self._crs", "BoundingBox.round floors the top")

# ----------------------------------------------------------------------------- C02
M("C02", "crop_swap_txy", "odc/geo/geobox.py", "        affine = self._affine * Affine.translation(tx, ty)\n        return shape_((ny, nx)), affine", "        affine = self._affine * Affine.translation(ty, tx)\n        return shape_((ny, nx)), affine", "compute_crop swaps tx,ty")
M("C02", "flipy_uses_nx", "odc/geo/geobox.py", "        ny, _ = self._shape\n        A = Affine.translation(0, ny) * Affine.scale(1, -1)", "        _, ny = self._shape\n        A = Affine.translation(0, ny) * Affine.scale(1, -1)", "flipy uses nx")
M("C02", "rotate_about_corner", "odc/geo/geobox.py", "        c0 = self._affine * (nx * 0.5, ny * 0.5)", "        c0 = self._affine * (0, 0)", "rotate about the corner")
M("C02", "zoom_out_floor", "odc/geo/geobox.py", "        ny, nx = (max(1, math.ceil(s / factor)) for s in self.shape)", "        ny, nx = (max(1, math.floor(s / factor)) for s in self.shape)", "zoom_out floors the shape")
M("C02", "pad_forgets_pady", "odc/geo/geobox.py", "        A = self._affine * Affine.translation(-padx, -pady)\n        shape = (ny + pady * 2, nx + padx * 2)\n        return GeoBox(shape, A, self._crs)", "        A = self._affine * Affine.translation(-padx, -padx)\n        shape = (ny + pady * 2, nx + padx * 2)\n        return GeoBox(shape, A, self._crs)", "GeoBox.pad shifts by padx on both axes")
M("C02", "mul_rmul_swapped", "odc/geo/geobox.py", "        return GeoBox(self._shape, self._affine * transform, self._crs)", "        return GeoBox(self._shape, transform * self._affine, self._crs)", "__mul__ composes on the world side")
M("C02", "from_transform_two_corners", "odc/geo/geom.py", "        pts = [transform * pt for pt in [(0, 0), (nx, 0), (nx, ny), (0, ny)]]", "        pts = [transform * pt for pt in [(0, 0), (nx, ny)]]", "bounding box from two corners (D10 re-introduced)")
M("C02", "coords_edge_labels", "odc/geo/geobox.py", "        xs = numpy.arange(nx) * rx + (tx + rx / 2)", "        xs = numpy.arange(nx) * rx + tx", "x labels at pixel edges")
M("C02", "zoom_to_swapped_axes", "odc/geo/geobox.py", "        A = self._affine * Affine.scale(sx, sy)\n        return (shape, A)", "        A = self._affine * Affine.scale(sy, sx)\n        return (shape, A)", "zoom_to scales swapped")
M("C02", "scaled_down_floor", "odc/geo/geobox.py", "    ny, nx = (X // scaler + (1 if X % scaler else 0) for X in src_geobox.shape)", "    ny, nx = (max(1, X // scaler) for X in src_geobox.shape)", "scaled_down_geobox drops the partial pixel")
M("C02", "gcp_pad_wrong_sign", "odc/geo/gcp.py", "        A = self._affine * Affine.translation(-padx, -pady)\n        shape = (ny + pady * 2, nx + padx * 2)\n        return GCPGeoBox(shape, self._mapping, A)", "        A = self._affine * Affine.translation(padx, -pady)\n        shape = (ny + pady * 2, nx + padx * 2)\n        return GCPGeoBox(shape, self._mapping, A)", "GCP pad shifts x the wrong way")
M("C02", "gcp_wld2pix_no_inverse", "odc/geo/gcp.py", "        x, y = self._mapping.w2p(x, y)\n        return (~self._affine) * (x, y)", "        x, y = self._mapping.w2p(x, y)\n        return self._affine * (x, y)", "GCP wld2pix applies the crop affine forwards")
M("C02", "resolution_swapped_rot", "odc/geo/math.py", "    _, _, A_ = decompose_rws(A)\n    rx, _, _, _, ry, *_ = A_\n    return resxy_(rx, ry)", "    _, _, A_ = decompose_rws(A)\n    rx, _, _, _, ry, *_ = A_\n    return resxy_(ry, rx)", "rotated resolution swapped")
M("C02", "translate_pix_world_side", "odc/geo/geobox.py", "        return self * Affine.translation(tx, ty)", "        return Affine.translation(tx, ty) * self", "translate_pix in world units")
M("C02", "center_pixel_ceil", "odc/geo/geobox.py", "        return self[self.shape.map(lambda x: x // 2).yx]\n\n    @property\n    def compat", "        return self[self.shape.map(lambda x: (x - 1) // 2).yx]\n\n    @property\n    def compat", "centre pixel off by one for even sizes")

# ----------------------------------------------------------------------------- C08
M("C08", "snap_edge_floor_ceil_swapped", "odc/geo/math.py", "    _x0 = floor(maybe_int(x0 / res, tol))\n    _x1 = ceil(maybe_int(x1 / res, tol))", "    _x0 = ceil(maybe_int(x0 / res, tol))\n    _x1 = floor(maybe_int(x1 / res, tol))", "floor/ceil swapped in _snap_edge_pos")
M("C08", "neg_res_low_edge", "odc/geo/math.py", "    tx = _tx + nx * (-res)\n", "    tx = _tx\n", "negative resolution returns the low edge")
M("C08", "anchor_wrong_sign", "odc/geo/math.py", "    return _tx + off, nx", "    return _tx - off, nx", "anchor offset applied with the wrong sign")
M("C08", "no_min_one_pixel", "odc/geo/math.py", "    nx = max(1, _x1 - _x0)\n", "    nx = _x1 - _x0\n", "minimum of one pixel removed")
M("C08", "tol_ignored", "odc/geo/math.py", "    _x0 = floor(maybe_int(x0 / res, tol))\n    _x1 = ceil(maybe_int(x1 / res, tol))", "    _x0 = floor(x0 / res)\n    _x1 = ceil(x1 / res)", "tolerance ignored when snapping edges")
M("C08", "y_uses_x_anchor", "odc/geo/geobox.py", "                offy, ny = snap_grid(bbox.bottom, bbox.top, ry, _snap.y, tol=tol)\n\n            affine", "                offy, ny = snap_grid(bbox.bottom, bbox.top, ry, _snap.x, tol=tol)\n\n            affine", "y axis snapped with the x anchor")
M("C08", "tight_still_snaps", "odc/geo/geobox.py", "        if tight:\n            anchor = AnchorEnum.FLOATING\n", "        if tight:\n            anchor = AnchorEnum.EDGE\n", "tight=True still snaps")
M("C08", "center_anchor_is_edge", "odc/geo/geobox.py", "        elif anchor == AnchorEnum.CENTER:\n            _snap = xy_(0.5, 0.5)", "        elif anchor == AnchorEnum.CENTER:\n            _snap = xy_(0.0, 0.0)", "centre anchor snaps edges")
M("C08", "geopolygon_no_reproject", "odc/geo/geobox.py", "        else:\n            geopolygon = geopolygon.to_crs(crs)\n", "        else:\n            geopolygon = geopolygon.assign_crs(crs)\n", "from_geopolygon re-labels instead of reprojecting")
M("C08", "shape_branch_span_y_x", "odc/geo/geobox.py", "        ry = -bbox.span_y / ny\n", "        ry = -bbox.span_x / ny\n", "shape-driven y pixel size from x span")
M("C08", "int_shape_wrong_side", "odc/geo/geobox.py", "            if bbox.aspect > 1:\n                resolution = bbox.span_x / shape", "            if bbox.aspect < 1:\n                resolution = bbox.span_x / shape", "int shape applied to the shorter side")
M("C08", "floating_ceil_no_tol", "odc/geo/math.py", "            nx = ceil(maybe_int((x1 - x0) / res, tol))\n            return x0, max(1, nx)", "            nx = ceil((x1 - x0) / res) + 1\n            return x0, max(1, nx)", "floating grid one pixel too large")
M("C08", "shape_unsnapped_bottom", "odc/geo/geobox.py", "            offx, offy = bbox.left, bbox.top\n", "            offx, offy = bbox.left, bbox.bottom\n", "unsnapped shape-driven box anchored at the bottom")

# ----------------------------------------------------------------------------- C01
M("C01", "split_no_check", "odc/geo/geom.py", "        if splitter.crs != self.crs:\n            raise CRSMismatchError(self.crs, splitter.crs)\n", "", "split without CRS check")
M("C01", "wrap_none_is_wildcard", "odc/geo/geom.py", "            if first.crs != arg.crs:\n                raise CRSMismatchError((first.crs, arg.crs))", "            if first.crs is not None and arg.crs is not None and first.crs != arg.crs:\n                raise CRSMismatchError((first.crs, arg.crs))", "missing CRS accepted as a wildcard in binary geometry ops")
M("C01", "bbox_union_first_pair_only", "odc/geo/geom.py", "        T = max(t, T)\n\n        if crs != bb.crs:\n            raise CRSMismatchError((crs, bb.crs))\n\n    return BoundingBox(L, B, R, T, crs)\n\n\ndef bbox_intersection", "        T = max(t, T)\n\n    if bbs and crs != bbs[0].crs:\n        raise CRSMismatchError((crs, bbs[0].crs))\n\n    return BoundingBox(L, B, R, T, crs)\n\n\ndef bbox_intersection", "bbox_union checks only the second box")
M("C01", "bbox_isect_none_wildcard", "odc/geo/geom.py", "        T = min(t, T)\n\n        if crs != bb.crs:", "        T = min(t, T)\n\n        if crs is not None and crs != bb.crs:", "bbox_intersection: first box without CRS accepts anything")
M("C01", "pixel_translation_no_check", "odc/geo/geobox.py", "    if a.crs != b.crs:\n        raise ValueError(\"Geobox CRSs must match\")\n", "", "pixel_translation without CRS check")
M("C01", "crs_eq_true_when_epsg_unset", "odc/geo/crs.py", "        if self._str == other._str:\n            return True\n\n        return self._crs == other._crs", "        if self._str == other._str:\n            return True\n\n        return True", "CRS equality falls back to True")
M("C01", "common_crs_second_only", "odc/geo/geom.py", "    for crs in all_crs[1:]:\n        if crs != ref:", "    for crs in all_crs[1:2]:\n        if crs != ref:", "common_crs looks at the second geometry only")
M("C01", "unary_union_second_only", "odc/geo/geom.py", "    for g in geoms[1:]:\n        if crs != g.crs:", "    for g in geoms[1:2]:\n        if crs != g.crs:", "unary_union looks at the second geometry only")
M("C01", "result_untagged", "odc/geo/geom.py", "        if isinstance(result, base.BaseGeometry):\n            return Geometry(result, first.crs)", "        if isinstance(result, base.BaseGeometry):\n            return Geometry(result, None)", "binary geometry results lose their CRS")
M("C01", "crs_ne_by_identity", "odc/geo/crs.py", "    def __ne__(self, other) -> bool:\n        return not self == other", "    def __ne__(self, other) -> bool:\n        return self is not other and str(self) != str(other)", "__ne__ compares spellings: equal CRSs in different spellings rejected")
M("C01", "crs_eq_epsg_shortcut_any", "odc/geo/crs.py", "        if self._epsg and other._epsg:\n            return self._epsg == other._epsg", "        if self._epsg and other._epsg:\n            return self._epsg // 1000 == other._epsg // 1000", "EPSG codes compared too coarsely (4326 == 4283)")

# ----------------------------------------------------------------------------- C19
M("C19", "crs_cache_lru16", "odc/geo/crs.py", "_crs_cache: Dict[Hashable, Tuple[_CRS, str, Optional[int]]] = {}", "_crs_cache: Dict[Hashable, Tuple[_CRS, str, Optional[int]]] = cachetools.LRUCache(16)", "bounded CRS cache: pyproj objects are evicted, ids recycled, transformer cache keyed by id returns the wrong transformer")
M("C19", "transformer_key_no_always_xy", "odc/geo/crs.py", "    return (id(from_crs), id(to_crs), always_xy)", "    return (id(from_crs), id(to_crs))", "transformer cache ignores always_xy")
M("C19", "transformer_key_one_sided", "odc/geo/crs.py", "    return (id(from_crs), id(to_crs), always_xy)", "    return (id(from_crs), always_xy)", "transformer cache ignores the target CRS")
M("C19", "geobox_token_no_crs", "odc/geo/geobox.py", "            \"odc.geo.geobox.GeoBox\",\n            str(self.crs),\n", "            \"odc.geo.geobox.GeoBox\",\n", "GeoBox token without CRS")
M("C19", "geobox_token_no_translation", "odc/geo/geobox.py", "            *self._affine[:6],\n        )\n\n\ndef gbox_boundary", "            *self._affine[:2], *self._affine[3:5],\n        )\n\n\ndef gbox_boundary", "GeoBox token without translation terms")
M("C19", "geobox_hash_no_affine", "odc/geo/geobox.py", "        return hash((*self._shape, self._crs, self._affine))", "        return hash((*self._shape, self._crs))", "GeoBox hash without the affine (coherent: may SURVIVE)")
M("C19", "geobox_eq_ignores_crs", "odc/geo/geobox.py", "            and self._affine == other._affine\n            and self._crs == other._crs\n        )\n\n    def __rmul__", "            and self._affine == other._affine\n        )\n\n    def __rmul__", "GeoBox equality ignores CRS (hash does not)")
M("C19", "xy_eq_asymmetric", "odc/geo/types.py", "        if not isinstance(other, XY):\n            return False\n        return self._xy == other._xy", "        if type(other) is not type(self) and type(self) is XY:\n            return False\n        if not isinstance(other, XY):\n            return False\n        return self._xy == other._xy", "plain XY refuses subclasses but not the other way round (asymmetric)")
M("C19", "vtiles_token_shapes_only", "odc/geo/roi.py", "            \"odc.geo.roi.VariableSizedTiles\",\n            *self._offsets,", "            \"odc.geo.roi.VariableSizedTiles\",\n            *[len(o) for o in self._offsets], *[int(o[-1]) for o in self._offsets],", "variable tiles token from counts and totals only")
M("C19", "tiles_token_no_base", "odc/geo/roi.py", "            \"odc.geo.roi.Tiles\",\n            *self._base_shape,", "            \"odc.geo.roi.Tiles\",\n            *self._shape,", "D2 re-introduced")
M("C19", "gcp_eq_identity", "odc/geo/gcp.py", "            and self._mapping == __o._mapping\n", "            and self._mapping is __o._mapping\n", "D14 re-introduced")
M("C19", "bbox_eq_ignores_crs", "odc/geo/geom.py", "            return self._crs == other._crs and self._box == other._box", "            return self._box == other._box", "BoundingBox equality ignores CRS")
M("C19", "crs_pickle_epsg_only", "odc/geo/crs.py", "        return {\"crs_str\": self._str}", "        return {\"crs_str\": self._str if self._epsg else \"EPSG:4326\"}", "authority-less CRS pickles as EPSG:4326")
M("C19", "gbtiles_eq_ignores_gbox", "odc/geo/geobox.py", "        return self._tiles == __value._tiles and self._gbox == __value._gbox", "        return self._tiles == __value._tiles", "GeoboxTiles equality ignores the geobox (tokens differ, unhashable: coherent, may SURVIVE)")
M("C19", "gridspec_eq_ignores_bins", "odc/geo/gridspec.py", "            self._shape == other._shape\n            and self._ybin == other._ybin\n", "            self._shape == other._shape\n", "GridSpec equality ignores y bins (coherent: may SURVIVE)")
M("C19", "geom_getstate_drops_crs", "odc/geo/geom.py", "        return {\"geom\": self.json, \"crs\": self.crs}", "        return {\"geom\": self.json, \"crs\": None}", "Geometry pickle loses the CRS")
M("C19", "crs_eq_not_transitive", "odc/geo/crs.py", "        if self._str == other._str:\n            return True\n\n        return self._crs == other._crs", "        if self._str == other._str:\n            return True\n\n        return self._str.startswith(\"EPSG\") and self._crs == other._crs", "CRS equality depends on the spelling of the left operand (asymmetric)")

# ----------------------------------------------------------------------------- C03
M("C03", "axis_overlap_floor_to_round", "odc/geo/overlap.py", "        _in = (min(math.floor(t), Ns), 0)", "        _in = (min(round(t), Ns), 0)", "source start rounded instead of floored")
M("C03", "axis_overlap_ceil_to_floor", "odc/geo/overlap.py", "    a = math.ceil(Nd * s + t)", "    a = math.floor(Nd * s + t)", "source end floored")
M("C03", "sampled_path_no_padding", "odc/geo/overlap.py", "        padding = 1 if padding is None else padding\n        roi_src, roi_dst = _relative_rois(\n            src, dst, tr, pts_per_side=2, padding=padding, align=align\n        )", "        padding = 0 if padding is None else padding\n        roi_src, roi_dst = _relative_rois(\n            src, dst, tr, pts_per_side=2, padding=padding, align=align\n        )", "default padding 0 on the same-CRS sampled path")
M("C03", "no_unflip", "odc/geo/overlap.py", "        src = slice(Ns - src.stop, Ns - src.start)  # type: ignore", "        src = slice(src.start, src.stop)  # type: ignore", "mirrored source slice not mapped back")
M("C03", "no_scaled_up_roi", "odc/geo/overlap.py", "            roi_src = scaled_up_roi(roi_src, read_shrink)\n", "", "overview-space source region not scaled back to native pixels")
M("C03", "scale_max", "odc/geo/overlap.py", "    scale = min(scale2.xy)\n    read_shrink = _pick_read_scale(scale)\n\n    paste_ok = False", "    scale = max(scale2.xy)\n    read_shrink = _pick_read_scale(scale)\n\n    paste_ok = False", "scale is the larger ratio")
M("C03", "read_scale_round", "odc/geo/overlap.py", "    return int(scale)\n", "    return int(round(scale))\n", "read shrink rounds to nearest")
M("C03", "dst_roi_from_2_points", "odc/geo/overlap.py", "    xy = tr(unstack_xy(roi_boundary(roi_src, pts_per_side)))", "    xy = tr(unstack_xy(roi_boundary(roi_src, pts_per_side)))[:2]", "destination region from two boundary points only")
M("C03", "diffcrs_padding_zero", "odc/geo/overlap.py", "    if tr.linear is None:\n        padding = 1 if padding is None else padding", "    if tr.linear is None:\n        padding = 0 if padding is None else padding", "default padding 0 for different CRSs")
M("C03", "dst_in_off_by_one", "odc/geo/overlap.py", "        _in = (0, min(math.floor(t_), Nd))", "        _in = (0, min(math.floor(t_) + 1, Nd))", "destination start one pixel late")
M("C03", "dst_out_floor", "odc/geo/overlap.py", "        _out = (Ns, max(0, math.ceil(Ns * s_ + t_)))", "        _out = (Ns, max(0, math.floor(Ns * s_ + t_)))", "destination end floored")
M("C03", "back_transform_is_forward", "odc/geo/overlap.py", "        back = LinearPointTransform(~self.A, self)", "        back = LinearPointTransform(self.A, self)", "back transform not inverted")
M("C03", "clamp_wrong_axis", "odc/geo/overlap.py", "            self._clamps = ((-180, 180), (-90, 90))", "            self._clamps = ((-90, 90), (-180, 180))", "lon/lat clamps swapped")

# ----------------------------------------------------------------------------- C10
M("C10", "flip_off_by_one", "odc/geo/overlap.py", "        s, t = -s, Ns - t\n", "        s, t = -s, Ns - t - 1\n", "mirrored axis overlap off by one")
M("C10", "snap_affine_loses_sign", "odc/geo/math.py", "    sx_ = snap_scale(sx, stol)\n", "    sx_ = abs(snap_scale(sx, stol))\n", "snap_affine drops the sign of the x scale")
M("C10", "can_paste_ignores_ty", "odc/geo/overlap.py", "    if not all(is_almost_int(t, ttol) for t in (tx, ty)):", "    if not all(is_almost_int(t, ttol) for t in (tx,)):", "sub-pixel y translation not checked")
M("C10", "is_affine_st_tol_1", "odc/geo/math.py", "def is_affine_st(A: Affine, tol: float = 1e-10) -> bool:", "def is_affine_st(A: Affine, tol: float = 1.0) -> bool:", "rotation tolerance 1")
M("C10", "can_paste_no_axis_scale_check", "odc/geo/overlap.py", "    if any(abs(abs(s) - 1) > stol for s in (sx, sy)):  # not equal scaling across axis?", "    if False:  # not equal scaling across axis?", "unequal axis scales accepted for pasting")
M("C10", "paste_without_snapping", "odc/geo/overlap.py", "            A_ = snap_affine(A, ttol=ttol, stol=stol)\n            roi_src, roi_dst = box_overlap(src.shape, dst.shape, A_)", "            A_ = A\n            roi_src, roi_dst = box_overlap(src.shape, dst.shape, A_)", "paste overlap computed from the un-snapped transform")
M("C10", "maybe_int_truncates", "odc/geo/math.py", "        return int(x_whole)\n", "        return int(x)\n", "near-integers just below are truncated")
M("C10", "ttol_doubled", "odc/geo/overlap.py", "        paste_ok, _ = _can_paste(A, ttol=ttol, stol=stol)", "        paste_ok, _ = _can_paste(A, ttol=2.5 * ttol, stol=stol)", "translation tolerance 2.5x the stated one")
M("C10", "shrink_overlap_native_shape", "odc/geo/overlap.py", "            roi_src, roi_dst = box_overlap(_src.shape, dst.shape, A_)\n            roi_src = scaled_up_roi(roi_src, read_shrink)", "            roi_src, roi_dst = box_overlap(src.shape, dst.shape, A_)\n            roi_src = scaled_up_roi(roi_src, read_shrink)", "overview overlap computed with the native source shape")

M("C20", "snap_tol_ignored", "odc/geo/math.py", "    _x0 = floor(maybe_int(x0 / res, tol))\n    _x1 = ceil(maybe_int(x1 / res, tol))", "    _x0 = floor(x0 / res)\n    _x1 = ceil(x1 / res)", "snap_grid ignores the tolerance: covers, but is not minimal")
M("C03", "shrink_overlap_native_shape", "odc/geo/overlap.py", "            roi_src, roi_dst = box_overlap(_src.shape, dst.shape, A_)\n            roi_src = scaled_up_roi(roi_src, read_shrink)", "            roi_src, roi_dst = box_overlap(src.shape, dst.shape, A_)\n            roi_src = scaled_up_roi(roi_src, read_shrink)", "overview overlap computed with the native source shape")
