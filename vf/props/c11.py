"""C11 - the output grid computed for another CRS encloses the source."""
from __future__ import annotations

import math
from typing import Any, Dict, List, Optional, Tuple

import numpy as np
from hypothesis import strategies as st

from vf.common import Check, Violation, require
from vf.strategies import CRS_POOL, SINU_SPELLINGS, SPELLINGS, _pyproj, crs_kind, mk_crs_spec

RULE = (
    "Hypothesis-built source rasters: CRS label from the pool, centre drawn inside the intersection of the valid "
    "lon/lat boxes of source and target, shape in {1x1,5x7,64x64,300x200,1000x1200,4000x4000}, pixel size class "
    "(10 m..1 km or 1e-4..1e-2 deg, chosen among those whose footprint stays inside both boxes), all four sign "
    "combinations, rotation in {0,10,45}, optional non-square pixels; target = any compatible pool label or "
    "utm/utm-n/utm-s; mode auto/fit/same/explicit resolution/tuple shape/int shape; anchor default/edge/centre/"
    "fraction/XY/floating; tight; tol in {1e-3,0.01,0.1}; round_resolution None/True/False/callable; entry points "
    "compute_output_geobox, GeoBox.to_crs, .odc.output_geobox. Oracle: independent pyproj transformer on a 33x33 "
    "lattice of pixel corners + dense boundary (<=500 points per side), evaluated in the result's pixel plane; edge "
    "bounds against the footprint and the footprint padded by one source pixel (shapely buffer, projected by the "
    "oracle). Focused sub-checks: continental extents in curved CRS pairs with tight grids and tol=1e-3 (big_curved), "
    "shape requests, same-CRS requests, utm*, footprints placed 5*tol beyond an output grid line (tol_band), agreement "
    "of the three entry points. Non-trivial: CRSs differ, or source mirrored/rotated; distinct key = (source label, "
    "target, mode, sign class, rotation, anchor class, tight)."
)
ASSUMPTIONS = [
    "pyproj's default transformation between two CRSs (Transformer.from_crs, always_xy) is the reference for "
    "'projected position'; the code under test and the oracle therefore agree on datum shifts",
    "enclosure (and the two-sided edge bounds derived from it) is only decided where the true projected edge strays "
    "from a chord of the documented sampling (100 points per longest side) by <= 0.25 source pixel, measured by the "
    "oracle with an inverse transform; other cases are counted under excluded.curvature",
    "cases whose footprint leaves the valid lon/lat box of source or target are excluded and counted (generator "
    "constructs them inside)",
    "'displaced by less than one pixel' / tight / cover bounds are taken against the projected footprint allowing "
    "for up to one source pixel of padding around it (the code documents a 0.9 pixel buffer)",
    "fit resolution is only required to lie between 0.6x the smallest and 1.6x the largest local scale factor at "
    "the centre pixel (statement does not fix its value)",
    "same CRS with resolution auto/same, no shape, default anchor but extra tight/tol/round options: either the "
    "unchanged source or a regular axis-aligned enclosing grid is accepted",
]
SHARDS = {"quick": 4, "thorough": 16}

SHAPES = [[1, 1], [5, 7], [64, 64], [300, 200], [1000, 1200], [4000, 4000]]
RES_M = [10.0, 30.0, 100.0, 250.0, 1000.0]
RES_DEG = [1e-4, 2.5e-4, 1e-3, 1e-2]
UTM = ("utm", "utm-n", "utm-s")
DEG2M = 111320.0
DEFAULT_TOL = 0.01

# ----------------------------------------------------------------------------- pyproj helpers (oracle side)
_PP: Dict[str, Any] = {}
_TR: Dict[Tuple[str, str], Any] = {}


def _pp(key: str):
    """pyproj CRS for a pool label or 'e<epsg>'."""
    r = _PP.get(key)
    if r is None:
        if key.startswith("e"):
            from pyproj import CRS as P

            r = P.from_epsg(int(key[1:]))
        else:
            r = _pyproj(key)
        _PP[key] = r
    return r


def _tr(a: str, b: str):
    r = _TR.get((a, b))
    if r is None:
        from pyproj import Transformer

        r = Transformer.from_crs(_pp(a), _pp(b), always_xy=True)
        _TR[(a, b)] = r
    return r


def _box_isect(a, b):
    r = (max(a[0], b[0]), max(a[1], b[1]), min(a[2], b[2]), min(a[3], b[3]))
    if r[0] >= r[2] or r[1] >= r[3]:
        return None
    return r


def _targets_for(src: str) -> List[str]:
    sb = CRS_POOL[src][1]
    return [k for k in CRS_POOL if _box_isect(sb, CRS_POOL[k][1]) is not None]


def _src_geometry(case) -> Tuple[Tuple[int, int], Any]:
    """(ny, nx), Affine of the source raster described by the case."""
    from affine import Affine

    ny, nx = case["shape"]
    lon, lat = case["centre"]
    src = case["src"]
    if src == "4326":
        cx, cy = float(lon), float(lat)
    else:
        cx, cy = _tr("4326", src).transform(float(lon), float(lat))
    res = float(case["res"])
    rx = case["sx"] * res
    ry = case["sy"] * res * float(case["aspect"])
    if "band" in case:
        # tol_band sub-check: north-up grid placed so that the footprint padded by the documented 0.9 px buffer ends
        # d0 output pixels outside an output grid line on the low side (and ~d0 on the high side)
        b = case["band"]
        R = b["ratio"] * res
        d0 = float(b["d0"])
        out = []
        for c0, n, sgn, off in ((cx, nx, case["sx"], b["off"][0]), (cy, ny, case["sy"], b["off"][1])):
            k0 = round(c0 / R) - (n // b["ratio"]) // 2
            lo_true = (k0 + off - d0) * R + 0.9 * res
            out.append((sgn * res, lo_true if sgn > 0 else lo_true + n * res))
        return (ny, nx), Affine(out[0][0], 0.0, out[0][1], 0.0, out[1][0], out[1][1])
    if case["aligned"]:
        cx = round(cx / abs(rx)) * abs(rx)
        cy = round(cy / abs(ry)) * abs(ry)
    A = Affine.translation(cx, cy) * Affine.rotation(float(case["rot"])) * Affine.scale(rx, ry) * Affine.translation(-nx / 2, -ny / 2)
    return (ny, nx), A


def _ring_pix(nx: int, ny: int, per_side: int) -> np.ndarray:
    """Closed ring of points along the pixel-space perimeter, corners included, pixel corners when possible."""

    def side(n):
        if 8 <= n <= per_side:
            return np.arange(n, dtype="float64")  # every pixel corner (the end point opens the next side)
        k = per_side if n > per_side else 8  # subsampled / sub-pixel positions for tiny rasters
        return np.linspace(0.0, float(n), k + 1)[:-1]

    sx, sy = side(nx), side(ny)
    top = np.stack([sx, np.zeros_like(sx)], 1)
    right = np.stack([np.full_like(sy, nx), sy], 1)
    bottom = np.stack([nx - sx, np.full_like(sx, ny)], 1)
    left = np.stack([np.zeros_like(sy), ny - sy], 1)
    return np.concatenate([top, right, bottom, left], 0)


def _lattice_pix(nx: int, ny: int, k: int = 33) -> np.ndarray:
    xs = np.unique(np.round(np.linspace(0, nx, k)))
    ys = np.unique(np.round(np.linspace(0, ny, k)))
    X, Y = np.meshgrid(xs, ys)
    return np.stack([X.ravel(), Y.ravel()], 1)


def _pix2wld(A, P: np.ndarray) -> Tuple[np.ndarray, np.ndarray]:
    x, y = P[:, 0], P[:, 1]
    return A.a * x + A.b * y + A.c, A.d * x + A.e * y + A.f


def _lonlat_box(src: str, A, nx: int, ny: int, per_side: int = 16):
    P = _ring_pix(nx, ny, per_side)
    wx, wy = _pix2wld(A, P)
    if src == "4326":
        lo, la = wx, wy
    else:
        lo, la = _tr(src, "4326").transform(wx, wy)
    lo, la = np.asarray(lo), np.asarray(la)
    if not (np.isfinite(lo).all() and np.isfinite(la).all()):
        return None
    return float(lo.min()), float(la.min()), float(lo.max()), float(la.max())


def _inside(box, valid, pad: float = 0.0) -> bool:
    return box is not None and box[0] >= valid[0] - pad and box[1] >= valid[1] - pad and box[2] <= valid[2] + pad and box[3] <= valid[3] + pad


def _valid_box(src: str, dst: str):
    sb = CRS_POOL[src][1]
    if dst in UTM:
        return (sb[0], max(sb[1], -79.0), sb[2], min(sb[3], 83.0))
    return _box_isect(sb, CRS_POOL[dst][1])


MAX_UTM_LON_SPAN = 5.0


def _fits(case_like, valid) -> bool:
    (ny, nx), A = _src_geometry(case_like)
    bb = _lonlat_box(case_like["src"], A, nx, ny)
    if not _inside(bb, valid):
        return False
    if case_like["dst"] in UTM and bb[2] - bb[0] > MAX_UTM_LON_SPAN:
        return False
    return True


# ----------------------------------------------------------------------------- generator
ANCHORS = ["default", "edge", "center", "centre", "floating", ["f", 0.25], ["f", 0.1], ["f", 0.0], ["f", 0.5],
           ["xy", 0.25, 0.75], ["xy", 0.0, 0.5], ["enum", "EDGE"], ["enum", "CENTER"], ["enum", "FLOATING"]]


def _anchor_class(a) -> str:
    if isinstance(a, str):
        return {"centre": "center"}.get(a, a)
    if a[0] == "enum":
        return a[1].lower()
    if a[0] == "f":
        return {0.0: "edge", 0.5: "center"}.get(a[1], "fraction")
    return "fraction"


def _anchor_offsets(a) -> Optional[Tuple[float, float]]:
    """Pixel fraction (x, y) that pixel edges are aligned to, None for floating."""
    c = _anchor_class(a)
    if c in ("default", "edge"):
        return (0.0, 0.0)
    if c == "center":
        return (0.5, 0.5)
    if c == "floating":
        return None
    if a[0] == "f":
        return (float(a[1]), float(a[1]))
    return (float(a[1]), float(a[2]))


@st.composite
def s_case(draw, focus: Optional[str] = None):
    """focus: None | 'same_crs' | 'utm' | 'big' | 'shape'"""
    labels = list(CRS_POOL)
    src = draw(st.sampled_from(labels))
    compat = _targets_for(src)
    if focus == "same_crs":
        dst = src
    elif focus == "utm":
        dst = draw(st.sampled_from(UTM))
    elif focus == "big":
        dst = draw(st.sampled_from([k for k in compat if k != src]))
    else:
        k = draw(st.integers(0, 19))
        if k >= 18:
            dst = src
        elif k >= 15:
            dst = draw(st.sampled_from(UTM))
        else:
            dst = draw(st.sampled_from([k for k in compat if k != src]))
    valid = _valid_box(src, dst)
    geographic = crs_kind(src) == "geographic"

    if focus == "big":
        shape = draw(st.sampled_from([[300, 200], [1000, 1200], [4000, 4000], [1200, 1000], [4000, 4000]]))
    else:
        shape = list(draw(st.sampled_from(SHAPES + [[7, 5], [200, 300], [1, 64], [1200, 1000]])))
    rot = draw(st.sampled_from([0, 0, 0, 10, 45]))
    sx = draw(st.sampled_from([1, 1, -1]))
    sy = draw(st.sampled_from([-1, -1, 1]))
    aspect = draw(st.sampled_from([1.0, 1.0, 1.0, 1.0, 2.0, 0.5]))
    aligned = draw(st.booleans())
    # centre: concentrated around the middle of the box half of the time, so continental extents fit
    spread = draw(st.sampled_from([0.15, 0.6, 0.96]))
    u = 0.5 + 0.5 * spread * draw(st.floats(-1, 1))
    v = 0.5 + 0.5 * spread * draw(st.floats(-1, 1))
    lon = round(valid[0] + u * (valid[2] - valid[0]), 6)
    lat = round(valid[1] + v * (valid[3] - valid[1]), 6)
    if dst in UTM and draw(st.booleans()):
        # park the centre near the middle of a UTM zone so that larger rasters stay inside one zone
        zone_mid = math.floor((lon + 180.0) / 6.0) * 6.0 - 177.0
        lon2 = zone_mid + draw(st.floats(-1.0, 1.0))
        if valid[0] < lon2 < valid[2]:
            lon = round(lon2, 6)
    if draw(st.integers(0, 7)) == 0 and valid[1] < 0 < valid[3]:
        lat = round(draw(st.floats(-0.5, 0.5)), 6)  # equator (hemisphere choice for utm)

    base = {"src": src, "dst": dst, "shape": shape, "centre": [lon, lat], "sx": sx, "sy": sy, "rot": rot,
            "aspect": aspect, "aligned": aligned}
    classes = RES_DEG if geographic else RES_M
    fitting: List[float] = []
    while not fitting:
        fitting = [r for r in classes if _fits({**base, "res": r}, valid)]
        if not fitting:
            i = max([k for k, s in enumerate(SHAPES) if s[0] * s[1] < base["shape"][0] * base["shape"][1]] or [0])
            if base["shape"] == SHAPES[0]:
                base["aligned"] = False
                fitting = [classes[0]]  # a single 10 m / 1e-4 deg pixel at a centre inside the box
                break
            base["shape"] = list(SHAPES[i])
    if focus == "big" or draw(st.booleans()):
        res = fitting[-1]
    else:
        res = draw(st.sampled_from(fitting))
    base["res"] = res

    # ---- request
    same_units = (crs_kind(dst) if dst in CRS_POOL else "projected") == crs_kind(src)
    natural = res if same_units else (res * DEG2M if geographic else res / DEG2M)
    defaults = draw(st.integers(0, 3)) == 3 if focus != "same_crs" else draw(st.booleans())
    if focus == "shape":
        mode = draw(st.sampled_from(["shape2", "shapeN"]))
        defaults = False
    elif focus == "big":
        mode = draw(st.sampled_from(["auto", "fit", "same", "res", "shapeN"]))
        defaults = False
    else:
        mode = draw(st.sampled_from(["auto", "fit", "same", "res", "shape2", "shapeN"]))
    req: Dict[str, Any] = {"mode": "auto", "anchor": "default", "tight": False, "tol": None, "round": None}
    if not defaults:
        req["mode"] = mode
        if mode == "same" and not same_units and draw(st.integers(0, 3)) != 0:
            req["mode"] = "auto"  # 'same' across units is legal but rarely interesting
        if req["mode"] == "res":
            f = draw(st.sampled_from([1.0, 1.0, 0.5, 3.0, 10.0, 1 / 3.0, 0.1]))
            r = float("%.6g" % (natural * f))
            kind = draw(st.sampled_from(["num", "num", "xy", "xy_signs", "int"]))
            if kind == "int" and r >= 2:
                req["res_out"] = ["num", int(round(r))]
            elif kind == "xy":
                req["res_out"] = ["xy", r, -float("%.6g" % (r * draw(st.sampled_from([1.0, 2.0, 0.5]))))]
            elif kind == "xy_signs":
                req["res_out"] = ["xy", r * draw(st.sampled_from([1, -1])), r * draw(st.sampled_from([1, -1]))]
            else:
                req["res_out"] = ["num", r]
        if req["mode"] in ("shape2", "shapeN") and draw(st.integers(0, 3)) == 0:
            # "shape= takes precedence over resolution=": supplying both must not change anything
            req["extra_res"] = draw(st.sampled_from(["fit", "same", ["num", float("%.6g" % (natural * 3))]]))
        if req["mode"] == "shape2":
            req["shape_out"] = list(draw(st.sampled_from([[1, 1], [10, 20], [50, 60], [256, 256], [1000, 500], [3, 700], list(base["shape"])])))
        elif req["mode"] == "shapeN":
            req["shape_out"] = draw(st.sampled_from([1, 7, 100, 256, 1000, max(base["shape"])]))
        if focus == "big":
            req["anchor"] = draw(st.sampled_from(["default", "floating", "floating", ["f", 0.25]]))
            req["tight"] = draw(st.sampled_from([True, True, False]))
            req["tol"] = draw(st.sampled_from([1e-3, 1e-3, 0.01]))
        else:
            req["anchor"] = draw(st.sampled_from(["default", "default", "default"] + ANCHORS))
            req["tight"] = draw(st.sampled_from([False, False, True]))
            req["tol"] = draw(st.sampled_from([None, 1e-3, 0.01, 0.1]))
        rr = draw(st.sampled_from([None, None, None, True, False, "sig2", "sig3"]))
        if rr is True and (dst in CRS_POOL and crs_kind(dst) == "geographic"):
            rr = "sig2"  # rounding degrees to whole numbers gives a zero pixel size: not a valid request
        req["round"] = rr
    entry = draw(st.sampled_from(["cog", "cog", "to_crs", "xr"]))
    if (req["mode"] == "res" or isinstance(req.get("extra_res"), list)) and entry == "to_crs":
        entry = "cog"  # to_crs documents only auto/fit/same
    if entry == "xr" and rot != 0 and min(base["shape"]) == 1:
        entry = "cog"  # a rotated grid with a one-pixel axis does not survive the xarray round trip (C09's business)
    sp = SINU_SPELLINGS if src == "sinu" else SPELLINGS
    src_spell = draw(st.sampled_from(["int", "int", "str_upper", "odc", "wkt2", "pyproj"])) if src != "sinu" else draw(st.sampled_from(sp))
    if dst in CRS_POOL:
        dsp = SINU_SPELLINGS if dst == "sinu" else SPELLINGS
        dst_spell = draw(st.sampled_from(dsp))
    else:
        dst_spell = draw(st.sampled_from(["lower", "lower", "upper", "mixed"]))
    return {**base, **req, "entry": entry, "src_spell": src_spell, "dst_spell": dst_spell}


@st.composite
def s_band(draw):
    """
    Same CRS, explicit resolution 1000x the source's, footprint edges placed 5*tol output pixels beyond an output
    grid line: a result that ignores them leaves the source uncovered by ~4*tol > tol, although 0.9 source pixels of
    buffer (0.0009 output pixels) were added.  Makes the `tol` argument observable through the enclosure clause.
    """
    src = draw(st.sampled_from(list(CRS_POOL)))
    valid = CRS_POOL[src][1]
    geographic = crs_kind(src) == "geographic"
    res = draw(st.sampled_from([1e-4, 2.5e-4] if geographic else [10.0, 30.0]))
    ratio = 1000
    tol = draw(st.sampled_from([1e-3, 1e-3, 0.01]))
    d0 = 5 * tol
    j = int(round(2 * d0 * ratio)) - 2
    mx, my = draw(st.sampled_from([1, 2, 4])), draw(st.sampled_from([1, 2, 4]))
    anchor = draw(st.sampled_from(["default", "edge", "center", ["f", 0.25], ["xy", 0.25, 0.75], "floating", ["enum", "EDGE"]]))
    tight = draw(st.sampled_from([False, False, True]))
    offs = None if tight else _anchor_offsets(anchor)
    u = 0.5 + 0.3 * draw(st.floats(-1, 1))
    v = 0.5 + 0.3 * draw(st.floats(-1, 1))
    lon = round(valid[0] + u * (valid[2] - valid[0]), 6)
    lat = round(valid[1] + v * (valid[3] - valid[1]), 6)
    R = float("%.6g" % (ratio * res))
    kind = draw(st.sampled_from(["num", "xy_signs"]))
    res_out = ["num", R] if kind == "num" else ["xy", R * draw(st.sampled_from([1, -1])), R * draw(st.sampled_from([1, -1]))]
    sp = SINU_SPELLINGS if src == "sinu" else SPELLINGS
    return {
        "src": src, "dst": src, "shape": [my * ratio + j, mx * ratio + j], "centre": [lon, lat],
        "sx": draw(st.sampled_from([1, -1])), "sy": draw(st.sampled_from([-1, 1])), "rot": 0, "aspect": 1.0, "aligned": False,
        "res": res, "band": {"ratio": ratio, "d0": d0, "off": list(offs) if offs is not None else [0.0, 0.0]},
        "mode": "res", "res_out": res_out, "anchor": anchor, "tight": tight, "tol": tol, "round": None,
        "entry": draw(st.sampled_from(["cog", "xr"])), "src_spell": draw(st.sampled_from(sp)), "dst_spell": draw(st.sampled_from(sp)),
    }


# ----------------------------------------------------------------------------- calling the code under test
def _sig(n: int):
    def f(r: float) -> float:
        if not (r > 0 and math.isfinite(r)):
            return r
        e = math.floor(math.log10(r))
        return round(r, n - 1 - e)

    return f


def _dst_spec(case):
    dst = case["dst"]
    if dst in CRS_POOL:
        return mk_crs_spec({"label": dst, "spell": case["dst_spell"]})
    return {"lower": dst, "upper": dst.upper(), "mixed": dst.capitalize()}[case["dst_spell"]]


def _mk_anchor(a):
    from odc.geo.geobox import AnchorEnum
    from odc.geo.types import xy_

    if isinstance(a, str):
        return a
    if a[0] == "enum":
        return getattr(AnchorEnum, a[1])
    if a[0] == "f":
        return float(a[1])
    return xy_(float(a[1]), float(a[2]))


def _kwargs(case):
    """Keyword arguments of the request + list that records round_resolution calls."""
    from odc.geo.types import resxy_

    kw: Dict[str, Any] = {}
    mode = case["mode"]
    if mode in ("fit", "same"):
        kw["resolution"] = mode
    elif mode == "res":
        spec = case["res_out"]
        kw["resolution"] = spec[1] if spec[0] == "num" else resxy_(float(spec[1]), float(spec[2]))
    elif mode == "shape2":
        kw["shape"] = tuple(case["shape_out"])
    elif mode == "shapeN":
        kw["shape"] = int(case["shape_out"])
    if case.get("extra_res") is not None:
        er = case["extra_res"]
        kw["resolution"] = er if isinstance(er, str) else er[1]
    if case["anchor"] != "default":
        kw["anchor"] = _mk_anchor(case["anchor"])
    if case["tight"]:
        kw["tight"] = True
    if case["tol"] is not None:
        kw["tol"] = case["tol"]
    calls: List[Tuple[Any, Any, Any]] = []
    rr = case["round"]
    if rr is not None:
        if isinstance(rr, bool):
            kw["round_resolution"] = rr
        else:
            f = _sig(int(rr[3:]))

            def _rr(res, units):
                out = f(res)
                calls.append((res, units, out))
                return out

            kw["round_resolution"] = _rr
    return kw, calls


def _call(case):
    """Returns (source GeoBox as seen by the entry point, result, round_resolution calls)."""
    from odc.geo.geobox import GeoBox
    from odc.geo.overlap import compute_output_geobox

    (ny, nx), A = _src_geometry(case)
    gbox = GeoBox((ny, nx), A, mk_crs_spec({"label": case["src"], "spell": case["src_spell"]}))
    kw, calls = _kwargs(case)
    dst = _dst_spec(case)
    entry = case["entry"]
    if entry == "cog":
        out = compute_output_geobox(gbox, dst, **kw)
        src_gbox = gbox
    elif entry == "to_crs":
        out = gbox.to_crs(dst, **kw)
        src_gbox = gbox
    else:
        import odc.geo.xr  # noqa: F401  (registers the accessor)
        from odc.geo.xr import wrap_xr

        xx = wrap_xr(np.broadcast_to(np.zeros((), dtype="uint8"), (ny, nx)), gbox)
        src_gbox = xx.odc.geobox
        require(isinstance(src_gbox, GeoBox), "wrap_xr(...).odc.geobox is %r", type(src_gbox).__name__)
        out = xx.odc.output_geobox(dst, **kw)
    return src_gbox, out, calls


# ----------------------------------------------------------------------------- oracle
def _curvature_dev(src: str, dkey: str, A, nx: int, ny: int) -> float:
    """
    Largest distance (in units of 0.9*max|res| == the documented buffer) by which the true projected edge strays,
    perpendicular to the edge, from a chord spanning one step of the documented sampling (longest bbox side / 100).
    Measured in the source plane through the inverse transform.  Independent of the code under test's answer.
    """
    tr = _tr(src, dkey)
    rx = math.hypot(A.a, A.d)
    ry = math.hypot(A.b, A.e)
    corners = np.array([[0, 0], [nx, 0], [nx, ny], [0, ny]], dtype="float64")
    cx, cy = _pix2wld(A, corners)
    span = max(cx.max() - cx.min(), cy.max() - cy.min())
    w = span / 100.0
    buf = 0.9 * max(rx, ry)
    worst = 0.0
    inv = ~A
    for (p0, p1, L, rperp, ax) in (
        ((0, 0), (nx, 0), nx * rx, ry, 1),
        ((nx, 0), (nx, ny), ny * ry, rx, 0),
        ((nx, ny), (0, ny), nx * rx, ry, 1),
        ((0, ny), (0, 0), ny * ry, rx, 0),
    ):
        K = max(1, int(math.floor(L / w)))
        K = min(K, 100)
        t = np.linspace(0.0, 1.0, 2 * K + 1)
        P = np.stack([p0[0] + (p1[0] - p0[0]) * t, p0[1] + (p1[1] - p0[1]) * t], 1)
        wx, wy = _pix2wld(A, P)
        X, Y = tr.transform(wx, wy)
        X, Y = np.asarray(X), np.asarray(Y)
        mx = 0.5 * (X[:-2] + X[2:])
        my = 0.5 * (Y[:-2] + Y[2:])
        bx, by = tr.transform(mx, my, direction="INVERSE")
        bx, by = np.asarray(bx), np.asarray(by)
        if not (np.isfinite(bx).all() and np.isfinite(by).all()):
            return math.inf
        px = inv.a * bx + inv.b * by + inv.c
        py = inv.d * bx + inv.e * by + inv.f
        perp = (py if ax == 1 else px) - P[1:-1, ax]
        worst = max(worst, float(np.abs(perp).max()) * rperp / buf)
    return worst


def _buffered_ring_world(A, nx: int, ny: int, dist: float) -> Tuple[np.ndarray, np.ndarray]:
    """Outline of the source extent buffered by ``dist`` world units (shapely, independent of odc-geo)."""
    import shapely
    from shapely.geometry import Polygon

    corners = np.array([[0, 0], [nx, 0], [nx, ny], [0, ny]], dtype="float64")
    cx, cy = _pix2wld(A, corners)
    poly = Polygon(list(zip(cx.tolist(), cy.tolist())))
    if not poly.exterior.is_ccw:
        poly = Polygon(list(poly.exterior.coords)[::-1])
    b = poly.buffer(dist, quad_segs=16)
    span = max(cx.max() - cx.min(), cy.max() - cy.min()) + 2 * dist
    b = shapely.segmentize(b, span / 250.0)
    xy = np.asarray(b.exterior.coords)
    return xy[:, 0], xy[:, 1]


def _check_axis(name: str, res: float, t: float, n: int, lo_t: float, hi_t: float, lo_b: float, hi_b: float,
                off: Optional[float], tol: float, kind: str, slack: float) -> None:
    """
    One axis of the result.  [lo_t, hi_t] true projected footprint, [lo_b, hi_b] footprint padded by one source pixel.
    kind: 'cover' (resolution driven) | 'shape' (tuple shape).
    """
    R = abs(res)
    lo = t if res > 0 else t + n * res
    hi = lo + n * R
    d_lo, d_hi = (lo - lo_t) / R, (hi_t - hi) / R  # deficits (px)
    e_lo, e_hi = (lo_b - lo) / R, (hi - hi_b) / R  # excess beyond padded footprint (px)
    info = "%s: grid=[%.10g,%.10g] res=%r n=%d footprint=[%.10g,%.10g] padded=[%.10g,%.10g]" % (name, lo, hi, res, n, lo_t, hi_t, lo_b, hi_b)
    if kind == "cover":
        require(d_lo <= tol + slack and d_hi <= tol + slack, "footprint uncovered by %.6g/%.6g px (> tol %r) %s", d_lo, d_hi, tol, info)
        if off is None:
            # floating: origin edge sits on the (padded) footprint edge, far edge less than a pixel beyond
            e_org, e_far = (e_lo, e_hi) if res > 0 else (e_hi, e_lo)
            require(e_org <= slack, "tight/floating grid: origin edge %.6g px outside the footprint padded by one source pixel %s", e_org, info)
            if n > 1:
                require(e_far < 1 + tol + slack, "tight/floating grid: far edge %.6g px beyond padded footprint %s", e_far, info)
        else:
            require(e_lo < 1 + tol + slack, "low edge %.6g px (>= 1+tol) beyond the footprint padded by one source pixel %s", e_lo, info)
            if n > 1:
                require(e_hi < 1 + tol + slack, "high edge %.6g px (>= 1+tol) beyond the footprint padded by one source pixel %s", e_hi, info)
    else:
        span = n * R
        require(span >= (hi_t - lo_t) - slack * R and span <= (hi_b - lo_b) + slack * R,
                "tuple shape: grid span %.10g not between footprint span %.10g and padded span %.10g (%s)", span, hi_t - lo_t, hi_b - lo_b, info)
        # footprint (anything between the true one and the one padded by a source pixel) displaced by < 1 px
        # (not displaced at all when the grid is not snapped)
        if off is None:
            ok_lo = e_lo <= slack and d_lo <= slack
            ok_hi = e_hi <= slack and d_hi <= slack
            lim = 0
        else:
            ok_lo = e_lo < 1 + slack and d_lo < 1 + slack
            ok_hi = e_hi < 1 + slack and d_hi < 1 + slack
            lim = 1
        require(ok_lo, "tuple shape: low edge displaced from the footprint by more than %d px (inside by %.6g, outside padded by %.6g) %s", lim, d_lo, e_lo, info)
        require(ok_hi, "tuple shape: high edge displaced from the footprint by more than %d px (inside by %.6g, outside padded by %.6g) %s", lim, d_hi, e_hi, info)
    if off is not None:
        q = t / R - off
        dev = abs(q - round(q))
        require(dev <= 1e-9 * max(1.0, abs(q)), "%s: pixel edges not aligned to anchor %r: origin/res - anchor = %.12g (res=%r)", name, off, q, res)


def _utm_zone_ok(epsg: int, bb, want: str) -> Optional[str]:
    if 32601 <= epsg <= 32660:
        zone, hemi = epsg - 32600, "N"
    elif 32701 <= epsg <= 32760:
        zone, hemi = epsg - 32700, "S"
    else:
        return "EPSG:%d is not a WGS 84 UTM zone" % epsg
    z_lo, z_hi = -180.0 + 6.0 * (zone - 1), -180.0 + 6.0 * zone
    if not (z_lo <= bb[2] and z_hi >= bb[0]):
        return "UTM zone %d%s (lon %g..%g) does not overlap the raster's longitudes %.6f..%.6f" % (zone, hemi, z_lo, z_hi, bb[0], bb[2])
    if want == "utm-n" and hemi != "N":
        return "utm-n resolved to southern zone %d%s" % (zone, hemi)
    if want == "utm-s" and hemi != "S":
        return "utm-s resolved to northern zone %d%s" % (zone, hemi)
    if want == "utm":
        la_lo, la_hi = (0.0, 84.0) if hemi == "N" else (-80.0, 0.0)
        if not (la_lo <= bb[3] and la_hi >= bb[1]):
            return "utm resolved to zone %d%s whose valid latitudes %g..%g do not overlap the raster's %.6f..%.6f" % (zone, hemi, la_lo, la_hi, bb[1], bb[3])
    return None


def o_main(case, T):
    from odc.geo.geobox import GeoBox

    src, dst, mode = case["src"], case["dst"], case["mode"]
    tol = DEFAULT_TOL if case["tol"] is None else float(case["tol"])
    aclass = _anchor_class(case["anchor"])
    offs = None if case["tight"] else _anchor_offsets(case["anchor"])

    # -- domain: footprint inside the valid area of source and target (constructed so; verified here)
    (ny, nx), A0 = _src_geometry(case)
    bb = _lonlat_box(src, A0, nx, ny, per_side=64)
    valid = _valid_box(src, dst)
    if not _inside(bb, valid, pad=1e-6) or (dst in UTM and bb[2] - bb[0] > MAX_UTM_LON_SPAN + 1e-6):
        T.exclude("footprint_outside_valid_area")
        return

    src_gbox, out, rr_calls = _call(case)
    require(isinstance(out, GeoBox), "result is %r, not a GeoBox", type(out).__name__)
    A = src_gbox.affine
    if case["entry"] == "xr":
        # the raster's grid is what the accessor reports; it must be the grid the case describes (up to rounding in
        # the coordinate arrays) for the domain analysis above to apply -- otherwise this is C09's business, not C11's
        lin = max(abs(v) for v in (A0.a, A0.b, A0.d, A0.e))
        same = tuple(src_gbox.shape) == (ny, nx) and all(
            abs(g - w) <= 1e-9 * (lin if i not in (2, 5) else lin * max(nx, ny) + abs(w))
            for i, (g, w) in enumerate(zip(tuple(A)[:6], tuple(A0)[:6])))
        if not same:
            T.exclude("xarray_round_trip_changed_geobox")
            return
    ny, nx = src_gbox.shape
    rotated = case["rot"] != 0
    sign_class = "%+d%+d" % (case["sx"], case["sy"])

    # -- requested CRS
    require(out.crs is not None, "result has no CRS")
    if dst in CRS_POOL:
        dkey = dst
        if dst == "sinu":
            ok = out.crs.proj.equals(_pp("sinu")) or out.crs.proj.to_wkt() == _pp("sinu").to_wkt()
        else:
            ok = out.crs.epsg == int(dst)
        require(ok, "result CRS is %s, requested %s", str(out.crs)[:60], dst)
        same_crs = src == dst
        own_explicit = same_crs
    else:
        epsg = out.crs.epsg
        require(isinstance(epsg, int), "%s resolved to a CRS without EPSG code: %s", dst, str(out.crs)[:60])
        msg = _utm_zone_ok(epsg, bb, dst)
        require(msg is None, "%s", msg)
        zone = out.crs.proj.utm_zone
        want_zone = "%d%s" % (epsg % 100, "N" if epsg < 32700 else "S")
        require(zone == want_zone, "crs.proj.utm_zone is %r for EPSG:%d, expected %r", zone, epsg, want_zone)
        dkey = "e%d" % epsg
        same_crs = src == str(epsg)
        own_explicit = False
        hemi_raster = "N" if bb[1] >= 0 else "S" if bb[3] <= 0 else "NS"
        T.cls("utm:%s/raster_%s/zone_%s" % (dst, hemi_raster, want_zone[-1]))
        lo_zone = math.floor((bb[0] + 180.0) / 6.0)
        hi_zone = math.floor((bb[2] + 180.0) / 6.0)
        T.cls("utm:single_zone" if lo_zone == hi_zone else "utm:straddles_zones")

    key = (src, dst, mode, sign_class, case["rot"], aclass, bool(case["tight"]))
    nontrivial = (not same_crs) or rotated or sign_class != "+1-1"

    def _done(label: str):
        if nontrivial:
            T.nontrivial(key)
        T.cls(label)
        T.cls("mode:" + mode)
        if case.get("extra_res") is not None:
            T.cls("shape_with_resolution_given")
        T.cls("entry:" + case["entry"])
        T.cls("signs:" + sign_class)
        T.cls("rot:%d" % case["rot"])
        T.cls("anchor:" + ("tight" if case["tight"] else aclass))
        T.cls("shape:%dx%d" % (case["shape"][0], case["shape"][1]))
        T.cls("pair:%s->%s" % (crs_kind(src), "utm" if dst in UTM else crs_kind(dst)))

    # -- same CRS short cut
    unchanged = tuple(out.shape) == (ny, nx) and tuple(out.affine)[:6] == tuple(A)[:6]
    shortcut_opts = mode in ("auto", "same") and aclass == "default" and case["anchor"] == "default"
    all_default = mode == "auto" and case["anchor"] == "default" and not case["tight"] and case["round"] is None and tol == DEFAULT_TOL
    if own_explicit and all_default:
        require(unchanged, "same CRS with default options must return the source unchanged: got shape %r affine %r, source shape %r affine %r",
                tuple(out.shape), tuple(out.affine)[:6], (ny, nx), tuple(A)[:6])
        require(out.crs == src_gbox.crs, "same CRS with default options changed the CRS object to a different CRS")
        _done("same_crs:unchanged" + ("(rotated)" if rotated else ""))
        return
    if same_crs and shortcut_opts and unchanged:
        _done("same_crs:unchanged_extra_opts" if own_explicit else "same_crs:utm_resolved_to_own")
        return

    # -- axis aligned
    O = out.affine
    require(O.b == 0 and O.d == 0, "result is not axis aligned: affine %r", tuple(O)[:6])
    require(O.a != 0 and O.e != 0 and all(math.isfinite(v) for v in tuple(O)[:6]), "degenerate result affine %r", tuple(O)[:6])
    ony, onx = out.shape
    require(isinstance(onx, int) and isinstance(ony, int) and onx >= 1 and ony >= 1, "result shape %r", tuple(out.shape))

    # -- resolution clauses
    same_units = (crs_kind(dst) if dst in CRS_POOL else "projected") == crs_kind(src)
    srx = case["sx"] * math.hypot(A.a, A.d)
    sry = case["sy"] * abs(A.a * A.e - A.b * A.d) / math.hypot(A.a, A.d)
    if mode == "same" or (mode == "auto" and same_units):
        if not rotated:
            require((O.a, O.e) == (A.a, A.e), "%s: resolution (%r,%r) differs from the source's (%r,%r)", mode, O.a, O.e, A.a, A.e)
        else:
            okm = abs(abs(O.a) - abs(srx)) <= 1e-9 * abs(srx) and abs(abs(O.e) - abs(sry)) <= 1e-9 * abs(sry)
            oks = (O.a > 0) == (srx > 0) and (O.e > 0) == (sry > 0) or (O.a > 0) == (srx < 0) and (O.e > 0) == (sry < 0)
            require(okm and oks, "%s: resolution (%r,%r) differs from the rotated source's (%r,%r)", mode, O.a, O.e, srx, sry)
        T.cls("res:source")
    elif mode == "res":
        spec = case["res_out"]
        want = (float(spec[1]), -float(spec[1])) if spec[0] == "num" else (float(spec[1]), float(spec[2]))
        require((O.a, O.e) == want, "explicit resolution %r gave pixel size (%r,%r)", spec, O.a, O.e)
        T.cls("res:explicit")
    elif mode in ("fit", "auto"):
        tr = _tr(src, dkey)
        c = np.array([[nx / 2 + 0.5, ny / 2], [nx / 2 - 0.5, ny / 2], [nx / 2, ny / 2 + 0.5], [nx / 2, ny / 2 - 0.5]])
        wx, wy = _pix2wld(A, c)
        X, Y = tr.transform(wx, wy)
        J = np.array([[X[0] - X[1], X[2] - X[3]], [Y[0] - Y[1], Y[2] - Y[3]]])
        sv = np.linalg.svd(J, compute_uv=False)
        extra = 0.5 if case["round"] is True else 0.0
        for v in (abs(O.a), abs(O.e)):
            require(0.6 * sv[1] - extra <= v <= 1.6 * sv[0] + extra,
                    "fit resolution %r outside the local scale range [%r,%r] of one source pixel at the centre", v, float(sv[1]), float(sv[0]))
        if isinstance(case["round"], str):
            require(len(rr_calls) == 1, "round_resolution callable called %d times", len(rr_calls))
            r_in, units, r_out = rr_calls[0]
            require(isinstance(units, str) and isinstance(r_in, float), "round_resolution called with (%r, %r)", r_in, units)
            require((O.a, O.e) == (r_out, -r_out) or (abs(O.a), abs(O.e)) == (r_out, r_out),
                    "round_resolution returned %r but pixel size is (%r,%r)", r_out, O.a, O.e)
            T.cls("res:fit_rounded_callable")
        elif case["round"] is True:
            require(float(O.a).is_integer() and float(O.e).is_integer(), "round_resolution=True gave pixel size (%r,%r)", O.a, O.e)
            T.cls("res:fit_rounded_true")
        else:
            T.cls("res:fit")
    elif mode == "shapeN":
        require(abs(abs(O.a) - abs(O.e)) <= 1e-9 * abs(O.a), "int shape: pixels not square (%r,%r)", O.a, O.e)

    # -- shape clauses
    if mode == "shape2":
        require((ony, onx) == tuple(case["shape_out"]), "tuple shape %r requested, got %r", case["shape_out"], (ony, onx))
    elif mode == "shapeN":
        N = int(case["shape_out"])
        longest = max(ony, onx)
        if offs is None:
            require(longest == N, "int shape %d with tight/floating grid: longest side is %d (shape %r)", N, longest, (ony, onx))
            T.cls("shapeN:N(not snapped)")
        else:
            require(longest in (N, N + 1), "int shape %d: longest side is %d (shape %r)", N, longest, (ony, onx))
            T.cls("shapeN:N" if longest == N else "shapeN:N+1")

    # -- alignment alone (cheap, does not need the footprint)
    if offs is not None:
        for nm, res, t, off in (("x", O.a, O.c, offs[0]), ("y", O.e, O.f, offs[1])):
            q = t / abs(res) - off
            require(abs(q - round(q)) <= 1e-9 * max(1.0, abs(q)), "%s: pixel edges not aligned to anchor %r: origin/res - anchor = %.12g (res=%r)", nm, off, q, res)

    # -- enclosure and edge bounds: only where the documented sampling can promise them
    dev = 0.0 if src == dkey else _curvature_dev(src, dkey, A, nx, ny)
    if not dev <= 0.25 / 0.9:
        T.exclude("curvature")
        _done("curvature_excluded")
        return
    ring = _ring_pix(nx, ny, 500)
    pts = np.concatenate([ring, _lattice_pix(nx, ny)], 0)
    wx, wy = _pix2wld(A, pts)
    bufd = max(math.hypot(A.a, A.d), math.hypot(A.b, A.e))
    bwx, bwy = _buffered_ring_world(A, nx, ny, bufd)
    if src == dkey:
        X, Y, BX, BY = wx, wy, bwx, bwy
    else:
        tr = _tr(src, dkey)
        X, Y = tr.transform(wx, wy)
        BX, BY = tr.transform(bwx, bwy)
    X, Y, BX, BY = (np.asarray(v, dtype="float64") for v in (X, Y, BX, BY))
    if not all(np.isfinite(v).all() for v in (X, Y, BX, BY)):
        T.exclude("non_finite_projection")
        return
    Rx, Ry = abs(O.a), abs(O.e)
    slack_x = 1e-6 + 8 * math.ulp(max(abs(X).max(), abs(O.c))) / Rx
    slack_y = 1e-6 + 8 * math.ulp(max(abs(Y).max(), abs(O.f))) / Ry
    if mode != "shape2":
        # the statement's enclosure clause, point by point in the result's pixel plane
        px = (X - O.c) / O.a
        py = (Y - O.f) / O.e
        bad = (px < -tol - slack_x) | (px > onx + tol + slack_x) | (py < -tol - slack_y) | (py > ony + tol + slack_y)
        if bad.any():
            i = int(np.argmax(bad))
            raise Violation(
                "source pixel corner (%g,%g) projects to output pixel (%.6f,%.6f), outside [-tol,n+tol] of shape %r (tol=%r, %d of %d probe points outside; curvature %.3g of buffer)"
                % (pts[i, 0], pts[i, 1], px[i], py[i], (ony, onx), tol, int(bad.sum()), len(bad), dev))
    kind = "shape" if mode == "shape2" else "cover"
    _check_axis("x", O.a, O.c, onx, float(X.min()), float(X.max()), float(BX.min()), float(BX.max()), None if offs is None else offs[0], tol, kind, slack_x)
    _check_axis("y", O.e, O.f, ony, float(Y.min()), float(Y.max()), float(BY.min()), float(BY.max()), None if offs is None else offs[1], tol, kind, slack_y)
    if dev > 1e-3:
        T.cls("curvature>1e-3_of_buffer")
    _done("checked:" + ("same_crs" if same_crs else "other_crs"))


# ----------------------------------------------------------------------------- entry points agree
def o_entry(case, T):
    """GeoBox.to_crs and .odc.output_geobox give the same answer as compute_output_geobox for the same request."""
    from odc.geo.overlap import compute_output_geobox

    (ny, nx), A0 = _src_geometry(case)
    bb = _lonlat_box(case["src"], A0, nx, ny, per_side=64)
    if not _inside(bb, _valid_box(case["src"], case["dst"]), pad=1e-6):
        T.exclude("footprint_outside_valid_area")
        return

    def same(a, b):
        return tuple(a.shape) == tuple(b.shape) and tuple(a.affine)[:6] == tuple(b.affine)[:6] and a.crs == b.crs

    g0, o0, _ = _call({**case, "entry": "cog"})
    if case["mode"] != "res" and not isinstance(case.get("extra_res"), list):
        _, o1, _ = _call({**case, "entry": "to_crs"})
        require(same(o0, o1), "compute_output_geobox and GeoBox.to_crs disagree: %r %r vs %r %r",
                tuple(o0.shape), tuple(o0.affine)[:6], tuple(o1.shape), tuple(o1.affine)[:6])
    if not (case["rot"] != 0 and min(ny, nx) == 1):
        gx, ox, _ = _call({**case, "entry": "xr"})
        # the accessor must answer for the grid it reports (which may differ from g0 by rounding in the coordinates)
        kw = {k: v for k, v in _kwargs(case)[0].items()}
        oc = compute_output_geobox(gx, _dst_spec(case), **kw)
        require(same(oc, ox), ".odc.output_geobox disagrees with compute_output_geobox(xx.odc.geobox): %r %r vs %r %r",
                tuple(ox.shape), tuple(ox.affine)[:6], tuple(oc.shape), tuple(oc.affine)[:6])
        T.cls("xr_geobox_bit_equal" if tuple(gx.affine)[:6] == tuple(g0.affine)[:6] else "xr_geobox_rounded")
    if case["src"] != case["dst"]:
        T.nontrivial((case["src"], case["dst"], case["mode"]))
    T.cls("mode:" + case["mode"])


# ----------------------------------------------------------------------------- utm alias naming the source's own CRS
# ----------------------------------------------------------------------------- two CRSs without an authority code
AUTHLESS = {
    "sinu": "+proj=sinu +lon_0=0 +x_0=0 +y_0=0 +R=6371007.181 +units=m +no_defs +type=crs",
    "moll": "+proj=moll +lon_0=0 +x_0=0 +y_0=0 +datum=WGS84 +units=m +no_defs +type=crs",
    "eqearth": "+proj=eqearth +lon_0=0 +datum=WGS84 +units=m +no_defs +type=crs",
    "esri_moll": "ESRI:54009",
}


def e_authless(tier):
    names = sorted(AUTHLESS)
    for a in names:
        for b in names:
            if a == b or {a, b} == {"moll", "esri_moll"}:
                continue
            for warm in ("none", "epsg_read_on_both", "epsg_read_on_src", "xr_zeros_on_both"):
                for entry in ("compute_output_geobox", "to_crs"):
                    for lonlat in ((20.0, 30.0), (-60.0, -25.0)):
                        yield {"src": a, "dst": b, "warm": warm, "entry": entry, "lonlat": list(lonlat)}


def o_authless(case, T):
    """'is axis-aligned in the requested CRS and contains the projected position of every source pixel' when neither
    CRS has an authority code - whatever was looked up on the CRS objects before (the EPSG look-up of such a CRS
    finds nothing; two nothings are not the same CRS)."""
    from affine import Affine
    from odc.geo.crs import CRS
    from odc.geo.geobox import GeoBox
    from odc.geo.overlap import compute_output_geobox
    from pyproj import CRS as P
    from pyproj import Transformer

    pa, pb = P.from_user_input(AUTHLESS[case["src"]]), P.from_user_input(AUTHLESS[case["dst"]])
    ca, cb = CRS(AUTHLESS[case["src"]]), CRS(AUTHLESS[case["dst"]])
    x, y = Transformer.from_crs(4326, pa, always_xy=True).transform(*case["lonlat"])
    res = 1000.0
    src = GeoBox((40, 60), Affine(res, 0, round(x / res) * res - 30 * res, 0, -res, round(y / res) * res + 20 * res), ca)
    if case["warm"] in ("epsg_read_on_both", "epsg_read_on_src"):
        _ = ca.epsg
        if case["warm"] == "epsg_read_on_both":
            _ = cb.epsg
    elif case["warm"] == "xr_zeros_on_both":
        from odc.geo.xr import xr_zeros

        xr_zeros(src, dtype="uint8")
        xr_zeros(GeoBox((2, 2), Affine(res, 0, 0, 0, -res, 0), cb), dtype="uint8")
    out = compute_output_geobox(src, cb) if case["entry"] == "compute_output_geobox" else src.to_crs(cb)
    require(out is not src, "request for %s returned the source GeoBox (which is in %s) unchanged (CRS objects warmed by: %s)", case["dst"], case["src"], case["warm"])
    require(out.crs is not None and P.from_user_input(out.crs.to_wkt()).equals(pb, ignore_axis_order=False) or str(out.crs) == str(cb), "result is in %s, requested %s", str(out.crs)[:50], case["dst"])
    A = out.affine
    require(A.b == 0 and A.d == 0, "result not axis aligned: %r", A)
    tr = Transformer.from_crs(pa, pb, always_xy=True)
    inv = ~A
    oh, ow = out.shape
    for i in range(0, 61, 6):
        for j in range(0, 41, 4):
            wx, wy = src.affine * (i, j)
            px_, py_ = inv * tr.transform(wx, wy)
            require(-0.011 <= px_ <= ow + 0.011 and -0.011 <= py_ <= oh + 0.011, "source pixel corner (%d,%d) lands at (%.3f, %.3f) outside the %dx%d result (src %s -> %s, warmed by %s)", i, j, px_, py_, oh, ow, case["src"], case["dst"], case["warm"])
    T.cls("warm:" + case["warm"])
    T.nontrivial((case["src"], case["dst"], case["warm"], case["entry"]))


@st.composite
def s_utm_other_hemisphere(draw):
    """A raster stored in the UTM zone of the *other* hemisphere (Landsat-style: southern scenes in EPSG:326xx with
    negative northings; or northern scenes in 327xx), asked to go to 'utm' / 'utm-n' / 'utm-s'."""
    zone = draw(st.sampled_from([1, 18, 33, 55, 60, draw(st.integers(2, 59))]))
    stored_south = draw(st.booleans())
    lon = -180 + 6 * (zone - 1) + draw(st.floats(1.5, 4.5))
    lat = draw(st.floats(4.0, 45.0)) * (1 if stored_south else -1)  # the scene lies in the other hemisphere
    return {"zone": zone, "stored_south": stored_south, "lonlat": [lon, lat], "res": draw(st.sampled_from([10.0, 30.0, 100.0])),
            "shape": draw(st.sampled_from([[5, 7], [64, 64], [300, 200]])), "alias": draw(st.sampled_from(["utm", "utm", "utm-n", "utm-s"])),
            "entry": draw(st.sampled_from(["compute_output_geobox", "to_crs"]))}


def o_utm_other_hemisphere(case, T):
    """'utm / utm-n / utm-s requests resolve to a UTM CRS whose valid area overlaps the raster, in the requested
    hemisphere' - the source's own CRS being *a* UTM zone does not make it the right one."""
    from affine import Affine
    from odc.geo.geobox import GeoBox
    from odc.geo.overlap import compute_output_geobox
    from pyproj import CRS as P
    from pyproj import Transformer

    zone = case["zone"]
    epsg = (32700 if case["stored_south"] else 32600) + zone
    lon, lat = case["lonlat"]
    x, y = Transformer.from_crs(4326, epsg, always_xy=True).transform(lon, lat)
    res = case["res"]
    ny, nx = case["shape"]
    A = Affine(res, 0, math.floor(x / res) * res - res * (nx // 2), 0, -res, math.floor(y / res) * res + res * (ny // 2))
    src = GeoBox((ny, nx), A, epsg)
    out = compute_output_geobox(src, case["alias"]) if case["entry"] == "compute_output_geobox" else src.to_crs(case["alias"])
    got = out.crs.epsg
    require(got is not None and (32601 <= got <= 32660 or 32701 <= got <= 32760), "request %r for a raster at lon %.3f lat %.3f stored in EPSG:%d resolved to %s - not a WGS84 UTM zone",
            case["alias"], lon, lat, epsg, str(out.crs)[:40])
    got_south = got >= 32700
    got_zone = got % 100
    scene_south = lat < 0
    if case["alias"] == "utm":
        # valid area of the chosen zone must overlap the raster: same hemisphere as the scene (it is >= 4 degrees from
        # the equator), same zone as its centre (1.5 degrees inside it)
        aou = P.from_epsg(got).area_of_use
        require(aou.south <= lat <= aou.north and aou.west - 1e-9 <= lon <= aou.east + 1e-9, "'utm' for a raster at lon %.3f lat %.3f (stored in EPSG:%d) resolved to EPSG:%d whose area of use is lon %.1f..%.1f lat %.1f..%.1f - it does not contain the raster",
                lon, lat, epsg, got, aou.west, aou.east, aou.south, aou.north)
        require(got_south == scene_south and got_zone == zone, "'utm' resolved to EPSG:%d for a scene at lon %.3f lat %.3f", got, lon, lat)
    else:
        require(got_south == (case["alias"] == "utm-s") and got_zone == zone, "%r resolved to EPSG:%d (zone %d expected)", case["alias"], got, zone)
    # enclosure of the source (corner lattice) in the result
    tr = Transformer.from_crs(epsg, got, always_xy=True)
    inv = ~out.affine
    oh, ow = out.shape
    for i in range(0, nx + 1, max(1, nx // 8)):
        for j in range(0, ny + 1, max(1, ny // 8)):
            wx, wy = A * (i, j)
            px, py = inv * tr.transform(wx, wy)
            require(-0.011 <= px <= ow + 0.011 and -0.011 <= py <= oh + 0.011, "source pixel corner (%d,%d) lands at (%.3f, %.3f) outside the %dx%d result", i, j, px, py, oh, ow)
    if got == epsg:
        T.cls("same_crs_as_stored")
    T.cls("alias:" + case["alias"])
    T.cls("stored:" + ("south" if case["stored_south"] else "north"))
    T.nontrivial((zone, case["stored_south"], case["alias"], case["entry"]))


@st.composite
def s_utm_alias_same(draw):
    zone = draw(st.integers(1, 60))
    south = draw(st.booleans())
    lon = -180 + 6 * (zone - 1) + draw(st.floats(1.0, 5.0))
    lat = draw(st.floats(-60.0, -5.0) if south else st.floats(5.0, 60.0))
    res = draw(st.sampled_from([10.0, 30.0, 100.0, 250.0]))
    shape = draw(st.sampled_from([[5, 7], [64, 64], [300, 200], [1, 1]]))
    frac = [draw(st.sampled_from([0.0, 0.0, 0.3, 0.5])), draw(st.sampled_from([0.0, 0.0, 0.7]))]  # unaligned origins too
    alias = draw(st.sampled_from(["utm", "utm", "utm-s" if south else "utm-n", "UTM"]))
    entry = draw(st.sampled_from(["compute_output_geobox", "to_crs", "xr"]))
    rot = draw(st.sampled_from([0.0, 0.0, 10.0]))
    return {"zone": zone, "south": south, "lonlat": [lon, lat], "res": res, "shape": shape, "frac": frac, "alias": alias, "entry": entry, "rot": rot}


def o_utm_alias_same(case, T):
    """'asking for the source's own CRS with default options returns the source GeoBox unchanged' - also when the
    request is a utm alias that resolves to the CRS the source is already in."""
    from affine import Affine
    from odc.geo.geobox import GeoBox
    from odc.geo.overlap import compute_output_geobox
    from pyproj import Transformer

    epsg = (32700 if case["south"] else 32600) + case["zone"]
    x, y = Transformer.from_crs(4326, epsg, always_xy=True).transform(*case["lonlat"])
    res = case["res"]
    ny, nx = case["shape"]
    tx = (math.floor(x / res) + case["frac"][0]) * res
    ty = (math.floor(y / res) + case["frac"][1]) * res
    A = Affine.translation(tx, ty) * Affine.rotation(case["rot"]) * Affine.scale(res, -res)
    src = GeoBox((ny, nx), A, epsg)
    # precondition, decided independently of the code under test: the raster lies inside one zone and hemisphere
    tr = Transformer.from_crs(epsg, 4326, always_xy=True)
    cx, cy = [], []
    for px, py in ((0, 0), (nx, 0), (nx, ny), (0, ny), (nx / 2, ny / 2)):
        wx, wy = A * (px, py)
        lo, la = tr.transform(wx, wy)
        cx.append(lo)
        cy.append(la)
    lon0 = -180 + 6 * (case["zone"] - 1)
    if not (lon0 + 0.2 < min(cx) and max(cx) < lon0 + 5.8 and (max(cy) < -0.5 if case["south"] else min(cy) > 0.5)):
        T.exclude("raster_leaves_its_zone")
        return
    if case["entry"] == "compute_output_geobox":
        out = compute_output_geobox(src, case["alias"])
    elif case["entry"] == "to_crs":
        out = src.to_crs(case["alias"])
    else:
        from odc.geo.xr import xr_zeros

        if case["rot"] or 1 in (ny, nx):
            out = src.to_crs(case["alias"])
        else:
            xx = xr_zeros(src, dtype="uint8")
            out = xx.odc.output_geobox(case["alias"])
            src = xx.odc.geobox
    require(out.crs is not None and out.crs.epsg == epsg, "%r requested for a raster in EPSG:%d resolved to %r", case["alias"], epsg, out.crs.epsg)
    require(out is src or (tuple(out.shape) == tuple(src.shape) and tuple(out.affine)[:6] == tuple(src.affine)[:6]),
            "source already in EPSG:%d, request %r with default options: expected the source GeoBox unchanged, got shape %r affine %r (source shape %r affine %r)",
            epsg, case["alias"], tuple(out.shape), tuple(out.affine)[:6], tuple(src.shape), tuple(src.affine)[:6])
    T.nontrivial((case["zone"], case["south"], case["alias"], case["entry"], case["rot"], tuple(case["frac"])))
    T.cls("alias:" + case["alias"].lower())
    T.cls("entry:" + case["entry"])
    T.cls("unaligned" if any(case["frac"]) else "aligned")


def build(chk: Check) -> None:
    chk.sub("authorityless_pairs", o_authless, enum=e_authless, exhaustive_tiers=("quick", "thorough"), budget_s={"quick": 60, "thorough": 120})
    chk.sub("utm_other_hemisphere", o_utm_other_hemisphere, strategy=s_utm_other_hemisphere(), n={"quick": 150, "thorough": 5000}, budget_s={"quick": 40, "thorough": 100})
    chk.sub("utm_alias_same", o_utm_alias_same, strategy=s_utm_alias_same(), n={"quick": 120, "thorough": 4000}, budget_s={"quick": 40, "thorough": 100})
    # cost per case is dominated by the code under test (~25 ms: pure-python densify of the buffered footprint;
    # ~100 ms for utm* because every request queries the CRS database)
    chk.sub("general", o_main, strategy=s_case(), n={"quick": 1600, "thorough": 60000}, budget_s={"quick": 60, "thorough": 420})
    chk.sub("big_curved", o_main, strategy=s_case("big"), n={"quick": 400, "thorough": 20000}, budget_s={"quick": 30, "thorough": 150})
    chk.sub("shape_request", o_main, strategy=s_case("shape"), n={"quick": 300, "thorough": 12000}, budget_s={"quick": 30, "thorough": 100})
    chk.sub("same_crs", o_main, cov={"quick": 150, "thorough": 8000}, strategy=s_case("same_crs"), n={"quick": 300, "thorough": 15000}, budget_s={"quick": 20, "thorough": 60})
    chk.sub("utm", o_main, strategy=s_case("utm"), n={"quick": 150, "thorough": 5000}, budget_s={"quick": 40, "thorough": 100})
    chk.sub("tol_band", o_main, strategy=s_band(), n={"quick": 200, "thorough": 5000}, budget_s={"quick": 20, "thorough": 30})
    chk.sub("entry_points", o_entry, strategy=s_case(), n={"quick": 100, "thorough": 4000}, budget_s={"quick": 30, "thorough": 60})
