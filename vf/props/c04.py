"""C04 - tilings are exact partitions; blocks reassemble the mosaic."""
from __future__ import annotations

import itertools

import numpy as np
from hypothesis import strategies as st

from vf.common import Check, Violation, require
from vf.strategies import FA, coeff_close, geoboxes, mk_geobox

RULE = (
    "Regular tilings: every (base N in 1..24, tile n in 1..26) on one axis crossed with a fixed set of partner axes, "
    "both orientations (complete in thorough; strided third in quick); variable tilings: every composition of N<=9 "
    "into chunks on one axis crossed with partner axes + Hypothesis chunk tuples incl. zero-length chunks; for each "
    "tiling all tile indices (incl. numpy-style negatives and out-of-range), all tile-block crops and a sample of "
    "clip selections. GeoboxTiles over generated GeoBoxes. BlockAssembler: generated chunk tuples, any subset of "
    "present blocks, dtype mix, axis 0/1 with leading/trailing dims, fill values, windows as slices/ints/2-tuples/N-d. "
    "Oracle: integer coverage-count model / numpy paste model. Non-trivial: ragged last row/column, tile larger than "
    "image, zero-length chunk, or a window that cuts through >=2 blocks with >=1 absent; distinct = distinct case."
)
ASSUMPTIONS = [
    "numpy array pasting is the reference for BlockAssembler",
    "empty block set only generated with axis=0 (with leading axes the assembler cannot learn the leading shape)",
    "int indices on the Y/X axes of an assembler window may keep a length-1 axis (values compared, shape up to squeeze)",
]
SHARDS = {"quick": 4, "thorough": 16}


def _spellings(a, b, n):
    """numpy-style spellings of the index block [a:b) on an axis of n tiles (first one canonical)."""
    out = [slice(a, b)]
    if b == a + 1:
        out += [a, a - n]
    out.append(slice(a - n, b))
    if b < n:
        out.append(slice(a, b - n))
    if a == 0:
        out.append(slice(None, b))
    if b == n:
        out.append(slice(a, None))
    return out


def _mk_tiles(case):
    from odc.geo.roi import Tiles, VariableSizedTiles

    if case["kind"] == "regular":
        return Tiles(tuple(case["base"]), tuple(case["tile"]))
    return VariableSizedTiles((tuple(case["chunks"][0]), tuple(case["chunks"][1])))


def _model_offsets(case):
    """Per axis list of (start, stop) of every tile - independent integer model."""
    out = []
    if case["kind"] == "regular":
        for N, n in zip(case["base"], case["tile"]):
            k = -(-N // n)
            out.append([(i * n, min(N, (i + 1) * n)) for i in range(k)])
    else:
        for ch in case["chunks"]:
            acc, a = [], 0
            for c in ch:
                acc.append((a, a + c))
                a += c
            out.append(acc)
    return out


def check_tiling(tt, offs, T, case, deep=True):
    from odc.geo.roi import clip_tiles

    oy, ox = offs
    R, C = len(oy), len(ox)
    NY = oy[-1][1] if oy else 0
    NX = ox[-1][1] if ox else 0
    require(tuple(tt.shape.yx) == (R, C), "shape %r, model %r", tuple(tt.shape.yx), (R, C))
    require(tuple(tt.base.yx) == (NY, NX), "base %r, model %r", tuple(tt.base.yx), (NY, NX))
    chy, chx = tt.chunks
    require(tuple(chy) == tuple(b - a for a, b in oy) and tuple(chx) == tuple(b - a for a, b in ox), "chunks %r do not match model", (chy, chx))
    cover = np.zeros((NY, NX), dtype="int32")
    for r in range(R):
        for c in range(C):
            ry, rx = tt[r, c]
            want = (oy[r], ox[c])
            require(((ry.start, ry.stop), (rx.start, rx.stop)) == want, "tile (%d,%d) region %r, model %r", r, c, (ry, rx), want)
            ts = tt.tile_shape((r, c))
            require(tuple(ts.yx) == (ry.stop - ry.start, rx.stop - rx.start), "tile_shape(%d,%d)=%r vs region %r", r, c, tuple(ts.yx), (ry, rx))
            cover[ry, rx] += 1
            # numpy style negative index
            rn, cn = tt[r - R, c - C]
            require((rn, cn) == (ry, rx), "negative index (%d,%d) gives %r expected %r", r - R, c - C, (rn, cn), (ry, rx))
    require((cover == 1).all(), "tiles do not partition the rectangle: coverage counts %r", np.unique(cover).tolist())
    # out-of-range indices must be rejected
    for bad in ((R, 0), (0, C)):
        try:
            got = tt[bad]
        except IndexError:
            continue
        raise Violation(f"out-of-range tile index {bad} accepted (shape {(R, C)}), returned {got}")
    # locate is the inverse of region lookup
    for y in range(NY):
        for x in range(NX):
            r, c = tt.locate((y, x))
            require(oy[r][0] <= y < oy[r][1] and ox[c][0] <= x < ox[c][1], "locate(%d,%d)=%r but that tile covers %r", y, x, (r, c), (oy[r], ox[c]))
            if (y + x) % 3 == 0 or y != x and y < 3:
                # the pixel may also be given as an Index2d (the other spelling of SomeIndex2d)
                from odc.geo.types import ixy_, iyx_

                for nm, pix in (("iyx_", iyx_(y, x)), ("ixy_", ixy_(x, y))):
                    got = tuple(tt.locate(pix))
                    require(got == (r, c), "locate(%s) of pixel row %d col %d = %r, locate((%d, %d)) = %r", nm, y, x, got, y, x, (r, c))
        if not deep and y > 2:
            break
    for bad in ((-1, 0), (0, -1), (NY, 0), (0, NX)):
        try:
            got = tt.locate(bad)
        except IndexError:
            continue
        raise Violation(f"locate{bad} outside base {(NY, NX)} accepted, returned {got}")
    if not deep:
        return
    # crop to a block of tiles == tiling of the cropped rectangle, indices re-based
    rr = list(itertools.combinations(range(R + 1), 2))
    cc = list(itertools.combinations(range(C + 1), 2))
    if len(rr) * len(cc) > 600:
        # large tilings (only reachable from the Hypothesis sub-checks, and where the shrinker drives tile sizes
        # to 1): a deterministic subset of crops keeps a case bounded
        rr = [p for p in rr if p[0] in (0, 1, R // 2) or p[1] in (R, R - 1)][:40]
        cc = [p for p in cc if p[0] in (0, 1, C // 2) or p[1] in (C, C - 1)][:15]
    for r0, r1 in rr:
        for c0, c1 in cc:
            sub = tt.crop((slice(r0, r1), slice(c0, c1)))
            y0, x0 = oy[r0][0], ox[c0][0]
            require(tuple(sub.shape.yx) == (r1 - r0, c1 - c0), "crop[%d:%d,%d:%d] shape %r", r0, r1, c0, c1, tuple(sub.shape.yx))
            require(tuple(sub.base.yx) == (oy[r1 - 1][1] - y0, ox[c1 - 1][1] - x0), "crop[%d:%d,%d:%d] base %r", r0, r1, c0, c1, tuple(sub.base.yx))
            for r in range(r0, r1):
                for c in range(c0, c1):
                    sy, sx = sub[r - r0, c - c0]
                    want = ((oy[r][0] - y0, oy[r][1] - y0), (ox[c][0] - x0, ox[c][1] - x0))
                    require(((sy.start, sy.stop), (sx.start, sx.stop)) == want, "crop[%d:%d,%d:%d] tile (%d,%d) = %r, expected %r", r0, r1, c0, c1, r - r0, c - c0, (sy, sx), want)
            # the same block of tiles spelled the numpy way (bare ints, negative and open-ended bounds)
            sy_, sx_ = _spellings(r0, r1, R), _spellings(c0, c1, C)
            alts = [(a_, sx_[0]) for a_ in sy_[1:]] + [(sy_[0], a_) for a_ in sx_[1:]] + [(sy_[i], sx_[i % len(sx_)]) for i in range(1, len(sy_))]
            for ay, ax in alts:
                alt = tt.crop((ay, ax))
                require(
                    tuple(map(tuple, alt.chunks)) == tuple(map(tuple, sub.chunks)) and tuple(alt.shape.yx) == tuple(sub.shape.yx),
                    "crop(%r) gives chunks %r shape %r, but the same block spelled [%d:%d,%d:%d] gives chunks %r shape %r",
                    (ay, ax), alt.chunks, tuple(alt.shape.yx), r0, r1, c0, c1, sub.chunks, tuple(sub.shape.yx),
                )
                uy, ux = tt[ay, ax]
                require((uy.start, uy.stop, ux.start, ux.stop) == (y0, oy[r1 - 1][1], x0, ox[c1 - 1][1]), "tiles[%r] region %r", (ay, ax), (uy, ux))
            # region lookup with a tile-index slice gives the union rectangle
            uy, ux = tt[slice(r0, r1), slice(c0, c1)]
            require((uy.start, uy.stop, ux.start, ux.stop) == (y0, oy[r1 - 1][1], x0, ox[c1 - 1][1]), "tiles[%d:%d,%d:%d] region %r", r0, r1, c0, c1, (uy, ux))
    # clip to a selection
    sels = [[(0, 0)], [(R - 1, C - 1)], [(0, C - 1), (R - 1, 0)], [(R // 2, C // 2), (R - 1, C - 1)]]
    for sel in sels:
        sub, roi, new = clip_tiles(tt, sel)
        r0 = min(r for r, _ in sel)
        c0 = min(c for _, c in sel)
        r1 = max(r for r, _ in sel) + 1
        c1 = max(c for _, c in sel) + 1
        require((roi[0].start, roi[0].stop, roi[1].start, roi[1].stop) == (r0, r1, c0, c1), "clip_tiles roi %r for %r", roi, sel)
        require(list(map(tuple, new)) == [(r - r0, c - c0) for r, c in sel], "clip_tiles re-based indices %r for %r", new, sel)
        y0, x0 = oy[r0][0], ox[c0][0]
        for (r, c), (nr, nc) in zip(sel, new):
            sy, sx = sub[nr, nc]
            want = ((oy[r][0] - y0, oy[r][1] - y0), (ox[c][0] - x0, ox[c][1] - x0))
            require(((sy.start, sy.stop), (sx.start, sx.stop)) == want, "clip_tiles(%r): tile %r -> %r region %r expected %r", sel, (r, c), (nr, nc), (sy, sx), want)


def o_tiles(case, T):
    tt = _mk_tiles(case)
    offs = _model_offsets(case)
    check_tiling(tt, offs, T, case, deep=True)
    if case["kind"] == "regular":
        ragged = any(N % n for N, n in zip(case["base"], case["tile"]))
        big = any(n > N for N, n in zip(case["base"], case["tile"]))
        if ragged or big:
            T.nontrivial()
        T.cls("ragged" if ragged else "dividing")
        if big:
            T.cls("tile_gt_image")
        if 1 in case["tile"]:
            T.cls("one_px_tile")
    else:
        z = any(0 in ch for ch in case["chunks"])
        if z:
            T.cls("zero_chunk")
        if z or any(len(set(ch)) > 1 for ch in case["chunks"]):
            T.nontrivial()


PARTNERS = [(1, 1), (5, 2), (7, 7), (3, 5), (6, 4)]


def e_regular(tier):
    i = 0
    for N in range(1, 25):
        for n in range(1, 27):
            for M, m in PARTNERS:
                i += 1
                if tier == "quick" and i % 3:
                    continue
                yield {"kind": "regular", "base": [N, M], "tile": [n, m]}
                yield {"kind": "regular", "base": [M, N], "tile": [m, n]}


def _compositions(N):
    for bits in range(2 ** (N - 1)):
        out, cur = [], 1
        for k in range(N - 1):
            if bits >> k & 1:
                out.append(cur)
                cur = 1
            else:
                cur += 1
        out.append(cur)
        yield out


VPARTNERS = [[1], [2, 3], [4, 1, 1], [3]]


def e_variable(tier):
    nmax = 7 if tier == "quick" else 9
    for N in range(1, nmax + 1):
        for comp in _compositions(N):
            for p in VPARTNERS:
                yield {"kind": "variable", "chunks": [comp, p]}
                yield {"kind": "variable", "chunks": [p, comp]}


@st.composite
def s_variable(draw):
    def axis():
        n = draw(st.integers(1, 8))
        ch = [draw(st.sampled_from([0, 1, 1, 2, 3, 5, 8, 13])) for _ in range(n)]
        if sum(ch) == 0:
            ch[draw(st.integers(0, n - 1))] = draw(st.integers(1, 5))
        return ch

    return {"kind": "variable", "chunks": [axis(), axis()]}


@st.composite
def s_regular_big(draw):
    N = [draw(st.integers(1, 60)), draw(st.integers(1, 60))]
    n = [draw(st.integers(1, 70)), draw(st.integers(1, 70))]
    return {"kind": "regular", "base": N, "tile": n}


def o_roi_tiles(case, T):
    """roi_tiles dispatch + equality semantics used by crops."""
    from odc.geo.roi import Tiles, VariableSizedTiles, roi_tiles

    if case["kind"] == "regular":
        tt = roi_tiles(tuple(case["base"]), tuple(case["tile"]))
        require(isinstance(tt, Tiles), "roi_tiles(shape, tile_shape) gave %r", type(tt))
    else:
        ch = (tuple(case["chunks"][0]), tuple(case["chunks"][1]))
        tt = roi_tiles((sum(ch[0]), sum(ch[1])), ch)
        require(isinstance(tt, VariableSizedTiles), "roi_tiles(shape, chunks) gave %r", type(tt))
    check_tiling(tt, _model_offsets(case), T, case, deep=False)
    T.nontrivial()


# --------------------------------------------------------------------- GeoboxTiles
@st.composite
def s_gbt(draw):
    gb = draw(geoboxes(max_side=40))
    ny, nx = gb["shape"]
    if draw(st.booleans()):
        tile = [draw(st.integers(1, ny + 2)), draw(st.integers(1, nx + 2))]
        return {"gbox": gb, "kind": "regular", "base": [ny, nx], "tile": tile}

    def cut(n):
        k = draw(st.integers(1, min(n, 5)))
        pts = sorted(draw(st.lists(st.integers(1, n - 1), min_size=k - 1, max_size=k - 1, unique=True))) if n > 1 and k > 1 else []
        edges = [0, *pts, n]
        return [b - a for a, b in zip(edges[:-1], edges[1:])]

    return {"gbox": gb, "kind": "variable", "chunks": [cut(ny), cut(nx)]}


def _same_gbox(a, b, exact=True) -> bool:
    if tuple(a.shape) != tuple(b.shape) or a.crs != b.crs:
        return False
    if tuple(a.affine)[:6] == tuple(b.affine)[:6]:
        return True
    if exact:
        return False
    # general family: two float routes to the same crop differ by rounding only
    return coeff_close(a.affine, FA.of(b.affine), scale_hint=[64.0]) is None


def o_gbt(case, T):
    from odc.geo.geobox import GeoboxTiles

    gb = mk_geobox(case["gbox"])
    if case["kind"] == "regular":
        gbt = GeoboxTiles(gb, tuple(case["tile"]))
    else:
        gbt = GeoboxTiles(gb, (tuple(case["chunks"][0]), tuple(case["chunks"][1])))
    oy, ox = _model_offsets(case)
    R, C = len(oy), len(ox)
    exact = case["gbox"]["family"] == "exact"
    require(tuple(gbt.shape.yx) == (R, C), "GeoboxTiles.shape %r, model %r", tuple(gbt.shape.yx), (R, C))
    require(gbt.base is gb or gbt.base == gb, "GeoboxTiles.base differs")
    chy, chx = gbt.chunks
    require(tuple(chy) == tuple(b - a for a, b in oy) and tuple(chx) == tuple(b - a for a, b in ox), "chunks %r", (chy, chx))
    for r in range(R):
        for c in range(C):
            t = gbt[r, c]
            roi = gbt.roi[r, c]
            want_roi = (slice(*oy[r]), slice(*ox[c]))
            require((roi[0].start, roi[0].stop, roi[1].start, roi[1].stop) == (*oy[r], *ox[c]), "roi[%d,%d]=%r model %r", r, c, roi, want_roi)
            want = gb[want_roi]
            require(_same_gbox(t, want), "tile (%d,%d) = %r is not the parent cropped to %r = %r", r, c, t, want_roi, want)
            require(tuple(gbt.chunk_shape((r, c)).yx) == tuple(want.shape), "chunk_shape(%d,%d)", r, c)
            # pixel (0,0) of the tile is parent pixel (x0,y0)
            p = t.pix2wld(0, 0)
            q = gb.pix2wld(ox[c][0], oy[r][0])
            require(p == q, "tile (%d,%d) origin %r, parent pixel maps to %r", r, c, p, q)
            pb = gbt.pix_bbox((r, c))
            require(tuple(pb.bbox) == (ox[c][0], oy[r][0], ox[c][1], oy[r][1]), "pix_bbox(%d,%d)=%r", r, c, pb)
            # numpy-style spellings of the same tile index (negative, mixed): same tile, same region
            for ri, ci in ((r - R, c - C), (r, c - C), (r - R, c)):
                tn = gbt[ri, ci]
                require(_same_gbox(tn, want), "tile [%d,%d] (= tile (%d,%d) of %dx%d) = %r is not the parent cropped to %r = %r", ri, ci, r, c, R, C, tn, want_roi, want)
                require(tn.pix2wld(0, 0) == q, "tile [%d,%d] origin %r, tile (%d,%d) starts at %r", ri, ci, tn.pix2wld(0, 0), r, c, q)
                if case["kind"] == "regular":  # only the regular tiling documents numpy-style indices for tile_shape
                    require(tuple(gbt.chunk_shape((ri, ci)).yx) == tuple(want.shape), "chunk_shape(%d,%d)", ri, ci)
                rn = gbt.roi[ri, ci]
                require((rn[0].start, rn[0].stop, rn[1].start, rn[1].stop) == (*oy[r], *ox[c]), "roi[%d,%d]=%r model %r", ri, ci, rn, want_roi)
    for bad in ((R, 0), (0, C)):
        try:
            gbt[bad]
        except IndexError:
            continue
        raise Violation(f"GeoboxTiles index {bad} out of range accepted")
    # crop / clip
    r0, r1 = sorted((case["gbox"]["shape"][0] % (R + 1), R))
    c0, c1 = sorted((case["gbox"]["shape"][1] % (C + 1), C))
    if r0 == r1:
        r0 = r1 - 1
    if c0 == c1:
        c0 = c1 - 1
    sub = gbt.crop[r0:r1, c0:c1]
    require(tuple(sub.shape.yx) == (r1 - r0, c1 - c0), "crop shape")
    require(_same_gbox(sub.base, gb[oy[r0][0] : oy[r1 - 1][1], ox[c0][0] : ox[c1 - 1][1]]), "crop base geobox wrong")
    for r in range(r0, r1):
        for c in range(c0, c1):
            require(_same_gbox(sub[r - r0, c - c0], gbt[r, c], exact), "crop[%d:%d,%d:%d] tile (%d,%d) differs from parent tile (%d,%d)", r0, r1, c0, c1, r - r0, c - c0, r, c)
    sel = [(r1 - 1, c0), (r0, c1 - 1)]
    sub2, new = gbt.clip(sel)
    for (r, c), (nr, nc) in zip(sel, new):
        require(_same_gbox(sub2[nr, nc], gbt[r, c], exact), "clip(%r): tile %r -> %r differs", sel, (r, c), (nr, nc))
    ragged = case["kind"] == "variable" or any(N % n for N, n in zip(case["base"], case["tile"]))
    if ragged or case["gbox"]["klass"] != "north_up":
        T.nontrivial((case["kind"], case["gbox"]["klass"], R, C, ragged))
    T.cls(case["kind"])
    T.cls("gbox:" + ("rot" if any(k in case["gbox"]["klass"] for k in ("rot", "shear", "r90", "r180", "r270", "pyth")) else "st"))


# --------------------------------------------------------------------- BlockAssembler
DTYPES = ["uint8", "int8", "uint16", "int16", "int32", "float32", "float64"]


@st.composite
def s_asm(draw):
    def axis():
        n = draw(st.integers(1, 4))
        return [draw(st.integers(1, 5)) for _ in range(n)]

    chy, chx = axis(), axis()
    axis_pos = draw(st.sampled_from([0, 0, 1]))
    prefix = [draw(st.integers(1, 3))] if axis_pos == 1 else []
    postfix = draw(st.sampled_from([[], [], [1], [3], [2, 2]]))
    cells = [(i, j) for i in range(len(chy)) for j in range(len(chx))]
    present = draw(st.lists(st.sampled_from(cells), unique=True, min_size=0 if axis_pos == 0 and not postfix else 1, max_size=len(cells)))
    mixed = draw(st.integers(0, 4)) == 0
    base_dt = draw(st.sampled_from(DTYPES))
    dts = [draw(st.sampled_from(DTYPES)) if mixed else base_dt for _ in present]
    fill = draw(st.sampled_from([None, None, 0, "nan", -1, 7]))
    ndim = len(prefix) + 2 + len(postfix)
    NY, NX = sum(chy), sum(chx)

    def sl(n):
        a = draw(st.integers(0, n))
        b = draw(st.integers(a, n))
        form = draw(st.integers(0, 5))
        if form == 0:
            return ["s", None, None]
        if form == 1:
            return ["s", a, None]
        if form == 2 and b > 0:
            return ["s", None, b]
        if form == 3 and a < n:
            return ["s", a - n, b if b > a else None]
        return ["s", a, b]

    wform = draw(st.sampled_from(["none", "yx", "yx", "full", "partial"]))
    if wform == "none":
        window = None
    elif wform == "yx":
        window = [sl(NY), sl(NX)]
    else:
        dims = prefix + [NY, NX] + postfix
        window = []
        for k, n in enumerate(dims):
            is_yx = k in (len(prefix), len(prefix) + 1)
            if not is_yx and draw(st.integers(0, 2)) == 0:
                window.append(["i", draw(st.integers(0, n - 1))])
            else:
                window.append(sl(n))
        if wform == "partial" and ndim > 2:
            window = window[: draw(st.integers(1, ndim))]
            if len(window) == 2:  # a 2-tuple always means Y,X: keep the meaning by spelling out a third axis
                window = window + [["s", None, None]]
    return {"chunks": [chy, chx], "axis": axis_pos, "prefix": prefix, "postfix": postfix, "present": [list(p) for p in present],
            "dtypes": dts, "fill": fill, "window": window, "wform": wform}


def _block_values(shape, dtype, seed):
    n = int(np.prod(shape))
    v = (np.arange(n, dtype="int64") * 7 + seed * 13 + 1) % 100 + 1
    return v.reshape(shape).astype(dtype)


def o_asm(case, T):
    from odc.geo._blocks import BlockAssembler

    chy, chx = case["chunks"]
    a = case["axis"]
    prefix, postfix = case["prefix"], case["postfix"]
    oy = np.cumsum([0, *chy]).tolist()
    ox = np.cumsum([0, *chx]).tolist()
    NY, NX = oy[-1], ox[-1]
    blocks = {}
    for k, ((iy, ix), dt) in enumerate(zip(case["present"], case["dtypes"])):
        shp = (*prefix, chy[iy], chx[ix], *postfix)
        blocks[(iy, ix)] = _block_values(shp, dt, k + iy * 5 + ix)
    asm = BlockAssembler(blocks, (tuple(chy), tuple(chx)), axis=a)
    full_shape = (*prefix, NY, NX, *postfix) if blocks else (NY, NX)
    require(tuple(asm.shape) == tuple(full_shape), "assembler shape %r, model %r", asm.shape, full_shape)
    fill = case["fill"]
    fv = None if fill is None else (float("nan") if fill == "nan" else fill)
    dts = [np.dtype(d) for d in case["dtypes"]]
    common = np.result_type(*dts) if dts else np.dtype("float32")
    if blocks and len(set(dts)) == 1:
        require(asm.dtype == dts[0], "assembler dtype %r with all blocks %r", asm.dtype, dts[0])
    if fv is not None and np.issubdtype(common, np.integer) and (fv != fv or not (np.iinfo(common).min <= fv <= np.iinfo(common).max)):
        model_dt = np.result_type(common, np.min_scalar_type(fv))
    else:
        model_dt = common
    default_fill = float("nan") if np.issubdtype(model_dt, np.floating) else 0
    model = np.full(full_shape, default_fill if fv is None else fv, dtype=model_dt if fv is None or model_dt.kind == "f" else np.result_type(model_dt, np.min_scalar_type(fv)))
    for (iy, ix), b in blocks.items():
        idx = (*[slice(None)] * len(prefix), slice(oy[iy], oy[iy + 1]), slice(ox[ix], ox[ix + 1]))
        model[idx] = b
    window = case["window"]

    def mk(s):
        return s[1] if s[0] == "i" else slice(s[1], s[2])

    if window is None:
        got = asm.extract(fv)
        want = model
    else:
        roi = tuple(mk(s) for s in window)
        if len(roi) == 2:
            np_idx = (*[slice(None)] * len(prefix), *roi)
        else:
            np_idx = roi
        want = model[np_idx]
        got = asm.extract(fv, roi=roi)
        if fv is None:
            got2 = asm[roi]
            require(got2.shape == got.shape and np.array_equal(got2, got, equal_nan=True), "__getitem__ differs from extract(roi=)")
    require(got.size == want.size, "window %r: got shape %r, numpy model shape %r", window, got.shape, want.shape)
    if not window:
        has_yx_int = False
    elif len(window) == 2:
        has_yx_int = any(s[0] == "i" for s in window)
    else:
        has_yx_int = any(s[0] == "i" for s in window[len(prefix) : len(prefix) + 2])
    if not has_yx_int:
        require(got.shape == want.shape, "window %r: got shape %r, numpy model shape %r", window, got.shape, want.shape)
    require(np.array_equal(got.ravel().astype("float64"), want.ravel().astype("float64"), equal_nan=True),
            "window %r of mosaic differs from paste model (chunks=%r present=%r fill=%r axis=%d): got %r want %r",
            window, case["chunks"], case["present"], fill, a, got.ravel()[:12].tolist(), want.ravel()[:12].tolist())
    if fv is None and blocks and len(set(dts)) == 1:
        require(got.dtype == dts[0], "extract dtype %r, blocks are %r", got.dtype, dts[0])
    # plane iteration: every plane index selects a 2-D YX plane of the mosaic
    planes = list(asm.planes_yx())
    nplanes = int(np.prod([*(prefix if blocks else []), *(postfix if blocks else [])])) if blocks else 1
    require(len(planes) == nplanes, "planes_yx gives %d planes, expected %d", len(planes), nplanes)
    fullx = asm.extract(fv)
    seen = np.zeros(fullx.shape, dtype=bool)
    for p in planes:
        pl = fullx[p]
        require(pl.shape == (NY, NX), "plane %r has shape %r", p, pl.shape)
        seen[p] = True
    require(seen.all(), "planes_yx does not visit the whole mosaic")
    if window is not None and len(window) == 2:
        # planes of a YX window: plane k of planes_yx(window) selects the window of plane k of the whole mosaic
        wplanes = list(asm.planes_yx(roi))
        require(len(wplanes) == nplanes, "planes_yx(window) gives %d planes, expected %d", len(wplanes), nplanes)
        lead = len(prefix) if blocks else 0
        for p, idx in zip(wplanes, np.ndindex(tuple([*(prefix if blocks else []), *(postfix if blocks else [])]))):
            mine = fullx[(*idx[:lead], *roi, *idx[lead:])]
            theirs = fullx[p]
            require(theirs.shape == mine.shape and np.array_equal(np.asarray(theirs, dtype="float64"), np.asarray(mine, dtype="float64"), equal_nan=True),
                    "planes_yx(%r): plane %r selects shape %r values %r, the window of that plane of the mosaic is shape %r values %r (mosaic %dx%d)",
                    window, idx, np.shape(theirs), np.ravel(theirs)[:8].tolist(), np.shape(mine), np.ravel(mine)[:8].tolist(), NY, NX)
        T.cls("planes_of_a_window")
    # classification
    absent = len(case["present"]) < len(chy) * len(chx)
    cuts = False
    if window is not None:
        ys = mk(window[len(prefix)]) if len(window) > len(prefix) and (len(window) != 2) else mk(window[0]) if len(window) == 2 else slice(None)
        if isinstance(ys, slice):
            y0, y1, _ = ys.indices(NY)
            cuts = sum(1 for i in range(len(chy)) if oy[i] < y1 and oy[i + 1] > y0) >= 2
    if absent and (cuts or window is None) and len(case["present"]) > 0:
        T.nontrivial()
    T.cls("absent_blocks" if absent else "all_present")
    T.cls("axis%d" % a + ("+postfix" if postfix else ""))
    T.cls("window:" + case["wform"])
    if len(set(case["dtypes"])) > 1:
        T.cls("mixed_dtypes")
    if not blocks:
        T.cls("no_blocks")


def o_zero(case, T):
    """Zero-sized rectangles: handled or rejected cleanly (no partition claim)."""
    from odc.geo.roi import Tiles

    try:
        tt = Tiles(tuple(case["base"]), tuple(case["tile"]))
        sh = tuple(tt.shape.yx)
        require(all(s >= 0 for s in sh), "negative tile count %r for empty base", sh)
    except (ValueError, IndexError, ZeroDivisionError, AssertionError):
        pass
    T.nontrivial()


def build(chk: Check) -> None:
    chk.sub("tiles_enum", o_tiles, enum=e_regular, exhaustive_tiers=("thorough",), budget_s={"quick": 80, "thorough": 900})
    chk.sub("vtiles_enum", o_tiles, enum=e_variable, exhaustive_tiers=("thorough",), budget_s={"quick": 80, "thorough": 900})
    chk.sub("vtiles_gen", o_tiles, strategy=s_variable(), n={"quick": 400, "thorough": 40000})
    chk.sub("tiles_gen", o_tiles, strategy=s_regular_big(), n={"quick": 150, "thorough": 8000})
    chk.sub("roi_tiles", o_roi_tiles, strategy=st.one_of(s_variable(), s_regular_big()), n={"quick": 300, "thorough": 20000})
    chk.sub("geobox_tiles", o_gbt, strategy=s_gbt(), n={"quick": 600, "thorough": 50000})
    chk.sub("assembler", o_asm, cov={"quick": 1500, "thorough": 150000}, strategy=s_asm(), n={"quick": 3000, "thorough": 200000})
    chk.sub("zero_size", o_zero, enum=lambda tier: [{"base": b, "tile": t} for b in ([0, 0], [0, 5], [5, 0]) for t in ([1, 1], [4, 4])], exhaustive_tiers=("quick", "thorough"))
