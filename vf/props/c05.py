"""C05 - parallel (dask) COG writer produces a correct, overview-first GeoTIFF.

Every case is written end to end with ``save_cog_with_dask(...).compute()`` under a drawn schedule and the
*file* is then examined by independent readers:

``gdal_decode``   rasterio/GDAL: band count/order, dtype, pixels of the un-padded window, transform, CRS, nodata,
                  overviews recognised, each overview exactly half and made of parent-block members.
``tiff_decode``   tifffile (no GDAL): every IFD decoded on its own, same pixel / halving / membership predicates,
                  transform + EPSG code + nodata re-derived from the raw GeoTIFF tags.
``layout``        raw TIFF tags: tile offset/bytecount ranges are distinct, contiguous from end-of-header to EOF,
                  overview data first and smaller levels first, padding rule, tile sizes, level count.
``header_rule``   no compute: the header ``save_cog_with_dask(xx, "")`` prepares, for many more (and larger) shapes:
                  level count, padding, halving, tile sizes, transform/CRS tags.
"""
from __future__ import annotations

import atexit
import itertools
import math
import os
import random
import shutil
import tempfile
import traceback

import numpy as np
from hypothesis import strategies as st

from vf.common import Check, HarnessError, Violation, require
from vf.strategies import CRS_POOL, SINU_PROJ, affines, mk_affine, mk_crs_spec, simple_tag

RULE = (
    "Hypothesis-generated end-to-end writes (configuration = deterministic function of Hypothesis-drawn seed + "
    "geo-referencing, with explicit class weights): shape sides from {1, 2-15 (narrower than a tile), 16-64, 65-400 "
    "(640 thorough), 2^k and 2^k+-1, exact tile multiples, thin 1-6 x 40-400 strips}, axis YX / YXS(1-4) / SYX(1-3) "
    "incl. shapes whose axis order is ambiguous, dtype u1,i1,u2,i2,u4,i4,i8,u8,f4,f8, blocksize Unset / int / list of "
    "1-3 ints or (y,x) pairs (multiples of 16 or not), every lossless codec that tifffile+imagecodecs encode and GDAL "
    "decodes in this image (deflate, adobe_deflate, zstd, lzw, lzma, packbits, lerc, lerc_deflate, lerc_zstd) with the "
    "predictors the codec admits, nodata None/0/in-range/NaN, source chunking single / regular / tile-aligned / "
    "irregular / irregular-with-largest-chunk==tile, spill_sz default/0/1..64k, writes_per_chunk 1-8, stats "
    "on/off/int, bigtiff on/off, schedule = single-threaded random topological order (seed in the case) / "
    "threads(2,4,8) / dask default order; pixel content index ramp, random, blocky or constant with nodata/NaN holes; "
    "GeoBox any sign/non-square/rotated/sheared affine (exact dyadic and general family) in 9 CRSs. Oracles: rasterio "
    "decode, tifffile decode, raw tag layout; plus header-only layout rule for shapes up to 6000 px. Non-trivial: image "
    "not a multiple of the level-0 tile, or >=1 overview, or >1 sample; distinct = distinct case."
)
ASSUMPTIONS = [
    "tifffile's tag parser and rasterio/GDAL are trusted as independent TIFF readers",
    "overview pixels are only required to be a member of their 2x2 parent block (nearest-neighbour halving is "
    "ambiguous at the block centre); blocks straddling the padding may also hold 0/nodata/NaN; padding content is free",
    "transform equality is bit-exact on the exact (dyadic) affine family; on the general family the tolerance is "
    "64*eps*(|c|+|f|+4*max|linear|) per coefficient because the header template goes through float pixel-centre "
    "coordinates (xarray coords) inside odc-geo",
    "GeoBoxes are placed inside the CRS's area of use (origin = centre of the valid lon/lat box, footprint < 13 deg / "
    "< 100 km): GDAL/PROJ refuse even a same-CRS overview warp far outside it, and treat an identity-like geotransform "
    "as 'not georeferenced' (environment quirks)",
    "only codec/predictor/dtype combinations that both tifffile and GDAL decode losslessly in this image are generated "
    "(compression NONE is not: the dask writer never supported it with tifffile's identity codec)",
    "AssertionError from MPUChunk.flush_rhs with a multi-chunk final partition and spill_sz>0 is C06's D15 and is "
    "counted under excluded, not reported here",
    "no NaN pixels are generated with LERC codecs (LERC stores NaN as invalid; readers return -FLT_MAX)",
    "64-bit integer pixels are drawn from +-2^52 (overview resampling goes through float64 in GDAL)",
    "explicit blocksize entries are expected to become tile sizes rounded up to a multiple of 16 (documented layout "
    "rule); with blocksize Unset only 'multiple of 16' is demanded",
]
SHARDS = {"quick": 4, "thorough": 16}

EPS = 2.220446049250313e-16

# --------------------------------------------------------------------------------------------- codec table
# name -> (allowed predictor settings, allowed dtypes or None for all).  Established by probing this image
# (tifffile 2026.9 + imagecodecs 2026.8 encode, GDAL 3.12 decode); re-checked at build time by _codecs().
_ALL_DT = ["uint8", "int8", "uint16", "int16", "uint32", "int32", "int64", "uint64", "float32", "float64"]
_LERC_DT = ["uint8", "int8", "uint16", "int16", "uint32", "int32", "float32", "float64"]
_PRED_FULL = [None, False, True, "native"]  # "native" = explicit 2 for ints, 3 for floats
_PRED_OFF = [None, False]
CODECS = {
    "deflate": (_PRED_FULL, _ALL_DT, 8),
    "adobe_deflate": (_PRED_FULL, _ALL_DT, 8),
    "zstd": (_PRED_FULL, _ALL_DT, 50000),
    "lzw": (_PRED_FULL, _ALL_DT, 5),
    "lzma": (_PRED_FULL, _ALL_DT, 34925),
    "packbits": (_PRED_OFF, _ALL_DT, 32773),
    "lerc": (_PRED_OFF, _LERC_DT, 34887),
    "lerc_deflate": (_PRED_OFF, _LERC_DT, 34887),
    "lerc_zstd": (_PRED_OFF, _LERC_DT, 34887),
}
_LEVEL_OK = {"deflate", "adobe_deflate", "zstd", "lzma"}
_codec_cache = None


def _codecs():
    """Codecs of CODECS that really work here: tifffile encodes a tile and GDAL can create a GTiff with it."""
    global _codec_cache
    if _codec_cache is not None:
        return _codec_cache
    from rasterio.io import MemoryFile
    from tifffile import TIFF

    out = []
    a = np.arange(256, dtype="uint8").reshape(16, 16)
    for name, (_, _, code) in CODECS.items():
        try:
            kw = {"lerc_deflate": {"compression": "deflate"}, "lerc_zstd": {"compression": "zstd"}}.get(name, {})
            b = TIFF.COMPRESSORS[code](a, **kw)
            TIFF.DECOMPRESSORS[code]  # noqa: B018  (KeyError when the decoder is missing)
            if not isinstance(b, (bytes, bytearray)) or len(b) == 0:
                continue
            tag = {"adobe_deflate": "DEFLATE"}.get(name, name.upper())
            with MemoryFile() as mf:
                with mf.open(driver="GTiff", width=16, height=16, count=1, dtype="uint8", compress=tag, tiled=True, blockxsize=16, blockysize=16) as ds:
                    ds.write(a, 1)
                with mf.open() as ds:
                    if not np.array_equal(ds.read(1), a):
                        continue
        except Exception:  # noqa: BLE001
            continue
        out.append(name)
    if not out:
        raise HarnessError("C05: no usable compression codec found")
    _codec_cache = out
    return out


# --------------------------------------------------------------------------------------------- generator
_SPECIAL = [16, 32, 64, 128, 256, 15, 17, 31, 33, 63, 65, 127, 129, 255, 257]
_BLOCKS = [16, 16, 16, 32, 32, 32, 48, 64, 64, 96, 128, 256, 512, 1, 7, 17, 20, 33, 50, 100, 200]
_BLOCKS0 = [16, 16, 32, 32, 48, 64, 17, 20, 33, 50]  # level-0 entries that give many tiles
_CRS_LABELS = ["4326", "4283", "3857", "3577", "32633", "32755", "3035", "6933", "sinu"]


def _w(R, pairs):
    """weighted choice: pairs = [(weight, value), ...]"""
    return R.choices([v for _, v in pairs], weights=[w_ for w_, _ in pairs])[0]


def _side(R, max_side):
    k = _w(R, [(5, "one"), (7, "narrow"), (25, "mid"), (48, "big"), (15, "special")])
    if k == "one":
        return 1
    if k == "narrow":
        return R.randint(2, 15)
    if k == "mid":
        return R.randint(16, 64)
    if k == "big":
        return R.randint(65, max_side)
    return R.choice([v for v in _SPECIAL if v <= max_side])


def _a16(v):
    return -(-int(v) // 16) * 16


def _norm_block(b):
    """blocksize entry -> (ty, tx) by the documented rule: ints are square, everything rounded up to 16."""
    if isinstance(b, (list, tuple)):
        return (_a16(b[0]), _a16(b[1]))
    return (_a16(b), _a16(b))


def _novr(dim, tile):
    c = 0
    while tile < dim:
        dim //= 2
        c += 1
    return c


def _chunksize(case):
    return (max(case["chunks"]["y"]), max(case["chunks"]["x"]))


def _block_list(case):
    """Requested blocksize list (None entries impossible).  For Unset: what the docstring-less default derives
    from the source chunking -- only used for cost control and classification, never as an oracle."""
    b = case["blocksize"]
    if b is None:
        cy, cx = _chunksize(case)
        return [[cy, cx], max(1, max(cy, cx) // 2)]
    if isinstance(b, int):
        return [b]
    return list(b)


def expected_layout(shape, blocks):
    """Independent statement of the layout rule: returns (n_levels, padded (H, W), [tile per level])."""
    H, W = shape
    tiles = [_norm_block(b) for b in blocks]
    ty, tx = tiles[-1]
    n = max(_novr(H, ty), _novr(W, tx))
    pad = 2**n
    Hp, Wp = -(-H // pad) * pad, -(-W // pad) * pad
    per_level = [tiles[min(k, len(tiles) - 1)] for k in range(n + 1)]
    return n, (Hp, Wp), per_level


def _cuts(R, n, kind, tile):
    """chunk tuple along an axis of length n."""
    if kind == "single" or n == 1:
        return [n]
    if kind == "tilemax":
        # what slicing a tile-chunked array gives: a short first chunk, then full tiles -- irregular, but the largest
        # chunk equals the tile
        if n < tile + 1:
            return [n]
        first = R.randint(1, min(tile - 1, n - tile))
        rest = n - first
        return [first] + [tile] * (rest // tile) + ([rest % tile] if rest % tile else [])
    if kind == "tile":
        c = max(1, min(tile, n))
    elif kind == "regular":
        lo = max(1, -(-n // 10))
        pool = [v for v in (7, 16, 32, 50, 64, 100, 256) if lo <= v < n]
        c = R.choice(pool) if pool and R.random() < 0.6 else R.randint(lo, n)
    else:  # irregular
        k = R.randint(1, min(4, n - 1))
        pts = [0] + sorted(R.sample(range(1, n), k)) + [n]
        return [y - x for x, y in zip(pts, pts[1:])]
    out = [c] * (n // c)
    if n % c:
        out.append(n % c)
    return out


def _nodata_for(R, dtype):
    dt = np.dtype(dtype)
    if dt.kind == "f":
        return R.choice([None, None, None, 0, -9999, "nan", "nan", "nan", 1])
    info = np.iinfo(dt)
    opts = [None, None, None, 0, 1, int(info.max)]
    if dt.kind == "i":
        opts += [int(info.min) if dt.itemsize == 1 else -9999, -1]
    if dt.itemsize == 8:
        # GDAL_NODATA is text parsed as a double by readers: keep 64-bit values exactly representable
        opts = [None, None, 0, 1, -9999 if dt.kind == "i" else 2**40]
    return R.choice(opts)


def _is_rot(geo):
    return any(k in geo["klass"] for k in ("r90", "r180", "r270", "shear", "pyth", "rot"))


_origin_cache = {}


def _origin(label):
    """A point well inside the CRS's area of use, in CRS units (GDAL/PROJ refuse to build even a same-CRS
    'transformation' for rasters far outside the area of use of e.g. GDA94 -- a back-end trait)."""
    if label not in _origin_cache:
        kind, (w, s_, e, n) = CRS_POOL[label]
        lon, lat = ((w + e) / 2, (s_ + n) / 2) if e - w < 300 else (25.0, 35.0)
        if kind == "geographic":
            _origin_cache[label] = (float(round(lon)), float(round(lat)))
        else:
            from pyproj import Transformer

            x, y = Transformer.from_crs(4326, mk_crs_spec(simple_tag(label)), always_xy=True).transform(lon, lat)
            _origin_cache[label] = (float(round(x / 1000) * 1000), float(round(y / 1000) * 1000))
    return _origin_cache[label]


@st.composite
def s_geo(draw, allow_rot=True):
    """GeoBox placement: any sign / non-square / rotated / sheared linear part, origin inside the CRS's valid area."""
    family = draw(st.sampled_from(["exact", "exact", "general"]))
    # a rotated GeoBox with a single row/column does not survive wrap_xr -> .odc.geobox (xarray registration,
    # property C09): never generated here
    rotated = draw(st.sampled_from([False, False, False, True])) if allow_rot else False
    coeffs, fam, klass = draw(affines(family=family, rotated=rotated))
    label = draw(st.sampled_from(_CRS_LABELS))
    geographic = CRS_POOL[label][0] == "geographic"
    # keep the footprint (<= ~420 px per side) inside the valid area: degrees need small pixels
    if fam == "exact":
        f = 2.0**-12 if geographic else 1.0
    else:
        f = 2e-5 if geographic else 0.1
    x0, y0 = _origin(label)
    span = 2 if geographic else 10000
    if fam == "exact":
        off = st.integers(-span * 16, span * 16).map(lambda k: k / 16)
    else:
        off = st.floats(-span, span)
    a, b, _, d, e, _ = coeffs
    out = [a * f, b * f, x0 + draw(off), d * f, e * f, y0 + draw(off)]
    return {"affine": out, "crs": simple_tag(label), "family": fam, "klass": klass}


def gen_case(R, focus=None, max_side=400, max_tiles=260):
    """Everything but the geo-referencing, constructed from a seeded ``random.Random`` (seed drawn by Hypothesis)
    so that the class weights below are what is actually generated."""
    H, W = _side(R, max_side), _side(R, max_side)
    if focus == "thin":  # extreme aspect ratios: one side tiny, other long
        if R.random() < 0.5:
            H, W = R.randint(1, 6), R.randint(40, max_side)
        else:
            W, H = R.randint(1, 6), R.randint(40, max_side)
    axis = R.choice(["YX", "YXS", "SYX"])
    ns = 1 if axis == "YX" else R.randint(1, 4 if axis == "YXS" else 3)
    if axis == "SYX" and focus is None and R.random() < 0.08:
        # shapes whose axis order cannot be told from the shape alone: (S, H, 3|4) and S == H == W
        if R.random() < 0.7:
            W = R.choice([3, 4])
        else:
            ns = H = W = R.choice([2, 3])
    codec = R.choice(_codecs())
    preds, dts, _ = CODECS[codec]
    dtype = _w(R, [(1 if d in ("int64", "uint64") else 3, d) for d in dts])
    pred = R.choice(preds)
    if pred == "native":
        pred = 3 if np.dtype(dtype).kind == "f" else 2
        if np.dtype(dtype).itemsize == 8 and np.dtype(dtype).kind != "f":
            pred = True
    level = R.choice([None, None, 1, 6, 9]) if codec in _LEVEL_OK else None

    # blocksize
    bk = _w(R, [(2, "unset"), (1, "int"), (4, "list"), (3, "pairs")])

    def bent(first=False):
        return R.choice(_BLOCKS0 if first and R.random() < 0.6 else _BLOCKS)

    if bk == "unset":
        blocksize = None
    elif bk == "int":
        blocksize = bent(True)
    elif bk == "list":
        blocksize = [bent(i == 0) for i in range(R.randint(1, 3))]
    else:
        blocksize = [[bent(i == 0), bent(i == 0)] if R.random() < 0.6 else bent(i == 0) for i in range(R.randint(1, 3))]
        if not any(isinstance(v, list) for v in blocksize):
            blocksize[0] = [bent(True), bent(True)]
    if blocksize is not None and focus is None and R.random() < 0.12:
        # the trivial class: image an exact multiple of the level-0 tile
        ty0, tx0 = _norm_block(blocksize if isinstance(blocksize, int) else blocksize[0])
        H = ty0 * R.randint(1, max(1, min(6, max_side // ty0)))
        W = tx0 * R.randint(1, max(1, min(6, max_side // tx0)))
    planes = ns if axis == "SYX" else 1

    # cost control by construction: enlarge the level-0 block until the level-0 tile count fits
    if blocksize is not None:
        bl = [blocksize] if isinstance(blocksize, int) else blocksize
        while -(-H // _norm_block(bl[0])[0]) * -(-W // _norm_block(bl[0])[1]) * planes > max_tiles:
            b0 = bl[0]
            bl[0] = [b0[0] * 2, b0[1] * 2] if isinstance(b0, list) else b0 * 2
        blocksize = bl[0] if isinstance(blocksize, int) else bl

    # source chunking
    ck = _w(R, [(2, "single"), (3, "regular"), (2, "tile"), (3, "irregular"), (2, "tilemax")])
    t0 = _norm_block(([blocksize] if isinstance(blocksize, int) else blocksize)[0]) if blocksize is not None else (64, 64)
    chunks = {"y": _cuts(R, H, ck, t0[0]), "x": _cuts(R, W, ck, t0[1])}
    if blocksize is None:
        # Unset derives tiles from the chunking: keep the tile count bounded by coarsening the chunking
        while -(-H // _a16(max(chunks["y"]))) * -(-W // _a16(max(chunks["x"]))) * planes > max_tiles:
            if len(chunks["y"]) > 1:
                chunks["y"] = [H]
            else:
                chunks["x"] = [W]
    if ns > 1:
        sk = R.choice(["single", "each", "irregular"])
        chunks["s"] = [ns] if sk == "single" else [1] * ns if sk == "each" else ([ns - 1, 1] if ns > 2 else [1, 1])
    else:
        chunks["s"] = [ns]

    case = {
        "shape": [H, W], "axis": axis, "ns": ns, "dtype": dtype,
        "blocksize": blocksize, "bkind": bk, "chunks": chunks, "ckind": ck,
        "compression": codec, "comp_spell": R.choice(["compression", "compression", "COMPRESSION", "compress"]),
        "predictor": pred, "level": level,
        "nodata": _nodata_for(R, dtype),
        "bigtiff": R.random() < 0.65,
    }
    n_lvl, _, _ = expected_layout((H, W), _block_list(case))
    case["stats"] = _w(R, [(2, True), (2, False), (1, "int")])
    if case["stats"] == "int":
        case["stats"] = R.randint(0, n_lvl)
    case["spill_sz"] = _w(R, [(3, None), (1, 0), (1, 1), (1, 512), (1, 4096), (1, 5000), (1, 16384), (1, 65536)])
    case["wpc"] = R.choice([None, 1, 1, 2, 3, 4, 8])
    case["upload_via"] = R.choice(["kw", "kw", "aws"])
    sk = _w(R, [(5, "random"), (4, "threads"), (1, "default")])
    if sk == "random":
        case["sched"] = {"kind": "random", "seed": R.randrange(2**31)}
    elif sk == "threads":
        case["sched"] = {"kind": "threads", "workers": R.choice([2, 4, 8])}
    else:
        case["sched"] = {"kind": "default"}
    case["pix"] = {
        "kind": _w(R, [(3, "index"), (3, "random"), (2, "blocky"), (1, "const"), (2 if np.dtype(dtype).kind == "f" else 0, "huge")]),
        "seed": R.randrange(2**31),
        "holes": R.choice([0.0, 0.0, 0.1, 0.5]),
    }
    if case["pix"]["kind"] == "huge" and R.random() < 0.7:
        case["stats"] = True  # statistics of huge values are the point of that class
    # something already sits at the destination path (a product regenerated in place): the produced file must be the
    # new image and nothing else
    case["preexisting"] = R.choice([None, None, None, "short", "long"])
    return case


@st.composite
def s_case(draw, focus=None, max_side=400, max_tiles=260):
    # All randomness is Hypothesis': the configuration is a deterministic function of the drawn seed *and* the drawn
    # geo-referencing (Hypothesis likes to repeat / copy integers between examples; mixing in the floats keeps the
    # configurations distinct).
    seed = draw(st.integers(0, 2**63 - 1))
    geo_rot = draw(s_geo(allow_rot=True))
    geo_plain = draw(s_geo(allow_rot=False))
    R = random.Random(repr((seed, geo_rot["affine"], geo_rot["crs"]["label"], geo_plain["affine"], geo_plain["crs"]["label"])))
    case = gen_case(R, focus=focus, max_side=max_side, max_tiles=max_tiles)
    case["geo"] = geo_rot if min(case["shape"]) > 1 else geo_plain
    return case


# --------------------------------------------------------------------------------------------- building the input
def _nodata_value(case):
    nd = case["nodata"]
    if nd is None:
        return None
    if nd == "nan":
        return float("nan")
    return nd


def make_pixels(case):
    """Band-first reference array (S, H, W) of the case's dtype; deterministic in the case."""
    H, W = case["shape"]
    S = case["ns"]
    dt = np.dtype(case["dtype"])
    pix = case["pix"]
    rng = np.random.default_rng(pix["seed"])
    kind = pix["kind"]
    n = S * H * W
    if dt.kind == "f":
        lo, hi = -1e6, 1e6
    else:
        info = np.iinfo(dt)
        lo, hi = int(info.min), int(info.max)
        if dt.itemsize == 8:  # overviews are resampled through float64: stay exactly representable
            lo, hi = max(lo, -(2**52)), 2**52
    if kind == "index":
        idx = np.arange(n, dtype="int64").reshape(S, H, W) * 7 + 3
        if dt.kind == "f":
            a = (idx * 0.25 - 1000.0).astype(dt)
        elif dt.itemsize >= 4:
            a = (idx + (lo if dt.kind == "i" and dt.itemsize == 4 else 0)).astype(dt)
        else:
            span = hi - lo + 1
            a = ((idx % span) + lo).astype(dt)
    elif kind == "random":
        if dt.kind == "f":
            a = (rng.standard_normal((S, H, W)) * 1e3).astype(dt)
        else:
            a = rng.integers(lo, hi, size=(S, H, W), dtype=dt, endpoint=True)
    elif kind == "huge":
        # magnitudes near the top of the type's range (what an undeclared 9.96921e36 fill value or accumulated
        # counts look like): statistics and any text rendering of them get long
        if dt.kind == "f":
            big = 1e36 if dt.itemsize == 4 else 1e150
            a = (rng.standard_normal((S, H, W)) * big).astype(dt)
            a[rng.random((S, H, W)) < 0.2] = dt.type(9.96921e36)
        else:
            # integers at the ends of the range sit next to typical nodata values, where GDAL's overview warp
            # compares in floating point and nudges valid neighbours (back-end trait): plain random integers instead
            a = rng.integers(lo, hi, size=(S, H, W), dtype=dt, endpoint=True)
    elif kind == "blocky":
        by, bx = -(-H // 24), -(-W // 24)
        small = rng.integers(0, 100, size=(S, by, bx))
        a = np.repeat(np.repeat(small, 24, axis=1), 24, axis=2)[:, :H, :W].astype(dt)
    else:  # const
        a = np.full((S, H, W), 7, dtype=dt)
    nd = _nodata_value(case)
    # LERC stores NaN as "invalid" and readers hand back -FLT_MAX for it: a codec trait, so no NaN pixels with LERC
    nan_ok = dt.kind == "f" and not case["compression"].startswith("lerc")
    if pix["holes"] > 0:
        m = rng.random((S, H, W)) < pix["holes"]
        if nd is not None and (nan_ok or not (isinstance(nd, float) and math.isnan(nd))):
            a[m] = nd
        elif nan_ok:
            a[m] = np.nan
        if nan_ok:
            m2 = rng.random((S, H, W)) < pix["holes"] / 4
            a[m2] = np.nan
    return a


def build_input(case):
    import dask.array as da
    from odc.geo.geobox import GeoBox
    from odc.geo.xr import wrap_xr

    H, W = case["shape"]
    S, axis = case["ns"], case["axis"]
    ref = make_pixels(case)
    geo = case["geo"]
    gbox = GeoBox((H, W), mk_affine(geo["affine"]), mk_crs_spec(geo["crs"]))
    ch = case["chunks"]
    nd = _nodata_value(case)
    if axis == "YX":
        d = da.from_array(ref[0], chunks=(tuple(ch["y"]), tuple(ch["x"])))
        xx = wrap_xr(d, gbox, nodata=nd)
    elif axis == "YXS":
        d = da.from_array(np.ascontiguousarray(ref.transpose(1, 2, 0)), chunks=(tuple(ch["y"]), tuple(ch["x"]), tuple(ch["s"])))
        xx = wrap_xr(d, gbox, nodata=nd)
    else:
        d = da.from_array(ref, chunks=(tuple(ch["s"]), tuple(ch["y"]), tuple(ch["x"])))
        xx = wrap_xr(d, gbox, nodata=nd, time=[f"2001-01-{i + 1:02d}" for i in range(S)], axis=1)
    return ref, xx, gbox


def writer_kwargs(case):
    kw = {}
    kw[case["comp_spell"]] = case["compression"] if case["comp_spell"] != "COMPRESSION" else case["compression"].upper()
    if case["comp_spell"] == "COMPRESSION":
        kw["compression"] = kw.pop("COMPRESSION")
    if case["predictor"] is not None:
        kw["predictor"] = case["predictor"]
    if case["level"] is not None:
        kw["level"] = case["level"]
    b = case["blocksize"]
    if b is not None:
        kw["blocksize"] = b if isinstance(b, int) else [tuple(x) if isinstance(x, list) else x for x in b]
    kw["bigtiff"] = case["bigtiff"]
    kw["stats"] = case["stats"]
    up = {}
    if case["spill_sz"] is not None:
        up["spill_sz"] = case["spill_sz"]
    if case["wpc"] is not None:
        up["writes_per_chunk"] = case["wpc"]
    if case["upload_via"] == "aws" and up:
        kw["aws"] = up
    else:
        kw.update(up)
    return kw


# --------------------------------------------------------------------------------------------- schedules
class _RandReady(list):
    """dask.local keeps ready tasks in a list and pops the last one; pop a random one instead."""

    def __init__(self, items, rng):
        super().__init__(items)
        self._rng = rng

    def pop(self, *a):  # noqa: D401
        if a or len(self) == 0:
            return super().pop(*a)
        i = self._rng.randrange(len(self))
        self[i], self[-1] = self[-1], self[i]
        return super().pop()


def compute_with_schedule(fut, sched):
    import dask
    from dask.callbacks import Callback

    kind = sched["kind"]
    if kind == "threads":
        return fut.compute(scheduler="threads", num_workers=int(sched["workers"]))
    if kind == "default":
        return fut.compute(scheduler="sync")
    rng = random.Random(int(sched["seed"]))  # seeded from the JSON case: deterministic

    def start_state(dsk, state):
        state["ready"] = _RandReady(state["ready"], rng)

    with dask.config.set({"optimization.fuse.active": False}):
        with Callback(start_state=start_state):
            return fut.compute(scheduler="sync")


# --------------------------------------------------------------------------------------------- writing
_scratch_dir = None
_counter = itertools.count()


def _scratch():
    global _scratch_dir
    d = os.environ.get("VF_SCRATCH")
    if d and os.path.isdir(d):
        return d
    if _scratch_dir is None:  # replay mode: the runner sets no scratch dir
        _scratch_dir = tempfile.mkdtemp(prefix="vf-c05-")
        atexit.register(shutil.rmtree, _scratch_dir, ignore_errors=True)
    return _scratch_dir


def _is_d15(exc, case):
    """AssertionError at ``assert can_flush(write)`` in MPUChunk.flush_rhs with the D15 preconditions."""
    if not isinstance(exc, AssertionError):
        return False
    frames = traceback.extract_tb(exc.__traceback__)
    hit = any(os.path.basename(f.filename) == "_mpu.py" and f.name == "flush_rhs" for f in frames)
    if not hit:
        return False
    if not case["spill_sz"]:
        return False
    _, (Hp, Wp), tiles = expected_layout(case["shape"], _block_list(case))
    ty, tx = tiles[0]
    return -(-Hp // ty) * -(-Wp // tx) > 20  # final bag was repartitioned: its last partition holds >= 2 tiles


class Written:
    def __init__(self, case, path, ref, gbox):
        self.case, self.path, self.ref, self.gbox = case, path, ref, gbox

    def close(self):
        for p in (self.path,):
            try:
                os.unlink(p)
            except OSError:
                pass
        parts = os.path.join(os.path.dirname(self.path), "." + os.path.basename(self.path) + ".parts")
        shutil.rmtree(parts, ignore_errors=True)


def write_case(case, T):
    """Run the writer.  Returns Written or None (excluded)."""
    from odc.geo.cog import save_cog_with_dask

    ref, xx, gbox = build_input(case)
    if transform_close(xx.odc.geobox.affine, gbox.affine, case["geo"]["family"]) is not None:
        T.exclude("xarray_registration_changes_geobox(C09)")
        return None
    path = os.path.join(_scratch(), f"c05-{os.getpid()}-{next(_counter)}.tif")
    w = Written(case, path, ref, gbox)
    w.close()
    pre = case.get("preexisting")
    if pre:
        with open(path, "wb") as f:
            f.write(b"II*\x00 previous product at this path " * (3 if pre == "short" else 40000))
        T.cls("destination_existed_" + pre)
    try:
        fut = save_cog_with_dask(xx, path, **writer_kwargs(case))
        rr = compute_with_schedule(fut, case["sched"])
    except AssertionError as e:
        w.close()
        if _is_d15(e, case):
            T.exclude("D15_final_partition_spill_assert(C06)")
            return None
        raise
    except BaseException:
        w.close()
        raise
    if str(rr) != path:
        w.close()
        raise Violation(f"compute() returned {rr!r}, expected the destination path")
    if not os.path.isfile(path):
        raise Violation("compute() finished but the destination file does not exist")
    parts = os.path.join(os.path.dirname(path), "." + os.path.basename(path) + ".parts")
    if os.path.exists(parts):
        w.close()
        raise Violation("part files directory left behind after finalise")
    return w


def classify(case, T):
    H, W = case["shape"]
    n, (Hp, Wp), tiles = expected_layout((H, W), _block_list(case))
    ty, tx = tiles[0]
    T.cls("axis_%s" % case["axis"])
    T.cls("ns_%d" % case["ns"])
    T.cls("dtype_%s" % case["dtype"])
    T.cls("codec_%s" % case["compression"])
    T.cls("pred_%s" % case["predictor"])
    T.cls("levels_%s" % (n if n < 4 else "4+"))
    if H == 1 or W == 1:
        T.cls("single_row_or_col")
    if H < 16 or W < 16:
        T.cls("narrower_than_tile")
    if (Hp, Wp) != (H, W):
        T.cls("padded")
    if H % ty or W % tx:
        T.cls("not_multiple_of_tile")
    if min(Hp, Wp) >> n == 1 and n > 0:
        T.cls("last_level_side_1")
    T.cls("nodata_%s" % ("none" if case["nodata"] is None else "nan" if case["nodata"] == "nan" else "value"))
    T.cls("sched_%s" % case["sched"]["kind"])
    sp = case["spill_sz"]
    T.cls("spill_%s" % ("default" if sp is None else "0" if sp == 0 else "small" if sp < 4096 else "ge4096"))
    T.cls("wpc_%s" % case["wpc"])
    T.cls("block_%s" % case["bkind"])
    T.cls("chunks_%s" % case["ckind"])
    T.cls("bigtiff" if case["bigtiff"] else "classic_tiff")
    T.cls("stats_%s" % (case["stats"] if isinstance(case["stats"], bool) else "int"))
    planes = case["ns"] if case["axis"] == "SYX" else 1
    nt0 = -(-Hp // ty) * -(-Wp // tx)
    if nt0 > 20:
        T.cls("repartitioned_bags")
    if (n + 1) * planes > 4:
        T.cls("concat_substreams")
    T.cls("geo_%s%s" % (case["geo"]["family"], "_rot" if _is_rot(case["geo"]) else ""))
    T.cls("pix_%s" % case["pix"]["kind"])
    if H % ty or W % tx or n >= 1 or case["ns"] > 1:
        T.nontrivial()


# --------------------------------------------------------------------------------------------- shared predicates
def _eq(a, b):
    """element-wise equality, NaN == NaN."""
    if a.dtype.kind == "f":
        return (a == b) | (np.isnan(a) & np.isnan(b))
    return a == b


def _first_bad(mask):
    i = np.argwhere(~mask)
    return tuple(int(v) for v in i[0]) if len(i) else None


def check_window(got, ref, what):
    """got (S, Hp, Wp) decoded level 0; ref (S, H, W)."""
    S, H, W = ref.shape
    require(got.ndim == 3 and got.shape[0] == S, "%s: %d bands/samples decoded, expected %d", what, got.shape[0] if got.ndim == 3 else -1, S)
    require(got.dtype == ref.dtype, "%s: decoded dtype %s, expected %s", what, got.dtype, ref.dtype)
    require(got.shape[1] >= H and got.shape[2] >= W, "%s: decoded size %r smaller than the image %r", what, got.shape[1:], (H, W))
    m = _eq(got[:, :H, :W], ref)
    if not m.all():
        s, y, x = _first_bad(m)
        raise Violation(
            "%s: %d of %d pixels of the un-padded window differ; first at band %d y=%d x=%d: got %r expected %r"
            % (what, int((~m).sum()), m.size, s, y, x, got[s, y, x].item(), ref[s, y, x].item())
        )


def check_halving(parent, child, valid, nodata, what):
    """child must be exactly half of parent and each child pixel a member of its 2x2 parent block.

    valid = (vh, vw): extent of parent that derives from real data.  Returns child's valid extent."""
    S, Hp, Wp = parent.shape
    require(Hp % 2 == 0 and Wp % 2 == 0, "%s: parent level size %r is odd, cannot be halved exactly", what, (Hp, Wp))
    require(child.shape == (S, Hp // 2, Wp // 2), "%s: level size %r is not exactly half of %r", what, child.shape[1:], (Hp, Wp))
    require(child.dtype == parent.dtype, "%s: dtype %s differs from parent %s", what, child.dtype, parent.dtype)
    Hc, Wc = Hp // 2, Wp // 2
    vh, vw = valid
    blocks = parent.reshape(S, Hc, 2, Wc, 2)
    ii = np.arange(Hc)[None, :, None]
    jj = np.arange(Wc)[None, None, :]
    member_full = np.zeros(child.shape, dtype=bool)
    member_valid = np.zeros(child.shape, dtype=bool)
    for di in (0, 1):
        for dj in (0, 1):
            e = _eq(child, blocks[:, :, di, :, dj])
            member_full |= e
            member_valid |= e & (2 * ii + di < vh) & (2 * jj + dj < vw)
    full = np.broadcast_to((2 * ii + 1 < vh) & (2 * jj + 1 < vw), child.shape)
    part = np.broadcast_to((2 * ii < vh) & (2 * jj < vw), child.shape) & ~full
    bad = full & ~member_full
    if bad.any():
        s, y, x = _first_bad(~bad)
        raise Violation(
            "%s: pixel band %d y=%d x=%d = %r is not a member of its 2x2 parent block %r"
            % (what, s, y, x, child[s, y, x].item(), blocks[s, y, :, x, :].tolist())
        )
    fillish = child == 0
    if child.dtype.kind == "f":
        fillish |= np.isnan(child) | (child == np.finfo(child.dtype).min)  # LERC decodes NaN fill as -FLT_MAX
    if nodata is not None and not (isinstance(nodata, float) and math.isnan(nodata)):
        fillish |= child == nodata
    bad = part & ~(member_valid | fillish)
    if bad.any():
        s, y, x = _first_bad(~bad)
        raise Violation(
            "%s: edge pixel band %d y=%d x=%d = %r is neither a valid member of its parent block %r nor a fill value"
            % (what, s, y, x, child[s, y, x].item(), blocks[s, y, :, x, :].tolist())
        )
    return (-(-vh // 2), -(-vw // 2))


def transform_close(got, want, family):
    """None when the six coefficients agree (bit-exact on the exact family), else a description."""
    g = [float(v) for v in tuple(got)[:6]]
    w = [float(v) for v in tuple(want)[:6]]
    if family == "exact":
        tol = 0.0
    else:
        tol = 64 * EPS * (abs(w[2]) + abs(w[5]) + 4 * max(abs(w[0]), abs(w[1]), abs(w[3]), abs(w[4])))
    for i, (x, y) in enumerate(zip(g, w)):
        if not abs(x - y) <= tol:
            return "coefficient %s: file has %r, GeoBox has %r (tol %.3g)" % ("abcdef"[i], x, y, tol)
    return None


def nodata_matches(got, want):
    if want is None:
        return got is None
    if got is None:
        return False
    if isinstance(want, float) and math.isnan(want):
        return isinstance(got, float) and math.isnan(got)
    return float(got) == float(want)


# --------------------------------------------------------------------------------------------- oracle 1: GDAL
def gdal_checks(w, case):
    import rasterio

    ref, gbox = w.ref, w.gbox
    S, H, W = ref.shape
    nd = _nodata_value(case)
    with rasterio.open(w.path) as ds:
        require(ds.driver == "GTiff", "GDAL opened the file with driver %s", ds.driver)
        require(ds.count == S, "GDAL sees %d bands, expected %d", ds.count, S)
        require(all(np.dtype(d) == ref.dtype for d in ds.dtypes), "GDAL band dtypes %r, expected %s", ds.dtypes, ref.dtype)
        lvl0 = ds.read()
        check_window(lvl0, ref, "GDAL level 0")
        msg = transform_close(ds.transform, gbox.affine, case["geo"]["family"])
        require(msg is None, "GDAL transform differs from the GeoBox (padding not on right/bottom only?): %s", msg)
        label = case["geo"]["crs"]["label"]
        require(ds.crs is not None, "GDAL finds no CRS in the file")
        if label == "sinu":
            import pyproj

            require(pyproj.CRS(ds.crs.to_wkt()) == pyproj.CRS(SINU_PROJ), "GDAL CRS %s is not the sinusoidal CRS written", ds.crs.to_string()[:120])
        else:
            require(ds.crs.to_epsg() == int(label), "GDAL CRS is EPSG:%r, expected EPSG:%s", ds.crs.to_epsg(), label)
        require(all(nodata_matches(v, nd) for v in ds.nodatavals), "GDAL nodata %r, expected %r", ds.nodatavals, nd)
        factors = [ds.overviews(b + 1) for b in range(S)]
        require(all(f == factors[0] for f in factors), "bands have different overview lists %r", factors)
        factors = factors[0]
        require(factors == [2 ** (k + 1) for k in range(len(factors))], "GDAL overview factors %r are not successive halvings", factors)
        n_exp, padded, _ = expected_layout((H, W), _block_list(case)) if case["blocksize"] is not None else (None, None, None)
        if n_exp is not None:
            require(len(factors) == n_exp, "GDAL sees %d overviews, layout rule gives %d", len(factors), n_exp)
            require((ds.height, ds.width) == padded, "GDAL raster size %r, layout rule pads %r to %r", (ds.height, ds.width), (H, W), padded)
        pad = 2 ** len(factors)
        require(ds.height % pad == 0 and ds.width % pad == 0, "raster size %r is not a multiple of 2^levels=%d", (ds.height, ds.width), pad)
        require(ds.height - H < pad and ds.width - W < pad, "raster size %r padded beyond the next multiple of %d above %r", (ds.height, ds.width), pad, (H, W))
    parent, valid = lvl0, (H, W)
    for k in range(len(factors)):
        with rasterio.open(w.path, OVERVIEW_LEVEL=k) as ov:
            child = ov.read()
        valid = check_halving(parent, child, valid, nd, "GDAL overview %d" % (k + 1))
        parent = child


# --------------------------------------------------------------------------------------------- oracle 2: tifffile
def _page_array(page):
    """decode one IFD -> (S, H, W)."""
    a = page.asarray()
    spp = int(page.samplesperpixel)
    require(a.size == spp * page.imagelength * page.imagewidth, "IFD decodes to %d values, tags say %d x %d x %d", a.size, spp, page.imagelength, page.imagewidth)
    if spp == 1:
        a = a.reshape(1, page.imagelength, page.imagewidth)
    elif int(page.planarconfig) == 1:
        a = a.reshape(page.imagelength, page.imagewidth, spp).transpose(2, 0, 1)
    else:
        a = a.reshape(spp, page.imagelength, page.imagewidth)
    return a


def geotags_transform(tags):
    """affine coefficients from the raw GeoTIFF tags (ModelTransformation or PixelScale+Tiepoint)."""
    if 34264 in tags:
        m = [float(v) for v in tags[34264].value]
        require(len(m) == 16, "ModelTransformation has %d values", len(m))
        return (m[0], m[1], m[3], m[4], m[5], m[7])
    require(33550 in tags and 33922 in tags, "no ModelTransformation and no ModelPixelScale/ModelTiepoint tags")
    sx, sy, _ = [float(v) for v in tags[33550].value]
    tp = [float(v) for v in tags[33922].value]
    require(len(tp) == 6, "expected one tie point, got %d values", len(tp))
    i, j, _, x, y, _ = tp
    return (sx, 0.0, x - i * sx, 0.0, -sy, y + j * sy)


def geokeys(tags):
    """GeoKeyDirectory -> {key id: value} for SHORT-valued keys."""
    require(34735 in tags, "no GeoKeyDirectory tag")
    d = [int(v) for v in tags[34735].value]
    out = {}
    for k in range(d[3]):
        kid, loc, cnt, val = d[4 + 4 * k : 8 + 4 * k]
        if loc == 0:
            out[kid] = val
    return out


def check_geotags(page0, case, gbox, what="tags"):
    tags = page0.tags
    msg = transform_close(geotags_transform(tags), gbox.affine, case["geo"]["family"])
    require(msg is None, "%s: transform in GeoTIFF tags differs from the GeoBox: %s", what, msg)
    keys = geokeys(tags)
    label = case["geo"]["crs"]["label"]
    kind = CRS_POOL[label][0]
    require(keys.get(1025) == 1, "%s: GTRasterTypeGeoKey %r, expected 1 (PixelIsArea)", what, keys.get(1025))
    if label == "sinu":
        require(keys.get(1024) == 1 and keys.get(3072) == 32767, "%s: sinusoidal CRS should be a user-defined projected CRS, keys %r", what, keys)
    elif kind == "projected":
        require(keys.get(1024) == 1 and keys.get(3072) == int(label), "%s: ProjectedCSTypeGeoKey %r (model %r), expected %s", what, keys.get(3072), keys.get(1024), label)
    else:
        require(keys.get(1024) == 2 and keys.get(2048) == int(label), "%s: GeographicTypeGeoKey %r (model %r), expected %s", what, keys.get(2048), keys.get(1024), label)
    nd = _nodata_value(case)
    t = tags.get(42113)
    if nd is None:
        require(t is None, "%s: GDAL_NODATA tag %r present although no nodata was set", what, t.value if t else None)
    else:
        require(t is not None, "%s: GDAL_NODATA tag missing, expected %r", what, nd)
        try:
            v = float(str(t.value).strip("\x00 "))
        except ValueError:
            raise Violation("%s: GDAL_NODATA tag %r is not a number" % (what, t.value)) from None
        require(nodata_matches(v, nd), "%s: GDAL_NODATA tag %r, expected %r", what, t.value, nd)


def tiff_checks(w, case):
    import tifffile

    ref, gbox = w.ref, w.gbox
    S, H, W = ref.shape
    nd = _nodata_value(case)
    with tifffile.TiffFile(w.path) as tf:
        pages = list(tf.pages)
        require(len(pages) >= 1, "no IFD in the file")
        arrs = []
        for k, p in enumerate(pages):
            require(p.is_tiled, "IFD %d is not tiled", k)
            require(bool(int(p.subfiletype) & 1) == (k > 0), "IFD %d has NewSubfileType %d (reduced-resolution bit expected only on overviews)", k, int(p.subfiletype))
            arrs.append(_page_array(p))
        check_window(arrs[0], ref, "tifffile IFD 0")
        check_geotags(pages[0], case, gbox)
        valid = (H, W)
        for k in range(1, len(arrs)):
            valid = check_halving(arrs[k - 1], arrs[k], valid, nd, "tifffile IFD %d" % k)
        n = len(pages) - 1
        pad = 2**n
        Hp, Wp = arrs[0].shape[1:]
        require(Hp % pad == 0 and Wp % pad == 0 and Hp - H < pad and Wp - W < pad, "IFD 0 size %r is not %r padded up to the next multiple of 2^levels=%d", (Hp, Wp), (H, W), pad)


# --------------------------------------------------------------------------------------------- oracle 3: layout
_TYPE_SZ = {1: 1, 2: 1, 3: 2, 4: 4, 5: 8, 6: 1, 7: 1, 8: 2, 9: 4, 10: 8, 11: 4, 12: 8, 13: 4, 16: 8, 17: 8, 18: 8}


def header_extent(tf):
    """End of the last IFD / out-of-line tag value (everything that is not tile data)."""
    big = tf.is_bigtiff
    end = 16 if big else 8
    for p in tf.pages:
        nt = len(p.tags)
        end = max(end, p.offset + ((8 + 20 * nt + 8) if big else (2 + 12 * nt + 4)))
        for t in p.tags.values():
            sz = int(t.count) * _TYPE_SZ.get(int(t.dtype), 1)
            if sz > (8 if big else 4):
                end = max(end, int(t.valueoffset) + sz)
    return end


def check_structure(pages, case, H, W, what="file"):
    """Statement clauses that only need IFD sizes and tile sizes.  Returns list of (Hk, Wk, th, tw, planes)."""
    S = case["ns"]
    n = len(pages) - 1
    require(len(pages) >= 1, "%s: no image directory (IFD) found - not a readable TIFF", what)
    dims = []
    for k, p in enumerate(pages):
        th, tw = int(p.tilelength), int(p.tilewidth)
        require(th > 0 and tw > 0 and th % 16 == 0 and tw % 16 == 0, "%s: IFD %d tile size %r is not a multiple of 16", what, k, (th, tw))
        require(int(p.samplesperpixel) == S, "%s: IFD %d has %d samples per pixel, expected %d", what, k, int(p.samplesperpixel), S)
        planes = S if (S > 1 and int(p.planarconfig) == 2) else 1
        dims.append((int(p.imagelength), int(p.imagewidth), th, tw, planes))
    Hp, Wp = dims[0][:2]
    pad = 2**n
    require(Hp >= H and Wp >= W, "%s: IFD 0 size %r smaller than the image %r", what, (Hp, Wp), (H, W))
    require(Hp % pad == 0 and Wp % pad == 0, "%s: padded size %r is not a multiple of 2^levels = %d", what, (Hp, Wp), pad)
    require(Hp - H < pad and Wp - W < pad, "%s: size %r exceeds %r by a whole multiple of 2^levels = %d", what, (Hp, Wp), (H, W), pad)
    for k in range(1, n + 1):
        a, b = dims[k - 1], dims[k]
        require(a[0] == 2 * b[0] and a[1] == 2 * b[1], "%s: IFD %d size %r is not exactly half of IFD %d size %r", what, k, b[:2], k - 1, a[:2])
    if case["blocksize"] is not None:
        n_exp, padded, tiles = expected_layout((H, W), _block_list(case))
        require(n == n_exp and (Hp, Wp) == padded, "%s: levels/padded size %d %r, layout rule gives %d %r", what, n, (Hp, Wp), n_exp, padded)
        for k, d in enumerate(dims):
            require(d[2:4] == tiles[k], "%s: IFD %d tile size %r, blocksize list %r rounds to %r", what, k, d[2:4], case["blocksize"], tiles[k])
    return dims


def layout_checks(w, case):
    import tifffile

    S, H, W = w.ref.shape
    fsize = os.path.getsize(w.path)
    with tifffile.TiffFile(w.path) as tf:
        pages = list(tf.pages)
        dims = check_structure(pages, case, H, W)
        hdr_end = header_extent(tf)
        ranges = []  # (offset, count, level, tile index)
        for k, (p, d) in enumerate(zip(pages, dims)):
            require(324 in p.tags and 325 in p.tags, "IFD %d lacks TileOffsets/TileByteCounts", k)
            offs = [int(v) for v in np.atleast_1d(p.tags[324].value)]
            cnts = [int(v) for v in np.atleast_1d(p.tags[325].value)]
            nt = d[4] * -(-d[0] // d[2]) * -(-d[1] // d[3])
            require(len(offs) == nt and len(cnts) == nt, "IFD %d has %d offsets / %d byte counts for %d tiles", k, len(offs), len(cnts), nt)
            for i, (o, c) in enumerate(zip(offs, cnts)):
                require(c > 0, "IFD %d tile %d has byte count %d (no data written for it)", k, i, c)
                ranges.append((o, c, k, i))
        require(len({r[0] for r in ranges}) == len(ranges), "two tiles share one offset")
        ranges.sort()
        data0 = ranges[0][0]
        require(hdr_end <= data0, "first tile starts at %d inside the header (IFDs/tag values extend to %d)", data0, hdr_end)
        require(data0 - hdr_end <= 16, "gap of %d bytes between the end of the header (%d) and the first tile (%d)", data0 - hdr_end, hdr_end, data0)
        pos = data0
        for o, c, k, i in ranges:
            require(o == pos, "IFD %d tile %d starts at %d but the previous tile ends at %d (%s)", k, i, o, pos, "gap" if o > pos else "overlap")
            pos = o + c
        require(pos == fsize, "last tile ends at %d, file size is %d", pos, fsize)
        # overview-first, smaller levels first
        lo = {}
        hi = {}
        for o, c, k, i in ranges:
            lo[k] = min(lo.get(k, o), o)
            hi[k] = max(hi.get(k, 0), o + c)
        for k in range(1, len(pages)):
            require(hi[k] <= lo[k - 1], "tile data of IFD %d (overview, ends %d) does not precede tile data of IFD %d (starts %d)", k, hi[k], k - 1, lo[k - 1])
        # every entry addresses exactly that tile's bytes: decode each range on its own
        fh = tf.filehandle
        p0, d0 = pages[0], dims[0]
        offs = [int(v) for v in np.atleast_1d(p0.tags[324].value)]
        cnts = [int(v) for v in np.atleast_1d(p0.tags[325].value)]
        ny, nx = -(-d0[0] // d0[2]), -(-d0[1] // d0[3])
        contig = d0[4] == 1
        for i, (o, c) in enumerate(zip(offs, cnts)):
            fh.seek(o)
            data = fh.read(c)
            seg, idx, shp = p0.decode(data, i)
            require(seg is not None, "IFD 0 tile %d: bytes [%d,%d) do not decode", i, o, o + c)
            s, rem = divmod(i, ny * nx)
            ty, tx = divmod(rem, nx)
            seg = np.asarray(seg).reshape(d0[2], d0[3], -1)
            y0, x0 = ty * d0[2], tx * d0[3]
            y1, x1 = min(H, y0 + d0[2]), min(W, x0 + d0[3])
            if y1 <= y0 or x1 <= x0:
                continue
            got = seg[: y1 - y0, : x1 - x0, :]
            want = w.ref[:, y0:y1, x0:x1].transpose(1, 2, 0) if contig else w.ref[s : s + 1, y0:y1, x0:x1].transpose(1, 2, 0)
            require(got.shape == want.shape and bool(_eq(got, want).all()), "IFD 0 tile %d (plane %d, row %d, col %d): bytes [%d,%d) decode to other pixels than that tile's", i, s, ty, tx, o, o + c)


_READER_LIBS = tuple(name + os.sep for name in ("rasterio", "tifffile", "imagecodecs"))  # Cython frames are relative paths


def _guarded(body, *args):
    """Run an oracle body; an exception raised *inside a reader library* (GDAL/tifffile/imagecodecs cannot parse or
    decode the file) is a violation of 'independent TIFF readers decode ...', anything else stays a harness error."""
    try:
        return body(*args)
    except Violation:
        raise
    except Exception as e:  # noqa: BLE001
        frames = traceback.extract_tb(e.__traceback__)
        if any(lib in f.filename for f in frames for lib in _READER_LIBS):
            raise Violation("%s: reader failed on the file: %s: %s" % (body.__name__, type(e).__name__, str(e)[:300])) from e
        raise


def _mk_oracle(*bodies):
    def oracle(case, T):
        w = write_case(case, T)
        if w is None:
            return
        try:
            classify(case, T)
            for body in bodies:
                _guarded(body, w, case)
        finally:
            w.close()

    return oracle


o_gdal = _mk_oracle(gdal_checks)
o_tiff = _mk_oracle(tiff_checks)
o_layout = _mk_oracle(layout_checks)
o_all = _mk_oracle(layout_checks, tiff_checks, gdal_checks)


# --------------------------------------------------------------------------------------------- header rule (no compute)
@st.composite
def s_header(draw):
    big = draw(st.booleans())
    top = 6000 if big else 700
    side = st.one_of(st.integers(1, 40), st.integers(1, top), st.sampled_from([2**k + d for k in range(4, 13) for d in (-1, 0, 1) if 2**k + d <= top]))
    H, W = draw(side), draw(side)
    axis = draw(st.sampled_from(["YX", "YX", "YXS", "SYX"]))
    ns = 1 if axis == "YX" else draw(st.integers(1, 4 if axis == "YXS" else 3))
    bent = st.sampled_from(_BLOCKS + [1024, 2048, 1000])
    nb = draw(st.integers(1, 3))
    blocksize = [draw(st.one_of(bent, st.tuples(bent, bent).map(list))) for _ in range(nb)]
    if draw(st.integers(0, 5)) == 0:
        blocksize = draw(bent)
    bl = [blocksize] if isinstance(blocksize, int) else blocksize
    # bound the number of tiles of every level (graph construction cost)
    for k in range(len(bl)):
        while True:
            ty, tx = _norm_block(bl[k])
            if -(-(H >> k) // ty) * -(-(W >> k) // tx) <= 300:
                break
            bl[k] = [bl[k][0] * 2, bl[k][1] * 2] if isinstance(bl[k], list) else bl[k] * 2
    blocksize = bl[0] if isinstance(blocksize, int) else bl
    return {
        "shape": [H, W], "axis": axis, "ns": ns, "dtype": draw(st.sampled_from(["uint8", "int16", "float32"])),
        "blocksize": blocksize, "bkind": "int" if isinstance(blocksize, int) else "list",
        "chunks": {"y": [H], "x": [W], "s": [ns]}, "ckind": "single",
        "nodata": draw(st.sampled_from([None, 0, -9999])) if True else None,
        "geo": draw(s_geo(allow_rot=min(H, W) > 1)), "bigtiff": draw(st.booleans()),
        "compression": draw(st.sampled_from(["deflate", "zstd"])), "stats": draw(st.booleans()),
    }


def o_header(case, T):
    import dask.array as da
    import tifffile
    from io import BytesIO
    from odc.geo.cog import save_cog_with_dask
    from odc.geo.geobox import GeoBox
    from odc.geo.xr import wrap_xr

    H, W = case["shape"]
    S, axis = case["ns"], case["axis"]
    if case["dtype"] == "uint8" and case["nodata"] == -9999:
        case = dict(case, nodata=255)
    gbox = GeoBox((H, W), mk_affine(case["geo"]["affine"]), mk_crs_spec(case["geo"]["crs"]))
    shp = {"YX": (H, W), "YXS": (H, W, S), "SYX": (S, H, W)}[axis]
    d = da.zeros(shp, dtype=case["dtype"], chunks=shp)
    if axis == "SYX":
        xx = wrap_xr(d, gbox, nodata=case["nodata"], time=[f"2001-01-{i + 1:02d}" for i in range(S)], axis=1)
    else:
        xx = wrap_xr(d, gbox, nodata=case["nodata"])
    if transform_close(xx.odc.geobox.affine, gbox.affine, case["geo"]["family"]) is not None:
        T.exclude("xarray_registration_changes_geobox(C09)")
        return
    b = case["blocksize"]
    rr = save_cog_with_dask(
        xx, "", compression=case["compression"], bigtiff=case["bigtiff"], stats=case["stats"],
        blocksize=b if isinstance(b, int) else [tuple(x) if isinstance(x, list) else x for x in b],
    )
    hdr = rr["hdr0"]
    with tifffile.TiffFile(BytesIO(hdr)) as tf:
        pages = list(tf.pages)
        dims = check_structure(pages, case, H, W, what="header")
        check_geotags(pages[0], case, gbox, what="header")
        for k, p in enumerate(pages):
            require(bool(int(p.subfiletype) & 1) == (k > 0), "header IFD %d NewSubfileType %d", k, int(p.subfiletype))
            require(np.dtype(p.dtype) == np.dtype(case["dtype"]), "header IFD %d dtype %s", k, p.dtype)
        require(len(rr["layers"]) == len(pages) and len(rr["tiles"]) == len(pages) * dims[0][4], "writer prepared %d layers / %d tile bags for %d IFDs x %d planes", len(rr["layers"]), len(rr["tiles"]), len(pages), dims[0][4])
        for k, (lay, dm) in enumerate(zip(rr["layers"][1:], dims[1:]), start=1):
            ydim = 1 if axis == "SYX" else 0
            require(tuple(lay.shape[ydim : ydim + 2]) == dm[:2], "overview layer %d has shape %r, IFD says %r", k, lay.shape, dm[:2])
    n = len(pages) - 1
    T.cls("levels_%s" % (n if n < 5 else "5+"))
    T.cls("axis_%s" % axis)
    Hp, Wp = dims[0][:2]
    if (Hp, Wp) != (H, W):
        T.cls("padded")
    if H == 1 or W == 1:
        T.cls("single_row_or_col")
    if H < 16 or W < 16:
        T.cls("narrower_than_tile")
    if n > 0 and min(Hp, Wp) >> n == 1:
        T.cls("last_level_side_1")
    if max(H, W) > 700:
        T.cls("large")
    if n >= 1 or (Hp, Wp) != (H, W) or S > 1:
        T.nontrivial()


# --------------------------------------------------------------------------------------------- known findings
# Signature predicates for the genuine defects this check found (ids are proposals; they only take effect when the
# lead lists them in known_findings.json with status "known").
def _k_last_level(sub, case, msg):
    """D23: _make_empty_cog zooms the GeoBox once more after the last level: a side of 1 px becomes 0."""
    return "ZeroDivisionError" in msg and "geobox.py" in msg


def _k_axis_guess(sub, case, msg):
    """D24: yaxis_from_shape guesses YXS for (S, H, 3|4) and for S == H == W although the array says SYX."""
    if case.get("axis") != "SYX":
        return False
    H, W = case["shape"]
    return W in (3, 4) or (case["ns"] == H == W)


def _k_default_block0(sub, case, msg):
    """D25: blocksize Unset with 1x1 source chunks derives an overview blocksize of 0."""
    return case.get("blocksize") is None and max(_chunksize(case)) < 2 and "invalid tile shape" in msg


def _k_pad_whole_tile(sub, case, msg):
    """D26: padding to 2^levels adds a whole level-0 tile row/column for which there is no source block."""
    if "'tuple' object has no attribute 'ndim'" not in msg:
        return False
    H, W = case["shape"]
    _, (Hp, Wp), tiles = expected_layout((H, W), _block_list(case))
    ty, tx = tiles[0]
    return -(-Hp // ty) > -(-H // ty) or -(-Wp // tx) > -(-W // tx)


def _k_irregular_not_rechunked(sub, case, msg):
    """D27: irregular source chunks whose largest chunk equals the level-0 tile are not rechunked."""
    ch = case["chunks"]
    irregular = any(len(set(c[:-1])) > 1 or (len(c) > 1 and c[-1] > c[0]) for c in (ch["y"], ch["x"]))
    t0 = _norm_block(_block_list(case)[0])
    return irregular and _chunksize(case) == t0 and "differ" in msg


def build(chk: Check) -> None:
    _codecs()
    big = chk.tier == "thorough"
    gen = dict(max_side=640, max_tiles=400) if big else dict(max_side=400, max_tiles=260)
    n3 = {"quick": 140, "thorough": 4000}
    b3 = {"quick": 60, "thorough": 220}
    chk.sub("gdal_decode", o_gdal, strategy=s_case(**gen), n=n3, budget_s=b3, shrink=False)
    chk.sub("tiff_decode", o_tiff, strategy=s_case(**gen), n=n3, budget_s=b3, shrink=False)
    chk.sub("layout", o_layout, strategy=s_case(**gen), n=n3, budget_s=b3, shrink=False)
    chk.sub("thin_images", o_all, strategy=s_case(focus="thin", **gen), n={"quick": 56, "thorough": 1600}, budget_s={"quick": 40, "thorough": 100}, shrink=False)
    chk.sub("header_rule", o_header, cov={"quick": 300, "thorough": 20000}, strategy=s_header(), n={"quick": 500, "thorough": 30000}, budget_s={"quick": 40, "thorough": 100}, shrink=False)
    chk.known("D23", _k_last_level)
    chk.known("D24", _k_axis_guess)
    chk.known("D25", _k_default_block0)
    chk.known("D26", _k_pad_whole_tile)
    chk.known("D27", _k_irregular_not_rechunked)
