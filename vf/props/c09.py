"""C09 - xarray geo-registration round-trips and survives array operations.

Three families of sub-checks

``roundtrip*``  wrap_xr / xr_zeros around a generated box, read it back through ``.odc``
``history*``    a list of operations interpreted in order (this framework's form of a
                stateful machine: the whole list is one JSON value and shrinks as one);
                the oracle tracks, per axis, the original index of every remaining
                row / column and checks the invariant after every step
``reproject``   DataArray / Dataset, to a GeoBox and to a CRS, numpy and dask, with stale
                spatial attributes planted beforehand

Reference for "the world location a pixel had in the original" is the box the case was
built from (exact rational arithmetic on its float coefficients for affine boxes, the
original ``GCPGeoBox.pix2wld`` for GCP boxes) - never anything recovered from xarray.
"""
from __future__ import annotations

import math
import pickle
import warnings
from fractions import Fraction as Fr
from typing import Any, Dict, List, Optional, Tuple

import numpy as np
from hypothesis import strategies as st

from vf.common import Check, Violation, require
from vf.strategies import CRS_POOL, FA, SINU_PROJ, affines, crs_kind, crs_tags, mk_affine, mk_crs_spec

RULE = (
    "Hypothesis. Boxes: vf.strategies.affines (exact dyadic family / general family; north-up, mirrored, "
    "non-square, rotated 90/180/270/3-4-5/arbitrary, sheared) with sides 1..40 (about 20% unit sides), CRS tag from "
    "the 9-label pool in any lossless spelling or none; GCP boxes built like tests/test_gcp.py (control points on a "
    "2..4 x 2..4 lattice, on the boundary, or 3 corners; bilinear distortion; optional crop => non-identity pixel "
    "affine). Arrays: wrap_xr or xr_zeros, optional leading time (scalar, 1..3) and trailing band (1..3) axis, numpy "
    "or dask backing, default or custom CRS coordinate name. History = list of <= 8 ops: isel/getitem with "
    "constructed non-empty slices (steps +-1,+-2,+-3,5,-7, open/negative/overshooting bounds, explicit length-1 results), "
    "arithmetic (x*2+1, x+x, x/2, np.abs, x+copy, x>1), astype, pickle (protocol 2..5), copy, compute. Reprojection: "
    "source box centred on a lon/lat point inside the valid area of both CRSs (all 69 ordered pool pairs whose valid "
    "areas intersect, the 12 disjoint ones to an explicit GeoBox only), destination an explicit GeoBox (exact family, "
    "incl. rotated, mirrored, unit sides) or a CRS in 6 spellings / 'utm' / 'utm-n' / 'utm-s' with resolution "
    "auto|fit|number and tight on/off; DataArray or Dataset (2-3 geo variables + one without geobox); numpy or dask; "
    "stale crs/crs_wkt/grid_mapping/epsg/gcps attributes planted. Non-trivial: history with a strided or reversed "
    "slice or a unit side, or a rotated/GCP box (key = box class + op sequence); round trip of a rotated, GCP, "
    "mirrored or unit-sided box; reprojection between different CRSs or to a rotated/unit-sided grid."
)
ASSUMPTIONS = [
    "exact family: every float operation in the code path is exact, so equality is demanded bit-for-bit; general "
    "family: coefficient-wise within 32*eps*(|translation| + |pixel size|*N)/(n-1) (labels are the storage medium), "
    "point-wise within 32*eps*(|translation| + |pixel size|*N) - below 1e-4 pixel for every generated box",
    "a general-family box whose rotation terms are below 1e-9 in absolute value may be stored as axis aligned "
    "(documented tolerance of is_affine_st is 1e-10); the lost terms are added to the tolerance; the band "
    "[0.5e-10, 2e-10] is excluded as ambiguous",
    "GCP boxes always carry a CRS (the control points are stored in the CRS coordinate); GCP comparison is field-wise "
    "(shape, CRS, control points in the box's own pixel frame exactly, pix2wld on every pixel centre within 1e-6 px + "
    "1e-10*|world|); == is demanded in addition for un-cropped boxes (value equality, D14 repaired) - a cropped box "
    "comes back in its own pixel frame (identity pixel affine, shifted control points): same mapping, not ==",
    "boundary-only control point sets with >= 9 points (rank-deficient biquadratic fit) are used uncropped only",
    "slices always select at least one element; integer indexing (drops the dimension) is not a raster operation",
    "for how=<CRS> the requested destination grid is what the documented .odc.output_geobox(how, **kw) returns for the "
    "source (its correctness is C11); outputs above 250x250 px are excluded for cost",
    "stale attributes planted on the source agree with the source CRS (they are stale only w.r.t. the destination)",
]
SHARDS = {"quick": 4, "thorough": 16}

EPS = 2.220446049250313e-16
TIMES = ["2020-01-01", "2020-02-01T10:00:00", "2021-03-05"]
STALE_KEYS = ("crs", "crs_wkt", "grid_mapping", "gcps", "epsg")  # documented as pruned during reproject


# ============================================================================ boxes
def _side(max_side: int, rare_unit: bool = False):
    # Hypothesis favours the first alternatives; the unit side is deliberately not among them (ends up at 10-15%,
    # or ~5% with rare_unit - histories produce unit sides by slicing anyway)
    alts = [st.integers(2, 6), st.integers(7, max_side), st.integers(2, max_side), st.just(1), st.integers(2, 6)]
    if rare_unit:
        alts = alts[:3] + [st.integers(3, 12), st.integers(13, max_side)] + alts[3:] + [st.integers(7, max_side)] * 2
    return st.one_of(*alts)


@st.composite
def s_affine_box(draw, max_side: int = 40, rare_unit: bool = False):
    coeffs, fam, klass = draw(affines(rotated=draw(st.booleans())))
    if draw(st.integers(0, 7)) == 0:
        # sub-metre imagery registered in degrees: pixels of ~1e-5 units next to coordinates of ~1e2
        k = 2.0 ** draw(st.sampled_from([-17, -16, -18]))
        m = max(abs(coeffs[0]), abs(coeffs[1]), abs(coeffs[3]), abs(coeffs[4]))
        k = k / (2.0 ** round(math.log2(m))) if m > 0 else k
        coeffs = [coeffs[0] * k, coeffs[1] * k, math.fmod(coeffs[2], 256.0), coeffs[3] * k, coeffs[4] * k, math.fmod(coeffs[5], 64.0)]
        klass = (klass + "+tiny_px") if klass else "tiny_px"
    return {
        "kind": "affine",
        "shape": [draw(_side(max_side, rare_unit)), draw(_side(max_side, rare_unit))],
        "affine": coeffs,
        "crs": draw(crs_tags()),
        "family": fam,
        "klass": klass,
    }


@st.composite
def s_gcp_box(draw, max_side: int = 40, rare_unit: bool = False):
    fam = draw(st.sampled_from(["exact", "general"]))
    coeffs, fam, klass = draw(affines(family=fam, rotated=draw(st.booleans()), max_t=1e3))
    ny, nx = draw(_side(max_side, rare_unit)), draw(_side(max_side, rare_unit))
    style = draw(st.sampled_from(["grid", "grid", "boundary", "three"]))
    pts: Dict[str, Any] = {"style": style}
    if style == "grid":
        pts["gx"] = draw(st.integers(2, 4))
        pts["gy"] = draw(st.integers(2, 4))
    elif style == "boundary":
        pts["k"] = draw(st.integers(2, 5))
    q = [draw(st.sampled_from([0.0, 0.0625, -0.125])) for _ in range(2)]
    crop = None
    rank_deficient = style == "boundary" and pts["k"] >= 4
    if not rank_deficient and draw(st.booleans()):
        y0 = draw(st.integers(0, ny - 1))
        x0 = draw(st.integers(0, nx - 1))
        crop = [y0, draw(st.integers(y0 + 1, ny)), x0, draw(st.integers(x0 + 1, nx))]
    return {
        "kind": "gcp",
        "shape": [ny, nx],
        "affine": coeffs,
        "crs": draw(crs_tags(allow_none=False)),
        "family": fam,
        "klass": klass,
        "pts": pts,
        "q": q,
        "crop": crop,
    }


def _gcp_pixels(pts: dict, ny: int, nx: int) -> np.ndarray:
    """Control point pixel coordinates (own implementation of what tests/test_gcp.py takes from boundary())."""
    style = pts["style"]
    if style == "grid":
        gx, gy = pts["gx"], pts["gy"]
        out = [(nx * i / (gx - 1), ny * j / (gy - 1)) for j in range(gy) for i in range(gx)]
    elif style == "three":
        out = [(0.0, 0.0), (float(nx), 0.0), (float(nx), float(ny))]
    else:
        k = pts["k"]
        tt = [i / (k - 1) for i in range(k - 1)]
        out = (
            [(nx * t, 0.0) for t in tt]
            + [(float(nx), ny * t) for t in tt]
            + [(nx * (1 - t), float(ny)) for t in tt]
            + [(0.0, ny * (1 - t)) for t in tt]
        )
    return np.asarray(out, dtype="float64")


def _gcp_points(bc: dict) -> Tuple[np.ndarray, np.ndarray]:
    """Control points (pixel, world) of a GCP case: the base affine plus a small bilinear distortion."""
    ny, nx = bc["shape"]
    A = mk_affine(bc["affine"])
    pix = _gcp_pixels(bc["pts"], ny, nx)
    px, py = pix[:, 0], pix[:, 1]
    s = max(abs(A.a), abs(A.b), abs(A.d), abs(A.e))
    u, v = px / nx, py / ny
    wx = A.a * px + A.b * py + A.c + s * nx * bc["q"][0] * u * v
    wy = A.d * px + A.e * py + A.f + s * ny * bc["q"][1] * u * v
    return pix, np.stack([wx, wy], axis=1)


def mk_box(bc: dict):
    """-> (box object, is_gcp)"""
    from odc.geo.geobox import GeoBox

    shape = tuple(bc["shape"])
    A = mk_affine(bc["affine"])
    if bc["kind"] == "affine":
        return GeoBox(shape, A, mk_crs_spec(bc["crs"])), False
    from odc.geo.gcp import GCPGeoBox, GCPMapping

    pix, wld = _gcp_points(bc)
    g = GCPGeoBox(shape, GCPMapping(pix, wld, mk_crs_spec(bc["crs"])))
    if bc.get("crop"):
        y0, y1, x0, x1 = bc["crop"]
        g = g[y0:y1, x0:x1]
    return g, True


def exp_sdims(tag) -> Tuple[str, str]:
    """Documented naming: latitude/longitude for geographic CRSs, y/x otherwise (ground truth from the label)."""
    if tag is not None and crs_kind(tag["label"]) == "geographic":
        return ("latitude", "longitude")
    return ("y", "x")


def _skew(bc: dict) -> float:
    return max(abs(float(bc["affine"][1])), abs(float(bc["affine"][3])))


def box_class(bc: dict) -> str:
    ny, nx = bc["shape"] if not bc.get("crop") else (bc["crop"][1] - bc["crop"][0], bc["crop"][3] - bc["crop"][2])
    unit = "1x1" if ny == 1 and nx == 1 else "1xN" if ny == 1 else "Nx1" if nx == 1 else "NxN"
    k = bc["klass"]
    if bc["kind"] == "gcp":
        k = "gcp" + ("_crop" if bc.get("crop") else "")
    return f"{k}|{unit}"


# ============================================================================ arrays
@st.composite
def s_axes(draw):
    ctor = draw(st.sampled_from(["wrap", "wrap", "zeros"]))
    dask = draw(st.sampled_from([False, False, True]))
    ax: Dict[str, Any] = {
        "ctor": ctor,
        "dask": dask,
        "chunk": draw(st.sampled_from([-1, 4, 16])),
        "dtype": draw(st.sampled_from(["float64", "float32", "int16", "uint8"])),
        "crs_name": draw(st.sampled_from(["spatial_ref", "spatial_ref", "_crs"])),
        "band": 0,
    }
    if ctor == "zeros":
        ax["time"] = draw(st.sampled_from([0, 0, 1, 2]))
    else:
        ax["time"] = draw(st.sampled_from([0, 0, 0, "s", 1, 2, 3]))
        # a scalar time goes with 2-D input only (3-D input would be read as time,y,x)
        ax["band"] = 0 if ax["time"] == "s" else draw(st.sampled_from([0, 0, 0, 1, 2, 3]))
    return ax


def n_time(ax) -> int:
    return 1 if ax["time"] == "s" else int(ax["time"])


def mk_xr(g, ax):
    from odc.geo.xr import wrap_xr, xr_zeros

    ny, nx = g.shape
    nt, nb = n_time(ax), int(ax["band"])
    name = ax["crs_name"]
    if ax["ctor"] == "zeros":
        time = TIMES[:nt] if nt > 0 else None
        chunks = None
        if ax["dask"]:
            c = ax["chunk"]
            chunks = (c, c) if time is None else (1, c, c)
        return xr_zeros(g, ax["dtype"], chunks=chunks, time=time, crs_coord_name=name)
    shape = ([nt] if nt > 0 and ax["time"] != "s" else []) + [ny, nx] + ([nb] if nb else [])
    im = (np.arange(int(np.prod(shape))) % 251).reshape(shape).astype(ax["dtype"])
    if ax["dask"]:
        import dask.array as da

        im = da.from_array(im, chunks=ax["chunk"])
    if ax["time"] == "s":
        time: Any = TIMES[0]
    elif nt > 0:
        time = TIMES[:nt]
    else:
        time = None
    return wrap_xr(im, g, time=time, crs_coord_name=name)


def exp_dims(bc, ax) -> Tuple[str, ...]:
    return (("time",) if n_time(ax) > 0 else ()) + exp_sdims(bc["crs"]) + (("band",) if ax["band"] else ())


# ============================================================================ comparison helpers
def _M(bc) -> Tuple[float, float, int]:
    """(translation magnitude, largest linear coefficient, largest side) of the un-cropped box."""
    a, b, c, d, e, f = [abs(float(v)) for v in bc["affine"]]
    return max(c, f), max(a, b, d, e), max(bc["shape"])


def _crs_same(got, tag) -> Optional[str]:
    """Recovered CRS against the label (ground truth), None tag <-> None."""
    if tag is None:
        return None if got is None else f"box has no CRS but {str(got)[:40]!r} was recovered"
    if got is None:
        return f"CRS {tag['label']} lost (recovered None)"
    label = tag["label"]
    if label == "sinu":
        from odc.geo.crs import CRS

        return None if (got.epsg is None and got == CRS(SINU_PROJ)) else f"CRS differs: wanted sinusoidal got {str(got)[:40]!r}"
    return None if got.epsg == int(label) else f"CRS differs: wanted EPSG:{label} got epsg={got.epsg}"


def affine_rt_diff(got, bc, shape) -> Optional[str]:
    """Round trip: recovered affine against the original coefficients (see ASSUMPTIONS for the bounds)."""
    g = [float(v) for v in tuple(got)[:6]]
    w = [float(v) for v in bc["affine"]]
    if bc["family"] == "exact":
        if g != w:
            return f"affine differs on the exact family: got {g} want {w}"
        return None
    ny, nx = shape
    t, lin, n = _M(bc)
    M = t + lin * (n + 1)
    extra = _skew(bc) if _skew(bc) < 1e-9 else 0.0
    tol_x = 32 * EPS * (M / max(nx - 1, 1) + lin) + extra
    tol_y = 32 * EPS * (M / max(ny - 1, 1) + lin) + extra
    tol_t = 32 * EPS * M + extra * (n + 1)
    for i, tol in enumerate([tol_x, tol_y, tol_t, tol_x, tol_y, tol_t]):
        if not abs(g[i] - w[i]) <= tol:
            return f"affine coefficient {'abcdef'[i]}: got {g[i]!r} want {w[i]!r} (|diff|={abs(g[i]-w[i]):.3g} tol={tol:.3g})"
    return None


def _gcp_fields(g) -> List[Tuple[float, float, float, float]]:
    return [(float(p.row), float(p.col), float(p.x), float(p.y)) for p in g.gcps()]


def _gcp_tol(bc) -> float:
    A = mk_affine(bc["affine"])
    px = min(math.hypot(A.a, A.d), math.hypot(A.b, A.e))
    wmax = float(np.abs(_gcp_points(bc)[1]).max())
    return 1e-6 * px + 1e-10 * wmax


def _centres(n):
    return np.arange(n, dtype="float64") + 0.5


def gcp_points_diff(R, G, iy, ix, tol) -> Optional[str]:
    """Every remaining pixel centre: recovered GCP box vs original at the tracked original pixel."""
    kx, ky = np.meshgrid(_centres(len(ix)), _centres(len(iy)))
    ox, oy = np.meshgrid(np.asarray(ix, dtype="float64") + 0.5, np.asarray(iy, dtype="float64") + 0.5)
    gx, gy = R.pix2wld(kx, ky)
    wx, wy = G.pix2wld(ox, oy)
    err = np.maximum(np.abs(np.asarray(gx) - np.asarray(wx)), np.abs(np.asarray(gy) - np.asarray(wy)))
    k = int(np.argmax(err))
    if not float(err.ravel()[k]) <= tol:
        r, c = divmod(k, len(ix))
        return (
            f"pixel (row {r}, col {c}) = original (row {iy[r]}, col {ix[c]}) maps to "
            f"({float(np.ravel(gx)[k]):.9g}, {float(np.ravel(gy)[k]):.9g}), original box gives "
            f"({float(np.ravel(wx)[k]):.9g}, {float(np.ravel(wy)[k]):.9g}) (err {float(err.ravel()[k]):.3g} tol {tol:.3g})"
        )
    return None


def affine_points_diff(RA, bc, iy, ix) -> Optional[str]:
    """Corner pixel centres (an affine map on a lattice is pinned by them): exact rational evaluation."""
    want = FA.of(mk_affine(bc["affine"]))
    got = FA.of(RA)
    exact = bc["family"] == "exact"
    t, lin, n = _M(bc)
    tol = Fr(0) if exact else Fr(32 * EPS * (t + lin * (n + 1)) + (_skew(bc) * (n + 1) if _skew(bc) < 1e-9 else 0.0))
    rows = sorted({0, len(iy) - 1})
    cols = sorted({0, len(ix) - 1})
    for r in rows:
        for c in cols:
            gx, gy = got * (Fr(c) + Fr(1, 2), Fr(r) + Fr(1, 2))
            wx, wy = want * (Fr(ix[c]) + Fr(1, 2), Fr(iy[r]) + Fr(1, 2))
            if abs(gx - wx) > tol or abs(gy - wy) > tol:
                return (
                    f"pixel (row {r}, col {c}) = original (row {iy[r]}, col {ix[c]}) maps to "
                    f"({float(gx)!r}, {float(gy)!r}), original box gives ({float(wx)!r}, {float(wy)!r}) "
                    f"(tol {float(tol):.3g}, {bc['family']} family)"
                )
    return None


def labels_diff(xx, bc, sd, iy, ix, RA) -> Optional[str]:
    """Coordinate labels of the spatial axes against the original box and against the recovered one."""
    A = mk_affine(bc["affine"])
    exact = bc["family"] == "exact"
    t, lin, n = _M(bc)
    sk = _skew(bc)
    world = bc["kind"] == "affine" and sk < 1e-10
    ly = np.asarray(xx.coords[sd[0]].values, dtype="float64")
    lx = np.asarray(xx.coords[sd[1]].values, dtype="float64")
    if ly.shape != (len(iy),) or lx.shape != (len(ix),):
        return f"label arrays have shapes {ly.shape},{lx.shape}, expected ({len(iy)},),({len(ix)},)"
    if not world:
        # rotated / GCP: labels are pixel-space centres of the original raster
        wy_ = np.asarray(iy, dtype="float64") + 0.5
        wx_ = np.asarray(ix, dtype="float64") + 0.5
        if not (np.array_equal(ly, wy_) and np.array_equal(lx, wx_)):
            return f"pixel-space labels {ly[:3].tolist()}../{lx[:3].tolist()}.. are not the original pixel centres {wy_[:3].tolist()}../{wx_[:3].tolist()}.."
        return None
    tol = 0.0 if exact else 8 * EPS * (t + lin * (n + 1)) + sk * (n + 1)
    for name, lab, idx, s, o in (("x", lx, ix, A.a, A.c), ("y", ly, iy, A.e, A.f)):
        for k in sorted({0, len(idx) // 2, len(idx) - 1}):
            want = Fr(s) * (Fr(idx[k]) + Fr(1, 2)) + Fr(o)
            if abs(Fr(float(lab[k])) - want) > Fr(tol):
                return f"{name} label [{k}] = {float(lab[k])!r}, original box puts pixel {idx[k]} at {float(want)!r} (tol {tol:.3g})"
    if RA is not None:
        tol2 = 0.0 if exact else 32 * EPS * (t + lin * (n + 1)) + sk * (n + 1)
        R = FA.of(RA)
        for k in sorted({0, len(ix) - 1}):
            gx, _ = R * (Fr(k) + Fr(1, 2), Fr(1, 2))
            if abs(gx - Fr(float(lx[k]))) > Fr(tol2):
                return f"recovered box puts column {k} at x={float(gx)!r}, its label is {float(lx[k])!r}"
        for k in sorted({0, len(iy) - 1}):
            _, gy = R * (Fr(1, 2), Fr(k) + Fr(1, 2))
            if abs(gy - Fr(float(ly[k]))) > Fr(tol2):
                return f"recovered box puts row {k} at y={float(gy)!r}, its label is {float(ly[k])!r}"
    return None


def _ambiguous_alignment(bc) -> bool:
    return bc["kind"] == "affine" and 0.5e-10 <= _skew(bc) <= 2e-10


# ============================================================================ 1. round trip
@st.composite
def s_roundtrip(draw, gcp: bool):
    case = {"box": draw(s_gcp_box() if gcp else s_affine_box()), "ax": draw(s_axes())}
    if gcp:
        # another view of the SAME control-point mapping (what tiling / padding / overviews of one GCP raster are)
        # wrapped just before: nothing of it may leak into this one
        case["sibling_first"] = draw(st.sampled_from([None, None, "pad", "zoom_out", "crop", "flip"]))
    return case


def _classify_box(T, bc, ax):
    T.cls("box:" + ((bc["klass"].split("+")[-1] or "north_up") if bc["kind"] == "affine" else "gcp" + ("_crop" if bc.get("crop") else "")))
    T.cls("family:" + bc["family"])
    T.cls("crs:" + crs_kind(bc["crs"]["label"] if bc["crs"] else None))
    T.cls("side:" + box_class(bc).split("|")[1])
    T.cls("axes:" + ("t" if n_time(ax) else "") + "yx" + ("b" if ax["band"] else ""))
    T.cls("backing:" + ("dask" if ax["dask"] else "numpy") + "/" + ax["ctor"])
    if bc["kind"] == "affine" and ("mirror" in bc["klass"]):
        T.cls("box:mirrored(any)")
    if bc["kind"] == "affine" and _skew(bc) >= 1e-10:
        T.cls("box:rotated_or_sheared(any)")


def o_roundtrip(case, T):
    bc, ax = case["box"], case["ax"]
    if _ambiguous_alignment(bc):
        T.exclude("axis_aligned_threshold")
        return
    G, is_gcp = mk_box(bc)
    ny, nx = (int(v) for v in G.shape)
    with warnings.catch_warnings():
        warnings.simplefilter("ignore")
        sib_kind = case.get("sibling_first") if is_gcp else None
        if sib_kind:
            sib = {"pad": lambda: G.pad(2, 3), "zoom_out": lambda: G.zoom_out(2), "crop": lambda: G[ny // 2 :, nx // 3 :],
                   "flip": lambda: G.zoom_to((ny + 1, nx + 2))}[sib_kind]()
            if min(int(v) for v in sib.shape) >= 1:
                xs = mk_xr(sib, dict(ax, band=0, time=0))
                Rs = xs.odc.geobox
                sy, sx = (int(v) for v in sib.shape)
                if Rs is not None:
                    msg = gcp_points_diff(Rs, sib, list(range(sy)), list(range(sx)), _gcp_tol(bc) * 4)
                    require(msg is None, "sibling view (%s) of the same GCP mapping: %s", sib_kind, msg)
                T.cls("gcp_sibling_wrapped_first:" + sib_kind)
        xx = mk_xr(G, ax)
        dims = exp_dims(bc, ax)
        require(tuple(xx.dims) == dims, "dims %r, expected %r", tuple(xx.dims), dims)
        shape = ((n_time(ax),) if n_time(ax) else ()) + (ny, nx) + ((ax["band"],) if ax["band"] else ())
        require(tuple(xx.shape) == shape, "shape %r expected %r", tuple(xx.shape), shape)
        views = [("DataArray", xx), ("Dataset", xx.to_dataset(name="v"))]
        unit = ny == 1 or nx == 1
        for vname, obj in views:
            acc = obj.odc
            R = acc.geobox
            sd = acc.spatial_dims
            require(sd is not None and tuple(sd) == exp_sdims(bc["crs"]), "%s.odc.spatial_dims = %r expected %r", vname, sd, exp_sdims(bc["crs"]))
            if R is None:
                require(unit and bc["crs"] is None, "%s.odc.geobox is None for a %dx%d %s box with%s CRS", vname, ny, nx, bc["klass"] or "north_up", "out" if bc["crs"] is None else "")
                T.cls("none_for_unit_side_without_crs")
                continue
            require(tuple(int(v) for v in R.shape) == (ny, nx), "%s: recovered shape %r expected %r", vname, tuple(R.shape), (ny, nx))
            msg = _crs_same(R.crs, bc["crs"]) or _crs_same(acc.crs, bc["crs"])
            require(msg is None, "%s: %s", vname, msg)
            if is_gcp:
                from odc.geo.gcp import GCPGeoBox

                require(isinstance(R, GCPGeoBox), "%s: GCP box came back as %s", vname, type(R).__name__)
                require(_gcp_fields(R) == _gcp_fields(G), "%s: control points differ: got %r.. want %r..", vname, _gcp_fields(R)[:2], _gcp_fields(G)[:2])
                msg = gcp_points_diff(R, G, list(range(ny)), list(range(nx)), _gcp_tol(bc))
                require(msg is None, "%s: %s", vname, msg)
                if not bc.get("crop"):
                    # same pixel frame, identical control points: nothing is computed, so == must hold
                    # (value equality of GCP boxes: D14, repaired in the repository)
                    require(R == G, "%s: recovered GCP box != original although shape, CRS and control points agree", vname)
            else:
                from odc.geo.geobox import GeoBox

                require(type(R) is GeoBox, "%s: recovered %s", vname, type(R).__name__)
                msg = affine_rt_diff(R.affine, bc, (ny, nx))
                require(msg is None, "%s: %dx%d %s: %s", vname, ny, nx, bc["klass"] or "north_up", msg)
                if bc["family"] == "exact":
                    require(R == G, "%s: recovered box != original although shape, CRS and coefficients agree", vname)
                tr = acc.transform
                require(tr is not None and tuple(tr)[:6] == tuple(R.affine)[:6], "%s: .odc.transform %r differs from .odc.geobox.affine", vname, tr)
        # labels + CRS coordinate + grid_mapping pointer
        sd = exp_sdims(bc["crs"])
        msg = labels_diff(xx, bc, sd, list(range(ny)), list(range(nx)), None)
        require(msg is None, "%s", msg)
        if bc["crs"] is not None:
            name = ax["crs_name"]
            require(name in xx.coords and xx.coords[name].ndim == 0, "CRS coordinate %r missing", name)
            require(xx.encoding.get("grid_mapping") == name, "encoding grid_mapping=%r, CRS coordinate is %r", xx.encoding.get("grid_mapping"), name)
    _classify_box(T, bc, ax)
    if is_gcp or unit or _skew(bc) >= 1e-10 or "mirror" in bc["klass"]:
        T.nontrivial()


# ============================================================================ 2. histories
STEPS = [1, 1, 1, 2, 2, 3, -1, -1, -2, -3, 5, -7]


@st.composite
def s_slice(draw, n: int):
    """A python slice (as [start, stop, step]) selecting >= 1 of n elements, in assorted spellings."""
    # mostly steps that leave >= 2 elements; a step beyond the axis length (length-1 result) now and then
    fit = [k for k in STEPS if abs(k) < n] or [1, -1]
    step = draw(st.sampled_from(fit if draw(st.integers(0, 11)) else STEPS))
    nat = 0 if step > 0 else n - 1
    i0 = draw(st.one_of(st.just(nat), st.integers(0, n - 1)))
    maxm = ((n - 1 - i0) // step + 1) if step > 0 else (i0 // (-step) + 1)
    mk = draw(st.integers(0, 19))  # mostly keep the axis long, so that histories stay informative
    if mk <= 11:
        m = maxm
    elif mk <= 17:
        m = draw(st.integers((maxm + 1) // 2, maxm))
    elif mk == 18:
        m = draw(st.integers(1, maxm))
    else:
        m = 1
    want = [i0 + k * step for k in range(m)]
    last = want[-1]
    sp = draw(st.integers(0, 5))
    start: Optional[int] = i0
    if sp in (1, 4) and i0 == nat:
        start = None
    elif sp in (2, 5):
        start = i0 - n
    if step > 0:
        e = last + (1 if sp % 2 == 0 else step)
        stop: Optional[int] = e
        if e >= n:
            stop = [None, n + 3, e][sp % 3]
        elif sp == 3:
            stop = e - n
    else:
        e = last - (1 if sp % 2 == 0 else -step)
        stop = e
        if e < 0:
            stop = None if sp % 3 else -n - 1 - (sp % 2)
        elif sp == 3:
            stop = e - n
    sl = [start, stop, None if (step == 1 and sp % 2) else step]
    if list(range(n))[slice(*sl)] != want:  # canonical spelling (always right)
        sl = [i0, (last + 1) if step > 0 else (last - 1 if last >= 1 else None), step]
    return sl


ARITH = ["mul2add1", "addself", "div2", "abs_ufunc", "addcopy", "gt"]
DTYPES = ["float32", "float64", "int16", "uint8", "int64", "bool"]


@st.composite
def s_history(draw, gcp: bool, max_ops: int = 8):
    bc = draw(s_gcp_box(rare_unit=True) if gcp else s_affine_box(rare_unit=True))
    ax = draw(s_axes())
    if bc.get("crop"):
        y0, y1, x0, x1 = bc["crop"]
        ny, nx = y1 - y0, x1 - x0
    else:
        ny, nx = bc["shape"]
    lens = {"y": ny, "x": nx}
    if n_time(ax):
        lens["time"] = n_time(ax)
    if ax["band"]:
        lens["band"] = ax["band"]
    ops: List[Any] = []
    nops = draw(st.integers(1, max_ops))
    for _ in range(nops):
        kind = draw(st.sampled_from(["isel", "isel", "isel", "isel", "getitem", "arith", "astype", "pickle", "copy", "compute"]))
        if kind in ("isel", "getitem"):
            roles = [r for r in lens if draw(st.integers(0, 99)) < (50 if r in ("y", "x") else 20)]
            if not roles:
                roles = [draw(st.sampled_from(["y", "x"]))]
            sel = {}
            for r in roles:
                sel[r] = draw(s_slice(lens[r]))
                lens[r] = len(range(lens[r])[slice(*sel[r])])
            ops.append([kind, sel])
        elif kind == "arith":
            ops.append(["arith", draw(st.sampled_from(ARITH))])
        elif kind == "astype":
            ops.append(["astype", draw(st.sampled_from(DTYPES))])
        elif kind == "pickle":
            ops.append(["pickle", draw(st.integers(2, 5))])
        elif kind == "copy":
            ops.append(["copy", draw(st.booleans())])
        else:
            ops.append(["compute"])
    return {"box": bc, "ax": ax, "ops": ops}


def _apply(cur, op, names: Dict[str, str]):
    import xarray as xr

    k = op[0]
    if k == "isel":
        return cur.isel({names[r]: slice(*s) for r, s in op[1].items()})
    if k == "getitem":
        inv = {v: r for r, v in names.items()}
        return cur[tuple(slice(*op[1][inv[d]]) if inv[d] in op[1] else slice(None) for d in cur.dims)]
    if k == "arith":
        a = op[1]
        if a == "mul2add1":
            return cur * 2 + 1
        if a == "addself":
            return cur + cur
        if a == "div2":
            return cur / 2
        if a == "abs_ufunc":
            return np.abs(cur)
        if a == "addcopy":
            return cur + cur.copy()
        if a == "gt":
            return cur > 1
        raise ValueError(a)
    if k == "astype":
        return cur.astype(op[1])
    if k == "pickle":
        try:
            blob = pickle.dumps(cur, protocol=op[1])
        except Exception as e:  # noqa: BLE001 - pickling is one of the operations the property quantifies over
            raise Violation(f"pickle.dumps of the array failed: {type(e).__name__}: {str(e)[:160]}") from e
        try:
            out = pickle.loads(blob)
        except Exception as e:  # noqa: BLE001
            raise Violation(f"pickle.loads of the array failed: {type(e).__name__}: {str(e)[:160]}") from e
        require(isinstance(out, xr.DataArray), "unpickled object is %s", type(out).__name__)
        return out
    if k == "copy":
        return cur.copy(deep=bool(op[1]))
    if k == "compute":
        return cur.compute()
    raise ValueError(k)


def _op_sig(op) -> Any:
    if op[0] in ("isel", "getitem"):
        return (op[0], tuple(sorted((r, s[2] or 1) for r, s in op[1].items())))
    return tuple(op)


def _check_state(cur, bc, G, is_gcp, idx, names, step_no: int, opdesc: str, T) -> None:
    where = f"after step {step_no} ({opdesc})" if step_no else "initially"
    iy, ix = idx["y"], idx["x"]
    shape = tuple(len(idx[r]) for r in ("time", "y", "x", "band") if r in idx)
    require(tuple(cur.shape) == shape, "%s: array shape %r, tracked %r", where, tuple(cur.shape), shape)
    acc = cur.odc
    sd = acc.spatial_dims
    want_sd = exp_sdims(bc["crs"])
    require(sd is not None and tuple(sd) == want_sd, "%s: spatial_dims %r expected %r", where, sd, want_sd)
    R = acc.geobox
    unit = len(iy) == 1 or len(ix) == 1
    if R is None:
        require(unit and bc["crs"] is None, "%s: geobox is None (%dx%d remaining, CRS %s)", where, len(iy), len(ix), "absent" if bc["crs"] is None else "attached")
        T.cls("state:none_for_unit_side_without_crs")
        # labels must still be right
        msg = labels_diff(cur, bc, want_sd, iy, ix, None)
        require(msg is None, "%s: %s", where, msg)
        return
    require(tuple(int(v) for v in R.shape) == (len(iy), len(ix)), "%s: recovered shape %r expected %r", where, tuple(R.shape), (len(iy), len(ix)))
    msg = _crs_same(R.crs, bc["crs"]) or _crs_same(acc.crs, bc["crs"])
    require(msg is None, "%s: %s", where, msg)
    if is_gcp:
        from odc.geo.gcp import GCPGeoBox

        require(isinstance(R, GCPGeoBox), "%s: GCP box came back as %s", where, type(R).__name__)
        msg = gcp_points_diff(R, G, iy, ix, _gcp_tol(bc))
        require(msg is None, "%s: %s", where, msg)
        ly = np.asarray(cur.coords[want_sd[0]].values, dtype="float64")
        lx = np.asarray(cur.coords[want_sd[1]].values, dtype="float64")
        require(np.array_equal(ly, np.asarray(iy) + 0.5) and np.array_equal(lx, np.asarray(ix) + 0.5), "%s: pixel-space labels are not the tracked pixel centres", where)
    else:
        msg = affine_points_diff(R.affine, bc, iy, ix)
        require(msg is None, "%s: %s", where, msg)
        msg = labels_diff(cur, bc, want_sd, iy, ix, R.affine)
        require(msg is None, "%s: %s", where, msg)
    T.cls("state:checked")


def o_history(case, T):
    bc, ax, ops = case["box"], case["ax"], case["ops"]
    if _ambiguous_alignment(bc):
        T.exclude("axis_aligned_threshold")
        return
    G, is_gcp = mk_box(bc)
    ny, nx = (int(v) for v in G.shape)
    sd = exp_sdims(bc["crs"])
    names = {"y": sd[0], "x": sd[1], "time": "time", "band": "band"}
    idx: Dict[str, List[int]] = {"y": list(range(ny)), "x": list(range(nx))}
    if n_time(ax):
        idx["time"] = list(range(n_time(ax)))
    if ax["band"]:
        idx["band"] = list(range(ax["band"]))
    # for a cropped GCP box the original pixel frame is that of the cropped box G
    strided = reversed_ = False
    with warnings.catch_warnings():
        warnings.simplefilter("ignore")
        cur = mk_xr(G, ax)
        _check_state(cur, bc, G, is_gcp, idx, names, 0, "", T)
        for i, op in enumerate(ops, 1):
            if op[0] in ("isel", "getitem"):
                new = {r: idx[r][slice(*s)] for r, s in op[1].items() if r in idx}
                if len(new) != len(op[1]) or any(len(v) == 0 for v in new.values()):
                    T.exclude("malformed_slice_in_replay")
                    return
                idx.update(new)
                for r, s in op[1].items():
                    if r in ("y", "x"):
                        strided |= abs(s[2] or 1) > 1
                        reversed_ |= (s[2] or 1) < 0
                T.cls("op:slice_len1" if any(len(new[r]) == 1 for r in new if r in ("y", "x")) else "op:slice")
            else:
                T.cls("op:" + op[0])
            cur = _apply(cur, op, names)
            _check_state(cur, bc, G, is_gcp, idx, names, i, json_short(op), T)
    _classify_box(T, bc, ax)
    unit = len(idx["y"]) == 1 or len(idx["x"]) == 1
    if strided:
        T.cls("hist:strided")
    if reversed_:
        T.cls("hist:reversed")
    if unit:
        T.cls("hist:ends_with_unit_side")
    if strided or reversed_ or unit or is_gcp or _skew(bc) >= 1e-10:
        T.nontrivial((box_class(bc), bc["family"], tuple(_op_sig(o) for o in ops)))


def json_short(op) -> str:
    s = repr(op)
    return s if len(s) < 90 else s[:87] + "..."


# ============================================================================ 3. reprojection
def _isect(a, b):
    lo0, la0, lo1, la1 = max(a[0], b[0]), max(a[1], b[1]), min(a[2], b[2]), min(a[3], b[3])
    if lo0 < lo1 and la0 < la1:
        return (lo0, la0, lo1, la1)
    return None


def _shrunk(box):
    lo0, la0, lo1, la1 = box
    mx = min(1.5, (lo1 - lo0) / 4)
    my = min(1.5, (la1 - la0) / 4)
    return (lo0 + mx, la0 + my, lo1 - mx, la1 - my)


LABELS = list(CRS_POOL)
PAIRS = [(a, b) for a in LABELS for b in LABELS if _isect(CRS_POOL[a][1], CRS_POOL[b][1])]
DISJOINT = [(a, b) for a in LABELS for b in LABELS if not _isect(CRS_POOL[a][1], CRS_POOL[b][1])]
RES_M = [10.0, 30.0, 100.0, 250.0, 1000.0]
RES_DEG = [2.0**-10, 2.0**-8, 2.0**-6, 2.0**-4]
ROTS = ["none", "none", "none", "r90", "pyth", "deg30"]
HOW_SPELL = ["int", "str_lower", "str_upper", "odc", "pyproj", "wkt2"]


def _pt_in(draw, box):
    lo0, la0, lo1, la1 = _shrunk(box)
    # sixteenth-of-a-degree lattice keeps cases short to print
    lon = draw(st.integers(math.ceil(lo0 * 16), math.floor(lo1 * 16))) / 16
    lat = draw(st.integers(math.ceil(la0 * 16), math.floor(la1 * 16))) / 16
    return [lon, lat]


@st.composite
def s_grid(draw, label: str, pt, unit_ok: bool):
    geo = crs_kind(label) == "geographic"
    side = st.one_of(st.integers(2, 12), st.integers(13, 40))
    if unit_ok:
        side = st.one_of(side, side, st.just(1), side)
    return {
        "label": label,
        "pt": pt,
        "res": draw(st.sampled_from(RES_DEG if geo else RES_M)),
        "shape": [draw(side), draw(side)],
        "sgn": draw(st.sampled_from([[1, -1], [1, -1], [1, 1], [-1, -1], [-1, 1]])),
        "rot": draw(st.sampled_from(ROTS)),
    }


@st.composite
def s_reproject(draw):
    disjoint = draw(st.integers(0, 9)) == 0
    if disjoint:
        a, b = draw(st.sampled_from(DISJOINT))
        pa = _pt_in(draw, CRS_POOL[a][1])
        pb = _pt_in(draw, CRS_POOL[b][1])
        how_kind = "geobox"
    else:
        a, b = draw(st.sampled_from(PAIRS))
        pa = pb = _pt_in(draw, _isect(CRS_POOL[a][1], CRS_POOL[b][1]))
        how_kind = draw(st.sampled_from(["geobox", "geobox", "crs", "crs", "utm"] + (["geobox"] * 3 if a == b else [])))
    src = draw(s_grid(a, pa, unit_ok=False))
    dask = draw(st.sampled_from([False, False, True]))
    # dask reprojection of a GCP source is explicitly unsupported (assert isinstance(s_gbox, GeoBox) in _dask.py)
    src["gcp"] = (not dask) and draw(st.integers(0, 5)) == 0
    case: Dict[str, Any] = {"src": src, "how": how_kind}
    if how_kind == "geobox":
        case["dst"] = draw(s_grid(b, pb, unit_ok=True))
        if a == b and not disjoint and draw(st.integers(0, 3)) != 0:
            # the source grid itself moved by a few pixels or a fraction of one, same shape (or one side changed): every
            # label of the result has to come from the destination, however close it is to a source label (round 8, C09-21)
            if draw(st.integers(0, 3)) != 0:
                src["rot"] = "none"  # labelled axes on both sides: the case where a source label could be mistaken for a destination one
            d = {k: (list(v) if isinstance(v, list) else v) for k, v in src.items() if k != "gcp"}
            sh = st.sampled_from([0.0, 0.0, 1.0, -1.0, 2.0, 0.5, 0.25, -0.125, 3.0])
            d["shift"] = [draw(sh), draw(sh)]
            d["shape0"] = list(src["shape"])
            if draw(st.integers(0, 2)) == 0:
                d["shape"][draw(st.integers(0, 1))] += draw(st.sampled_from([1, 3]))
            case["dst"] = d
    elif how_kind == "crs":
        spell = "proj" if b == "sinu" else draw(st.sampled_from(HOW_SPELL))
        case["dst"] = {"label": b, "spell": spell}
        case["kw"] = {"resolution": draw(st.sampled_from(["auto", "auto", "fit", "x1", "x2"])), "tight": draw(st.booleans())}
    else:
        case["dst"] = {"utm": draw(st.sampled_from(["utm", "utm", "utm-n", "utm-s"]))}
        case["kw"] = {"resolution": draw(st.sampled_from(["auto", "fit"])), "tight": draw(st.booleans())}
    case["container"] = draw(st.sampled_from(["da", "ds"]))
    case["dask"] = dask
    case["chunk"] = draw(st.sampled_from([-1, 8, 16]))
    case["time"] = draw(st.sampled_from([0, 0, 1, 2]))
    case["band"] = draw(st.sampled_from([0, 0, 0, 2]))
    case["dtype"] = draw(st.sampled_from(["float32", "uint8", "int16", "float64"]))
    case["crs_name"] = draw(st.sampled_from(["spatial_ref", "spatial_ref", "_crs"]))
    case["stale"] = sorted(draw(st.sets(st.sampled_from(STALE_KEYS), min_size=1)))
    case["nogeo"] = draw(st.sampled_from(["plain", "with_crs_coord", "scalar", "time_series"]))
    case["nodata"] = draw(st.sampled_from([None, None, 0, 255]))
    return case


def _ll_to(label: str, lon: float, lat: float) -> Tuple[float, float]:
    """Independent (pyproj) projection of a lon/lat point into the labelled CRS."""
    from pyproj import CRS as P, Transformer

    dst = P.from_user_input(SINU_PROJ) if label == "sinu" else P.from_epsg(int(label))
    x, y = Transformer.from_crs(P.from_epsg(4326), dst, always_xy=True).transform(lon, lat)
    return float(x), float(y)


def mk_grid(gc: dict):
    """GeoBox of a reprojection case + (coefficients, exactly-representable flag)."""
    from odc.geo.geobox import GeoBox

    label, (lon, lat) = gc["label"], gc["pt"]
    X, Y = _ll_to(label, lon, lat)
    r = Fr(gc["res"])
    xc, yc = round(Fr(X) / r) * r, round(Fr(Y) / r) * r
    ny, nx = gc["shape"]
    sx, sy = gc["sgn"][0] * r, gc["sgn"][1] * r
    rot = gc["rot"]
    exact = True
    if rot == "none":
        R = (Fr(1), Fr(0), Fr(0), Fr(1))
    elif rot == "r90":
        R = (Fr(0), Fr(-1), Fr(1), Fr(0))
    elif rot == "pyth":
        R = (Fr(3, 4), Fr(-1), Fr(1), Fr(3, 4))
    else:
        c, s = math.cos(math.radians(30.0)), math.sin(math.radians(30.0))
        R = (Fr(c), Fr(-s), Fr(s), Fr(c))
        exact = False
    a, b, d, e = R[0] * sx, R[1] * sy, R[2] * sx, R[3] * sy
    c_ = xc - (a * nx + b * ny) / 2
    f_ = yc - (d * nx + e * ny) / 2
    if gc.get("shift"):
        # anchored where the unshifted, unresized grid would start: a pure pixel translation of that grid
        ny0, nx0 = gc.get("shape0", gc["shape"])
        tx, ty = (Fr(v) for v in gc["shift"])
        c_ = xc - (a * nx0 + b * ny0) / 2 + a * tx + b * ty
        f_ = yc - (d * nx0 + e * ny0) / 2 + d * tx + e * ty
    co = [float(v) for v in (a, b, c_, d, e, f_)]
    exact = exact and all(Fr(v) == w for v, w in zip(co, (a, b, c_, d, e, f_)))
    tag = {"label": label, "spell": "proj" if label == "sinu" else "int"}
    return GeoBox((ny, nx), mk_affine(co), mk_crs_spec(tag)), co, exact


def _grid_bc(gc, co, exact):
    return {"kind": "affine", "shape": gc["shape"], "affine": co, "family": "exact" if exact else "general", "klass": gc["rot"], "crs": {"label": gc["label"], "spell": "int"}}


def _as_gcp(g):
    """GCP box equivalent to an affine box (control points on a 3x3 lattice), as tests/test_gcp.py builds them."""
    from odc.geo.gcp import GCPGeoBox, GCPMapping

    ny, nx = g.shape
    pix = _gcp_pixels({"style": "grid", "gx": 3, "gy": 3}, ny, nx)
    A = g.affine
    wld = np.stack([A.a * pix[:, 0] + A.b * pix[:, 1] + A.c, A.d * pix[:, 0] + A.e * pix[:, 1] + A.f], axis=1)
    return GCPGeoBox(g.shape, GCPMapping(pix, wld, g.crs))


def _stale_values(keys, crs, crs_name: str) -> dict:
    vals = {
        "crs": str(crs),
        "crs_wkt": crs.wkt,
        "grid_mapping": crs_name,  # consistent with the source: names its CRS coordinate
        "epsg": crs.epsg if crs.epsg is not None else 0,
        "gcps": {"type": "FeatureCollection", "features": []},
    }
    return {k: vals[k] for k in keys}


def _check_dst_box(R, acc_crs, want, want_bc, label, what: str):
    """Recovered box of a reprojection result against the requested destination."""
    from odc.geo.geobox import GeoBox

    require(R is not None, "%s: no geobox recovered from the reprojected object", what)
    require(type(R) is GeoBox, "%s: recovered %s", what, type(R).__name__)
    require(tuple(R.shape) == tuple(want.shape), "%s: recovered shape %r, destination %r", what, tuple(R.shape), tuple(want.shape))
    if label is not None:
        msg = _crs_same(R.crs, {"label": label}) or _crs_same(acc_crs, {"label": label})
        require(msg is None, "%s: %s", what, msg)
    require(R.crs == want.crs and acc_crs == want.crs, "%s: recovered CRS (epsg=%r) is not the destination CRS (epsg=%r)", what, getattr(R.crs, "epsg", None), want.crs.epsg)
    msg = affine_rt_diff(R.affine, want_bc, tuple(want.shape))
    require(msg is None, "%s: %s", what, msg)
    if want_bc["family"] == "exact":
        require(R == want, "%s: recovered box != destination box although shape, CRS and coefficients agree", what)


def _check_no_stale(obj, want_crs, what: str, planted):
    from odc.geo.crs import CRS

    left = [k for k in STALE_KEYS if k in obj.attrs]
    require(not left, "%s: stale spatial attributes survive reprojection: %r (planted %r)", what, left, planted)
    for cname, coord in obj.coords.items():
        a = coord.attrs
        if coord.ndim == 0 and ("spatial_ref" in a or "crs_wkt" in a):
            c = CRS(a.get("spatial_ref", a.get("crs_wkt")))
            require(c == want_crs, "%s: CRS coordinate %r still describes another CRS (epsg=%r), destination epsg=%r", what, cname, c.epsg, want_crs.epsg)
        elif "crs" in a:
            require(CRS(a["crs"]) == want_crs, "%s: coordinate %r has stale crs attribute %r", what, cname, str(a["crs"])[:30])


def _check_grid_mapping(da_, want_crs, what: str):
    from odc.geo.crs import CRS

    gm = da_.encoding.get("grid_mapping")
    require(gm is not None, "%s: no grid_mapping in encoding", what)
    require(gm in da_.coords, "%s: grid_mapping=%r does not name a coordinate (%r)", what, gm, list(da_.coords))
    cc = da_.coords[gm]
    wkt = cc.attrs.get("spatial_ref", cc.attrs.get("crs_wkt"))
    require(cc.ndim == 0 and wkt is not None, "%s: grid_mapping coordinate %r is not a CRS coordinate", what, gm)
    require(CRS(wkt) == want_crs, "%s: grid_mapping coordinate %r holds another CRS (epsg=%r)", what, gm, CRS(wkt).epsg)


def o_reproject(case, T):
    if isinstance(case.get("dst"), dict) and case["dst"].get("shift"):
        T.cls("dst:shifted_source_grid")
    import xarray as xr
    from odc.geo.geobox import GeoBox
    from odc.geo.xr import wrap_xr, xr_reproject

    sc = case["src"]
    with warnings.catch_warnings():
        warnings.simplefilter("ignore")
        src_gbox, _, _ = mk_grid(sc)
        src_crs = src_gbox.crs
        src_obj: Any = _as_gcp(src_gbox) if sc["gcp"] else src_gbox
        ny, nx = sc["shape"]
        nt, nb = case["time"], case["band"]
        shape = ([nt] if nt else []) + [ny, nx] + ([nb] if nb else [])
        im: Any = (np.arange(int(np.prod(shape))) % 200 + 1).reshape(shape).astype(case["dtype"])
        if case["dask"]:
            import dask.array as da

            im = da.from_array(im, chunks=case["chunk"])
        kwx = {} if case["nodata"] is None else {"nodata": case["nodata"]}
        xx = wrap_xr(im, src_obj, time=(TIMES[:nt] if nt else None), crs_coord_name=case["crs_name"], **kwx)
        planted = _stale_values(case["stale"], src_crs, case["crs_name"])
        xx.attrs.update(planted)
        xx.attrs["units"] = "furlongs"

        # ---- destination
        how: Any
        kw: Dict[str, Any] = {}
        label: Optional[str] = None
        if case["how"] == "geobox":
            want, co, exact = mk_grid(case["dst"])
            want_bc = _grid_bc(case["dst"], co, exact)
            how = want
            label = case["dst"]["label"]
        else:
            if case["how"] == "crs":
                label = case["dst"]["label"]
                how = mk_crs_spec(case["dst"])
            else:
                how = case["dst"]["utm"]
            res = case["kw"]["resolution"]
            if res in ("x1", "x2"):
                # explicit number in destination units, comparable to the source pixel
                src_m = sc["res"] * (111320.0 if crs_kind(sc["label"]) == "geographic" else 1.0)
                res = src_m * (2 if res == "x2" else 1)
                if label is not None and crs_kind(label) == "geographic":
                    res = res / 111320.0
            kw = {"resolution": res, "tight": case["kw"]["tight"]}
            want = xx.odc.output_geobox(how, **kw)  # documented definition of the output grid
            require(isinstance(want, GeoBox), "output_geobox returned %s", type(want).__name__)
            if want.shape[0] * want.shape[1] > 250 * 250:
                T.exclude("big_output")
                return
            want_bc = {"kind": "affine", "shape": [int(v) for v in want.shape], "affine": [float(v) for v in tuple(want.affine)[:6]], "family": "general", "klass": "", "crs": None}
            if case["how"] == "utm":
                zone = want.crs.proj.utm_zone
                require(zone is not None, "how=%r produced a non-UTM CRS (epsg=%r)", how, want.crs.epsg)
                if how == "utm-n":
                    require(zone.endswith("N"), "utm-n produced zone %s", zone)
                if how == "utm-s":
                    require(zone.endswith("S"), "utm-s produced zone %s", zone)
                zn = int(zone[:-1])
                ze = int((sc["pt"][0] + 180) // 6) + 1
                require(min((zn - ze) % 60, (ze - zn) % 60) <= 1, "UTM zone %s for longitude %r", zone, sc["pt"][0])
        want_crs = want.crs
        sd = ("latitude", "longitude") if want_crs.geographic else ("y", "x")
        if label is not None:
            require(sd == exp_sdims({"label": label}), "destination dims %r for label %s", sd, label)

        def check_da(out, src_da, what):
            require(isinstance(out, xr.DataArray), "%s: result is %s", what, type(out).__name__)
            ssd = exp_sdims({"label": sc["label"]})
            dims = tuple(sd[ssd.index(d)] if d in ssd else d for d in src_da.dims)
            require(tuple(out.dims) == dims, "%s: dims %r expected %r", what, tuple(out.dims), dims)
            oshape = tuple(int(want.shape[ssd.index(d)]) if d in ssd else n for d, n in zip(src_da.dims, src_da.shape))
            require(tuple(out.shape) == oshape, "%s: shape %r expected %r", what, tuple(out.shape), oshape)
            acc = out.odc
            _check_dst_box(acc.geobox, acc.crs, want, want_bc, label, what)
            require(tuple(acc.spatial_dims) == sd, "%s: spatial_dims %r expected %r", what, acc.spatial_dims, sd)
            _check_no_stale(out, want_crs, what, case["stale"])
            _check_grid_mapping(out, want_crs, what)

        if case["container"] == "da":
            out = xr_reproject(xx, how, **kw) if case["dask"] else xx.odc.reproject(how, **kw)
            check_da(out, xx, "DataArray")
            if case["dask"]:
                check_da(out.compute(), xx, "DataArray(computed)")
        else:
            b = xx.astype("float32") * 2  # encoding dropped by arithmetic, attrs/coords kept
            b.attrs.update(planted)
            vars_: Dict[str, Any] = {"a": xx, "b": b}
            if nt or nb:
                flat = xx.isel({d: 0 for d in ("time", "band") if d in xx.dims}, drop=True)
                flat.attrs.update(planted)
                vars_["flat"] = flat
            ng = case["nogeo"]
            if ng == "plain":
                c = xr.DataArray(np.asarray([2, 3, 4]), dims=("dim_0",))
            elif ng == "with_crs_coord":
                c = xr.DataArray(np.asarray([2, 3, 4]), dims=("dim_0",)).assign_coords({case["crs_name"]: xx.coords[case["crs_name"]]})
            elif ng == "scalar":
                c = xr.DataArray(5.0)
            else:
                c = xr.DataArray(np.arange(max(nt, 1)), dims=("time",))
                if nt:
                    c = c.assign_coords(time=xx.time)
            vars_["c"] = c
            ds = xr.Dataset(vars_)
            ds.attrs.update(planted)
            require(ds["c"].odc.geobox is None, "harness: variable c unexpectedly has a geobox")
            out = ds.odc.reproject(how, **kw) if not case["dask"] else xr_reproject(ds, how, **kw)
            require(isinstance(out, xr.Dataset), "Dataset reprojection returned %s", type(out).__name__)
            require(set(out.data_vars) >= set(vars_) - {"c"}, "variables %r, expected at least %r", sorted(out.data_vars), sorted(set(vars_) - {"c"}))
            for k in vars_:
                if k == "c":
                    continue
                check_da(out[k], ds[k], f"Dataset[{k!r}]")
            acc = out.odc
            _check_dst_box(acc.geobox, acc.crs, want, want_bc, label, "Dataset")
            require(tuple(acc.spatial_dims) == sd, "Dataset: spatial_dims %r expected %r", acc.spatial_dims, sd)
            _check_no_stale(out, want_crs, "Dataset", case["stale"])
            if case["dask"]:
                outc = out.compute()
                _check_dst_box(outc.odc.geobox, outc.odc.crs, want, want_bc, label, "Dataset(computed)")
                for k in vars_:
                    if k != "c":
                        check_da(outc[k], ds[k], f"Dataset(computed)[{k!r}]")
    a_, b_ = sc["label"], (label or "utm")
    T.cls("how:" + case["how"])
    T.cls("container:" + case["container"] + ("/dask" if case["dask"] else "/numpy"))
    T.cls("pair:" + ("same_crs" if a_ == b_ else "disjoint" if (a_, b_) in DISJOINT else "different_crs"))
    T.cls("src:" + ("gcp" if sc["gcp"] else sc["rot"]))
    if case["how"] == "geobox":
        d = case["dst"]
        T.cls("dst:" + d["rot"] + ("/unit_side" if 1 in d["shape"] else ""))
        T.cls("dst_family:" + want_bc["family"])
    T.cls("axes:" + ("t" if nt else "") + "yx" + ("b" if nb else ""))
    T.cls("srcdst:%s->%s" % (a_, b_))
    if a_ != b_ or (case["how"] == "geobox" and (case["dst"]["rot"] != "none" or 1 in case["dst"]["shape"])):
        T.nontrivial((a_, b_, case["how"], case["container"], case["dask"], sc["rot"], case.get("dst", {}).get("rot")))


# ============================================================================ known-finding signatures
# Only consulted when known_findings.json lists the id with status "known" for C09 (i.e. if the lead decides not
# to apply sensitivity/C09/PROPOSED-FIX-*.diff).  Suggested ids: C09-PIXFALLBACK, C09-POLYPICKLE.
def _pixel_space(bc) -> bool:
    return bc["kind"] == "gcp" or _skew(bc) >= 1e-10


def k_pixel_axis_fallback(sub, case, msg) -> bool:
    """Rotated/GCP box (pixel-space labels) with a unit spatial side at the failing step, location/affine wrong."""
    import re

    if sub == "roundtrip":
        bc = case["box"]
        return _pixel_space(bc) and 1 in bc["shape"] and ("affine" in msg)
    if sub in ("history", "history_gcp"):
        bc = case["box"]
        if not _pixel_space(bc) or "maps to" not in msg:
            return False
        m = re.search(r"after step (\d+)", msg)
        nstep = int(m.group(1)) if m else 0
        if bc.get("crop"):
            lens = {"y": bc["crop"][1] - bc["crop"][0], "x": bc["crop"][3] - bc["crop"][2]}
        else:
            lens = {"y": bc["shape"][0], "x": bc["shape"][1]}
        for op in case["ops"][:nstep]:
            if op[0] in ("isel", "getitem"):
                for r, sl in op[1].items():
                    if r in lens:
                        lens[r] = len(range(lens[r])[slice(*sl)])
        return lens["y"] == 1 or lens["x"] == 1
    if sub == "reproject":
        d = case.get("dst", {})
        return case.get("how") == "geobox" and d.get("rot") != "none" and 1 in d.get("shape", []) and "affine" in msg
    return False


def k_poly2d_pickle(sub, case, msg) -> bool:
    return sub in ("history", "history_gcp") and case["box"]["kind"] == "gcp" and "pickle.dumps of the array failed" in msg and "Poly2d" in msg


# ============================================================================ registry
def build(chk: Check) -> None:
    chk.sub("roundtrip", o_roundtrip, strategy=s_roundtrip(gcp=False), n={"quick": 4000, "thorough": 600000}, budget_s={"quick": 40, "thorough": 180})
    chk.sub("roundtrip_gcp", o_roundtrip, strategy=s_roundtrip(gcp=True), n={"quick": 1200, "thorough": 150000}, budget_s={"quick": 30, "thorough": 90})
    chk.sub("history", o_history, cov={"quick": 300, "thorough": 30000}, strategy=s_history(gcp=False), n={"quick": 2400, "thorough": 500000}, budget_s={"quick": 50, "thorough": 240})
    chk.sub("history_gcp", o_history, strategy=s_history(gcp=True), n={"quick": 700, "thorough": 150000}, budget_s={"quick": 30, "thorough": 120})
    chk.sub("reproject", o_reproject, strategy=s_reproject(), n={"quick": 360, "thorough": 60000}, budget_s={"quick": 50, "thorough": 200}, shrink=False)
    chk.known("C09-PIXFALLBACK", k_pixel_axis_fallback)
    chk.known("C09-POLYPICKLE", k_poly2d_pickle)
