"""C14 - a GridSpec tiles the plane without gaps or overlaps."""
from __future__ import annotations

import functools
import itertools
import math
from fractions import Fraction as Fr

from hypothesis import strategies as st

from vf.common import Check, Violation, require
from vf.strategies import CRS_POOL, SINU_PROJ, mk_crs_spec

RULE = (
    "Hypothesis grids: tile shape 1..100 per axis, resolution magnitude from {10,0.5,30,0.25,1,100} (exact dyadic "
    "family) or {7.3,0.1,1/3,random 1e-3..1e3} (general), either sign per axis, origin from {default,0,dyadic,integer "
    "up to 2^20 | float up to 1e3 | float up to 1e7}, flipx/flipy, tile indices in [-50,50]^2 (biased to 0,+-1,+-50; 3 "
    "indices per grid for the geobox clause, 4 probe points per grid for point lookup: pixel centres, points at "
    "{0,1e-9,1e-6,1e-3,0.3 tile,few ulp} inside/outside each edge, random interior points); "
    "queries (boxes, triangles, L-shapes, polygons with a hole) with every edge/vertex at a tile edge + offset from "
    "{0,+-1e-9,+-3e-9,+-5e-8,+-1e-6,+-0.3 tile,0.5 tile}; polygons in another CRS of the vf.strategies pool; zoom "
    "0..22 x tiles {0, 2^z-1, 2^(z-1), random}.  Oracles: exact rational model of the binning (origin + cell*tile "
    "size, index = cell * direction), shapely on the tile footprints over the index window +-2, an independent pyproj "
    "transformer with 32 extra points per edge for other-CRS queries, the slippy-map formula (linear in EPSG:3857 and "
    "lon/lat via pyproj).  Bit-for-bit on the exact family, 16 ulp of max(|origin|,|index|*tile size) otherwise.  "
    "Non-trivial: a flip flag set, or positive y / negative x resolution, or a negative index, or non-zero origin "
    "(web tiles: zoom>=1); distinct = distinct case."
)
ASSUMPTIONS = [
    "flip=False means the index grows with the coordinate, flip=True that it decreases (Bin1D doc, flipy doc, "
    "web_tiles doc; the flipx docstring of GridSpec says the opposite and is taken to be a typo)",
    "a point exactly on a shared edge may be attributed to either tile (footprints are closed sets)",
    "bbox query: a tile is required when the query reaches >= 1.2e-8+noise into it on both axes, forbidden when it "
    "reaches <= 8e-9-noise on some axis (noise = 4 ulp exact family / 16 ulp general of the largest coordinate); "
    "between: ambiguous; for queries narrower than 1e-7 only gaps > 1e-6 are forbidden",
    "polygon query: required when the polygon meets the tile shrunk by 1e-6, forbidden when farther than 1e-6 or when "
    "its bounding box only contacts the tile; polygon touching a tile inside its bounding box: ambiguous",
    "other-CRS polygon: vertices are projected by pyproj Transformer.from_crs(always_xy=True); band = 1.1 x max "
    "deviation of the true edge image from the straight edge + 1e-6",
    "from_sample_tile tolerance grows with the index distance (the sample footprint is only known to an ulp)",
]
SHARDS = {"quick": 4, "thorough": 16}

EXACT_RES = [10.0, 0.5, 30.0, 0.25, 1.0, 100.0]
# the last three: within 1e-6 of an integer / of 1/integer without being one (round 8, C14-21)
GEN_RES = [7.3, 0.1, 1 / 3.0, 10.0, 30.0, 0.5, 30.0000004, 9.9999995, 1 / 4.0000003]
CHEAP_SPELL = ["int", "str_lower", "str_upper", "str_mixed", "odc"]
MAX_TILES = 4000  # cap on what a query may return before we stop iterating

TOL = 1e-8  # the tolerance the statement grants to edge contacts


# ----------------------------------------------------------------------------- generators
def _side():
    return st.one_of(st.just(1), st.integers(2, 12), st.integers(1, 100), st.sampled_from([100, 64, 7]))


def _index():
    return st.one_of(st.integers(-3, 3), st.integers(-50, 50), st.sampled_from([-50, 50, 0, -1, 1]))


@st.composite
def crs_tag(draw, labels=None):
    label = draw(st.sampled_from(list(labels or CRS_POOL)))
    if label == "sinu":
        return {"label": label, "spell": draw(st.sampled_from(["proj", "odc"]))}
    return {"label": label, "spell": draw(st.sampled_from(CHEAP_SPELL))}


@st.composite
def grids(draw, family=None):
    family = family or draw(st.sampled_from(["exact", "general"]))
    ny, nx = draw(_side()), draw(_side())
    sgnx = draw(st.sampled_from([1.0, -1.0]))
    sgny = draw(st.sampled_from([-1.0, 1.0]))
    if family == "exact":
        mx = draw(st.sampled_from(EXACT_RES))
        my = draw(st.one_of(st.just(mx), st.sampled_from(EXACT_RES)))
        okind = draw(st.sampled_from(["default", "zero", "dyadic", "dyadic", "int"]))
        if okind == "default":
            origin = None
        elif okind == "zero":
            origin = [0.0, 0.0]
        elif okind == "dyadic":
            v = st.integers(-16000, 16000).map(lambda k: k / 16)
            origin = [draw(v), draw(v)]
        else:
            v = st.integers(-(2**20), 2**20).map(float)
            origin = [draw(v), draw(v)]
    else:
        mag = st.one_of(st.sampled_from(GEN_RES), st.floats(1e-3, 1e3))
        mx = draw(mag)
        my = draw(st.one_of(st.just(mx), mag))
        okind = draw(st.sampled_from(["zero", "small", "small", "big", "big"]))
        if okind == "zero":
            origin = [0.0, 0.0]
        elif okind == "small":
            origin = [draw(st.floats(-1e3, 1e3)), draw(st.floats(-1e3, 1e3))]
        else:
            origin = [draw(st.floats(-1e7, 1e7)), draw(st.floats(-1e7, 1e7))]
    res = [mx * sgnx, my * sgny]
    res_spell = "xy"
    if res[1] == -res[0] and draw(st.booleans()):
        res_spell = "scalar"
    return {
        "shape": [ny, nx],
        "res": res,
        "res_spell": res_spell,
        "origin": origin,
        "okind": okind,
        "flipx": draw(st.booleans()),
        "flipy": draw(st.booleans()),
        "crs": draw(crs_tag()),
        "family": family,
    }


# ----------------------------------------------------------------------------- model
def _dyadic(v, bits=6, lim=2.0**31):
    f = v * 2.0**bits
    return abs(v) <= lim and f == math.floor(f)


class Grid:
    """Exact rational model of a grid specification (never looks at the code under test)."""

    def __init__(self, g):
        self.g = g
        ny, nx = g["shape"]
        rx, ry = g["res"]
        o = g["origin"] or [0.0, 0.0]
        self.n = (nx, ny)
        self.r = (float(rx), float(ry))
        self.of = (float(o[0]), float(o[1]))
        self.o = (Fr(self.of[0]), Fr(self.of[1]))
        self.S = (Fr(nx) * abs(Fr(self.r[0])), Fr(ny) * abs(Fr(self.r[1])))
        self.Sf = (float(self.S[0]), float(self.S[1]))
        self.d = (-1 if g["flipx"] else 1, -1 if g["flipy"] else 1)
        self.exact = all(_dyadic(v) for v in self.r + self.of) and all(abs(v) <= 1024 for v in self.r)

    # index <-> spatial cell (cell k covers [o + k*S, o + (k+1)*S])
    def cell(self, ax, idx):
        return idx * self.d[ax]

    def idx(self, ax, cell):
        return cell * self.d[ax]

    def edge(self, ax, k):
        return self.o[ax] + k * self.S[ax]

    def interval(self, ax, idx):
        k = self.cell(ax, idx)
        return self.edge(ax, k), self.edge(ax, k + 1)

    def cell_of(self, ax, x):
        return math.floor((Fr(x) - self.o[ax]) / self.S[ax])

    def slack(self, ax, maxidx, K=16.0):
        """Forward-error bound for any edge coordinate of tiles with |index| <= maxidx (0 on the exact family)."""
        if self.exact:
            return 0.0
        return K * math.ulp(max(abs(self.of[ax]), (abs(maxidx) + 2) * self.Sf[ax]))

    def mk(self):
        from odc.geo import resxy_, xy_
        from odc.geo.gridspec import GridSpec

        g = self.g
        if g.get("res_spell") == "scalar":
            res = self.r[0]
            if res == math.floor(res) and g["shape"][0] % 2:
                res = int(res)
        else:
            res = resxy_(*self.r)
        shape = tuple(g["shape"]) if g["shape"][1] % 2 else list(g["shape"])
        kw = {}
        if g["origin"] is not None:
            kw["origin"] = xy_(self.of[0], self.of[1])
        return GridSpec(mk_crs_spec(g["crs"]), shape, res, flipx=g["flipx"], flipy=g["flipy"], **kw)

    def classify(self, T, idx=None):
        g = self.g
        T.cls("family_exact" if self.exact else "family_general")
        T.cls("flip_x%d_y%d" % (g["flipx"], g["flipy"]))
        T.cls("res_x%s_y%s" % ("+" if self.r[0] > 0 else "-", "+" if self.r[1] > 0 else "-"))
        T.cls("origin_" + g.get("okind", "?"))
        nt = g["flipx"] or g["flipy"] or self.r[0] < 0 or self.r[1] > 0 or any(v != 0 for v in self.of)
        if idx is not None:
            neg = idx[0] < 0 or idx[1] < 0
            T.cls("idx_negative" if neg else "idx_nonneg")
            nt = nt or neg
        if nt:
            T.nontrivial()


def rect_of(gb):
    """(x0, y0, x1, y1) of a tile footprint taken from its extent polygon; must be an axis-aligned rectangle."""
    pts = [(float(x), float(y)) for x, y in gb.extent.geom.exterior.coords]
    require(len(pts) == 5 and pts[0] == pts[-1], "tile footprint is not a closed 4-gon: %d points", len(pts))
    xs = sorted({p[0] for p in pts})
    ys = sorted({p[1] for p in pts})
    require(
        len(xs) == 2 and len(ys) == 2 and set(pts) == set(itertools.product(xs, ys)),
        "tile footprint is not an axis-aligned rectangle: %r", pts[:4],
    )
    return xs[0], ys[0], xs[1], ys[1]


def _close(a, b, tol):
    return a == b if tol == 0 else abs(a - b) <= tol


# ----------------------------------------------------------------------------- 1. tile geobox
@st.composite
def s_geobox(draw):
    return {"g": draw(grids()), "idxs": [[draw(_index()), draw(_index())] for _ in range(3)], "as_index2d": draw(st.booleans())}


def o_geobox(case, T):
    M = Grid(case["g"])
    gs = M.mk()
    for idx in case["idxs"]:
        _geobox_one(case, T, M, gs, idx)


def _geobox_one(case, T, M, gs, idx):
    from odc.geo import ixy_
    from odc.geo.crs import CRS

    ix, iy = idx
    ny, nx = case["g"]["shape"]
    crs = CRS(mk_crs_spec(case["g"]["crs"]))
    require(tuple(gs.tile_shape) == (ny, nx), "tile_shape %r, specified %r", gs.tile_shape, (ny, nx))
    require(gs.crs == crs, "grid crs %r != %r", gs.crs, crs)
    for ax, got in ((0, gs.tile_size.x), (1, gs.tile_size.y)):
        require(_close(got, M.Sf[ax], 0.0 if M.exact else 2 * math.ulp(M.Sf[ax])), "tile_size[%d]=%r expected %r", ax, got, M.Sf[ax])
    gb = gs[ixy_(ix, iy)] if case["as_index2d"] else gs[ix, iy]
    gb2 = gs.tile_geobox((ix, iy))
    require(gb == gb2, "gs[idx] != gs.tile_geobox(idx) for %r", (ix, iy))
    # shape, resolution, CRS as specified
    require(tuple(gb.shape) == (ny, nx), "tile %r has shape %r, specified %r", (ix, iy), tuple(gb.shape), (ny, nx))
    require(gb.crs == crs, "tile crs %r != %r", gb.crs, crs)
    r = gb.resolution
    require((r.x, r.y) == M.r, "tile %r has resolution %r, specified %r", (ix, iy), (r.x, r.y), M.r)
    A = gb.affine
    require((A.a, A.b, A.d, A.e) == (M.r[0], 0.0, 0.0, M.r[1]), "tile transform %r is not scale(%r)", tuple(A)[:6], M.r)
    # footprint = product of the intervals the binning defines
    x0, y0, x1, y1 = rect_of(gb)
    (X0, X1), (Y0, Y1) = M.interval(0, ix), M.interval(1, iy)
    sx, sy = M.slack(0, ix), M.slack(1, iy)
    for name, got, want, s in (("left", x0, X0, sx), ("right", x1, X1, sx), ("bottom", y0, Y0, sy), ("top", y1, Y1, sy)):
        require(
            abs(Fr(got) - want) <= Fr(s),
            "tile %r %s edge %r, binning gives %r (|diff| %.3g > %.3g; shape=%r res=%r origin=%r flips=%r)",
            (ix, iy), name, got, float(want), float(abs(Fr(got) - want)), s, (ny, nx), M.r, M.of, (case["g"]["flipx"], case["g"]["flipy"]),
        )
    bb = gb.boundingbox
    require(
        all(_close(a, b, s) for a, b, s in zip(tuple(bb), (x0, y0, x1, y1), (sx, sy, sx, sy))),
        "boundingbox %r differs from extent %r", tuple(bb), (x0, y0, x1, y1),
    )
    # pixel (0,0) sits at the corner the resolution signs prescribe
    wx = X0 if M.r[0] > 0 else X1
    wy = Y0 if M.r[1] > 0 else Y1
    require(
        abs(Fr(A.c) - wx) <= Fr(sx) and abs(Fr(A.f) - wy) <= Fr(sy),
        "pixel (0,0) of tile %r at %r, expected %r for resolution %r", (ix, iy), (A.c, A.f), (float(wx), float(wy)), M.r,
    )
    require(gb.extent.crs == crs, "extent crs")
    M.classify(T, (ix, iy))


# ----------------------------------------------------------------------------- 2. point lookup
PT_EDGE_D = [["u", 0.0], ["u", 1e-9], ["u", 1e-6], ["u", 1e-6], ["u", 1e-3], ["t", 0.3], ["t", 1e-4], ["s", 2.0], ["s", 0.5]]


@st.composite
def s_pt(draw):
    g = draw(grids())
    ny, nx = g["shape"]

    def axis(n):
        kind = draw(st.sampled_from(["pix", "pix", "edge_lo", "edge_hi", "frac"]))
        if kind == "pix":
            return ["pix", draw(st.sampled_from([0, n - 1, n // 2, draw(st.integers(0, n - 1))])), draw(st.sampled_from([0.5, 0.5, 0.25, 0.999]))]
        if kind == "frac":
            return ["frac", draw(st.floats(0.0, 1.0, exclude_max=True))]
        return [kind, draw(st.sampled_from(PT_EDGE_D)), draw(st.sampled_from([1, 1, 1, -1]))]

    return {"g": g, "pts": [{"idx": [draw(_index()), draw(_index())], "px": axis(nx), "py": axis(ny)} for _ in range(4)]}


def _pt_coord(M, ax, idx, spec, gb, slack):
    """Float coordinate of the probe point along one axis + label."""
    lo, hi = M.interval(ax, idx)
    lo_f, hi_f = float(lo), float(hi)
    kind = spec[0]
    if kind == "pix":
        A = gb.affine
        t = spec[1] + spec[2]
        return (A.a * t + A.c) if ax == 0 else (A.e * t + A.f), "pixel"
    if kind == "frac":
        return lo_f + spec[1] * (hi_f - lo_f), "frac"
    (u, v), sgn = spec[1], spec[2]
    d = v if u == "u" else v * M.Sf[ax] if u == "t" else v * max(slack, math.ulp(max(abs(lo_f), abs(hi_f))))
    d *= sgn  # sgn=+1: inside, -1: outside (belongs to the neighbour)
    lab = "edge_%s%s%g" % ("in_" if sgn > 0 else "out_", u, v)
    return (lo_f + d, lab) if kind == "edge_lo" else (hi_f - d, lab)


def o_pt(case, T):
    M = Grid(case["g"])
    gs = M.mk()
    for pt in case["pts"]:
        _pt_one({"g": case["g"], **pt}, T, M, gs)


def _pt_one(case, T, M, gs):
    from odc.geo.types import Index2d

    idx = case["idx"]
    gb = gs[tuple(idx)]
    sl = [M.slack(ax, abs(idx[ax]) + 1) for ax in (0, 1)]
    p, labs = [], []
    for ax, spec in ((0, case["px"]), (1, case["py"])):
        c, lab = _pt_coord(M, ax, idx[ax], spec, gb, sl[ax])
        p.append(c)
        labs.append(lab)
    # the lookup itself rounds (x - origin) and the quotient: a point within a few ulp of an edge may go either way
    sl = [sl[ax] + 4 * math.ulp(max(abs(p[ax]), abs(M.of[ax]))) for ax in (0, 1)]
    got = gs.pt2idx(p[0], p[1])
    require(isinstance(got, Index2d), "pt2idx returned %r", type(got))
    gi = (got.x, got.y)
    require(all(isinstance(v, int) for v in gi), "pt2idx returned non-int index %r", gi)
    unique = True
    for ax in (0, 1):
        P = Fr(p[ax])
        k = M.cell_of(ax, P)
        ok = {k}
        if P - M.edge(ax, k) <= Fr(sl[ax]):
            ok.add(k - 1)
        if M.edge(ax, k + 1) - P <= Fr(sl[ax]):
            ok.add(k + 1)
        want = sorted(M.idx(ax, c) for c in ok)
        require(
            gi[ax] in want,
            "pt2idx(%r,%r)[%s] = %d but the point lies in tile %r of axis %s (point %s; shape=%r res=%r origin=%r flips=%r)",
            p[0], p[1], "xy"[ax], gi[ax], want, "xy"[ax], labs[ax], case["g"]["shape"], M.r, M.of, (case["g"]["flipx"], case["g"]["flipy"]),
        )
        if len(ok) > 1:
            unique = False
            T.cls("on_edge_either_ok")
        T.cls(labs[ax])
    if unique and not any(lab.startswith("edge_out") for lab in labs):
        require(gi == tuple(idx), "point %r constructed inside tile %r but pt2idx gives %r", tuple(p), tuple(idx), gi)
    # the statement's direction, model-free: the point belongs to the footprint of the tile returned
    x0, y0, x1, y1 = rect_of(gs[gi])
    require(
        x0 - sl[0] <= p[0] <= x1 + sl[0] and y0 - sl[1] <= p[1] <= y1 + sl[1],
        "point %r is outside the footprint %r of the tile %r that pt2idx returns", tuple(p), (x0, y0, x1, y1), gi,
    )
    M.classify(T, idx)


# ----------------------------------------------------------------------------- 3. neighbours / disjoint interiors
@st.composite
def s_nb(draw):
    idx = [draw(_index()), draw(_index())]
    other = [draw(_index()), draw(_index())]
    return {"g": draw(grids()), "idx": idx, "other": other}


def o_nb(case, T):
    import shapely.ops

    M = Grid(case["g"])
    ix, iy = case["idx"]
    gs = M.mk()
    A = gs[ix, iy]
    a = rect_of(A)
    pa = A.extent.geom
    area = (a[2] - a[0]) * (a[3] - a[1])
    require(area > 0, "tile %r has empty footprint %r", (ix, iy), a)
    sl = (M.slack(0, abs(ix) + 1), M.slack(1, abs(iy) + 1))
    # interiors disjoint: nothing on the exact family; otherwise at most a strip as wide as the rounding of an edge
    sliver = 0.0 if M.exact else 1e-9 * area + sl[0] * (a[3] - a[1]) + sl[1] * (a[2] - a[0])
    side_seen = {}
    polys = [pa]
    for dj in (-1, 0, 1):
        for di in (-1, 0, 1):
            if (di, dj) == (0, 0):
                continue
            B = gs[ix + di, iy + dj]
            b = rect_of(B)
            pb = B.extent.geom
            polys.append(pb)
            ia = pa.intersection(pb).area
            require(
                ia <= sliver,
                "tiles %r and %r overlap: intersection area %.6g (tile area %.6g, allowed %.3g); footprints %r %r",
                (ix, iy), (ix + di, iy + dj), ia, area, sliver, a, b,
            )
            for ax, dd in ((0, di), (1, dj)):
                lo, hi, blo, bhi = a[ax], a[ax + 2], b[ax], b[ax + 2]
                if dd == 0:
                    require(
                        _close(lo, blo, sl[ax]) and _close(hi, bhi, sl[ax]),
                        "tiles %r and %r should span the same %s range: %r vs %r", (ix, iy), (ix + di, iy + dj), "xy"[ax], (lo, hi), (blo, bhi),
                    )
                else:
                    above = _close(hi, blo, sl[ax])
                    below = _close(lo, bhi, sl[ax])
                    require(
                        above != below,
                        "tiles %r and %r do not share their common %s edge exactly: %r vs %r (allowed diff %.3g)",
                        (ix, iy), (ix + di, iy + dj), "xy"[ax], (lo, hi), (blo, bhi), sl[ax],
                    )
                    side_seen[(ax, dd)] = above
                    if not M.exact and ((above and hi != blo) or (below and lo != bhi)):
                        T.cls("shared_edge_differs_by_ulps")
            if M.exact:
                require(pa.touches(pb), "neighbouring tiles %r %r do not touch (exact family)", (ix, iy), (ix + di, iy + dj))
    for ax in (0, 1):
        require(side_seen[(ax, 1)] != side_seen[(ax, -1)], "neighbours +1 and -1 along %s lie on the same side of tile %r", "xy"[ax], (ix, iy))
        # direction of the index
        want_above = M.d[ax] > 0
        require(
            side_seen[(ax, 1)] == want_above,
            "index +1 along %s lies %s tile %r but flip=%r", "xy"[ax], "above" if side_seen[(ax, 1)] else "below", (ix, iy), M.d[ax] < 0,
        )
    # 3x3 block has no gaps
    u = shapely.ops.unary_union(polys)
    ub = u.bounds
    gap_ok = 1e-9 * 9 * area + 12 * sliver
    require(
        abs(u.area - 9 * area) <= gap_ok and abs((ub[2] - ub[0]) * (ub[3] - ub[1]) - 9 * area) <= gap_ok,
        "3x3 block around %r leaves gaps: union area %.9g, 9 tiles %.9g", (ix, iy), u.area, 9 * area,
    )
    # an arbitrary other tile
    ox_, oy_ = case["other"]
    if (ox_, oy_) != (ix, iy):
        pb = gs[ox_, oy_].extent.geom
        ia = pa.intersection(pb).area
        require(ia <= sliver, "tiles %r and %r overlap: area %.6g of %.6g", (ix, iy), (ox_, oy_), ia, area)
        far = max(abs(ox_ - ix), abs(oy_ - iy)) > 1
        if far:
            require(pa.disjoint(pb), "non-adjacent tiles %r %r are not disjoint", (ix, iy), (ox_, oy_))
            gapx = max(0, abs(ox_ - ix) - 1) * M.Sf[0]
            gapy = max(0, abs(oy_ - iy) - 1) * M.Sf[1]
            dist = pa.distance(pb)
            want = math.hypot(gapx, gapy)
            require(abs(dist - want) <= 1e-9 * max(want, 1.0) + 4 * max(sl), "distance between tiles %r %r is %.9g, expected %.9g", (ix, iy), (ox_, oy_), dist, want)
            T.cls("other_far")
        else:
            T.cls("other_adjacent")
    M.classify(T, (ix, iy))


# ----------------------------------------------------------------------------- query helpers
Q_OFFS = [
    ["u", 0.0], ["u", 0.0], ["u", 0.0], ["u", 1e-9], ["u", -1e-9], ["u", 3e-9], ["u", -3e-9], ["u", 5e-8], ["u", -5e-8],
    ["u", 1e-6], ["u", -1e-6], ["t", 0.3], ["t", -0.3], ["t", 0.3], ["t", -0.3], ["t", 0.5],
]


def _off_label(o):
    return "off_%s%g" % (o[0], o[1])


def _edge_coord(M, gs, ax, k, off, src, focus):
    """Float coordinate of spatial edge k of axis ax (+ offset)."""
    if src == "fp":
        idx = list(focus)
        idx[ax] = M.idx(ax, k)
        r = rect_of(gs[tuple(idx)])
        base = r[ax]
    else:
        base = float(M.edge(ax, k))
    d = off[1] if off[0] == "u" else off[1] * M.Sf[ax]
    return base + d


class Window:
    """Brute force: footprints of all tiles in a window of spatial cells, taken from the grid under test."""

    def __init__(self, M, gs, cx, cy):
        self.M = M
        self.tiles = {}
        for ky in range(cy[0], cy[1]):
            for kx in range(cx[0], cx[1]):
                idx = (M.idx(0, kx), M.idx(1, ky))
                self.tiles[idx] = rect_of(gs[idx])
        self.maxabs = max(abs(v) for r in self.tiles.values() for v in r)


def _collect(it):
    out = []
    for item in it:
        out.append(item)
        if len(out) > MAX_TILES:
            raise Violation("query returned more than %d tiles" % MAX_TILES)
    return out


def _check_returned(gs, res, what):
    idxs = []
    for item in res:
        require(isinstance(item, tuple) and len(item) == 2, "%s yields %r", what, type(item))
        idx, gb = item
        idx = (int(idx[0]), int(idx[1]))
        idxs.append(idx)
    require(len(set(idxs)) == len(idxs), "%s returned duplicate tiles: %r", what, sorted(idxs)[:12])
    for (idx, gb) in res[:3] + res[-1:]:
        require(gb == gs[tuple(idx)], "%s returned a GeoBox for %r that differs from gs[idx]", what, idx)
    return idxs


def _noise(M, maxabs):
    return (4.0 if M.exact else 16.0) * math.ulp(maxabs)


def _bbox_verdict(q, r, noise):
    """'req' | 'forb' | 'amb' for tile rectangle r against query box q using reach-into-tile per axis."""
    req, forb = True, False
    for ax in (0, 1):
        q0, q1, t0, t1 = q[ax], q[ax + 2], r[ax], r[ax + 2]
        pen = min(t1 - q0, q1 - t0)
        if not pen >= 1.2 * TOL + noise:
            req = False
        lim = (0.8 * TOL - noise) if (q1 - q0) >= 1e-7 else -1e-6
        if pen <= lim:
            forb = True
    return "forb" if forb else "req" if req else "amb"


# ----------------------------------------------------------------------------- 4. bbox query
@st.composite
def s_bbox(draw):
    g = draw(grids())
    q = {}
    for ax in "xy":
        a = draw(st.sampled_from([-1, 0, 0, 0, 1]))
        w = draw(st.sampled_from([0, 1, 1, 1, 2, 3]))
        q[ax] = [a, a + w, draw(st.sampled_from(Q_OFFS)), draw(st.sampled_from(Q_OFFS))]
    spell = draw(st.sampled_from(["proj", "odc"] if g["crs"]["label"] == "sinu" else CHEAP_SPELL))
    return {
        "g": g, "idx": [draw(_index()), draw(_index())], "q": q, "src": draw(st.sampled_from(["model", "fp"])),
        "bbox_spell": spell, "cache": draw(st.booleans()),
    }


def o_bbox(case, T):
    from odc.geo.geom import BoundingBox

    M = Grid(case["g"])
    idx = case["idx"]
    gs = M.mk()
    q = [0.0] * 4
    cells = []
    for ax, name in ((0, "x"), (1, "y")):
        a, b, o0, o1 = case["q"][name]
        k = M.cell(ax, idx[ax])
        c0 = _edge_coord(M, gs, ax, k + a, o0, case["src"], idx)
        c1 = _edge_coord(M, gs, ax, k + b, o1, case["src"], idx)
        if c0 > c1:
            c0, c1 = c1, c0
        q[ax], q[ax + 2] = c0, c1
        cells.append((k + a - 2, k + b + 2))
        T.cls(_off_label(o0))
        T.cls(_off_label(o1))
    crs_spec = mk_crs_spec({"label": case["g"]["crs"]["label"], "spell": case["bbox_spell"]})
    bb = BoundingBox(q[0], q[1], q[2], q[3], crs_spec)
    res = _collect(gs.tiles(bb))
    got = _check_returned(gs, res, "tiles(bbox)")
    if case["cache"]:
        cache = {}
        res2 = _collect(gs.tiles(bb, geobox_cache=cache))
        require([i for i, _ in res2] == [i for i, _ in res], "tiles() with geobox_cache returns different tiles")
        require(set(cache) == set(map(tuple, got)), "geobox_cache keys %r != returned tiles", sorted(cache)[:8])
        res3 = _collect(gs.tiles(bb, geobox_cache=cache))
        require(all(a[1] is b[1] for a, b in zip(res2, res3)), "geobox_cache not re-used")
    W = Window(M, gs, cells[0], cells[1])
    noise = _noise(M, max(W.maxabs, max(abs(v) for v in q), abs(M.of[0]), abs(M.of[1])))
    gotset = set(got)
    nreq = nforb = namb = 0
    for tidx, r in W.tiles.items():
        v = _bbox_verdict(q, r, noise)
        if v == "req":
            nreq += 1
            require(
                tidx in gotset,
                "tiles(bbox) misses tile %r: footprint %r, query %r reaches %.3g/%.3g into it; returned %r (shape=%r res=%r origin=%r flips=%r)",
                tidx, r, tuple(q), min(r[2] - q[0], q[2] - r[0]), min(r[3] - q[1], q[3] - r[1]), sorted(gotset)[:9],
                case["g"]["shape"], M.r, M.of, (case["g"]["flipx"], case["g"]["flipy"]),
            )
        elif v == "forb":
            nforb += 1
            if min(min(r[2] - q[0], q[2] - r[0]), min(r[3] - q[1], q[3] - r[1])) >= -TOL:
                T.cls("tiles_forbidden_edge_contact")
            require(
                tidx not in gotset,
                "tiles(bbox) returns tile %r that does not overlap the query: footprint %r, query %r, reach x %.3g y %.3g (noise %.2g)",
                tidx, r, tuple(q), min(r[2] - q[0], q[2] - r[0]), min(r[3] - q[1], q[3] - r[1]), noise,
            )
        else:
            namb += 1
    extra = gotset - set(W.tiles)
    require(not extra, "tiles(bbox) returns tiles more than a tile away from the query %r: %r", tuple(q), sorted(extra)[:8])
    # idx_bounds is the same answer as half-open ranges
    x1, y1, x2, y2 = gs.idx_bounds(bb)
    require(
        gotset == set(itertools.product(range(x1, x2), range(y1, y2))),
        "idx_bounds %r does not describe the tiles returned %r", (x1, y1, x2, y2), sorted(gotset)[:9],
    )
    T.cls("tiles_required", nreq)
    T.cls("tiles_forbidden", nforb)
    if namb:
        T.exclude("ambiguous_tiles", namb)
    T.cls("returned_%s" % (len(got) if len(got) < 3 else "3+"))
    M.classify(T, idx)


# ----------------------------------------------------------------------------- 5. polygon query, same CRS
TRI = [
    [(0, 0), (2, 0), (0, 2)], [(0, 0), (3, 1), (1, 3)], [(0, 0), (1, 0), (0, 1)], [(0, 0), (2, 1), (1, 2)],
    [(1, 0), (3, 2), (0, 3)], [(0, 0), (3, 0), (3, 3)], [(0, 1), (1, 0), (2, 2)],
]
DIAMOND = [(0, 2), (1, 3), (3, 1), (2, 0)]


@st.composite
def s_poly_shape(draw, offs, kinds=("box", "box", "tri", "tri", "L", "hole", "big_hole", "diamond", "two_row", "two_col", "two_diag", "two_tri_box", "two_box_tri")):
    kind = draw(st.sampled_from(list(kinds)))
    multi = kind.startswith("two")
    if kind in ("two_tri_box", "two_box_tri"):
        # a triangle whose bounding box has an empty corner, and a second part sitting in that corner (either order):
        # the tile in the corner is not touched by the triangle, but it is part of the answer
        n = draw(st.sampled_from([2, 3, 3, 4]))
        tri = [(0, 0), (0, n), (n, 0)]
        box = [(n - 1, n - 1), (n - 1, n), (n, n), (n, n - 1)]
        if draw(st.booleans()):
            tri = [(n - x, y) for x, y in tri]
            box = [(n - x, y) for x, y in box]
        rings = [tri, box] if kind == "two_tri_box" else [box, tri]
    elif multi:
        # two-part query: parts in the same tile row / column with whole tiles between them, or diagonal
        gap = draw(st.sampled_from([1, 1, 2, 3]))
        w = draw(st.sampled_from([1, 1, 2]))
        a = [(0, 0), (0, 1), (w, 1), (w, 0)]
        if kind == "two_row":
            dx, dy = w + gap, 0
        elif kind == "two_col":
            a = [(0, 0), (0, w), (1, w), (1, 0)]
            dx, dy = 0, w + gap
        else:
            dx, dy = w + gap, 1 + gap
        rings = [a, [(x + dx, y + dy) for x, y in a]]
    elif kind == "box":
        w, h = draw(st.sampled_from([1, 1, 2, 3])), draw(st.sampled_from([1, 1, 2, 3]))
        rings = [[(0, 0), (0, h), (w, h), (w, 0)]]
    elif kind == "tri":
        rings = [draw(st.sampled_from(TRI))]
        if draw(st.booleans()):
            rings = [[(3 - x, y) for x, y in rings[0]]]
    elif kind == "diamond":
        rings = [DIAMOND]
    elif kind == "L":
        w, h = draw(st.sampled_from([2, 3])), draw(st.sampled_from([2, 3]))
        cx, cy = draw(st.integers(1, w - 1)), draw(st.integers(1, h - 1))
        rings = [[(0, 0), (0, h), (cx, h), (cx, cy), (w, cy), (w, 0)]]
    elif kind == "big_hole":
        # a rectangle whose hole strictly contains whole tiles: those tiles do not overlap the query (round 8, C14-20)
        n = draw(st.sampled_from([5, 5, 6]))
        m = draw(st.sampled_from([n - 1, n - 1, n - 2]))
        rings = [[(0, 0), (0, n), (n, n), (n, 0)], [(1, 1), (m, 1), (m, m), (1, m)]]
    else:
        rings = [[(0, 0), (0, 3), (3, 3), (3, 0)], [(1, 1), (2, 1), (2, 2), (1, 2)]]
    o = st.sampled_from(offs)
    if kind in ("box", "L", "hole", "big_hole") or multi:
        # rectilinear: one offset per distinct grid line keeps edges axis-parallel
        xs = {x for ring in rings for x, _ in ring}
        ys = {y for ring in rings for _, y in ring}
        ox = {x: draw(o) for x in sorted(xs)}
        oy = {y: draw(o) for y in sorted(ys)}
        out = [[[[x, ox[x]], [y, oy[y]]] for x, y in ring] for ring in rings]
    else:
        out = [[[[x, draw(o)], [y, draw(o)]] for x, y in ring] for ring in rings]
    return {"kind": kind, "rings": out, "multi": multi, "shift": [draw(st.sampled_from([-1, 0, 0, 0])), draw(st.sampled_from([-1, 0, 0, 0]))]}


@st.composite
def s_poly(draw):
    return {"g": draw(grids()), "idx": [draw(_index()), draw(_index())], "poly": draw(s_poly_shape(Q_OFFS)),
            "src": draw(st.sampled_from(["model", "fp"]))}


def _poly_coords(M, gs, idx, poly, src):
    rings = []
    kmin = [10**9, 10**9]
    kmax = [-(10**9), -(10**9)]
    for ring in poly["rings"]:
        pts = []
        for vx, vy in ring:
            c = []
            for ax, (k, off) in ((0, vx), (1, vy)):
                kk = M.cell(ax, idx[ax]) + poly["shift"][ax] + k
                kmin[ax] = min(kmin[ax], kk)
                kmax[ax] = max(kmax[ax], kk)
                c.append(_edge_coord(M, gs, ax, kk, off, src, idx))
            pts.append((c[0], c[1]))
        pts.append(pts[0])
        rings.append(pts)
    return rings, kmin, kmax


def o_poly(case, T):
    import shapely.geometry as sg

    from odc.geo import geom

    M = Grid(case["g"])
    idx = case["idx"]
    gs = M.mk()
    rings, kmin, kmax = _poly_coords(M, gs, idx, case["poly"], case["src"])
    if case["poly"].get("multi"):
        sp = sg.MultiPolygon([sg.Polygon(r) for r in rings])
    else:
        sp = sg.Polygon(rings[0], rings[1:])
    if not sp.is_valid or sp.area <= 0:
        T.exclude("degenerate_polygon")
        return
    if case["poly"].get("multi"):
        gp = geom.multipolygon([[r] for r in rings], mk_crs_spec(case["g"]["crs"]))
    else:
        gp = geom.polygon(rings[0], mk_crs_spec(case["g"]["crs"]), *rings[1:])
    res = _collect(gs.tiles_from_geopolygon(gp))
    got = set(_check_returned(gs, res, "tiles_from_geopolygon"))
    W = Window(M, gs, (kmin[0] - 2, kmax[0] + 2), (kmin[1] - 2, kmax[1] + 2))
    q = sp.bounds
    # the optional geobox cache is an optimisation: a dict already filled by an earlier query (a box query over the
    # neighbourhood, or the query's own bounding rectangle as a polygon) must not change the answer
    cache = {}
    wb = (min(r[0] for r in W.tiles.values()), min(r[1] for r in W.tiles.values()), max(r[2] for r in W.tiles.values()), max(r[3] for r in W.tiles.values()))
    if (idx[0] + idx[1]) % 2 == 0:
        warm = _collect(gs.tiles(geom.BoundingBox(*wb, crs=mk_crs_spec(case["g"]["crs"])), cache))
        T.cls("cache_warmed_by_box_query")
    else:
        warm = _collect(gs.tiles_from_geopolygon(geom.box(*q, mk_crs_spec(case["g"]["crs"])), cache))
        T.cls("cache_warmed_by_polygon_query")
    got_c = [tuple(map(int, i)) for i, _ in _collect(gs.tiles_from_geopolygon(gp, cache))]
    require(
        sorted(got_c) == sorted(got),
        "tiles_from_geopolygon with a geobox_cache filled by an earlier query (%d tiles) returns %r, without a cache %r (%s %r)",
        len(warm), sorted(got_c)[:12], sorted(got)[:12], case["poly"]["kind"], [tuple(p) for p in rings[0][:4]],
    )
    noise = _noise(M, max(W.maxabs, max(abs(v) for v in q), abs(M.of[0]), abs(M.of[1])))
    shrink = max(1e-6, 4 * (1.2 * TOL + noise))
    nreq = nforb = namb = 0
    for tidx, r in W.tiles.items():
        verdict = "amb"
        if _bbox_verdict(q, r, noise) == "forb":
            verdict = "forb"
        else:
            tp = sg.box(*r)
            if sp.distance(tp) > 1e-6 + noise:
                verdict = "forb"
            elif r[2] - r[0] > 4 * shrink and r[3] - r[1] > 4 * shrink:
                inner = sg.box(r[0] + shrink, r[1] + shrink, r[2] - shrink, r[3] - shrink)
                if sp.intersects(inner):
                    verdict = "req"
        if verdict == "req":
            nreq += 1
            require(
                tidx in got,
                "tiles_from_geopolygon misses tile %r (footprint %r) which the %s %r overlaps; returned %r (shape=%r res=%r origin=%r flips=%r)",
                tidx, r, case["poly"]["kind"], [tuple(p) for p in rings[0][:4]], sorted(got)[:9], case["g"]["shape"], M.r, M.of, (case["g"]["flipx"], case["g"]["flipy"]),
            )
        elif verdict == "forb":
            nforb += 1
            require(
                tidx not in got,
                "tiles_from_geopolygon returns tile %r (footprint %r) which the %s %r does not overlap (distance %.3g, bbox %r)",
                tidx, r, case["poly"]["kind"], [tuple(p) for p in rings[0][:4]], sp.distance(sg.box(*r)), q,
            )
        else:
            namb += 1
    extra = got - set(W.tiles)
    require(not extra, "tiles_from_geopolygon returns tiles far from the polygon: %r", sorted(extra)[:8])
    T.cls("poly_" + case["poly"]["kind"])
    T.cls("tiles_required", nreq)
    T.cls("tiles_forbidden", nforb)
    if namb:
        T.exclude("ambiguous_tiles", namb)
    M.classify(T, idx)


# ----------------------------------------------------------------------------- 6. polygon query, other CRS
def _lonlat_common(a, b):
    A, B = CRS_POOL[a][1], CRS_POOL[b][1]
    box = (max(A[0], B[0]), max(A[1], B[1]), min(A[2], B[2]), min(A[3], B[3]))
    if box[2] - box[0] < 2 or box[3] - box[1] < 2:
        return None
    return box


CRS_PAIRS = [(a, b) for a in CRS_POOL for b in CRS_POOL if a != b and _lonlat_common(a, b) is not None]
X_OFFS = [["t", 0.3], ["t", -0.3], ["t", 0.1], ["t", -0.1], ["t", 0.5], ["t", 0.0], ["t", 0.02], ["t", -0.02]]
X_OFFS_WIDE = [["t", 0.002], ["t", -0.002], ["t", 0.0005], ["t", -0.0005], ["t", 0.3], ["t", -0.3], ["t", 0.02], ["t", -0.02]]


@functools.lru_cache(maxsize=None)
def _pp(label):
    from pyproj import CRS as P

    return P.from_user_input(SINU_PROJ) if label == "sinu" else P.from_epsg(int(label))


@functools.lru_cache(maxsize=None)
def _tr(a, b):
    from pyproj import Transformer

    return Transformer.from_crs(_pp(a), _pp(b), always_xy=True)


# grid CRSs whose parallels/meridians are curved in the plane, with the longitude of their central axis: there a vertex in
# the middle of a query's bounding-box edge sticks out of the box spanned by the four projected corners
TIP_GRIDS = {"3577": 132.0, "3035": 10.0, "32633": 15.0, "32755": 147.0}
TINY_OFFS = [["t", 0.0005], ["t", -0.0005], ["t", 0.002], ["t", -0.002], ["t", 0.0005], ["t", 0.002]]


@st.composite
def s_xcrs_tip(draw):
    """Diamond straddling the central axis of a curved projection, tips a hair inside/outside a tile row of large tiles."""
    gl = draw(st.sampled_from(sorted(TIP_GRIDS)))
    ql = draw(st.sampled_from([b for a, b in CRS_PAIRS if a == gl and b not in TIP_GRIDS]))
    box = _lonlat_common(gl, ql)
    n = draw(st.sampled_from([1000, 2000, 4000]))
    r = draw(st.sampled_from([25.0, 50.0, 100.0]))
    o = st.sampled_from(X_OFFS)
    tiny = st.sampled_from(TINY_OFFS)
    ring = [[[0, draw(o)], [2, draw(o)]], [[1, draw(o)], [3, draw(tiny)]], [[3, draw(o)], [1, draw(o)]], [[2, draw(o)], [0, draw(tiny)]]]
    return {
        "glabel": gl, "qlabel": ql,
        "gspell": draw(st.sampled_from(CHEAP_SPELL)),
        "qspell": draw(st.sampled_from(["proj", "odc"] if ql == "sinu" else CHEAP_SPELL)),
        "anchor": [(TIP_GRIDS[gl] - box[0]) / (box[2] - box[0]), draw(st.floats(0.2, 0.8))],
        "shape": [n, n], "mag": [r, r],
        "sgn": [draw(st.sampled_from([1.0, -1.0])), draw(st.sampled_from([-1.0, 1.0]))],
        "flipx": draw(st.booleans()), "flipy": draw(st.booleans()),
        "cell": [draw(_index()), draw(_index())],
        "frac": [draw(st.sampled_from([0.0, 0.1, 0.3, 0.37])), draw(st.floats(0.0, 1.0))],
        "poly": {"kind": "diamond", "rings": [ring], "multi": False, "shift": [-1, draw(st.sampled_from([-1, 0]))]},
        "flavour": "tip",
    }


@st.composite
def s_xcrs(draw):
    if draw(st.integers(0, 4)) == 0:
        return draw(s_xcrs_tip())
    gl, ql = draw(st.sampled_from(CRS_PAIRS))
    geographic = CRS_POOL[gl][0] == "geographic"
    ny, nx = draw(_side()), draw(_side())
    wide = draw(st.integers(0, 2)) == 0
    if wide:
        # production-sized tiles (thousands of pixels, tens to hundreds of km): the curvature of the other CRS across
        # one query is then a visible fraction of a tile; vertices sit a hair inside/outside tile edges
        ny = nx = draw(st.sampled_from([250, 1000] if geographic else [1000, 3200, 4000, 2048]))
    if geographic:
        mag = st.one_of(st.sampled_from([0.5, 7.3, 10.0, 1 / 3.0]), st.floats(0.5, 10.0))
    else:
        mag = st.one_of(st.sampled_from([10.0, 30.0, 7.3, 0.5]), st.floats(1.0, 100.0))
    mx = draw(mag)
    my = draw(st.one_of(st.just(mx), mag))
    return {
        "glabel": gl, "qlabel": ql,
        "gspell": draw(st.sampled_from(["proj", "odc"] if gl == "sinu" else CHEAP_SPELL)),
        "qspell": draw(st.sampled_from(["proj", "odc"] if ql == "sinu" else CHEAP_SPELL + ["wkt2"])),
        "anchor": [draw(st.sampled_from([0.5, 0.45, 0.55])) if wide and draw(st.booleans()) else draw(st.floats(0.1, 0.9)), draw(st.floats(0.1, 0.9))],
        "shape": [ny, nx], "mag": [mx, my],
        "sgn": [draw(st.sampled_from([1.0, -1.0])), draw(st.sampled_from([-1.0, 1.0]))],
        "flipx": draw(st.booleans()), "flipy": draw(st.booleans()),
        "cell": [draw(_index()), draw(_index())],
        "frac": [draw(st.floats(0.0, 1.0)), draw(st.floats(0.0, 1.0))],
        "poly": draw(s_poly_shape(X_OFFS_WIDE, ("tri", "tri", "diamond", "diamond", "box", "L")) if wide else s_poly_shape(X_OFFS)),
    }


def _seg_dev(p, a, b):
    """Distance from point p to segment ab."""
    ax, ay = a
    bx, by = b
    dx, dy = bx - ax, by - ay
    L2 = dx * dx + dy * dy
    if L2 == 0:
        return math.hypot(p[0] - ax, p[1] - ay)
    t = max(0.0, min(1.0, ((p[0] - ax) * dx + (p[1] - ay) * dy) / L2))
    return math.hypot(p[0] - (ax + t * dx), p[1] - (ay + t * dy))


def o_xcrs(case, T):
    import shapely.geometry as sg

    from odc.geo import geom

    gl, ql = case["glabel"], case["qlabel"]
    box = _lonlat_common(gl, ql)
    lon = box[0] + case["anchor"][0] * (box[2] - box[0])
    lat = box[1] + case["anchor"][1] * (box[3] - box[1])
    ax_, ay_ = _tr("4326", gl).transform(lon, lat)
    unit = 1e-3 if CRS_POOL[gl][0] == "geographic" else 1.0
    ny, nx = case["shape"]
    res = [case["mag"][0] * unit * case["sgn"][0], case["mag"][1] * unit * case["sgn"][1]]
    S = (nx * abs(res[0]), ny * abs(res[1]))
    d = (-1 if case["flipx"] else 1, -1 if case["flipy"] else 1)
    # origin such that the anchor falls into spatial cell `cell*d` at fraction `frac`
    kc = [case["cell"][0] * d[0], case["cell"][1] * d[1]]
    origin = [ax_ - (kc[0] + case["frac"][0]) * S[0], ay_ - (kc[1] + case["frac"][1]) * S[1]]
    g = {"shape": [ny, nx], "res": res, "res_spell": "xy", "origin": origin, "okind": "anchored", "flipx": case["flipx"],
         "flipy": case["flipy"], "crs": {"label": gl, "spell": case["gspell"]}}
    M = Grid(g)
    gs = M.mk()
    idx = case["cell"]
    rings_g, kmin, kmax = _poly_coords(M, gs, idx, case["poly"], "model")
    # the query, expressed in the other CRS (any float coordinates are a legitimate query)
    g2q, q2g = _tr(gl, ql), _tr(ql, gl)
    rings_q = []
    for ring in rings_g:
        pts = [tuple(map(float, g2q.transform(x, y))) for x, y in ring[:-1]]
        pts.append(pts[0])
        rings_q.append(pts)
    if not all(math.isfinite(v) for r in rings_q for p in r for v in p):
        T.exclude("query_not_representable_in_query_crs")
        return
    # oracle's reading of the query back in the grid CRS: straight edges between projected vertices + true edges
    rings_s = []
    dev = 0.0
    NSUB = 33
    for ring in rings_q:
        vs = [tuple(map(float, q2g.transform(x, y))) for x, y in ring[:-1]]
        vs.append(vs[0])
        rings_s.append(vs)
        for (p0, p1), (v0, v1) in zip(zip(ring[:-1], ring[1:]), zip(vs[:-1], vs[1:])):
            for i in range(1, NSUB):
                t = i / NSUB
                w = q2g.transform(p0[0] + t * (p1[0] - p0[0]), p0[1] + t * (p1[1] - p0[1]))
                dev = max(dev, _seg_dev(w, v0, v1))
    if not all(math.isfinite(v) for r in rings_s for p in r for v in p) or not math.isfinite(dev):
        T.exclude("projection_not_finite")
        return
    multi = bool(case["poly"].get("multi"))
    sp = sg.MultiPolygon([sg.Polygon(r) for r in rings_s]) if multi else sg.Polygon(rings_s[0], rings_s[1:])
    if not sp.is_valid or sp.area <= 0:
        T.exclude("invalid_after_projection")
        return
    q = sp.bounds
    tile_min = min(S)
    delta = 1.1 * dev + 1e-6 * unit + 64 * math.ulp(max(abs(v) for v in q))
    if delta > 0.25 * tile_min:
        T.exclude("curvature_band_wider_than_quarter_tile")
        return
    qspec = mk_crs_spec({"label": ql, "spell": case["qspell"]})
    gp = geom.multipolygon([[r] for r in rings_q], qspec) if multi else geom.polygon(rings_q[0], qspec, *rings_q[1:])
    res_ = _collect(gs.tiles_from_geopolygon(gp))
    got = set(_check_returned(gs, res_, "tiles_from_geopolygon"))
    # window from the oracle's bounding box
    cx = (M.cell_of(0, q[0] - delta) - 2, M.cell_of(0, q[2] + delta) + 3)
    cy = (M.cell_of(1, q[1] - delta) - 2, M.cell_of(1, q[3] + delta) + 3)
    if (cx[1] - cx[0]) * (cy[1] - cy[0]) > 400:
        T.exclude("window_too_large")
        return
    W = Window(M, gs, cx, cy)
    core = sp.buffer(-delta, quad_segs=16)
    shrink = max(1e-6 * unit, 1e-3 * tile_min)
    nreq = nforb = namb = 0
    for tidx, r in W.tiles.items():
        tp = sg.box(*r)
        inner = sg.box(r[0] + shrink, r[1] + shrink, r[2] - shrink, r[3] - shrink)
        if not core.is_empty and core.intersects(inner):
            nreq += 1
            require(
                tidx in got,
                "tiles_from_geopolygon(%s polygon in %s) misses tile %r of the %s grid: footprint %r, polygon (in grid CRS) %r, band %.3g; returned %r",
                case["poly"]["kind"], ql, tidx, gl, r, [tuple(round(v, 6) for v in p) for p in rings_s[0][:4]], delta, sorted(got)[:9],
            )
        elif sp.distance(tp) > delta:
            nforb += 1
            require(
                tidx not in got,
                "tiles_from_geopolygon(%s polygon in %s) returns tile %r of the %s grid at distance %.6g from the polygon (band %.3g): footprint %r",
                case["poly"]["kind"], ql, tidx, gl, sp.distance(tp), delta, r,
            )
        else:
            namb += 1
    # vertices are unambiguous under either reading of the edges: a tile holding a projected vertex well inside its
    # footprint overlaps the query with positive area
    nvert = 0
    vm = 2e-8 + 1e-6 * unit + 64 * math.ulp(W.maxabs)
    for ring in rings_s:
        for vx, vy in ring[:-1]:
            for tidx, r in W.tiles.items():
                if r[0] + vm < vx < r[2] - vm and r[1] + vm < vy < r[3] - vm:
                    nvert += 1
                    require(
                        tidx in got,
                        "tiles_from_geopolygon(%s polygon in %s) misses tile %r of the %s grid although query vertex (%.6f, %.6f) (grid CRS) lies inside its footprint %r; returned %r",
                        case["poly"]["kind"], ql, tidx, gl, vx, vy, r, sorted(got)[:9],
                    )
    T.cls("vertex_tiles_required", nvert)
    if max(ny, nx) >= 1000:
        T.cls("production_sized_tiles")
    if case.get("flavour") == "tip":
        T.cls("tip_on_central_axis")
    extra = got - set(W.tiles)
    require(not extra, "tiles_from_geopolygon returns tiles far from the polygon: %r", sorted(extra)[:8])
    T.cls("grid_%s" % CRS_POOL[gl][0])
    T.cls("pair_%s<-%s" % (gl, ql))
    T.cls("poly_" + case["poly"]["kind"])
    T.cls("tiles_required", nreq)
    T.cls("tiles_forbidden", nforb)
    if namb:
        T.exclude("ambiguous_tiles", namb)
    if nreq and nforb:
        T.cls("query_splits_window")
    M.classify(T, idx)


# ----------------------------------------------------------------------------- 7. from_sample_tile
@st.composite
def s_sample(draw):
    return {"g": draw(grids()), "si": [draw(_index()), draw(_index())],
            "others": [[draw(_index()), draw(_index())] for _ in range(5)],
            "as_index2d": draw(st.booleans())}


def o_sample(case, T):
    from odc.geo import ixy_
    from odc.geo.gridspec import GridSpec

    M = Grid(case["g"])
    gs = M.mk()
    si = tuple(case["si"])
    ny, nx = case["g"]["shape"]
    box = gs[si].extent
    s0 = rect_of(gs[si])
    gs2 = GridSpec.from_sample_tile(
        box, shape=(ny, nx), idx=ixy_(*si) if case["as_index2d"] else si, flipx=case["g"]["flipx"], flipy=case["g"]["flipy"]
    )
    require(tuple(gs2.tile_shape) == (ny, nx), "rebuilt grid tile_shape %r != %r", gs2.tile_shape, (ny, nx))
    require(gs2.crs == gs.crs, "rebuilt grid crs %r != %r", gs2.crs, gs.crs)
    for k in [list(si)] + case["others"]:
        k = tuple(k)
        a = rect_of(gs[k])
        gb = gs2[k]
        b = rect_of(gb)
        require(tuple(gb.shape) == (ny, nx), "rebuilt tile shape %r", tuple(gb.shape))
        for ax in (0, 1):
            if M.exact:
                tol = 0.0
            else:
                dist = abs(k[ax] - si[ax])
                ulp_s = math.ulp(max(abs(s0[ax]), abs(s0[ax + 2])))
                tol = 4 * ulp_s * (dist + 2) + M.slack(ax, abs(k[ax]) + abs(si[ax]) + 2) * (2 * dist + 2)
            require(
                _close(a[ax], b[ax], tol) and _close(a[ax + 2], b[ax + 2], tol),
                "grid rebuilt from tile %r: tile %r spans %r along %s, original %r (allowed %.3g; shape=%r res=%r origin=%r flips=%r)",
                si, k, (b[ax], b[ax + 2]), "xy"[ax], (a[ax], a[ax + 2]), tol, (ny, nx), M.r, M.of, (case["g"]["flipx"], case["g"]["flipy"]),
            )
        # lookup in the rebuilt grid agrees too (centre of the original tile)
        c = ((a[0] + a[2]) / 2, (a[1] + a[3]) / 2)
        gi = gs2.pt2idx(*c)
        require((gi.x, gi.y) == k, "rebuilt grid: pt2idx(centre of tile %r) = %r", k, (gi.x, gi.y))
    M.classify(T, si)
    T.cls("sample_idx_zero" if si == (0, 0) else "sample_idx_nonzero")


# ----------------------------------------------------------------------------- 8. web tiles
R_EARTH = 6378137.0


@st.composite
def s_web(draw):
    z = draw(st.integers(0, 22))
    n = 2**z
    c = st.one_of(st.sampled_from([0, n - 1, n // 2, max(0, n // 2 - 1)]), st.integers(0, n - 1))
    return {"z": z, "x": draw(c), "y": draw(c), "npix": draw(st.sampled_from([None, 256, 512, 1, 100]))}


def _web_expected(z, x, y):
    W = 2 * math.pi * R_EARTH
    t = Fr(W) / 2**z
    x0 = -Fr(W) / 2 + x * t
    y1 = Fr(W) / 2 - y * t
    return x0, y1 - t, x0 + t, y1, float(t)


def o_web(case, T):
    from odc.geo.crs import CRS
    from odc.geo.gridspec import GridSpec

    z, x, y, npix = case["z"], case["x"], case["y"], case["npix"]
    gs = GridSpec.web_tiles(z) if npix is None else GridSpec.web_tiles(z, npix)
    npix = npix or 256
    require(gs.crs == CRS("EPSG:3857"), "web_tiles crs %r", gs.crs)
    require(tuple(gs.tile_shape) == (npix, npix), "web_tiles tile shape %r", gs.tile_shape)
    gb = gs[x, y]
    r = rect_of(gb)
    ex = _web_expected(z, x, y)
    t = ex[4]
    tol = 16 * math.ulp(math.pi * R_EARTH)
    for name, got, want in zip(("left", "bottom", "right", "top"), r, ex[:4]):
        require(
            abs(Fr(got) - want) <= Fr(tol), "web tile z=%d (%d,%d): %s = %r, slippy-map formula gives %r (dev=%.3gm, allowed %.3g)", z, x, y, name, got,
            float(want), float(abs(Fr(got) - want)), tol,
        )
    require(tuple(gb.shape) == (npix, npix), "web tile shape %r", tuple(gb.shape))
    res = gb.resolution
    rel = 1e-12  # sanity only: the extents above (tiles 0 and 2^z-1) bound the tile size far more tightly
    require(
        abs(res.x - t / npix) <= rel * t / npix and abs(res.y + t / npix) <= rel * t / npix,
        "web tile z=%d resolution %r, expected (+%r, -%r) (dev=%.3gm over a tile)", z, (res.x, res.y), t / npix, t / npix,
        max(abs(res.x * npix - t), abs(res.y * npix + t)),
    )
    # lon/lat definition of slippy tiles (independent of the linear formula): NW and SE corner
    n = 2**z
    for cx_, cy_, px, py in ((x, y, r[0], r[3]), (x + 1, y + 1, r[2], r[1])):
        lon = cx_ / n * 360.0 - 180.0
        lat = math.degrees(math.atan(math.sinh(math.pi * (1 - 2 * cy_ / n))))
        ex_, ey_ = _tr("4326", "3857").transform(lon, lat)
        require(
            abs(ex_ - px) <= 1e-4 and abs(ey_ - py) <= 1e-4,
            "web tile z=%d (%d,%d): corner %r, lon/lat slippy-map corner (%r,%r) is at %r (dev=%.3gm)", z, x, y, (px, py), lon, lat, (ex_, ey_),
            max(abs(ex_ - px), abs(ey_ - py)),
        )
    # lookup: centre and points just inside each corner
    e = 1e-4 * t
    for px, py in (((r[0] + r[2]) / 2, (r[1] + r[3]) / 2), (r[0] + e, r[1] + e), (r[2] - e, r[3] - e), (r[0] + e, r[3] - e), (r[2] - e, r[1] + e)):
        gi = gs.pt2idx(px, py)
        require((gi.x, gi.y) == (x, y), "web grid z=%d: pt2idx(%r,%r) = %r, point is inside tile %r", z, px, py, (gi.x, gi.y), (x, y))
    if z >= 1:
        T.nontrivial()
    T.cls("zoom_%02d" % z if z in (0, 1, 22) else "zoom_2..21")
    T.cls("npix_%s" % case["npix"])


def e_world(tier):
    for z in range(0, 23):
        yield {"z": z}


def o_world(case, T):
    import shapely.ops

    from odc.geo.geom import BoundingBox
    from odc.geo.gridspec import GridSpec

    z = case["z"]
    n = 2**z
    gs = GridSpec.web_tiles(z)
    H = math.pi * R_EARTH
    t = 2 * H / n
    e = 1e-4 * t
    # corners of the world: (0,0) is top-left, (n-1,n-1) bottom-right (documented orientation)
    for (px, py), want in (((-H + e, H - e), (0, 0)), ((H - e, -H + e), (n - 1, n - 1)), ((-H + e, -H + e), (0, n - 1)), ((H - e, H - e), (n - 1, 0))):
        gi = gs.pt2idx(px, py)
        require((gi.x, gi.y) == want, "web grid z=%d: world corner (%r,%r) maps to tile %r, expected %r", z, px, py, (gi.x, gi.y), want)
    # 2^z tiles per side
    # (the world shrunk by 1e-6 m: far above 16 ulp = 6e-8 m of rounding at these magnitudes and the 1e-8 query tolerance)
    bb = BoundingBox(-H + 1e-6, -H + 1e-6, H - 1e-6, H - 1e-6, "EPSG:3857")
    ib = gs.idx_bounds(bb)
    require(tuple(ib) == (0, 0, n, n), "web grid z=%d: index bounds of the world (shrunk by 1e-6 m) are %r, expected %r", z, tuple(ib), (0, 0, n, n))
    if z <= 4:
        res = _collect(gs.tiles(bb))
        got = _check_returned(gs, res, "tiles(world)")
        require(sorted(got) == sorted(itertools.product(range(n), range(n))), "web grid z=%d: world query returns %d tiles, expected %d", z, len(got), n * n)
        u = shapely.ops.unary_union([gb.extent.geom for _, gb in res])
        ub = u.bounds
        require(
            abs(u.area - 4 * H * H) <= 1e-9 * 4 * H * H and all(abs(abs(v) - H) <= 1e-6 for v in ub),
            "web grid z=%d: tiles do not add up to the world square: area %.9g bounds %r", z, u.area, ub,
        )
        for (x, y), gb in res:
            r = rect_of(gb)
            ex = _web_expected(z, x, y)
            require(all(abs(a - float(b)) <= 1e-6 for a, b in zip(r, ex[:4])), "web tile z=%d (%d,%d) footprint %r, expected %r", z, x, y, r, tuple(map(float, ex[:4])))
    if z >= 1:
        T.nontrivial()
    T.cls("full_listing" if z <= 4 else "corners_only")


# ----------------------------------------------------------------------------- known finding signature
def known_web_drift(sub, case, msg):
    """web_tiles() recovers the tile size as (x0 + size) - x0: edges drift by up to 2 mm at high zoom and the world
    query sees 2^z + 1 tiles per side.  Signature: web sub-checks, deviation below 5 mm / exactly one extra tile."""
    import re

    if sub == "web_tiles":
        m = re.search(r"dev=([0-9.eE+-]+)m", msg)
        return bool(m) and float(m.group(1)) < 5e-3 and case["z"] >= 2
    if sub == "web_world":
        n = 2 ** case["z"]
        return "index bounds of the world" in msg and ("are (0, 0, %d, %d)" % (n + 1, n + 1)) in msg
    return False


# ----------------------------------------------------------------------------- registry
def build(chk: Check) -> None:
    chk.known("C14-web-drift", known_web_drift)
    chk.sub("tile_geobox", o_geobox, strategy=s_geobox(), n={"quick": 3000, "thorough": 150000})
    chk.sub("pt2idx", o_pt, cov={"quick": 1500, "thorough": 100000}, strategy=s_pt(), n={"quick": 3000, "thorough": 120000})
    chk.sub("neighbours", o_nb, strategy=s_nb(), n={"quick": 2000, "thorough": 80000})
    chk.sub("tiles_bbox", o_bbox, cov={"quick": 1500, "thorough": 100000}, strategy=s_bbox(), n={"quick": 4000, "thorough": 200000})
    chk.sub("tiles_poly", o_poly, strategy=s_poly(), n={"quick": 3000, "thorough": 120000})
    chk.sub("tiles_poly_crs", o_xcrs, strategy=s_xcrs(), n={"quick": 1200, "thorough": 50000})
    chk.sub("from_sample_tile", o_sample, strategy=s_sample(), n={"quick": 2000, "thorough": 80000})
    chk.sub("web_tiles", o_web, strategy=s_web(), n={"quick": 1800, "thorough": 60000})
    chk.sub("web_world", o_world, enum=e_world, exhaustive_tiers=("quick", "thorough"))
