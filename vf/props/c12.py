"""C12 - tile queries and tile dependency graphs are complete.

Code under test: ``GeoboxTiles.tiles / range_from_bbox / grid_intersect`` (odc/geo/geobox.py) and
``Tiles.locate / VariableSizedTiles.locate`` (odc/geo/roi.py).

All oracles work in the *pixel plane* of the tiled raster, where tile footprints are exact integer rectangles
computed here from the tile layout (never from ``GeoboxTiles[...]``): a query drawn in pixel coordinates is
mapped to world coordinates with this module's own arithmetic, handed to the code under test, and compared with
a brute-force shapely test against every tile.
"""
from __future__ import annotations

import itertools
import math

import numpy as np
from hypothesis import strategies as st

from vf.common import Check, Violation, require
from vf.strategies import CRS_POOL, FA, SPELLINGS, SINU_SPELLINGS, crs_kind, geoboxes, mk_affine, mk_crs, mk_crs_spec, mk_geobox, shapes

RULE = (
    "Hypothesis: tiled GeoBoxes from vf.strategies.geoboxes (exact/general family, north-up, mirrored, rotated, "
    "sheared; sides 1..40) with regular tiles (incl. 1-px tiles, one tile, tile larger than raster) and variable "
    "tiles (incl. 1-px chunks), <=10 tiles per axis (<=6 for graphs). Queries are drawn in pixel coordinates on a "
    "1/16-px lattice biased to tile borders (box, triangle, L-shape, box with hole, two-part multipolygon; inside, "
    "straddling each edge, covering, touching, outside near/far up to 100x the raster) and mapped to the world (same "
    "CRS, any spelling) or to another CRS label by an independent pyproj transformer (rasters <= 250 km across, "
    "pixels <= 25 km, centred inside the common valid lon/lat area of both labels). Pairs for grid_intersect: same CRS "
    "with relative pixel map = scale (1,2,3,1/2,1/4,1.5,2.5,1/3,0.3,7/3,0.7; either sign) + translation (aligned, "
    "integer, sub-pixel incl. 0.0005/0.002 px around the snap tolerance, touching, gap 0.5 px..100x raster), same CRS "
    "with relative rotation/shear, and different CRS labels (overlapping, adjacent, >= 100 px apart). Oracle: brute "
    "force over ALL tiles with shapely / exact-rational interval arithmetic on the integer tile rectangles. "
    "Non-trivial: the query (or the source raster) overlaps some but not all tiles, or the rasters are decidedly "
    "disjoint (emptiness clause); distinct key = placement/shape/relation classes + box class + tile layout (query "
    "coordinates are not part of the key). locate(): enumeration of all regular layouts N<=12 (quick: a third of N<=8) "
    "and all variable layouts N<=7 (quick N<=5) on both axes, every pixel."
)
ASSUMPTIONS = [
    "tile footprint = image of the integer pixel rectangle of the tile under the GeoBox affine (tile layout recomputed here)",
    "a tile whose contact with the query is thinner than the float-rounding tolerance (1e-6 px + 256 eps |coord|/pixel) "
    "is ambiguous: neither required nor forbidden (counted in excluded)",
    "other-CRS queries: tiles within delta = 1.1 x max deviation between the straight and the true (32 extra points per "
    "edge) reprojected edges of the query boundary are ambiguous; pyproj is trusted for the reprojection itself",
    "graph edges are demanded only beyond a sliver: >= 0.01 source px in both axes (axis-parallel same-CRS pairs), >= 1% of the "
    "smaller tile otherwise (different CRS: after eroding the destination tile by the curvature deviation of its edges)",
    "'is empty ... when the two rasters do not overlap' is read as: no exception and NO EDGES (every listed destination "
    "tile has an empty source list, or the dict is empty) - the docstring promises an entry 'for every tile', so keys "
    "with empty lists are an empty graph; demanded when the gap is >= 2 px of both grids",
    "GeoBoxes without CRS are used only for pixel-plane bounding-box queries (world queries on a CRS-less box are undocumented)",
    "back-end artefact (GEOS 3.13.1 in this image): intersects/disjoint is False for polygons one of whose edges lies exactly "
    "inside an edge of the other while overlay area > 0, distance == 0 and the prepared predicate is True; a verdict that would "
    "fail is first re-examined and, if the back-end contradicts itself on the very two polygons, counted as excluded instead",
]
SHARDS = {"quick": 4, "thorough": 16}

EPS = 2.220446049250313e-16
LATTICE = 16  # query coordinates are multiples of 1/16 px


# ============================================================================ tile layouts
def _edges(n: int, kind: str, spec) -> list:
    """Pixel offsets of tile borders along one axis (independent of the code under test)."""
    if kind == "reg":
        t = int(spec)
        return list(range(0, n, t)) + [n]
    out = [0]
    for c in spec:
        out.append(out[-1] + int(c))
    assert out[-1] == n, (out, n)
    return out


def layout_edges(shape, tiles):
    ny, nx = shape
    if tiles["kind"] == "reg":
        return _edges(ny, "reg", tiles["t"][0]), _edges(nx, "reg", tiles["t"][1])
    return _edges(ny, "var", tiles["chunks"][0]), _edges(nx, "var", tiles["chunks"][1])


def tile_arg(tiles):
    if tiles["kind"] == "reg":
        return (int(tiles["t"][0]), int(tiles["t"][1]))
    return (tuple(int(v) for v in tiles["chunks"][0]), tuple(int(v) for v in tiles["chunks"][1]))


def mk_tiled(gbox_case, tiles):
    from odc.geo.geobox import GeoboxTiles

    gbt = GeoboxTiles(mk_geobox(gbox_case), tile_arg(tiles))
    ye, xe = layout_edges(gbox_case["shape"], tiles)
    return gbt, ye, xe


def layout_class(shape, tiles, ye, xe):
    n = (len(ye) - 1) * (len(xe) - 1)
    one_px = any(b - a == 1 for a, b in zip(ye, ye[1:])) or any(b - a == 1 for a, b in zip(xe, xe[1:]))
    return tiles["kind"] + ("/single" if n == 1 else "/multi+1px" if one_px else "/multi")


@st.composite
def tilings(draw, shape, maxt=10):
    ny, nx = shape
    kind = draw(st.sampled_from(["reg", "reg", "reg", "var", "var", "var", "single", "px1"]))

    def reg(n):
        lo = -(-n // maxt)
        how = draw(st.sampled_from(["lo", "lo", "rand", "rand", "rand", "half", "whole", "over"]))
        if how == "rand":
            return draw(st.integers(lo, max(lo, (n + 1) // 2)))
        return {"lo": lo, "half": max(lo, (n + 1) // 2), "whole": n, "over": n + 3}[how]

    def var(n):
        kmax = min(n, maxt)
        if n >= 4 and draw(st.integers(0, 2)) == 0:  # a few wide chunks of uneven size
            step = draw(st.integers(max(2, -(-n // kmax)), max(2, n // 2)))
            cuts = set(range(step, n - 1, step)) if draw(st.booleans()) else set(range(n - step, 1, -step))
            e = [0] + sorted(cuts) + [n]
            return [b - a for a, b in zip(e, e[1:])]
        cuts = set(draw(st.lists(st.integers(1, n - 1), unique=True, max_size=kmax - 1))) if n > 1 else set()
        if n > 2 and len(cuts) < kmax - 1 and draw(st.booleans()):
            cuts.add(draw(st.sampled_from([1, n - 1])))  # 1-px chunk at a border
        e = [0] + sorted(cuts) + [n]
        return [b - a for a, b in zip(e, e[1:])]

    if kind == "single":
        if draw(st.booleans()):
            return {"kind": "reg", "t": [ny, nx]}
        return {"kind": "var", "chunks": [[ny], [nx]]}
    if kind == "px1":
        ty = 1 if ny <= maxt else -(-ny // maxt)
        tx = 1 if nx <= maxt else -(-nx // maxt)
        if draw(st.booleans()):
            return {"kind": "reg", "t": [ty, tx]}
        ey, ex = _edges(ny, "reg", ty), _edges(nx, "reg", tx)
        return {"kind": "var", "chunks": [[b - a for a, b in zip(ey, ey[1:])], [b - a for a, b in zip(ex, ex[1:])]]}
    if kind == "reg":
        return {"kind": "reg", "t": [reg(ny), reg(nx)]}
    return {"kind": "var", "chunks": [var(ny), var(nx)]}


@st.composite
def spelled(draw, label):
    sp = SINU_SPELLINGS if label == "sinu" else SPELLINGS
    return {"label": label, "spell": draw(st.sampled_from(sp))}


@st.composite
def tiled_boxes(draw, maxt=10, max_side=40, allow_none=False):
    gb = draw(geoboxes(max_side=max_side))
    if gb["crs"] is None and not allow_none:
        gb["crs"] = draw(spelled(draw(st.sampled_from(list(CRS_POOL)))))
    return {"gbox": gb, "tiles": draw(tilings(gb["shape"], maxt))}


# ============================================================================ queries in the pixel plane
def _coord(draw, lo, hi, edges):
    """A lattice coordinate in [lo, hi], biased to tile borders (+- small offsets)."""
    klo, khi = math.ceil(lo * LATTICE), math.floor(hi * LATTICE)
    assert klo <= khi, (lo, hi)
    opts = [st.integers(klo, khi).map(lambda k: k / LATTICE)]
    cands = [e for e in edges if lo <= e <= hi]
    if cands:
        offs = [0.0, 0.0, 1 / 16, -1 / 16, 0.5, -0.5, 0.25]
        opts.append(
            st.tuples(st.sampled_from(cands), st.sampled_from(offs)).map(lambda t: min(khi / LATTICE, max(klo / LATTICE, t[0] + t[1])))
        )
    return draw(st.one_of(*opts))


def _interval(draw, cls, n, edges, far, maxlen=3.0):
    """Interval [a, b] (a < b) along one axis of a raster of n pixels, by class."""
    q = 1 / LATTICE
    if cls == "inside":
        a, b = sorted([_coord(draw, 0, n, edges), _coord(draw, 0, n, edges)])
        if a == b:
            if b + 0.25 <= n:
                b += 0.25
            else:
                a -= 0.25
        return a, b
    if cls == "straddle_lo":
        return _coord(draw, -n - 2, -q, edges), _coord(draw, q, n, edges)
    if cls == "straddle_hi":
        return _coord(draw, 0, n - q, edges), _coord(draw, n + q, 2 * n + 2, edges)
    if cls == "cover":
        return _coord(draw, -n - 2, 0, edges), _coord(draw, n, 2 * n + 2, edges)
    gap = draw(st.sampled_from([0.0, q, 0.5, 1.0, 3.0] + [float(k * n) for k in far]))
    ln = draw(st.sampled_from([0.25, 1.0, float(n), maxlen * n]))
    if cls == "out_lo":
        return -gap - ln, -gap
    assert cls == "out_hi"
    return n + gap, n + gap + ln


@st.composite
def pix_queries(draw, shape, ye, xe, far=(10, 100), kinds=("box", "box", "tri", "tri", "L", "L", "hole", "hole", "two"), maxlen=3.0):
    ny, nx = shape
    place = draw(st.sampled_from(["inside", "inside", "inside", "straddle", "straddle", "straddle", "cover", "outside"]))
    anyc = ["inside", "cover", "straddle_lo", "straddle_hi"]
    if place == "inside":
        cx, cy = "inside", "inside"
    elif place == "cover":
        cx, cy = "cover", "cover"
    else:
        main = draw(st.sampled_from(["straddle_lo", "straddle_hi"] if place == "straddle" else ["out_lo", "out_hi"]))
        other = draw(st.sampled_from(anyc + (["out_lo", "out_hi"] if place == "outside" else [])))
        cx, cy = (main, other) if draw(st.booleans()) else (other, main)
    x0, x1 = _interval(draw, cx, nx, xe, far, maxlen)
    y0, y1 = _interval(draw, cy, ny, ye, far, maxlen)
    kind = draw(st.sampled_from(list(kinds)))
    q = 1 / LATTICE
    box = [[x0, y0], [x1, y0], [x1, y1], [x0, y1]]
    roomy = x1 - x0 >= 4 * q and y1 - y0 >= 4 * q
    out = {"kind": kind, "place": place, "ax": [cx, cy], "ext": box, "holes": []}
    if kind == "tri":
        drop = draw(st.integers(0, 3))
        out["ext"] = [p for i, p in enumerate(box) if i != drop]
    elif kind == "L" and roomy:
        corner = draw(st.integers(0, 3))
        if draw(st.booleans()):
            xm = _coord(draw, x0 + q, x1 - q, xe)
            ym = _coord(draw, y0 + q, y1 - q, ye)
        else:  # thin arms: the notch takes most of the box, so whole tiles fall into it
            mx = min(draw(st.sampled_from([q, 0.25, 0.5, 1.0])), (x1 - x0) / 2)
            my = min(draw(st.sampled_from([q, 0.25, 0.5, 1.0])), (y1 - y0) / 2)
            xm = x0 + mx if corner in (1, 2) else x1 - mx
            ym = y0 + my if corner in (2, 3) else y1 - my
        # remove the quadrant at the chosen corner
        if corner == 0:  # (x0,y0)
            out["ext"] = [[xm, y0], [x1, y0], [x1, y1], [x0, y1], [x0, ym], [xm, ym]]
        elif corner == 1:  # (x1,y0)
            out["ext"] = [[x0, y0], [xm, y0], [xm, ym], [x1, ym], [x1, y1], [x0, y1]]
        elif corner == 2:  # (x1,y1)
            out["ext"] = [[x0, y0], [x1, y0], [x1, ym], [xm, ym], [xm, y1], [x0, y1]]
        else:  # (x0,y1)
            out["ext"] = [[x0, y0], [x1, y0], [x1, y1], [xm, y1], [xm, ym], [x0, ym]]
    elif kind == "hole" and roomy:
        if draw(st.booleans()):
            hx = sorted([_coord(draw, x0 + q, x1 - q, xe), _coord(draw, x0 + q, x1 - q, xe)])
            hy = sorted([_coord(draw, y0 + q, y1 - q, ye), _coord(draw, y0 + q, y1 - q, ye)])
        else:  # thin frame: whole tiles fall into the hole
            mx = min(draw(st.sampled_from([q, 0.25, 0.5, 1.0])), (x1 - x0) / 4)
            my = min(draw(st.sampled_from([q, 0.25, 0.5, 1.0])), (y1 - y0) / 4)
            hx, hy = [x0 + mx, x1 - mx], [y0 + my, y1 - my]
        if hx[0] == hx[1]:
            hx = [x0 + q, x1 - q]
        if hy[0] == hy[1]:
            hy = [y0 + q, y1 - q]
        out["holes"] = [[[hx[0], hy[0]], [hx[0], hy[1]], [hx[1], hy[1]], [hx[1], hy[0]]]]
    elif kind == "two" and roomy:
        # multipolygon: two strips (or two opposite corner boxes) of the anchor box, whole tiles may lie between them
        mx = min(draw(st.sampled_from([q, 0.25, 0.5, 1.0])), (x1 - x0) / 4)
        my = min(draw(st.sampled_from([q, 0.25, 0.5, 1.0])), (y1 - y0) / 4)
        how = draw(st.sampled_from(["x", "y", "diag"]))
        if how == "x":
            a, b = (x0, y0, x0 + mx, y1), (x1 - mx, y0, x1, y1)
        elif how == "y":
            a, b = (x0, y0, x1, y0 + my), (x0, y1 - my, x1, y1)
        else:
            a, b = (x0, y0, x0 + mx, y0 + my), (x1 - mx, y1 - my, x1, y1)
        out["ext"] = [[a[0], a[1]], [a[2], a[1]], [a[2], a[3]], [a[0], a[3]]]
        out["ext2"] = [[b[0], b[1]], [b[2], b[1]], [b[2], b[3]], [b[0], b[3]]]
    elif kind in ("L", "hole", "two"):
        out["kind"] = "box"
    return out


def _parts(q):
    """Query as a list of (exterior, holes) polygons in pixel coordinates."""
    out = [(q["ext"], q.get("holes") or [])]
    if q.get("ext2"):
        out.append((q["ext2"], []))
    return out


def _mk_poly(parts):
    import shapely

    polys = [shapely.Polygon(e, h or None) for e, h in parts]
    return polys[0] if len(polys) == 1 else shapely.MultiPolygon(polys)


def _shp(q):
    import shapely

    p = _mk_poly(_parts(q))
    if not p.is_valid or p.area <= 0:
        return None
    return p


def _tile_boxes(ye, xe, shrink=0.0):
    """(ny*nx,) array of shapely boxes (row-major) and the index list."""
    import shapely

    idx = [(iy, ix) for iy in range(len(ye) - 1) for ix in range(len(xe) - 1)]
    x0 = np.array([xe[ix] for _, ix in idx], dtype="float64") + shrink
    x1 = np.array([xe[ix + 1] for _, ix in idx], dtype="float64") - shrink
    y0 = np.array([ye[iy] for iy, _ in idx], dtype="float64") + shrink
    y1 = np.array([ye[iy + 1] for iy, _ in idx], dtype="float64") - shrink
    return shapely.box(x0, y0, x1, y1), idx


def _smin(A):
    m = np.array([[A.a, A.b], [A.d, A.e]], dtype="float64")
    return float(np.linalg.svd(m, compute_uv=False).min())


def _smax(A):
    m = np.array([[A.a, A.b], [A.d, A.e]], dtype="float64")
    return float(np.linalg.svd(m, compute_uv=False).max())


def _tol_px(A, world_pts, shape):
    """Float-rounding allowance in pixels for going pixel->world->pixel with coordinates of this size."""
    ny, nx = shape
    corners = [A * p for p in ((0, 0), (nx, 0), (nx, ny), (0, ny))]
    m = max([abs(v) for p in list(world_pts) + corners for v in p] + [abs(A.c), abs(A.f)])
    return 1e-6 + 256 * EPS * m / _smin(A)


def _required_forbidden(Q, ye, xe, tol, erode=None):
    """Brute force over all tiles.

    required[i]: the tile shrunk by tol meets the query eroded by ``erode`` (default tol);
    forbidden[i]: the tile is further than ``erode`` from the query.
    """
    import shapely

    erode = tol if erode is None else erode
    boxes, idx = _tile_boxes(ye, xe)
    small, _ = _tile_boxes(ye, xe, shrink=tol)
    Qs = Q.buffer(-erode, join_style="mitre")
    if Qs.is_empty:
        req = np.zeros(len(idx), dtype=bool)
    else:
        req = shapely.intersects(Qs, small)
    forb = shapely.distance(Q, boxes) > erode
    return idx, req, forb


def _backend_contradiction(T, qa, eb) -> bool:
    """Back-end artefact filter, consulted only when a verdict is about to fail.

    ``qa``/``eb`` are the two odc Geometries (same CRS) the code under test hands to shapely's ``disjoint``.  GEOS
    3.13.1 (this image) answers ``intersects == False`` for polygons one of whose edges lies exactly inside an edge of
    the other (e.g. a query edge running along a tile border of a rotated raster) although its own overlay gives a large
    intersection area, its distance is 0 and the *prepared* predicate says True.  When the back-end contradicts
    itself like that, the case is counted under excluded and not judged.
    """
    import shapely

    a, b = qa.geom, eb.geom
    inter = bool(shapely.intersects(a, b))
    dist = float(shapely.distance(a, b))
    area = float(shapely.area(shapely.intersection(a, b)))
    if (not inter and (dist == 0 or area > 0)) or (inter and dist > 0):
        T.exclude("backend_geos_predicate_contradicts_overlay")
        return True
    return False


def _check_indexes(got, ye, xe, what):
    out = []
    for t in got:
        require(
            isinstance(t, tuple) and len(t) == 2 and all(isinstance(v, (int, np.integer)) for v in t),
            "%s yielded %r, expected (row, col) ints", what, t,
        )
        require(0 <= t[0] < len(ye) - 1 and 0 <= t[1] < len(xe) - 1, "%s yielded index %r outside the %dx%d tile grid", what, t, len(ye) - 1, len(xe) - 1)
        out.append((int(t[0]), int(t[1])))
    return out


def _world(A, pts):
    return [tuple(A * (float(x), float(y))) for x, y in pts]


def _track_query(T, case, q, layout, klass, nreq, ntiles, namb):
    T.cls("place:" + q["place"])
    T.cls("shape:" + q["kind"])
    T.cls("tiles:" + layout)
    T.cls("box:" + ("rotated" if any(k in klass for k in ("r90", "r270", "shear", "pyth", "rot")) else "mirrored" if "mirror" in klass or "r180" in klass else "north_up"))
    if namb:
        T.exclude("ambiguous_tile_contacts", int(namb))
    if 0 < nreq < ntiles:
        T.nontrivial((q["place"], q["kind"], q["ax"], klass, layout, case["tb"]["tiles"], case["tb"]["gbox"]["shape"]))
        T.cls("partial_cover")
    elif nreq == 0:
        T.cls("no_tile_required")
    else:
        T.cls("all_tiles_required")


# ---------------------------------------------------------------------------- same CRS geometry
@st.composite
def s_geom_same(draw):
    tb = draw(tiled_boxes())
    ye, xe = layout_edges(tb["gbox"]["shape"], tb["tiles"])
    q = draw(pix_queries(tb["gbox"]["shape"], ye, xe))
    qcrs = draw(spelled(tb["gbox"]["crs"]["label"]))
    return {"tb": tb, "q": q, "qcrs": qcrs}


def o_geom_same(case, T):
    import shapely
    from odc.geo.geom import Geometry

    tb, q = case["tb"], case["q"]
    Q = _shp(q)
    if Q is None:
        T.exclude("degenerate_query")
        return
    gbt, ye, xe = mk_tiled(tb["gbox"], tb["tiles"])
    A = mk_affine(tb["gbox"]["affine"])
    wparts = [(_world(A, e), [_world(A, h) for h in hh]) for e, hh in _parts(q)]
    tol = _tol_px(A, [p for e, _ in wparts for p in e], tb["gbox"]["shape"])
    if tol > 0.02:
        T.exclude("ill_conditioned_placement")
        return
    g = Geometry(_mk_poly(wparts), mk_crs(case["qcrs"]))
    got = _check_indexes(list(gbt.tiles(g)), ye, xe, "tiles(geometry)")
    gset = set(got)
    idx, req, forb = _required_forbidden(Q, ye, xe, tol)
    for t, r, f in zip(idx, req, forb):
        if (r and t not in gset) or (f and t in gset):
            if _backend_contradiction(T, g, gbt[t].extent):
                continue
        if r:
            require(t in gset, "tile %r (px rows %d:%d cols %d:%d) intersects the %s query but is not returned; returned %d tiles %s",
                    t, ye[t[0]], ye[t[0] + 1], xe[t[1]], xe[t[1] + 1], q["kind"], len(got), sorted(gset)[:8])
        if f:
            require(t not in gset, "tile %r (px rows %d:%d cols %d:%d) is returned but its footprint is %.4g px away from the %s query",
                    t, ye[t[0]], ye[t[0] + 1], xe[t[1]], xe[t[1] + 1], float(Q.distance(shapely.box(xe[t[1]], ye[t[0]], xe[t[1] + 1], ye[t[0] + 1]))), q["kind"])
    namb = int((~req & ~forb).sum())
    _track_query(T, case, q, layout_class(tb["gbox"]["shape"], tb["tiles"], ye, xe), tb["gbox"]["klass"], int(req.sum()), len(idx), namb)
    if q["kind"] in ("L", "hole", "tri", "two"):
        # tiles inside the bounding box of the query that must be filtered out
        bb = shapely.box(*Q.bounds)
        boxes, _ = _tile_boxes(ye, xe)
        n = int((forb & shapely.intersects(bb, boxes)).sum())
        if n:
            T.cls("has_tile_in_bbox_but_not_in_geometry")


# ---------------------------------------------------------------------------- same CRS bounding boxes
@st.composite
def s_bbox_same(draw):
    tb = draw(tiled_boxes(allow_none=True))
    ye, xe = layout_edges(tb["gbox"]["shape"], tb["tiles"])
    q = draw(pix_queries(tb["gbox"]["shape"], ye, xe, kinds=("box", "box", "tri", "two")))
    label = tb["gbox"]["crs"]["label"] if tb["gbox"]["crs"] else None
    qcrs = draw(spelled(label)) if label else None
    return {"tb": tb, "q": q, "qcrs": qcrs}


def _check_ranges(rr, ye, xe):
    require(isinstance(rr, tuple) and len(rr) == 2 and all(isinstance(r, range) for r in rr), "range_from_bbox returned %r", rr)
    ry, rx = rr
    for r, e, nm in ((ry, ye, "row"), (rx, xe, "col")):
        require(r.step == 1 and (len(r) == 0 or (0 <= r.start and r.stop <= len(e) - 1)), "range_from_bbox %s range %r leaves the tile grid (%d)", nm, r, len(e) - 1)
    return ry, rx


def o_bbox_same(case, T):
    import shapely
    from odc.geo.geom import BoundingBox

    tb, q = case["tb"], case["q"]
    Qgen = _shp(q)
    if Qgen is None:
        T.exclude("degenerate_query")
        return
    gbt, ye, xe = mk_tiled(tb["gbox"], tb["tiles"])
    A = mk_affine(tb["gbox"]["affine"])
    layout = layout_class(tb["gbox"]["shape"], tb["tiles"], ye, xe)
    # --- (1) bounding box in the pixel plane (crs=None), as used by the linear graph path
    x0, y0, x1, y1 = Qgen.bounds
    P = shapely.box(x0, y0, x1, y1)
    idx, req, forb = _required_forbidden(P, ye, xe, 1e-9)
    pb = BoundingBox(x0, y0, x1, y1)
    got = set(_check_indexes(list(gbt.tiles(pb)), ye, xe, "tiles(pixel bbox)"))
    ry, rx = _check_ranges(gbt.range_from_bbox(pb), ye, xe)
    for t, r in zip(idx, req):
        if r:
            require(t in got, "tiles(pixel-plane bbox %r): overlapping tile %r (rows %d:%d cols %d:%d) not returned; got %s",
                    (x0, y0, x1, y1), t, ye[t[0]], ye[t[0] + 1], xe[t[1]], xe[t[1] + 1], sorted(got)[:8])
            require(t[0] in ry and t[1] in rx, "range_from_bbox(pixel-plane bbox %r) = %r misses overlapping tile %r", (x0, y0, x1, y1), (ry, rx), t)
    namb = int((~req & ~forb).sum())
    nreq_pix = int(req.sum())
    if case["qcrs"] is None:
        T.cls("crs_none_pixel_bbox_only")
        _track_query(T, case, q, layout, tb["gbox"]["klass"], nreq_pix, len(idx), namb)
        return
    # --- (2) world bounding box of the query in the CRS of the raster
    wpts = [p for e, _ in _parts(q) for p in _world(A, e)]
    wx0, wx1 = min(p[0] for p in wpts), max(p[0] for p in wpts)
    wy0, wy1 = min(p[1] for p in wpts), max(p[1] for p in wpts)
    tol = _tol_px(A, wpts, tb["gbox"]["shape"])
    if tol > 0.02 or not (wx0 < wx1 and wy0 < wy1):
        T.exclude("ill_conditioned_placement")
        return
    iA = ~A
    Qw = shapely.Polygon([tuple(iA * p) for p in ((wx0, wy0), (wx1, wy0), (wx1, wy1), (wx0, wy1))])  # bbox seen in the pixel plane
    if not Qw.is_valid:
        T.exclude("degenerate_query")
        return
    idx, req, forb = _required_forbidden(Qw, ye, xe, tol)
    wb = BoundingBox(wx0, wy0, wx1, wy1, mk_crs(case["qcrs"]))
    got = set(_check_indexes(list(gbt.tiles(wb)), ye, xe, "tiles(bbox)"))
    ry, rx = _check_ranges(gbt.range_from_bbox(wb), ye, xe)
    for t, r in zip(idx, req):
        if r and t not in got and _backend_contradiction(T, wb.polygon, gbt[t].extent):
            continue
        if r:
            require(t in got, "tiles(BoundingBox): tile %r (rows %d:%d cols %d:%d) intersects the box but is not returned; got %s",
                    t, ye[t[0]], ye[t[0] + 1], xe[t[1]], xe[t[1] + 1], sorted(got)[:8])
            require(t[0] in ry and t[1] in rx, "range_from_bbox(BoundingBox) = %r misses intersecting tile %r (rows %d:%d cols %d:%d)",
                    (ry, rx), t, ye[t[0]], ye[t[0] + 1], xe[t[1]], xe[t[1] + 1])
    namb += int((~req & ~forb).sum())
    _track_query(T, case, q, layout, tb["gbox"]["klass"], int(req.sum()), len(idx), namb)


# ============================================================================ rasters placed inside valid areas
_TR: dict = {}


def _tr(a: str, b: str):
    """Independent pyproj transformer between two labels of the pool (x/y order)."""
    key = (a, b)
    if key not in _TR:
        from pyproj import Transformer

        from vf.strategies import _pyproj

        _TR[key] = Transformer.from_crs(_pyproj(a), _pyproj(b), always_xy=True)
    return _TR[key]


def _common_box(a: str, b: str, margin: float = 1.0):
    ba, bb = CRS_POOL[a][1], CRS_POOL[b][1]
    lo_x, lo_y = max(ba[0], bb[0]) + margin, max(ba[1], bb[1]) + margin
    hi_x, hi_y = min(ba[2], bb[2]) - margin, min(ba[3], bb[3]) - margin
    if hi_x - lo_x < 1.0 or hi_y - lo_y < 1.0:
        return None
    return (lo_x, lo_y, hi_x, hi_y)


LABELS = list(CRS_POOL)
# Pixel size cap for rasters placed on the globe: grid_intersect buffers footprints by 2 px before projecting them, and
# that neighbourhood has to stay inside the domain of both projections (a 250 km pixel at 66N in EPSG:6933 does not).
MAX_PX_M = 2.5e4
LABEL_PAIRS = [(a, b) for a in LABELS for b in LABELS if a != b and _common_box(a, b) is not None]


@st.composite
def lin_parts(draw):
    """Normalised linear part [a,b,d,e] of a pixel->world map (pixel size ~1) and its class."""
    sgx = draw(st.sampled_from([1, 1, -1]))
    sgy = draw(st.sampled_from([-1, -1, 1]))
    asp = draw(st.sampled_from([1.0, 1.0, 1.0, 0.5, 1.25]))
    rot = draw(st.sampled_from(["none", "none", "none", "r90", "r180", "r270", "ang", "shear"]))
    sx, sy = float(sgx), float(sgy) * asp
    klass = []
    if sgx < 0:
        klass.append("mirror_x")
    if sgy > 0:
        klass.append("mirror_y")
    if rot == "none":
        return [sx, 0.0, 0.0, sy], "+".join(klass) or "north_up"
    if rot == "shear":
        R = (1.0, draw(st.sampled_from([0.25, -0.5])), 0.0, 1.0)
    else:
        ang = {"r90": 90.0, "r180": 180.0, "r270": 270.0}.get(rot)
        if ang is None:
            ang = draw(st.one_of(st.sampled_from([45.0, 10.0, 1.0, 200.0]), st.floats(0.5, 359.5)))
            c, s = math.cos(math.radians(ang)), math.sin(math.radians(ang))
        else:
            c, s = {90.0: (0.0, 1.0), 180.0: (-1.0, 0.0), 270.0: (0.0, -1.0)}[ang]
        R = (c, -s, s, c)
    klass.append(rot if rot != "ang" else "rot")
    return [R[0] * sx, R[1] * sy, R[2] * sx, R[3] * sy], "+".join(klass)


@st.composite
def placed_boxes(draw, label, other, maxt=10, max_side=30, extents=(2e3, 2e4, 1e5, 2.5e5), max_px=None):
    """Recipe for a raster centred at a lon/lat inside the valid area of ``label`` and ``other``."""
    x0, y0, x1, y1 = _common_box(label, other)
    lon = draw(st.integers(math.ceil(x0 * 100), math.floor(x1 * 100))) / 100
    lat = draw(st.integers(math.ceil(y0 * 100), math.floor(y1 * 100))) / 100
    shape = draw(shapes(max_side=max_side))
    extent_m = draw(st.sampled_from(list(extents)))
    lin, klass = draw(lin_parts())
    return {
        "crs": draw(spelled(label)), "lonlat": [lon, lat], "shape": shape, "px": min(extent_m / max(shape), max_px or MAX_PX_M),
        "lin": lin, "klass": klass, "tiles": draw(tilings(shape, maxt)),
    }


def placed_gbox(rec, lonlat=None):
    """Recipe -> GeoBox case (affine computed with an independent pyproj transformer). None if not finite."""
    label = rec["crs"]["label"]
    lon, lat = lonlat if lonlat is not None else rec["lonlat"]
    cx, cy = _tr("4326", label).transform(float(lon), float(lat))
    if not (math.isfinite(cx) and math.isfinite(cy)):
        return None
    unit = rec["px"] if crs_kind(label) == "projected" else rec["px"] / 111320.0
    a, b, d, e = [float(v) * unit for v in rec["lin"]]
    ny, nx = rec["shape"]
    c = cx - (a * nx / 2 + b * ny / 2)
    f = cy - (d * nx / 2 + e * ny / 2)
    return {"shape": list(rec["shape"]), "affine": [a, b, c, d, e, f], "crs": rec["crs"], "klass": rec["klass"]}


def _ring_dense(pts, extra):
    """Closed ring with ``extra`` points inserted on every edge: (n*(extra+1), 2) array, vertex i at i*(extra+1)."""
    P = np.asarray(pts, dtype="float64")
    nxt = np.roll(P, -1, axis=0)
    t = (np.arange(extra + 1) / (extra + 1))[None, :, None]
    return (P[:, None, :] * (1 - t) + nxt[:, None, :] * t).reshape(-1, 2)


def _chord_dev(R, k):
    """Max distance of the points of dense ring R (vertices every k points) to the chord of their edge."""
    n = len(R) // k
    dev = 0.0
    for i in range(n):
        p0 = R[i * k]
        p1 = R[((i + 1) * k) % len(R)]
        seg = R[i * k: (i + 1) * k]
        v = p1 - p0
        L2 = float(v @ v)
        if L2 == 0:
            d = np.hypot(*(seg - p0).T)
        else:
            t = np.clip(((seg - p0) @ v) / L2, 0, 1)
            d = np.hypot(*(seg - (p0 + t[:, None] * v)).T)
        dev = max(dev, float(d.max()))
    return dev


def _apply(A, P):
    P = np.asarray(P, dtype="float64")
    return np.stack([A.a * P[:, 0] + A.b * P[:, 1] + A.c, A.d * P[:, 0] + A.e * P[:, 1] + A.f], axis=1)


def _project(a, b, P):
    x, y = _tr(a, b).transform(P[:, 0].copy(), P[:, 1].copy())
    return np.stack([np.asarray(x, dtype="float64"), np.asarray(y, dtype="float64")], axis=1)


# ---------------------------------------------------------------------------- other CRS queries
@st.composite
def s_query_other(draw):
    la, lb = draw(st.sampled_from(LABEL_PAIRS))
    # rasters from a few metres (decimetre pixels: coordinates ~1e7 times the pixel size) to 250 km across
    rec = draw(placed_boxes(la, lb, extents=(3.0, 30.0, 2e3, 2e4, 1e5, 2.5e5)))
    ye, xe = layout_edges(rec["shape"], rec["tiles"])
    # keep the whole query within ~2 raster sizes of it (inside the valid areas)
    q = draw(pix_queries(rec["shape"], ye, xe, far=(1,), maxlen=1.0))
    mode = draw(st.sampled_from(["geom", "geom", "bbox"]))
    return {"rec": rec, "q": q, "qcrs": draw(spelled(lb)), "mode": mode}


@st.composite
def s_query_dense(draw):
    """Continental rasters (1000-3000 km across, tiles tens of km) queried with *densified* polygons given in another
    CRS: the outline the caller hands over already follows its true (curved) shape in the raster's CRS, so every tile
    under the bulge of an edge is decided, not lost in the ambiguity band of a sparse outline."""
    la, lb = draw(st.sampled_from([p for p in LABEL_PAIRS if p[0] in ("3577", "3035", "32633", "32755", "sinu") and p[1] in ("4326", "4283", "3857", "6933")]))
    rec = draw(placed_boxes(la, lb, maxt=14, max_side=160, extents=(1e6, 2e6, 3e6, 4e6), max_px=2e5))
    ye, xe = layout_edges(rec["shape"], rec["tiles"])
    q = draw(pix_queries(rec["shape"], ye, xe, far=(1,), maxlen=1.0, kinds=("box", "box", "tri", "L", "hole")))
    return {"rec": rec, "q": q, "qcrs": draw(spelled(lb)), "mode": draw(st.sampled_from(["geom", "geom", "bbox"])), "dense": draw(st.sampled_from([12, 24, 48])),
            "box_in_b": draw(st.sampled_from([True, True, False]))}


def o_query_other(case, T):
    import shapely
    from odc.geo.geom import BoundingBox, Geometry

    rec, q, mode = case["rec"], case["q"], case["mode"]
    DENSE = int(case.get("dense") or 0)
    if _shp(q) is None:
        T.exclude("degenerate_query")
        return
    gb = placed_gbox(rec)
    if gb is None:
        T.exclude("centre_not_projectable")
        return
    la, lb = rec["crs"]["label"], case["qcrs"]["label"]
    gbt, ye, xe = mk_tiled(gb, rec["tiles"])
    A = mk_affine(gb["affine"])
    iA = ~A
    EXTRA = 32

    def to_b(ring_px):
        return _project(la, lb, _apply(A, ring_px))

    parts_b = [(to_b(e), [to_b(h) for h in hh]) for e, hh in _parts(q)]  # the query polygon(s) in CRS b
    if case.get("box_in_b") and all(np.isfinite(e).all() for e, _ in parts_b):
        # the query is a rectangle in ITS crs (a lon/lat band, a map sheet): its own bounding box there is tight, and
        # in the raster's crs its edges bulge beyond the quadrilateral of the four projected corners
        def _bb_ring(e):
            (x0, y0), (x1, y1) = e.min(axis=0), e.max(axis=0)
            return np.array([[x0, y0], [x1, y0], [x1, y1], [x0, y1]])

        parts_b = [(_bb_ring(e), []) for e, _ in parts_b[:1]]
        if not (parts_b[0][0][2] > parts_b[0][0][0]).all():
            T.exclude("degenerate_query")
            return
        T.cls("query_is_a_rectangle_in_its_own_crs")
    if DENSE and all(np.isfinite(r).all() for e, hh in parts_b for r in [e] + hh):
        # same polygon (edges straight in b), handed over with DENSE extra vertices per edge
        parts_b = [(_ring_dense(e, DENSE), [_ring_dense(h, DENSE) for h in hh]) for e, hh in parts_b]
        EXTRA = 3
    if not all(np.isfinite(r).all() for e, hh in parts_b for r in [e] + hh):
        T.exclude("query_not_projectable")
        return
    if mode == "bbox":
        allpts = np.concatenate([e for e, _ in parts_b])
        bx0, by0 = allpts.min(axis=0)
        bx1, by1 = allpts.max(axis=0)
        if not (bx0 < bx1 and by0 < by1):
            T.exclude("degenerate_query")
            return
        # a BoundingBox denotes the rectangle [x0,x1] x [y0,y1] of ITS crs - nothing about it is open to
        # interpretation, so the ambiguity band is that of a 16-segments-per-side outline (any reasonable densification
        # of the box lies inside it), not that of the four-corner quadrilateral
        oracle_parts = [(_ring_dense(np.array([[bx0, by0], [bx1, by0], [bx1, by1], [bx0, by1]]), 15), [])]
        EXTRA = 3
    else:
        oracle_parts = parts_b
    # the query as it really lies in the pixel plane of the raster (edges straight in ITS crs -> curved here)
    delta = 0.0
    dense_parts = []
    for e, hh in oracle_parts:
        rings = []
        for r in [e] + hh:
            D = _apply(iA, _project(lb, la, _ring_dense(r, EXTRA)))
            if not np.isfinite(D).all():
                T.exclude("query_not_projectable")
                return
            rings.append(D)
            delta = max(delta, _chord_dev(D, EXTRA + 1))
        dense_parts.append((rings[0], rings[1:]))
    Qtrue = _mk_poly(dense_parts)
    if not Qtrue.is_valid or Qtrue.area <= 0:
        T.exclude("reprojected_query_invalid")
        return
    px_m = rec["px"]
    tol = 1e-6 + 1e-3 / px_m + _tol_px(A, [p for e, _ in _parts(q) for p in _apply(A, e).tolist()], rec["shape"])
    band = 1.1 * delta + tol
    idx, req, forb = _required_forbidden(Qtrue, ye, xe, tol, erode=band)
    crs_b = mk_crs(case["qcrs"])
    if mode == "bbox":
        wb = BoundingBox(float(bx0), float(by0), float(bx1), float(by1), crs_b)
        got = set(_check_indexes(list(gbt.tiles(wb)), ye, xe, "tiles(bbox, other crs)"))
        ry, rx = _check_ranges(gbt.range_from_bbox(wb), ye, xe)
    else:
        g = Geometry(_mk_poly(parts_b), crs_b)
        got = set(_check_indexes(list(gbt.tiles(g)), ye, xe, "tiles(geometry, other crs)"))
        ry = rx = None
    for t, r, f in zip(idx, req, forb):
        if (r and t not in got) or (f and mode == "geom" and t in got):
            qq = (wb.polygon if mode == "bbox" else g).to_crs(gbt.base.crs, check_and_fix=True)
            if _backend_contradiction(T, qq, gbt[t].extent):
                continue
        if r:
            require(t in got, "%s query in %s on raster in %s: tile %r (rows %d:%d cols %d:%d) lies > %.3g px inside the reprojected query but is not returned; got %s",
                    mode, lb, la, t, ye[t[0]], ye[t[0] + 1], xe[t[1]], xe[t[1] + 1], band, sorted(got)[:8])
            if ry is not None:
                require(t[0] in ry and t[1] in rx, "range_from_bbox(bbox in %s) = %r misses tile %r of raster in %s", lb, (ry, rx), t, la)
        if f and mode == "geom":
            require(t not in got, "geometry query in %s on raster in %s: tile %r (rows %d:%d cols %d:%d) returned but is > %.3g px away from the reprojected query",
                    lb, la, t, ye[t[0]], ye[t[0] + 1], xe[t[1]], xe[t[1] + 1], band)
    namb = int((~req & ~forb).sum())
    T.cls("mode:" + mode)
    T.cls("crs:%s>%s" % (crs_kind(lb), crs_kind(la)))
    T.cls("delta<0.01px" if delta < 0.01 else "delta<0.1px" if delta < 0.1 else "delta>=0.1px")
    _track_query(T, {"tb": {"tiles": rec["tiles"], "gbox": {"shape": rec["shape"]}}}, q, layout_class(rec["shape"], rec["tiles"], ye, xe), rec["klass"], int(req.sum()), len(idx), namb)


# ============================================================================ dependency graphs
def _check_graph(res, dye, dxe, sye, sxe):
    require(isinstance(res, dict), "grid_intersect returned %s, expected dict", type(res).__name__)
    out = {}
    for k, v in res.items():
        (kk,) = _check_indexes([k], dye, dxe, "grid_intersect key")
        require(isinstance(v, (list, tuple)), "grid_intersect[%r] is %s, expected list", k, type(v).__name__)
        out[kk] = set(_check_indexes(list(v), sye, sxe, "grid_intersect[%r]" % (k,)))
    return out


def _span(e, i):
    return "%d:%d" % (e[i], e[i + 1])


def _assert_no_edges(edges, why):
    bad = [(k, sorted(v)[:3]) for k, v in sorted(edges.items()) if v]
    require(not bad, "disjoint rasters (%s) but the dependency graph has edges for %d destination tiles, e.g. %r -> %r", why, len(bad), bad[0][0] if bad else None, bad[0][1] if bad else None)


def _track_graph(T, case, rel, nd_with, nd, decided_disjoint, extra_key=()):
    T.cls("rel:" + rel)
    if decided_disjoint:
        T.cls("emptiness_clause_decided")
    if decided_disjoint or 0 < nd_with < nd:
        T.nontrivial((rel, decided_disjoint, case["dst"].get("tiles"), case["src"].get("tiles"), case["dst"].get("shape") or case["dst"]["gbox"]["shape"],
                      case["src"].get("shape") or case["src"]["gbox"]["shape"]) + tuple(extra_key))
    if 0 < nd_with < nd:
        T.cls("partial_cover")
    elif nd_with == nd:
        T.cls("all_dst_tiles_have_sources")
    else:
        T.cls("no_edge_required")


KS_EXACT = [1.0, 1.0, 2.0, 3.0, 0.5, 0.25, 1.5, 2.5]
KS_GENERAL = [1 / 3.0, 0.3, 7 / 3.0, 0.7]


@st.composite
def s_graph_linear(draw):
    from affine import Affine

    dst = draw(tiled_boxes(maxt=6, max_side=30))
    ny, nx = dst["gbox"]["shape"]
    sshape = draw(shapes(max_side=30))
    sny, snx = sshape
    ks = KS_EXACT + ([] if dst["gbox"]["family"] == "exact" else KS_GENERAL)
    kx = draw(st.sampled_from(ks))
    ky = draw(st.one_of(st.just(kx), st.sampled_from(ks)))
    sgx = draw(st.sampled_from([1, 1, 1, -1]))
    sgy = draw(st.sampled_from([1, 1, 1, -1]))

    def place(n, ext, k, allowed):
        cls = draw(st.sampled_from(allowed))
        ce = math.ceil(ext)
        if cls == "aligned":
            lo = 0.0
        elif cls == "ov_int":
            lo = float(draw(st.integers(-ce + 1, n - 1)))
        elif cls == "ov_sub":
            lo = draw(st.integers(-ce + 1, n - 1)) + draw(st.sampled_from([1 / 16, 0.5, -1 / 16, 0.25, 0.0005, 0.002, 0.02, 0.3]))
        elif cls == "touch_lo":
            lo = -ext
        elif cls == "touch_hi":
            lo = float(n)
        else:
            # gap of m pixels of the coarser grid (m < 2: emptiness not decided)
            m = draw(st.sampled_from([0.5, 1.0, 2.5, 2.5, 3.0, 6.0, 10.0, 100.0, 100.0 * n]))
            g = m * max(1.0, k)
            lo = -ext - g if cls == "gap_lo" else n + g
        return lo, cls

    OV = ["aligned", "ov_int", "ov_int", "ov_sub", "ov_sub"]
    rel = draw(st.sampled_from(["overlap"] * 5 + ["touch"] + ["gap"] * 2))
    if rel == "overlap":
        ax, ay = OV, OV
    else:
        main = ["touch_lo", "touch_hi"] if rel == "touch" else ["gap_lo", "gap_hi"]
        other = OV + ["touch_lo", "touch_hi"] + (["gap_lo", "gap_hi"] if rel == "gap" else [])
        ax, ay = (main, other) if draw(st.booleans()) else (other, main)
    lox, cx = place(nx, kx * snx, kx, ax)
    loy, cy = place(ny, ky * sny, ky, ay)
    tx = lox if sgx > 0 else lox + kx * snx
    ty = loy if sgy > 0 else loy + ky * sny
    M = Affine(sgx * kx, 0.0, tx, 0.0, sgy * ky, ty)  # src pixel -> dst pixel
    SA = mk_affine(dst["gbox"]["affine"]) * M
    src_gb = {
        "shape": sshape, "affine": [SA.a, SA.b, SA.c, SA.d, SA.e, SA.f],
        "crs": draw(spelled(dst["gbox"]["crs"]["label"])), "family": dst["gbox"]["family"], "klass": dst["gbox"]["klass"],
    }
    return {
        "dst": dst, "src": {"gbox": src_gb, "tiles": draw(tilings(sshape, 6))},
        "rel": {"k": [sgx * kx, sgy * ky], "ax": [cx, cy]},
    }


def _exact_rel(case):
    """Exact rational dst-pixel -> src-pixel map from the float coefficients of both boxes."""
    Sd = FA(*case["dst"]["gbox"]["affine"])
    Ss = FA(*case["src"]["gbox"]["affine"])
    return Ss.inv() * Sd


def _noise_px(case):
    """Rounding allowance (src px) of a float evaluation of inv(src)*dst."""
    s = mk_affine(case["src"]["gbox"]["affine"])
    d = mk_affine(case["dst"]["gbox"]["affine"])
    m = max(abs(s.c), abs(s.f), abs(d.c), abs(d.f), _smax(d) * max(case["dst"]["gbox"]["shape"]))
    return 64 * EPS * m / _smin(s)


def _overlap_1d(lo, hi, edges):
    """overlap[i, j] of interval i (lo[i], hi[i]) with tile j of ``edges``."""
    e = np.asarray(edges, dtype="float64")
    return np.minimum(hi[:, None], e[None, 1:]) - np.maximum(lo[:, None], e[None, :-1])


def o_graph_linear(case, T):
    dgbt, dye, dxe = mk_tiled(case["dst"]["gbox"], case["dst"]["tiles"])
    sgbt, sye, sxe = mk_tiled(case["src"]["gbox"], case["src"]["tiles"])
    B = _exact_rel(case)
    a, b, c, d, e, f = B.floats()
    ny, nx = case["dst"]["gbox"]["shape"]
    sny, snx = case["src"]["gbox"]["shape"]
    noise = _noise_px(case)
    if abs(b) * ny + abs(d) * nx > 1e-6 or noise > 1e-3:
        T.exclude("not_axis_parallel_or_ill_conditioned")
        return
    thr = 0.01 + noise + 1e-6
    res = dgbt.grid_intersect(sgbt)
    edges = _check_graph(res, dye, dxe, sye, sxe)

    def img(edges_, s, t):
        v = np.asarray(edges_, dtype="float64") * s + t
        return np.minimum(v[:-1], v[1:]), np.maximum(v[:-1], v[1:])

    xlo, xhi = img(dxe, a, c)
    ylo, yhi = img(dye, e, f)
    ox = _overlap_1d(xlo, xhi, sxe)  # [dst col, src col]
    oy = _overlap_1d(ylo, yhi, sye)  # [dst row, src row]
    nd_with = 0
    for iy in range(len(dye) - 1):
        rows = np.nonzero(oy[iy] >= thr)[0]
        for ix in range(len(dxe) - 1):
            cols = np.nonzero(ox[ix] >= thr)[0]
            if len(rows) and len(cols):
                nd_with += 1
            have = edges.get((iy, ix), set())
            for sy in rows:
                for sx in cols:
                    require(
                        (int(sy), int(sx)) in have,
                        "dst tile %r (rows %s cols %s) overlaps src tile %r (rows %s cols %s) by %.4g x %.4g src px (dst->src px: x*%.6g%+.6g, y*%.6g%+.6g) "
                        "but the edge is missing; listed: %s",
                        (iy, ix), _span(dye, iy), _span(dxe, ix), (int(sy), int(sx)), _span(sye, sy), _span(sxe, sx), float(ox[ix, sx]), float(oy[iy, sy]),
                        a, c, e, f, ("key absent" if (iy, ix) not in edges else sorted(have)[:6]),
                    )
    # raster level gap (src px), demanded in px of both grids
    X0, X1 = min(c, a * nx + c), max(c, a * nx + c)
    Y0, Y1 = min(f, e * ny + f), max(f, e * ny + f)
    gx = max(X0 - snx, 0 - X1)
    gy = max(Y0 - sny, 0 - Y1)
    decided = gx >= 2 * max(1.0, abs(a)) + thr or gy >= 2 * max(1.0, abs(e)) + thr
    g = max(gx, gy)
    if decided:
        _assert_no_edges(edges, "same CRS, axis-parallel; gap %.4g src px along x, %.4g along y (negative = overlap)" % (gx, gy))
        rel = "disjoint_gap>=100px" if g >= 100 else "disjoint_gap>=2px"
    elif g > 0:
        rel = "near_gap<2px"
        T.exclude("gap_below_2px_emptiness_not_decided")
    elif g == 0:
        rel = "touching"
        # exactly adjacent rasters (a shared side or corner, zero overlap) do not overlap: decided where the pixel
        # arithmetic is exact in floats (axis-aligned boxes with power-of-two pixel sizes and dyadic origins)
        def _exact_box(gb):
            A_ = gb["affine"]
            p2 = lambda v: v != 0 and math.frexp(abs(v))[0] == 0.5  # noqa: E731
            return gb.get("family") == "exact" and A_[1] == 0 and A_[3] == 0 and p2(A_[0]) and p2(A_[4]) and all(abs(t) < 2**30 and float(t * 1024).is_integer() for t in (A_[2], A_[5]))

        am, _, cm, _, em, fm = B.m
        eX0, eX1 = min(cm, am * nx + cm), max(cm, am * nx + cm)
        eY0, eY1 = min(fm, em * ny + fm), max(fm, em * ny + fm)
        eg = max(eX0 - snx, 0 - eX1, eY0 - sny, 0 - eY1)
        if _exact_box(case["dst"]["gbox"]) and _exact_box(case["src"]["gbox"]) and eg == 0:
            _assert_no_edges(edges, "same CRS, axis-parallel, rasters exactly adjacent (they share a side or a corner, overlap area 0)")
            decided = True
            T.cls("touching_decided_exactly")
        else:
            T.exclude("touching_emptiness_not_decided")
    else:
        rel = "overlapping"
    ka, ke = case["rel"]["k"]
    T.cls("scale:" + ("1" if abs(ka) == 1 and abs(ke) == 1 else "int_or_1/int" if all(float(v).is_integer() or float(1 / v).is_integer() for v in (ka, ke)) else "fractional"))
    if ka < 0 or ke < 0:
        T.cls("relatively_mirrored")
    if any(abs(v - round(v)) > 1e-9 for v in (c, f)):
        T.cls("sub_pixel_shift")
    T.cls("box:" + ("rotated" if any(k in case["dst"]["gbox"]["klass"] for k in ("r90", "r270", "shear", "pyth", "rot")) else "axis_aligned"))
    T.cls("dst_tiles:" + layout_class(case["dst"]["gbox"]["shape"], case["dst"]["tiles"], dye, dxe))
    T.cls("src_tiles:" + layout_class(case["src"]["gbox"]["shape"], case["src"]["tiles"], sye, sxe))
    _track_graph(T, case, rel, nd_with, (len(dye) - 1) * (len(dxe) - 1), decided, (case["rel"],))


# ---------------------------------------------------------------------------- same CRS, relative rotation / shear
@st.composite
def s_graph_rot(draw):
    from affine import Affine

    dst = draw(tiled_boxes(maxt=5, max_side=24))
    ny, nx = dst["gbox"]["shape"]
    sshape = draw(shapes(max_side=24))
    sny, snx = sshape
    ang = draw(st.one_of(st.sampled_from([90.0, 270.0, 45.0, 10.0, 1.0, 135.0]), st.floats(0.5, 359.5)))
    w = draw(st.sampled_from([0.0, 0.0, 0.0, 0.25]))
    k = draw(st.sampled_from([1.0, 1.0, 2.0, 0.5, 1.5, 0.3]))
    sgy = draw(st.sampled_from([1, 1, -1]))
    r = 0.5 * k * math.hypot(snx, sny) * (1 + abs(w))  # radius of a disc holding the source raster (dst px)
    place = draw(st.sampled_from(["overlap", "overlap", "overlap", "near", "gap", "gap"]))
    if place == "overlap":
        ox = draw(st.integers(-10, 10)) / 16 * nx
        oy = draw(st.integers(-10, 10)) / 16 * ny
    else:
        g = draw(st.sampled_from([0.0, 0.5, 1.0])) - 0.3 * r if place == "near" else max(1.0, k) * draw(st.sampled_from([2.5, 3.0, 10.0, 100.0, 100.0 * max(nx, ny)]))
        side = draw(st.sampled_from(["x+", "x-", "y+", "y-"]))
        ox = {"x+": nx / 2 + r + g, "x-": -(nx / 2 + r + g)}.get(side, draw(st.integers(-8, 8)) / 16 * nx)
        oy = {"y+": ny / 2 + r + g, "y-": -(ny / 2 + r + g)}.get(side, draw(st.integers(-8, 8)) / 16 * ny)
    if ang in (90.0, 270.0):
        c, s = (0.0, 1.0) if ang == 90.0 else (0.0, -1.0)
        R = Affine(c, -s, 0.0, s, c, 0.0)
    else:
        R = Affine.rotation(ang)
    M = Affine.translation(nx / 2 + ox, ny / 2 + oy) * R * Affine(1.0, w, 0.0, 0.0, 1.0, 0.0) * Affine(k, 0.0, 0.0, 0.0, sgy * k, 0.0) * Affine.translation(-snx / 2, -sny / 2)
    SA = mk_affine(dst["gbox"]["affine"]) * M
    src_gb = {"shape": sshape, "affine": [SA.a, SA.b, SA.c, SA.d, SA.e, SA.f], "crs": draw(spelled(dst["gbox"]["crs"]["label"])), "klass": "rel_rot"}
    return {"dst": dst, "src": {"gbox": src_gb, "tiles": draw(tilings(sshape, 5))}, "rel": {"ang": ang, "shear": w, "k": k, "place": place}}


def _tile_polys(ye, xe, fn):
    """Tile footprints mapped by ``fn`` ((n,2) px array -> (n,2)) as shapely polygons (row-major) + index list."""
    import shapely

    idx = [(iy, ix) for iy in range(len(ye) - 1) for ix in range(len(xe) - 1)]
    C = np.array([[[xe[ix], ye[iy]], [xe[ix + 1], ye[iy]], [xe[ix + 1], ye[iy + 1]], [xe[ix], ye[iy + 1]]] for iy, ix in idx], dtype="float64")
    P = fn(C.reshape(-1, 2)).reshape(-1, 4, 2)
    return shapely.polygons(P), idx


def _demand_area_edges(edges, dpolys, dareas, didx, sye, sxe, dye, dxe, frac, tol_area, what, artefact=None):
    """Every (dst, src) pair whose overlap area is >= frac of the smaller tile must be an edge. Returns #dst with sources."""
    import shapely

    sboxes, sidx = _tile_boxes(sye, sxe)
    sareas = shapely.area(sboxes)
    ok = ~shapely.is_empty(dpolys)
    tree = shapely.STRtree(sboxes)
    di, si = tree.query(dpolys[ok])  # candidates by bounding box; decided by overlay area below
    di = np.nonzero(ok)[0][di]
    inter = shapely.area(shapely.intersection(dpolys[di], sboxes[si]))
    need = inter >= frac * np.minimum(dareas[di], sareas[si]) + tol_area
    with_src = set()
    for i, j, ar in zip(di[need], si[need], inter[need]):
        dt, stl = didx[i], sidx[j]
        with_src.add(dt)
        have = edges.get(dt)
        if (have is None or stl not in have) and artefact is not None and artefact(dt, stl, have):
            continue
        require(
            have is not None and stl in have,
            "%s: dst tile %r (rows %s cols %s) overlaps src tile %r (rows %s cols %s) by %.4g src px^2 (%.3g%% of the smaller tile) but the edge is missing; listed: %s",
            what, dt, _span(dye, dt[0]), _span(dxe, dt[1]), stl, _span(sye, stl[0]), _span(sxe, stl[1]), float(ar),
            100 * float(ar) / float(min(dareas[i], sareas[j])), "key absent" if have is None else sorted(have)[:6],
        )
    return len(with_src)


def o_graph_rot(case, T):
    import shapely

    dgbt, dye, dxe = mk_tiled(case["dst"]["gbox"], case["dst"]["tiles"])
    sgbt, sye, sxe = mk_tiled(case["src"]["gbox"], case["src"]["tiles"])
    B = _exact_rel(case)
    a, b, c, d, e, f = B.floats()
    noise = _noise_px(case)
    if noise > 1e-3:
        T.exclude("ill_conditioned_placement")
        return
    ny, nx = case["dst"]["gbox"]["shape"]
    sny, snx = case["src"]["gbox"]["shape"]

    def fn(P):
        return np.stack([a * P[:, 0] + b * P[:, 1] + c, d * P[:, 0] + e * P[:, 1] + f], axis=1)

    res = dgbt.grid_intersect(sgbt)
    edges = _check_graph(res, dye, dxe, sye, sxe)
    dpolys, didx = _tile_polys(dye, dxe, fn)
    dareas = shapely.area(dpolys)
    def artefact(dt, stl, have):
        if have is None:  # first stage of the code: destination tile against the source raster footprint
            return _backend_contradiction(T, sgbt.base.extent, dgbt[dt].extent)
        return _backend_contradiction(T, dgbt[dt].extent, sgbt[stl].extent)

    nd_with = _demand_area_edges(edges, dpolys, dareas, didx, sye, sxe, dye, dxe, 0.01, 4 * noise * (max(snx, sny) + 1), "same CRS, rotated", artefact)
    # raster-level gap
    Draster = shapely.Polygon(fn(np.array([[0, 0], [nx, 0], [nx, ny], [0, ny]], dtype="float64")))
    gap = float(Draster.distance(shapely.box(0, 0, snx, sny)))
    smax = float(np.linalg.svd(np.array([[a, b], [d, e]]), compute_uv=False).max())  # src px per dst px
    decided = gap >= 2 * max(1.0, smax) + noise + 1e-6
    if decided:
        _assert_no_edges(edges, "same CRS, relative rotation %.4g deg; gap %.4g src px" % (case["rel"]["ang"], gap))
        rel = "disjoint_gap>=100px" if gap >= 100 else "disjoint_gap>=2px"
    elif gap > 0:
        rel = "near_gap<2px"
        T.exclude("gap_below_2px_emptiness_not_decided")
    else:
        rel = "overlapping"
    T.cls("angle:" + ("90/270" if case["rel"]["ang"] in (90.0, 270.0) else "general"))
    if case["rel"]["shear"]:
        T.cls("relative_shear")
    _track_graph(T, case, rel, nd_with, len(didx), decided, (case["rel"],))


# ---------------------------------------------------------------------------- different CRS
@st.composite
def s_graph_other(draw, continental=False):
    la, lb = draw(st.sampled_from(LABEL_PAIRS))
    place = draw(st.sampled_from(["overlap", "overlap", "overlap", "overlap", "near", "gap", "gap", "far", "bbox_corner", "bbox_corner"]))
    if continental:
        # rasters 1000-4000 km across with tiles of tens of km: the sides of either raster are visibly curved in the
        # other's CRS (a lon/lat mosaic warped onto a continental equal-area grid, and the other way round)
        la, lb = draw(st.sampled_from([p for p in LABEL_PAIRS if (crs_kind(p[0]) == "projected") != (crs_kind(p[1]) == "projected") or {p[0], p[1]} <= {"3577", "3035", "6933", "sinu", "3857"}]))
        place = "overlap"
        dst = draw(placed_boxes(la, lb, maxt=12, max_side=40, extents=(1e6, 2e6, 3e6, 4e6), max_px=2e5))
    else:
        # far apart (>= 100 px) only fits into the common valid area when the rasters are small
        dst = draw(placed_boxes(la, lb, maxt=5, max_side=24, extents=(2e3, 2e4) if place == "far" else (2e3, 2e4, 1e5, 2.5e5)))
    if place == "bbox_corner":
        # a destination turned by 25..65 degrees (mod 90) leaves the corners of its bounding box empty
        ang = draw(st.sampled_from([45.0, 45.0, 30.0, 60.0, 135.0, 225.0, 40.0]))
        c_, s_ = math.cos(math.radians(ang)), math.sin(math.radians(ang))
        sgy_ = draw(st.sampled_from([-1.0, -1.0, 1.0]))
        dst["lin"], dst["klass"] = [c_, -s_ * sgy_, s_, c_ * sgy_], ("mirror_y+rot" if sgy_ > 0 else "rot")
    ny, nx = dst["shape"]
    sshape = draw(shapes(max_side=24))
    sny, snx = sshape
    # source raster extent relative to the destination's, capped at 300 km so that it stays inside the valid area
    ext_d = dst["px"] * max(ny, nx)
    ext_s = min(4e6 if continental else 3e5, ext_d * draw(st.sampled_from([0.1, 0.2, 0.3] if place == "bbox_corner" else [1.0, 1.0, 0.5, 0.7] if continental else [1.0, 1.0, 0.5, 2.0, 1 / 3.0, 1.7])))
    px_s = min(ext_s / max(sny, snx), 2e5 if continental else MAX_PX_M)
    ratio = px_s / dst["px"]  # src pixel size in dst pixels
    lin, klass = draw(lin_parts())
    r = 0.5 * ratio * math.hypot(snx, sny) * 1.3
    if place == "bbox_corner":
        # the source sits in a corner of the destination's axis-aligned bounding box (see build_pair_other): for a
        # rotated destination that corner is empty - footprints disjoint, bounding boxes (also in lon/lat) overlapping
        ox, oy = draw(st.sampled_from([[1, 1], [1, -1], [-1, 1], [-1, -1]]))
        ox, oy = ox * draw(st.sampled_from([0.8, 0.9, 0.97])), oy * draw(st.sampled_from([0.8, 0.9, 0.97]))
    elif place == "overlap":
        ox = draw(st.integers(-10, 10)) / 16 * nx
        oy = draw(st.integers(-10, 10)) / 16 * ny
    else:
        if place == "near":
            g = draw(st.sampled_from([0.0, 1.0, 2.0])) - 0.3 * r
        elif place == "gap":
            g = max(1.0, ratio) * draw(st.sampled_from([3.0, 5.0, 10.0, 30.0]))
        else:
            g = max(1.0, ratio) * draw(st.sampled_from([120.0, 300.0, 10.0 * max(nx, ny) + 100, 100.0 * max(nx, ny)]))
        side = draw(st.sampled_from(["x+", "x-", "y+", "y-"]))
        ox = {"x+": nx / 2 + r + g, "x-": -(nx / 2 + r + g)}.get(side, draw(st.integers(-8, 8)) / 16 * nx)
        oy = {"y+": ny / 2 + r + g, "y-": -(ny / 2 + r + g)}.get(side, draw(st.integers(-8, 8)) / 16 * ny)
    src = {"crs": draw(spelled(lb)), "shape": sshape, "px": px_s, "lin": lin, "klass": klass, "tiles": draw(tilings(sshape, 5)), "off": [ox, oy]}
    return {"dst": dst, "src": src, "place": place}


def build_pair_other(case):
    """(dst GeoBox case, src GeoBox case) or None when a centre cannot be placed."""
    d, s = case["dst"], case["src"]
    dgb = placed_gbox(d)
    if dgb is None:
        return None
    la, lb = d["crs"]["label"], s["crs"]["label"]
    A = mk_affine(dgb["affine"])
    ny, nx = d["shape"]
    if case.get("place") == "bbox_corner":
        cs = [A * p for p in ((0, 0), (nx, 0), (nx, ny), (0, ny))]
        x0, x1 = min(c[0] for c in cs), max(c[0] for c in cs)
        y0, y1 = min(c[1] for c in cs), max(c[1] for c in cs)
        wx = (x0 + x1) / 2 + s["off"][0] * (x1 - x0) / 2
        wy = (y0 + y1) / 2 + s["off"][1] * (y1 - y0) / 2
    else:
        wx, wy = A * (nx / 2 + s["off"][0], ny / 2 + s["off"][1])
    lon, lat = _tr(la, "4326").transform(wx, wy)
    cb = _common_box(la, lb)
    if not (math.isfinite(lon) and math.isfinite(lat)):
        # far outside the projection domain: fall back to the far corner of the common valid area
        lon, lat = (cb[2], cb[3]) if s["off"][0] + s["off"][1] > 0 else (cb[0], cb[1])
    lon = min(max(lon, cb[0]), cb[2])
    lat = min(max(lat, cb[1]), cb[3])
    sgb = placed_gbox(s, (lon, lat))
    if sgb is None:
        return None
    return dgb, sgb


def o_graph_other(case, T):
    import shapely

    pair = build_pair_other(case)
    if pair is None:
        T.exclude("centre_not_projectable")
        return
    dgb, sgb = pair
    la, lb = dgb["crs"]["label"], sgb["crs"]["label"]
    dgbt, dye, dxe = mk_tiled(dgb, case["dst"]["tiles"])
    sgbt, sye, sxe = mk_tiled(sgb, case["src"]["tiles"])
    Ad, As = mk_affine(dgb["affine"]), mk_affine(sgb["affine"])
    iAs, iAd = ~As, ~Ad
    ny, nx = dgb["shape"]
    sny, snx = sgb["shape"]
    EXTRA = 31
    K = EXTRA + 1

    def d2s(P):  # dst px -> src px through both CRSs
        return _apply(iAs, _project(la, lb, _apply(Ad, P)))

    def s2d(P):
        return _apply(iAd, _project(lb, la, _apply(As, P)))

    # raster outlines in the other grid's pixel plane
    Dout = d2s(_ring_dense([[0, 0], [nx, 0], [nx, ny], [0, ny]], 63))
    Sout = s2d(_ring_dense([[0, 0], [snx, 0], [snx, sny], [0, sny]], 63))
    if not (np.isfinite(Dout).all() and np.isfinite(Sout).all()):
        T.exclude("outline_not_projectable")
        return
    # a raster whose outline is not a simple polygon in lon/lat (it reaches beyond the domain of its projection, wraps
    # around the antimeridian or a pole) is outside what any footprint arithmetic can handle: input-side filter
    for lab, A_, (h_, w_) in ((la, Ad, (ny, nx)), (lb, As, (sny, snx))):
        # (outline grown by 2.5 pixels: the margin any footprint arithmetic works with; a point that does not survive a
        # round trip through the projection lies outside its domain - PROJ wraps the longitude instead of refusing)
        m_ = 2.5
        ring_ = _apply(A_, _ring_dense([[-m_, -m_], [w_ + m_, -m_], [w_ + m_, h_ + m_], [-m_, h_ + m_]], 63))
        LL = _project(lab, "4326", ring_)
        bad_ = not np.isfinite(LL).all() or np.ptp(LL[:, 0]) > 170 or not shapely.Polygon(LL).is_valid
        if not bad_:
            back_ = _project("4326", lab, LL)
            span_ = float(np.abs(ring_).max()) or 1.0
            bad_ = not np.isfinite(back_).all() or float(np.abs(back_ - ring_).max()) > 1e-6 * span_ + 1e-3
        if bad_:
            T.exclude("raster_outline_not_simple_in_lonlat")
            return
    # every dst tile, densely, in the src pixel plane
    didx = [(iy, ix) for iy in range(len(dye) - 1) for ix in range(len(dxe) - 1)]
    rings = np.stack([_ring_dense([[dxe[ix], dye[iy]], [dxe[ix + 1], dye[iy]], [dxe[ix + 1], dye[iy + 1]], [dxe[ix], dye[iy + 1]]], EXTRA) for iy, ix in didx])
    R = d2s(rings.reshape(-1, 2)).reshape(len(didx), 4 * K, 2)
    if not np.isfinite(R).all():
        T.exclude("tile_not_projectable")
        return
    tol = 1e-6 + 1e-3 / min(case["dst"]["px"], case["src"]["px"])
    deltas = np.array([_chord_dev(r, K) for r in R])
    polys = shapely.polygons(R)
    if not shapely.is_valid(polys).all():
        T.exclude("tile_image_invalid")
        return
    dareas = shapely.area(polys)
    eroded = np.array([p.buffer(-(1.1 * dl + tol), join_style="mitre") for p, dl in zip(polys, deltas)], dtype=object)
    nvanish = int(shapely.is_empty(eroded).sum())
    if nvanish:
        T.exclude("dst_tile_thinner_than_curvature_band", nvanish)

    res = dgbt.grid_intersect(sgbt)
    edges = _check_graph(res, dye, dxe, sye, sxe)
    def artefact(dt, stl, have):
        if have is None:  # first stage of the code: destination tile against the common footprint
            fp = (sgbt.base.footprint(4326, 2) & dgbt.base.footprint(4326, 2)).to_crs(dgbt.base.crs)
            return _backend_contradiction(T, fp, dgbt[dt].extent)
        return _backend_contradiction(T, dgbt[dt].extent.to_crs(sgbt.base.crs, check_and_fix=True), sgbt[stl].extent)

    nd_with = _demand_area_edges(edges, eroded, dareas, didx, sye, sxe, dye, dxe, 0.01, 0.0, "dst in %s, src in %s" % (la, lb), artefact)
    gap_s = float(shapely.Polygon(Dout).distance(shapely.box(0, 0, snx, sny)))
    gap_d = float(shapely.Polygon(Sout).distance(shapely.box(0, 0, nx, ny)))
    dmax = float(deltas.max())
    decided = gap_s >= 2 + 1.1 * dmax + tol and gap_d >= 2 + tol
    if decided:
        _assert_no_edges(edges, "dst in %s, src in %s; gap %.4g src px / %.4g dst px" % (la, lb, gap_s, gap_d))
        rel = "disjoint_gap>=100px" if min(gap_s, gap_d) >= 100 else "disjoint_gap>=2px"
    elif gap_s > 0 or gap_d > 0:
        rel = "near_gap<2px"
        T.exclude("gap_below_2px_emptiness_not_decided")
    else:
        rel = "overlapping"
    T.cls("crs:%s<%s" % (crs_kind(la), crs_kind(lb)))
    T.cls("delta<0.01px" if dmax < 0.01 else "delta<0.1px" if dmax < 0.1 else "delta>=0.1px")
    for nm, kl in (("dst", dgb["klass"]), ("src", sgb["klass"])):
        T.cls(nm + ":" + ("rotated" if any(k in kl for k in ("r90", "r270", "shear", "rot")) else "mirrored" if "mirror" in kl or "r180" in kl else "north_up"))
    _track_graph(T, case, rel, nd_with, len(didx), decided, (la, lb, case["src"]["off"]))


# ============================================================================ continental cover (first stage)
COVER_SETUPS = [
    # (dst label, dst centre lon/lat, src label, src box half-span ranges in degrees)
    ("3577", (133.0, -27.0), "4326"), ("3577", (133.0, -27.0), "4283"), ("3035", (10.0, 52.0), "4326"),
    ("6933", (20.0, 30.0), "4326"), ("sinu", (60.0, 35.0), "4326"), ("32633", (15.0, 45.0), "4326"), ("32755", (147.0, -35.0), "4283"),
    ("3577", (133.0, -27.0), "6933"), ("3035", (10.0, 52.0), "3857"),
]


@st.composite
def s_graph_cover(draw):
    k = draw(st.integers(0, len(COVER_SETUPS) - 1))
    # destination: 2000-4000 km across in pixels of 8-20 km, tiles of 3-8 pixels; source: 24-40 degrees wide and
    # 6-16 high, so that its long sides run through the destination with a sag of several destination tiles
    n = draw(st.sampled_from([200, 256, 320]))
    ext = draw(st.sampled_from([2.0e6, 3.0e6, 4.0e6]))
    t = draw(st.sampled_from([3, 4, 5, 8]))
    half = [draw(st.floats(12.0, 20.0)), draw(st.floats(3.0, 8.0))]  # half spans of the source box (degrees)
    off = [draw(st.floats(-4.0, 4.0)), draw(st.floats(-4.0, 4.0))]
    sres = draw(st.sampled_from([0.1, 0.25, 0.5]))
    st_ = draw(st.sampled_from([8, 16, 40]))
    return {"setup": k, "n": n, "ext": ext, "t": t, "half": half, "off": off, "sres": sres, "st": st_,
            "dflip": draw(st.sampled_from([[1, -1], [1, -1], [1, 1], [-1, -1]])), "sflip": draw(st.sampled_from([[1, -1], [1, -1], [1, 1]]))}


def o_graph_cover(case, T):
    """'lists for every destination tile every source tile whose footprint overlaps it, whether or not the grids share
    a CRS' on continental scales: every destination tile that lies well inside the source's TRUE footprint (its
    outline followed with 256 points per side) must be in the graph, and the source tile under its centre among its
    sources."""
    import shapely
    from affine import Affine

    from odc.geo.geobox import GeoBox, GeoboxTiles

    la, (clon, clat), lb = COVER_SETUPS[case["setup"]]
    n, ext, t = case["n"], case["ext"], case["t"]
    px = ext / n
    cx, cy = _tr("4326", la).transform(clon, clat)
    fx, fy = case["dflip"]
    Ad = Affine(fx * px, 0, cx - fx * px * n / 2, 0, fy * px, cy - fy * px * n / 2)
    dst = GeoBox((n, n), Ad, mk_crs_spec({"label": la, "spell": "proj" if la == "sinu" else "int"}))
    # source: a box around (clon+off, clat+off) in ITS crs (degrees for geographic, projected units otherwise)
    lon0, lat0 = clon + case["off"][0], clat + case["off"][1]
    hx, hy = case["half"]
    geo = crs_kind(lb) == "geographic"
    if geo:
        x0, x1, y0, y1 = lon0 - hx, lon0 + hx, max(-85.0, lat0 - hy), min(85.0, lat0 + hy)
        sres = case["sres"]
    else:
        sx, sy = _tr("4326", lb).transform(lon0, lat0)
        x0, x1, y0, y1 = sx - hx * 1e5, sx + hx * 1e5, sy - hy * 1e5, sy + hy * 1e5
        sres = case["sres"] * 1e5
    snx, sny = max(2, int(round((x1 - x0) / sres))), max(2, int(round((y1 - y0) / sres)))
    gx, gy = case["sflip"]
    As = Affine(gx * sres, 0, x0 if gx > 0 else x0 + snx * sres, 0, gy * sres, y0 if gy > 0 else y0 + sny * sres)
    src = GeoBox((sny, snx), As, mk_crs_spec({"label": lb, "spell": "int"}))
    dgbt = GeoboxTiles(dst, (t, t))
    sgbt = GeoboxTiles(src, (case["st"], case["st"]))
    # true outline of the source in the destination's pixel plane
    ring = _ring_dense([[0, 0], [snx, 0], [snx, sny], [0, sny]], 255)
    W = _apply(As, ring)
    P = _apply(~Ad, _project(lb, la, W))
    if not np.isfinite(P).all():
        T.exclude("outline_not_projectable")
        return
    poly = shapely.Polygon(P)
    if not poly.is_valid or poly.area <= 0:
        T.exclude("outline_invalid")
        return
    inner = poly.buffer(-2.0)
    res = dgbt.grid_intersect(sgbt)
    require(isinstance(res, dict), "grid_intersect returned %s", type(res).__name__)
    nty = -(-n // t)
    iy, ix = np.divmod(np.arange(nty * nty), nty)
    tiles = shapely.box(ix * t, iy * t, np.minimum(n, (ix + 1) * t), np.minimum(n, (iy + 1) * t))
    inside = shapely.contains(inner, tiles) if not inner.is_empty else np.zeros(len(tiles), dtype=bool)
    nin = int(inside.sum())
    # centre of each inside tile -> source pixel -> source tile
    cxs = (ix * t + np.minimum(n, (ix + 1) * t)) / 2.0
    cys = (iy * t + np.minimum(n, (iy + 1) * t)) / 2.0
    C = _apply(~As, _project(la, lb, _apply(Ad, np.stack([cxs, cys], axis=1))))
    stt = case["st"]
    missing = []
    for k_ in np.flatnonzero(inside):
        key = (int(iy[k_]), int(ix[k_]))
        got = res.get(key)
        if not got:
            missing.append(key)
            continue
        sxp, syp = C[k_]
        if 1.0 < sxp < snx - 1.0 and 1.0 < syp < sny - 1.0 and abs(sxp / stt - round(sxp / stt)) * stt > 1.0 and abs(syp / stt - round(syp / stt)) * stt > 1.0:
            want = (int(syp // stt), int(sxp // stt))
            require(want in {tuple(int(v) for v in g) for g in got}, "dst in %s, src in %s: destination tile %r (centre maps to source pixel (%.1f, %.1f)) lacks source tile %r; has %r",
                    la, lb, key, sxp, syp, want, sorted(tuple(int(v) for v in g) for g in got)[:6])
    require(not missing, "dst in %s (%dx%d px of %.0f m, tiles %d px), src in %s (%dx%d px): %d of the %d destination tiles that lie more than 2 px inside the source's footprint have no source tile at all, e.g. %r",
            la, n, n, px, t, lb, sny, snx, len(missing), nin, missing[:4])
    T.cls("pair:%s<%s" % (la, lb))
    T.cls("src:" + crs_kind(lb))
    if nin and nin < len(tiles):
        T.nontrivial((case["setup"], n, t, tuple(round(h) for h in case["half"])))
        T.cls("partial_cover")
    T.cls("tiles_inside:%s" % ("0" if nin == 0 else "<100" if nin < 100 else ">=100"))


# ============================================================================ big lon/lat destination tiles (second stage)
BIGTILE_SETUPS = [("4326", "3577", (133.0, -30.0)), ("4283", "3577", (133.0, -30.0)), ("4326", "3035", (12.0, 52.0)), ("4326", "6933", (25.0, 40.0)), ("4326", "32633", (15.0, 50.0)),
                  ("4326", "3413", (-45.0, 74.0)), ("4326", "3035", (15.0, 66.0))]


@st.composite
def s_graph_bigtile(draw):
    k = draw(st.integers(0, len(BIGTILE_SETUPS) - 1))
    # (coarse global grids too: pixels of 1-5 degrees, destination tiles of only 2-8 such pixels)
    return {"setup": k, "res": draw(st.sampled_from([0.05, 0.1, 0.025, 1.0, 2.5, 5.0])), "span": [draw(st.sampled_from([16.0, 24.0, 36.0])), draw(st.sampled_from([8.0, 12.0, 20.0]))],
            "tdeg": draw(st.sampled_from([8.0, 12.0, 18.0, 40.0])), "spx": draw(st.sampled_from([2500.0, 5000.0, 10000.0])), "st": draw(st.sampled_from([6, 10, 16])),
            "off": [draw(st.floats(-3.0, 3.0)), draw(st.floats(-3.0, 3.0))], "flipy": draw(st.booleans()),
            # probe: a small fine source (2-10 km tiles) sitting on the middle of one side of a destination tile, where the
            # sag of that side is largest
            "probe": draw(st.sampled_from([None, None, [draw(st.integers(0, 3)), draw(st.integers(0, 3)), draw(st.sampled_from(["top", "bottom"])), draw(st.sampled_from([100.0, 250.0, 500.0]))]]))}


def e_graph_coarse_probe(tier):
    """Destination tiles made of a handful of pixels several degrees wide (coarse global products), a fine source
    (2-10 km tiles) on the middle of a tile side - in every setup, for both sides, deterministically."""
    for k in range(len(BIGTILE_SETUPS)):
        for res in (2.5, 5.0):
            for tpx in (4, 8, 3):
                for side in ("top", "bottom"):
                    for spx in ((100.0, 500.0) if tier == "quick" else (100.0, 250.0, 500.0)):
                        yield {"setup": k, "res": res, "span": [40.0, 20.0], "tdeg": tpx * res, "spx": spx, "st": 20, "off": [0.0, 0.0], "flipy": False,
                               "probe": [1 if side == "top" else 0, 1, side, spx]}


def o_graph_bigtile(case, T):
    """The same clause from the other side: a destination in lon/lat cut into tiles many degrees wide, a projected
    source with tiles of tens of km.  The sides of a destination tile are curves on the source grid; every source tile
    whose centre lies inside a destination tile (1.5 destination pixels from its border) overlaps it well beyond a
    sliver and must be listed for it."""
    from affine import Affine

    from odc.geo.geobox import GeoBox, GeoboxTiles

    la, lb, (clon, clat) = BIGTILE_SETUPS[case["setup"]]
    res = case["res"]
    sx_, sy_ = case["span"]
    lon0, lat1 = clon + case["off"][0] - sx_ / 2, clat + case["off"][1] + sy_ / 2
    nx, ny = int(round(sx_ / res)), int(round(sy_ / res))
    Ad = Affine(res, 0, lon0, 0, -res, lat1) if not case["flipy"] else Affine(res, 0, lon0, 0, res, lat1 - ny * res)
    dst = GeoBox((ny, nx), Ad, mk_crs_spec({"label": la, "spell": "int"}))
    t = max(8 if res < 1 else 2, int(round(case["tdeg"] / res)))
    dgbt = GeoboxTiles(dst, (t, t))
    # source grid covering the destination's centre region
    cx, cy = _tr("4326", lb).transform(clon + case["off"][0], clat + case["off"][1])
    spx = case["spx"]
    half = min(2.0e6, 0.6 * max(sx_, sy_) * 111e3 / 2)
    sn = int(min(480, 2 * half / spx))
    if case.get("probe"):
        pty, ptx, side, spx = case["probe"]
        nty_, ntx_ = -(-ny // t), -(-nx // t)
        pty, ptx = pty % nty_, ptx % ntx_
        # the middle of a *pixel* edge on that side (a vertex of the pixel lattice is the last place to look: any outline
        # sampled per pixel is exact there)
        mid_px = (min(nx - 0.5, ptx * t + (t // 2) + 0.5), pty * t if side == "top" else min(ny, (pty + 1) * t))
        mlon, mlat = Ad * mid_px
        cx, cy = _tr(la, lb).transform(mlon, mlat)
        sn = 320
        T.cls("probe_on_a_tile_side")
    As = Affine(spx, 0, cx - spx * sn / 2, 0, -spx, cy + spx * sn / 2)
    src = GeoBox((sn, sn), As, mk_crs_spec({"label": lb, "spell": "int"}))
    stt = case["st"]
    sgbt = GeoboxTiles(src, (stt, stt))
    res_ = dgbt.grid_intersect(sgbt)
    require(isinstance(res_, dict), "grid_intersect returned %s", type(res_).__name__)
    nst = -(-sn // stt)
    jy, jx = np.divmod(np.arange(nst * nst), nst)
    ccx = np.minimum(sn, jx * stt + stt / 2.0)
    ccy = np.minimum(sn, jy * stt + stt / 2.0)
    P = _apply(~Ad, _project(lb, la, _apply(As, np.stack([ccx, ccy], axis=1))))
    ok = np.isfinite(P).all(axis=1) & (P[:, 0] > 0) & (P[:, 0] < nx) & (P[:, 1] > 0) & (P[:, 1] < ny)
    listed = {k_: {tuple(int(v) for v in g) for g in v_} for k_, v_ in res_.items()}
    ndec = 0
    missing = []
    for k_ in np.flatnonzero(ok):
        x, y = float(P[k_, 0]), float(P[k_, 1])
        ty, tx = int(y // t), int(x // t)
        hx, hy = min(nx, (tx + 1) * t), min(ny, (ty + 1) * t)
        # well inside: 1.5 destination pixels for fine grids; for coarse pixels (degrees wide) the distance is taken
        # in the source's units instead - one and a half source tiles
        if res < 1:
            mx_ = my_ = 1.5
        else:
            # 1.5 source tiles; 0.6 of a source tile for the probes (a tile whose centre lies that far inside is more
            # than half inside - far beyond a sliver - and beyond the sag of a 16-segment outline of these tiles)
            m_m = (0.6 if case.get("probe") else 1.5) * stt * spx
            lat_ = (Ad * (x, y))[1]
            my_ = m_m / (res * 111.2e3)
            mx_ = m_m / (res * 111.2e3 * max(0.05, math.cos(math.radians(lat_))))
        if min(x - tx * t, hx - x) < mx_ or min(y - ty * t, hy - y) < my_:
            continue
        ndec += 1
        if (int(jy[k_]), int(jx[k_])) not in listed.get((ty, tx), ()):
            missing.append(((ty, tx), (int(jy[k_]), int(jx[k_])), round(x - tx * t, 2), round(y - ty * t, 2)))
    require(not missing, "dst in %s (%dx%d px of %g deg, tiles %d px = %.1f deg), src in %s (%d px of %g m, tiles %d px): %d of %d source tiles whose centre lies > 1.5 px inside a destination tile are not listed for it, e.g. (dst tile, src tile, x, y in the tile) %r",
            la, ny, nx, res, t, t * res, lb, sn, spx, stt, len(missing), ndec, missing[:3])
    T.cls("pair:%s<%s" % (la, lb))
    T.cls("tile_deg:%g" % (t * res))
    if ndec:
        T.nontrivial((case["setup"], t, stt, case["spx"]))


# ============================================================================ rasters that reach the rim of their projection
def e_graph_rim(tier):
    """Standard global / edge-of-domain grids: the complete EASE-Grid 2.0 (EPSG:6933, rows up to the latitude where the
    projection ends), MODIS sinusoidal tiles whose corners lie outside the sinusoidal lens - and a lon/lat grid to go
    with them, in both roles."""
    T_ = 1111950.5197
    setups = [
        ("ease2_36km_global", "6933", [406, 964], [36032.220840584, 0.0, -17367530.45, 0.0, -36032.220840584, 7314540.83]),
        ("ease2_36km_north_rows", "6933", [40, 964], [36032.220840584, 0.0, -17367530.45, 0.0, -36032.220840584, 7314540.83]),
        ("modis_h11v02", "sinu", [120, 120], [T_ / 120, 0.0, -20015109.354 + 11 * T_, 0.0, -T_ / 120, 10007554.677 - 2 * T_]),
        ("modis_h24v02", "sinu", [120, 120], [T_ / 120, 0.0, -20015109.354 + 24 * T_, 0.0, -T_ / 120, 10007554.677 - 2 * T_]),
        ("modis_h17v15", "sinu", [120, 120], [T_ / 120, 0.0, -20015109.354 + 17 * T_, 0.0, -T_ / 120, 10007554.677 - 15 * T_]),
    ]
    for name, lab, shape, aff in setups:
        for role in ("src", "dst"):
            for t in ((20, 60) if tier == "quick" else (10, 20, 40, 60, 203)):
                yield {"name": name, "label": lab, "shape": shape, "affine": aff, "role": role, "t": t}


def o_graph_rim(case, T):
    """'is empty rather than an error' / 'lists every source tile' for rasters whose buffered outline leaves the domain
    of their projection: no exception, and every destination tile whose centre maps well inside the source has the
    source tile under that centre among its sources."""
    from affine import Affine

    from odc.geo.geobox import GeoBox, GeoboxTiles

    lab = case["label"]
    A = Affine(*case["affine"])
    ny, nx = case["shape"]
    rim = GeoBox((ny, nx), A, mk_crs_spec({"label": lab, "spell": "proj" if lab == "sinu" else "int"}))
    # the raster itself must lie inside the domain of its projection (its *buffered* outline need not): MODIS tiles
    # whose corners are outside the sinusoidal lens are a different problem (not decided here, see DESIGN 10.8)
    ring = _apply(A, _ring_dense([[0, 0], [nx, 0], [nx, ny], [0, ny]], 31))
    LL = _project(lab, "4326", ring)
    ok_ = np.isfinite(LL).all()
    if ok_:
        back = _project("4326", lab, LL)
        off_ = np.abs(back - ring).max(axis=1) if np.isfinite(back).all() else np.full(len(ring), np.inf)
        # a point that does not come back lies outside the projection's domain (PROJ wraps its longitude); points
        # exactly on the +-180 meridian may come back on the other side of the world
        ok_ = bool(((off_ <= 1.0) | (np.abs(LL[:, 0]) > 179.999999)).all())
    if not ok_:
        T.exclude("raster_itself_outside_projection_domain")
        return
    # lon/lat partner covering the raster's centre region at a comparable pixel size
    cx, cy = A * (nx / 2, ny / 2)
    lon, lat = _tr(lab, "4326").transform(cx, cy)
    res = 0.25 if "ease2" in case["name"] else 0.05
    if "global" in case["name"]:
        ll = GeoBox((720, 1440), Affine(0.25, 0, -180.0, 0, -0.25, 90.0), 4326)
    else:
        w = 40.0 if "ease2" in case["name"] else 14.0
        ll = GeoBox((int(w / res), int(2 * w / res)), Affine(res, 0, round(lon) - w, 0, -res, min(89.0, round(lat) + w / 2)), 4326)
    t = case["t"]
    if case["role"] == "src":
        src, dst, ls, ld = rim, ll, lab, "4326"
    else:
        src, dst, ls, ld = ll, rim, "4326", lab
    dgbt = GeoboxTiles(dst, (t, t))
    sgbt = GeoboxTiles(src, (max(8, t // 2), max(8, t // 2)))
    res_ = dgbt.grid_intersect(sgbt)
    require(isinstance(res_, dict), "grid_intersect returned %s", type(res_).__name__)
    st_ = max(8, t // 2)
    dny, dnx = (int(v) for v in dst.shape)
    sny, snx = (int(v) for v in src.shape)
    nty, ntx = -(-dny // t), -(-dnx // t)
    iy, ix = np.divmod(np.arange(nty * ntx), ntx)
    ccx = (ix * t + np.minimum(dnx, (ix + 1) * t)) / 2.0
    ccy = (iy * t + np.minimum(dny, (iy + 1) * t)) / 2.0
    W = _apply(dst.affine, np.stack([ccx, ccy], axis=1))
    P = _apply(~src.affine, _project(ld, ls, W))
    listed = {k_: {tuple(int(v) for v in g) for g in v_} for k_, v_ in res_.items()}
    ndec, missing = 0, []
    for k_ in range(len(ccx)):
        x, y = P[k_]
        if not (math.isfinite(x) and math.isfinite(y)):
            continue
        # the centre of the destination tile lies inside the source, 2 source pixels from its border and from a tile seam
        if not (2 < x < snx - 2 and 2 < y < sny - 2) or min(x % st_, st_ - x % st_, y % st_, st_ - y % st_) < 1.0:
            continue
        # tiles at the antimeridian are another subject (a vertex at lon -180 may come back as +180; dateline handling
        # is not part of this property): keep 10 degrees away from it
        x0_, x1_, y0_, y1_ = ix[k_] * t, min(dnx, (ix[k_] + 1) * t), iy[k_] * t, min(dny, (iy[k_] + 1) * t)
        cl = _project(ld, "4326", _apply(dst.affine, np.array([[x0_, y0_], [x1_, y0_], [x1_, y1_], [x0_, y1_], [ccx[k_], ccy[k_]]], dtype="float64")))[:, 0]
        if not np.isfinite(cl).all() or (np.abs(cl) > 178.0).any() or np.ptp(cl) > 170.0:
            continue
        # round trip through the projection must come back (guards against points outside the projection's domain)
        back = _apply(~dst.affine, _project(ls, ld, _apply(src.affine, np.array([[x, y]]))))[0]
        if not (np.isfinite(back).all() and abs(back[0] - ccx[k_]) < 0.01 and abs(back[1] - ccy[k_]) < 0.01):
            continue
        ndec += 1
        want = (int(y // st_), int(x // st_))
        if want not in listed.get((int(iy[k_]), int(ix[k_])), ()):
            missing.append(((int(iy[k_]), int(ix[k_])), want))
    require(not missing, "%s as %s (tiles %d px) against a lon/lat grid: %d of %d destination tiles whose centre maps well inside the source do not list the source tile under their centre, e.g. (dst tile, src tile) %r",
            case["name"], case["role"], t, len(missing), ndec, missing[:3])
    T.cls("rim:" + case["name"])
    T.cls("role:" + case["role"])
    T.nontrivial((case["name"], case["role"], t))


# ============================================================================ several queries on one object
SEQ_SETUPS = [
    # (raster crs, other crs, raster origin (x, y top), pixel size) - the same numbers are valid coordinates in both CRSs
    ("EPSG:32633", "EPSG:32634", (400000.0, 5000000.0), 1000.0),
    ("EPSG:4326", "EPSG:4283", (120.0, -15.0), 0.25),
    ("EPSG:3857", "EPSG:6933", (1000000.0, 4000000.0), 5000.0),
    ("EPSG:32755", "EPSG:32633", (300000.0, 6000000.0), 2000.0),
]


@st.composite
def s_query_sequence(draw):
    k = draw(st.integers(0, len(SEQ_SETUPS) - 1))
    ny, nx = draw(st.integers(8, 60)), draw(st.integers(8, 60))
    t = [draw(st.integers(2, 16)), draw(st.integers(2, 16))]
    boxes = []
    for _ in range(draw(st.integers(1, 3))):
        x0, y0 = draw(st.integers(0, nx - 2)), draw(st.integers(0, ny - 2))
        boxes.append([x0, y0, draw(st.integers(x0 + 1, nx)), draw(st.integers(y0 + 1, ny))])
    n = draw(st.integers(2, 6))
    seq = [[draw(st.integers(0, len(boxes) - 1)), draw(st.sampled_from(["pix", "own", "other", "own_as_numbers_of_pix"])), draw(st.sampled_from(["tiles", "range"]))] for _ in range(n)]
    return {"setup": k, "shape": [ny, nx], "t": t, "boxes": boxes, "seq": seq}


def o_query_sequence(case, T):
    """One GeoboxTiles object serves many queries (that is how a dependency graph is built): a query's answer depends
    on the query alone, never on what the object was asked before - compared with a fresh object per query."""
    from affine import Affine

    from odc.geo.geobox import GeoBox, GeoboxTiles
    from odc.geo.geom import BoundingBox

    own, other, (ox, oy), px = SEQ_SETUPS[case["setup"]]
    ny, nx = case["shape"]
    A = Affine(px, 0, ox, 0, -px, oy)
    gb = GeoBox((ny, nx), A, own)
    shared = GeoboxTiles(gb, tuple(case["t"]))

    def mk_query(bi, kind):
        x0, y0, x1, y1 = case["boxes"][bi]
        if kind == "pix":
            return BoundingBox(x0, y0, x1, y1, None)
        wx0, wy0 = A * (x0, y1)
        wx1, wy1 = A * (x1, y0)
        if kind == "own_as_numbers_of_pix":
            # world box in the raster's CRS whose NUMBERS equal those of the pixel box
            return BoundingBox(x0, y0, x1, y1, own)
        return BoundingBox(wx0, wy0, wx1, wy1, own if kind == "own" else other)

    def ask(obj, q, how):
        try:
            if how == "tiles":
                return ("ok", sorted(tuple(int(v) for v in i) for i in obj.tiles(q)))
            ry, rx = obj.range_from_bbox(q)
            return ("ok", (list(ry), list(rx)))
        except Exception as e:  # noqa: BLE001 - compared between the two objects, not judged
            return ("err", type(e).__name__)

    kinds = set()
    for step, (bi, kind, how) in enumerate(case["seq"]):
        q = mk_query(bi, kind)
        got = ask(shared, q, how)
        want = ask(GeoboxTiles(GeoBox((ny, nx), A, own), tuple(case["t"])), q, how)
        require(got == want, "query %d of the sequence (%s, box %r as %s) on an object that answered %d queries before: %r; a fresh object answers %r",
                step, how, case["boxes"][bi], kind, step, got[1] if got[0] == "err" else str(got[1])[:120], want[1] if want[0] == "err" else str(want[1])[:120])
        kinds.add(kind)
    if len(kinds) >= 2:
        T.nontrivial((case["setup"], tuple(sorted(kinds)), len(case["seq"])))
    T.cls("kinds_in_sequence:%d" % len(kinds))


# ============================================================================ locate
def _compositions(n):
    for mask in range(1 << (n - 1)):
        out, run = [], 1
        for i in range(n - 1):
            if mask >> i & 1:
                out.append(run)
                run = 1
            else:
                run += 1
        out.append(run)
        yield out


def e_locate(tier):
    nreg = 8 if tier == "quick" else 12
    nvar = 5 if tier == "quick" else 7
    regs = [(n, t) for n in range(1, nreg + 1) for t in range(1, n + 3)]
    for (ny, ty), (nx, tx) in itertools.product(regs, regs):
        if tier == "quick" and (ny + ty + nx + tx) % 3:
            continue
        yield {"kind": "reg", "shape": [ny, nx], "t": [ty, tx]}
    vars_ = [c for n in range(1, nvar + 1) for c in _compositions(n)]
    for cy, cx in itertools.product(vars_, vars_):
        yield {"kind": "var", "shape": [sum(cy), sum(cx)], "chunks": [cy, cx]}
    # a few large ones (int32 offsets, big tiles)
    for n, t in ((100000, 4096), (65536, 256), (1000, 7)):
        yield {"kind": "reg", "shape": [n, 13], "t": [t, 5], "probe": True}
        yield {"kind": "var", "shape": [n, 13], "chunks": [[t] * (n // t) + ([n % t] if n % t else []), [5, 1, 7]], "probe": True}


def o_locate(case, T):
    from odc.geo.roi import roi_tiles

    ny, nx = case["shape"]
    tiles = roi_tiles((ny, nx), tile_arg(case))
    ye, xe = layout_edges(case["shape"], case)
    require(tuple(tiles.shape) == (len(ye) - 1, len(xe) - 1), "tile grid shape %r, expected %r", tuple(tiles.shape), (len(ye) - 1, len(xe) - 1))

    def expect(e, p):
        return int(np.searchsorted(np.asarray(e), p, side="right")) - 1

    if case.get("probe"):
        ys = sorted({p for e in ye[:: max(1, len(ye) // 40)] + [ye[-1]] for p in (e - 1, e, e + 1) if 0 <= p < ny})
    else:
        ys = range(ny)
    for y in ys:
        for x in range(nx):
            got = tiles.locate((y, x))
            want = (expect(ye, y), expect(xe, x))
            require(tuple(int(v) for v in got) == want, "locate((%d,%d)) = %r but pixel lies in tile %r (row borders %s, col borders %s)", y, x, tuple(got), want, ye[:12], xe[:12])
    if len(ye) > 2 or len(xe) > 2:
        T.nontrivial()
    T.cls(case["kind"])


# ============================================================================ registration
def _is_d8(sub, case, msg):
    return sub == "graph_linear" and msg.startswith("disjoint rasters (same CRS, axis-parallel")


# ----------------------------------------------------------------------------- global source, regional destination
GLOBAL_DST = ["32633", "32755", "3577", "3035", "3857", "6933"]


@st.composite
def s_graph_global(draw):
    """Source: a lon/lat raster much larger than the destination CRS's usable domain (global or hemispheric, a few
    degrees per tile); destination: a regional raster in a projected CRS well inside its valid area."""
    dlab = draw(st.sampled_from(GLOBAL_DST))
    lo = CRS_POOL[dlab][1]
    lon = draw(st.floats(lo[0] + 2, lo[2] - 2))
    lat = draw(st.floats(max(lo[1] + 2, -70), min(lo[3] - 2, 70)))
    px_deg = draw(st.sampled_from([0.25, 0.5, 1.0]))
    extent = draw(st.sampled_from(["global", "global", "north_or_south", "lat85"]))
    stile = draw(st.sampled_from([10, 20, 30, 45]))  # source tile, pixels
    dres = draw(st.sampled_from([1000.0, 5000.0, 10000.0]))
    dshape = [draw(st.integers(20, 60)), draw(st.integers(20, 60))]
    dtile = draw(st.sampled_from([10, 16, 32, 64]))
    return {"dlab": dlab, "lonlat": [lon, lat], "px_deg": px_deg, "extent": extent, "stile": stile, "dres": dres, "dshape": dshape, "dtile": dtile,
            "sflip": draw(st.booleans())}


def o_graph_global(case, T):
    from affine import Affine
    from odc.geo.geobox import GeoBox, GeoboxTiles
    from pyproj import Transformer
    from shapely import geometry as G

    px = case["px_deg"]
    lon, lat = case["lonlat"]
    if case["extent"] == "global":
        y0, y1 = -90.0, 90.0
    elif case["extent"] == "lat85":
        y0, y1 = -85.0, 85.0
    else:
        y0, y1 = (0.0, 90.0) if lat >= 0 else (-90.0, 0.0)
        if not (y0 + 5 < lat < y1 - 5):
            T.exclude("destination_near_equator_for_hemispheric_source")
            return
    nx, ny = int(round(360 / px)), int(round((y1 - y0) / px))
    if case["sflip"]:
        As = Affine(px, 0, -180.0, 0, px, y0)
    else:
        As = Affine(px, 0, -180.0, 0, -px, y1)
    src = GeoBox((ny, nx), As, 4326)
    dlab = case["dlab"]
    x, y = Transformer.from_crs(4326, int(dlab), always_xy=True).transform(lon, lat)
    dres = case["dres"]
    Hd, Wd = case["dshape"]
    Ad = Affine(dres, 0, round(x / dres) * dres - dres * Wd / 2, 0, -dres, round(y / dres) * dres + dres * Hd / 2)
    dst = GeoBox((Hd, Wd), Ad, int(dlab))
    st_, dt_ = case["stile"], case["dtile"]
    gs, gd = GeoboxTiles(src, (st_, st_)), GeoboxTiles(dst, (dt_, dt_))
    res = gd.grid_intersect(gs)
    require(isinstance(res, dict), "grid_intersect returned %r", type(res))
    tr = Transformer.from_crs(int(dlab), 4326, always_xy=True)
    iAs = ~As
    nreq = 0
    for (r, c) in np.ndindex(*gd.shape.shape):
        ry, rx = gd.roi[r, c]
        # dense ring of the destination tile, eroded by 5% so that only solid overlaps are demanded
        ex, ey = 0.05 * (rx.stop - rx.start), 0.05 * (ry.stop - ry.start)
        ring = []
        k = 8
        xs = np.linspace(rx.start + ex, rx.stop - ex, k)
        ys = np.linspace(ry.start + ey, ry.stop - ey, k)
        ring += [(xx, ys[0]) for xx in xs] + [(xs[-1], yy) for yy in ys] + [(xx, ys[-1]) for xx in xs[::-1]] + [(xs[0], yy) for yy in ys[::-1]]
        wx, wy = zip(*[Ad * p for p in ring])
        lo, la = tr.transform(list(wx), list(wy))
        if not all(math.isfinite(v) for v in list(lo) + list(la)):
            T.exclude("destination_tile_does_not_project")
            continue
        if max(lo) - min(lo) > 180:
            T.exclude("destination_tile_crosses_antimeridian")
            continue
        sp = [iAs * p for p in zip(lo, la)]  # source pixel coordinates
        poly = G.Polygon(sp)
        if not poly.is_valid or poly.area <= 0:
            T.exclude("degenerate_projected_tile")
            continue
        have = set(map(tuple, res.get((r, c), [])))
        minx, miny, maxx, maxy = poly.bounds
        for sr in range(max(0, int(miny // st_)), min(gs.shape.y, int(maxy // st_) + 1)):
            for sc in range(max(0, int(minx // st_)), min(gs.shape.x, int(maxx // st_) + 1)):
                sb = G.box(sc * st_, sr * st_, min((sc + 1) * st_, nx), min((sr + 1) * st_, ny))
                a = poly.intersection(sb).area
                if a >= 0.02 * poly.area and a >= 0.01 * sb.area * 0 + 1e-9:
                    nreq += 1
                    if (sr, sc) not in have:
                        raise Violation(f"destination tile {(r, c)} (EPSG:{dlab}) overlaps source tile {(sr, sc)} of the {case['extent']} lon/lat raster by {a / poly.area:.0%} of its area, but the edge is missing (listed sources: {sorted(have)[:6]}, graph has {len(res)} destination tiles)")
    if nreq:
        T.nontrivial()
    T.cls("dst:" + dlab)
    T.cls("extent:" + case["extent"])


def build(chk: Check) -> None:
    chk.sub("graph_global_src", o_graph_global, strategy=s_graph_global(), n={"quick": 150, "thorough": 6000}, budget_s={"quick": 60, "thorough": 150}, shrink=False)
    chk.sub("query_geom_same", o_geom_same, cov={"quick": 400, "thorough": 30000}, strategy=s_geom_same(), n={"quick": 1600, "thorough": 80000}, budget_s={"quick": 60, "thorough": 140})
    chk.sub("query_bbox_same", o_bbox_same, strategy=s_bbox_same(), n={"quick": 1000, "thorough": 50000}, budget_s={"quick": 60, "thorough": 110})
    chk.sub("query_sequence_on_one_object", o_query_sequence, strategy=s_query_sequence(), n={"quick": 600, "thorough": 30000}, budget_s={"quick": 40, "thorough": 120})
    chk.sub("query_dense_curved", o_query_other, strategy=s_query_dense(), n={"quick": 400, "thorough": 20000}, budget_s={"quick": 60, "thorough": 200})
    chk.sub("query_other_crs", o_query_other, strategy=s_query_other(), n={"quick": 1400, "thorough": 70000}, budget_s={"quick": 60, "thorough": 140})
    chk.sub("graph_linear", o_graph_linear, cov={"quick": 300, "thorough": 20000}, strategy=s_graph_linear(), n={"quick": 800, "thorough": 30000}, budget_s={"quick": 60, "thorough": 140})
    chk.sub("graph_rotated", o_graph_rot, strategy=s_graph_rot(), n={"quick": 300, "thorough": 12000}, budget_s={"quick": 60, "thorough": 110})
    chk.sub("graph_continental_cover", o_graph_cover, strategy=s_graph_cover(), n={"quick": 24, "thorough": 800}, budget_s={"quick": 70, "thorough": 300}, shrink=False)
    chk.sub("graph_coarse_tiles_probe", o_graph_bigtile, enum=e_graph_coarse_probe, exhaustive_tiers=("quick", "thorough"), budget_s={"quick": 80, "thorough": 300})
    chk.sub("graph_big_lonlat_tiles", o_graph_bigtile, strategy=s_graph_bigtile(), n={"quick": 24, "thorough": 800}, budget_s={"quick": 70, "thorough": 300}, shrink=False)
    chk.sub("graph_projection_rim", o_graph_rim, enum=e_graph_rim, exhaustive_tiers=("quick", "thorough"), budget_s={"quick": 80, "thorough": 400})
    chk.sub("graph_continental", o_graph_other, strategy=s_graph_other(continental=True), n={"quick": 150, "thorough": 6000}, budget_s={"quick": 60, "thorough": 200}, shrink=False)
    chk.sub("graph_other_crs", o_graph_other, strategy=s_graph_other(), n={"quick": 400, "thorough": 18000}, budget_s={"quick": 60, "thorough": 170})
    chk.sub("locate_enum", o_locate, enum=e_locate, exhaustive_tiers=("thorough",), budget_s={"quick": 60, "thorough": 90})
    chk.known("D8", _is_d8)
