"""C06 - multi-part assembly preserves the byte stream under any schedule (odc/geo/cog/_mpu.py).

Two layers
----------
L1 (protocol): the chunk stream is cut into bags -> partitions -> chunks.  Every partition gets the
``MPUChunk`` that ``MPUChunk.gen_bunch`` hands out for the part-id layout of ``mpu_write`` (first id
``min_part+1``, ``writes_per_chunk`` ids per partition, ``lhs_keep=min_write_sz``, final flag on the last
partition iff there is no footer); it is fed through the real ``_mpu_append_chunks_op``; adjacent results are
combined by the real ``_merge_and_spill_op`` in an order taken from a *choice sequence* (at every step the list
of enabled actions = "append partition p" for every untouched partition + "merge items j,j+1" for every adjacent
pair of finished items of one bag; ``sched[step] % len(enabled)`` picks one) - so every bracketing of adjacent
merges and every interleaving of appends/spills/merges between partitions and bags is reachable; bags are joined
by the real ``_mpu_collate_op`` and the result goes through the real ``_finalizer_dask_op``.

L2 (end to end): the same streams as ``dask.bag``s through ``mpu_write(...).compute()`` with (a) a
single-threaded scheduler that executes the graph in a topological order picked by the case's choice sequence
and (b) dask's threaded scheduler.

The oracle is a recording ``PartsWriter`` + recording header/footer callbacks; expected bytes are a pure function
of the case (chunk i of size n is a rotation of 0..255 that depends on i).
"""
from __future__ import annotations

import itertools
import threading
from typing import Any, Dict, List, Optional, Tuple

from hypothesis import strategies as st

from vf.common import Check, HarnessError, Violation, require

RULE = (
    "Case = (bags -> partitions -> chunk sizes, min_write_sz m in {1..16}, spill_sz in {0, <m, m, m+1, 2m, 3m+1, 6m}, "
    "writes_per_chunk 1-4, header/footer None or size in {0,1,m-1,m,..}, min_part, max_part = exactly the ids the "
    "layout needs + slack in {0,1,50}, writer present or None, choice sequence for the schedule). L1 drives the real "
    "_mpu_append_chunks_op/_merge_and_spill_op/_mpu_collate_op/_finalizer_dask_op along the bracketing+interleaving "
    "selected by the choice sequence; an exhaustive small-scope enumeration (m=3; streams of <=3 chunks in quick, <=5 "
    "in thorough, sizes from a pool around the thresholds {0,1,2,3,4,7,10,14}; every cut into partitions and <=3 bags; "
    "every order of adjacent merges; spill in {0,3,4,7} (+{1,2}); wpc 1-3; 4 header/footer combinations; min_part 1 "
    "(+4)) backs the random search; L2 runs mpu_write(...).compute() on dask bags under a random-topological-order single-threaded get "
    "and the threaded scheduler. Oracle: recording writer (bytes snapshotted at call time) and callbacks. "
    "Non-trivial: >=2 partitions and >=1 part written before finalisation, or a final-flagged partition with >=2 "
    "chunks, or a merge whose right side has already written; distinct = distinct case. The space is split into "
    "disjoint sub-checks by three flags (final-flagged partition holds >=2 chunks; 0<spill_sz<min_write_sz; "
    "min_part>1) so one defect class cannot hide another."
)
ASSUMPTIONS = [
    "min_write_sz >= 1; max_part >= min_part + (#partitions * writes_per_chunk) (the id layout mpu_write uses); "
    "max_write_sz: huge, or 1x/2x/5x the minimum part size (the code does not cap parts at it and the statement does not ask it to: only 'never fails or loses data' is demanded)",
    "every partition holds >= 1 chunk (the quantifier of the property); chunk sizes 0..~6*min_write_sz",
    "L1 reproduces mpu_write's id layout with the real MPUChunk.gen_bunch (first id min_part+1, lhs_keep=min_write_sz "
    "with a writer, 0 without; mark_final iff no footer, last bag only)",
    "a writer snapshot of the data at call time is what 'handed to the writer' means (real writers upload at call time)",
    "dask executes each graph once (MPUChunk objects embedded in the graph are mutated by the append op)",
]
SHARDS = {"quick": 4, "thorough": 16}

# --------------------------------------------------------------------------- deterministic content
_BASE = bytes(range(256)) * 2
_HDR = b"\xf1HeAdEr\xf2"
_FTR = b"\xe1fOoTeR\xe2\xe3"


def chunk_bytes(i: int, n: int) -> bytes:
    """Content of chunk number ``i`` (stream order) of size ``n``."""
    if n <= 0:
        return b""
    s = (i * 37 + 11) % 256
    blk = _BASE[s : s + 256]
    return (blk * (n // 256 + 1))[:n]


def _rep(pat: bytes, n: int) -> bytes:
    return (pat * (n // len(pat) + 1))[:n]


class Layout:
    """Everything the oracle needs, computed from the case alone."""

    def __init__(self, case: dict):
        self.m = int(case["m"])
        self.spill = int(case["spill"])
        self.wpc = int(case["wpc"])
        self.hdr_n = case["hdr"]
        self.ftr_n = case["ftr"]
        self.min_part = int(case["min_part"])
        self.slack = int(case["slack"])
        self.has_writer = bool(case["writer"])
        # "writer size limits": the writer's advertised maximum per call, as a multiple of its minimum (None = huge).
        # The statement promises nothing about the maximum, only that no limit makes the write fail or lose data.
        self.maxw = None if not case.get("maxw") else int(case["maxw"]) * self.m
        self.user_kw = {"tag": 7, "other": "x"} if case.get("kw") else None
        bags = case["bags"]
        ba = bool(case.get("ba"))
        if not bags or any(not b for b in bags):
            raise HarnessError("case has an empty bag: %r" % (bags,))
        if self.m < 1 or self.wpc < 1 or self.spill < 0 or self.min_part < 0:
            raise HarnessError("bad config in case")
        self.bags: List[List[List[Tuple[bytes, int]]]] = []
        self.observed: List[List[int]] = []
        data = []
        i = 0
        for b in bags:
            pb = []
            for p in b:
                pp = []
                for sz in p:
                    bb = chunk_bytes(i, int(sz))
                    # SomeData = bytes | bytearray: every other chunk is handed over as a bytearray when "ba" is set
                    pp.append((bytearray(bb) if (ba and i % 2 == 0) else bb, i))
                    self.observed.append([len(bb), i])
                    data.append(bb)
                    i += 1
                pb.append(pp)
            self.bags.append(pb)
        self.nchunks = i
        self.npartitions = sum(len(b) for b in bags)
        self.header = b"" if self.hdr_n is None else _rep(_HDR, int(self.hdr_n))
        self.footer = b"" if self.ftr_n is None else _rep(_FTR, int(self.ftr_n))
        self.body = b"".join(data)
        self.expected = self.header + self.body + self.footer
        self.final_multi = self.has_writer and self.ftr_n is None and len(bags[-1][-1]) >= 2
        self.empty_partitions = sum(1 for b in bags for p in b if not p)
        self.adjacent_empty = any((not b[i]) and (not b[i + 1]) for b in bags for i in range(len(b) - 1))
        self.small_spill = self.has_writer and 0 < self.spill < self.m
        self.far_part = self.has_writer and self.min_part != 1

    def max_part(self, npartitions: Optional[int] = None) -> int:
        n = self.npartitions if npartitions is None else npartitions
        return self.min_part + n * self.wpc + self.slack


# --------------------------------------------------------------------------- recording writer / callbacks
class RecWriter:
    """Recording PartsWriter.  Never raises; verdicts are made afterwards."""

    def __init__(self, min_write_sz: int, min_part: int, max_part: int, max_write_sz: Optional[int] = None):
        self._maxw = max_write_sz
        self._m = min_write_sz
        self._lo = min_part
        self._hi = max_part
        self.calls: List[Tuple[Any, bytes, dict]] = []
        self.final_calls: List[Tuple[list, int]] = []
        self.final_token = ("finalised", object())
        self._lock = threading.Lock()

    def __call__(self, part, data):
        with self._lock:
            rec = {"PartNumber": part, "ETag": "w%d" % len(self.calls)}
            self.calls.append((part, bytes(data), rec))  # snapshot now
            return rec

    def finalise(self, parts):
        with self._lock:
            self.final_calls.append((list(parts), len(self.calls)))
        return self.final_token

    @property
    def min_write_sz(self) -> int:
        return self._m

    @property
    def max_write_sz(self) -> int:
        return (1 << 40) if self._maxw is None else self._maxw

    @property
    def min_part(self) -> int:
        return self._lo

    @property
    def max_part(self) -> int:
        return self._hi

    def __dask_tokenize__(self):
        return ("c06.RecWriter", self._m, self._lo, self._hi, self._maxw)


class RecCallback:
    def __init__(self, name: str, out: bytes):
        self.name = name
        self.out = out
        self.seen: List[list] = []
        self.kws: List[dict] = []

    def __call__(self, observed, **kw):
        self.seen.append([list(x) if isinstance(x, (tuple, list)) else x for x in observed])  # snapshot now
        self.kws.append(dict(kw))
        return self.out

    def __dask_tokenize__(self):
        return ("c06.RecCallback", self.name, self.out)


def _mk_callbacks(L: Layout):
    hdr = None if L.hdr_n is None else RecCallback("hdr", L.header)
    ftr = None if L.ftr_n is None else RecCallback("ftr", L.footer)
    return hdr, ftr


def _first_diff(a: bytes, b: bytes) -> int:
    n = min(len(a), len(b))
    for i in range(n):
        if a[i] != b[i]:
            return i
    return n


def _brief_parts(calls) -> str:
    s = ",".join("%s:%d" % (p, len(d)) for p, d, _ in calls[:24])
    return s + (",.." if len(calls) > 24 else "")


def judge_callbacks(L: Layout, hdr: Optional[RecCallback], ftr: Optional[RecCallback]) -> None:
    for cb in (hdr, ftr):
        if cb is None:
            continue
        require(len(cb.seen) >= 1, "mk_%s was never called", cb.name)
        for seen in cb.seen:
            require(
                seen == L.observed,
                "mk_%s observed %d entries %r.., expected the complete ordered list of %d (size,id): %r..",
                cb.name, len(seen), seen[:8], len(L.observed), L.observed[:8],
            )


def judge_written(L: Layout, w: RecWriter, max_part: int, where: str) -> None:
    """All clauses of the statement that concern what reached the writer."""
    calls = w.calls
    require(len(w.final_calls) == 1, "%s: finalise called %d times (parts written %s)", where, len(w.final_calls), _brief_parts(calls))
    parts_arg, ncalls_at_final = w.final_calls[0]
    require(ncalls_at_final == len(calls), "%s: %d part(s) written after finalise", where, len(calls) - ncalls_at_final)
    ids = [p for p, _, _ in calls]
    require(all(type(p) is int for p in ids), "%s: non-int part number in %r", where, ids[:20])
    require(len(set(ids)) == len(ids), "%s: part number used twice: %r", where, sorted(ids)[:40])
    bad = [p for p in ids if not L.min_part <= p <= max_part]
    require(not bad, "%s: part number(s) %r outside writer range [%d,%d] (written %s)", where, bad[:10], L.min_part, max_part, _brief_parts(calls))
    srt = sorted(calls, key=lambda c: c[0])
    got = b"".join(d for _, d, _ in srt)
    if got != L.expected:
        k = _first_diff(got, L.expected)
        raise Violation(
            "%s: parts concatenated by part number give %d bytes, expected %d (hdr %d + body %d + ftr %d); first "
            "difference at offset %d; parts id:size in id order %s; call order %r"
            % (where, len(got), len(L.expected), len(L.header), len(L.body), len(L.footer), k, _brief_parts(srt), ids[:24])
        )
    for p, d, _ in srt[:-1]:
        require(
            len(d) >= L.m,
            "%s: part %d has %d bytes < min_write_sz=%d and is not the last part (parts id:size %s)",
            where, p, len(d), L.m, _brief_parts(srt),
        )
    want = [r for _, _, r in srt]
    require(
        parts_arg == want,
        "%s: finalise got parts %r but the written parts in order are %r",
        where, [r.get("PartNumber") if isinstance(r, dict) else r for r in parts_arg][:30], [r["PartNumber"] for r in want][:30],
    )


def judge_unwritten(L: Layout, root: Any, where: str) -> None:
    require(hasattr(root, "data") and hasattr(root, "parts"), "%s: without a writer the result should be the root chunk, got %r", where, type(root).__name__)
    require(list(root.parts) == [], "%s: parts recorded although there is no writer: %r", where, root.parts)
    got = bytes(root.left_data) + bytes(root.data)
    if got != L.expected:
        k = _first_diff(got, L.expected)
        raise Violation(
            "%s: unwritten root holds %d bytes, expected %d (hdr %d + body %d + ftr %d), first difference at %d"
            % (where, len(got), len(L.expected), len(L.header), len(L.body), len(L.footer), k)
        )


# --------------------------------------------------------------------------- L1 driver
def drive_l1(L: Layout, sched: List[int]):
    """Run the real ops along the schedule.  Returns (writer|None, hdr_cb, ftr_cb, result, stats)."""
    from odc.geo.cog import _mpu as M

    max_part = L.max_part()
    write = RecWriter(L.m, L.min_part, max_part, L.maxw) if L.has_writer else None
    hdr, ftr = _mk_callbacks(L)
    # --- id layout of mpu_write
    min_part = write.min_part if write is not None else 1
    lhs_keep = write.min_write_sz if write is not None else 0
    part_id = min_part + 1
    slots: List[List[list]] = []
    for bi, bag in enumerate(L.bags):
        mpus = list(
            M.MPUChunk.gen_bunch(
                part_id,
                len(bag),
                writes_per_chunk=L.wpc,
                mark_final=(L.ftr_n is None) and bi == len(L.bags) - 1,
                lhs_keep=lhs_keep,
            )
        )
        require(len(mpus) == len(bag), "gen_bunch(n=%d) produced %d chunks", len(bag), len(mpus))
        part_id += len(bag) * L.wpc
        slots.append([["raw", mpu, chunks] for mpu, chunks in zip(mpus, bag)])

    stats = {"append_spills": 0, "merge_spills": 0, "rhs_started": 0, "lhs_started": 0, "both_started": 0,
             "merges": 0, "collate": len(L.bags) > 1, "interleaved": False}
    ncalls = lambda: len(write.calls) if write is not None else 0  # noqa: E731
    step = 0
    last_kind = None
    saw_merge_before_append = False
    while True:
        acts = []
        for bi, sl in enumerate(slots):
            for j, s in enumerate(sl):
                if s[0] == "raw":
                    acts.append(("a", bi, j))
                elif j + 1 < len(sl) and sl[j + 1][0] == "done":
                    acts.append(("m", bi, j))
        if not acts:
            break
        pick = (sched[step] if step < len(sched) else 0) % len(acts)
        step += 1
        kind, bi, j = acts[pick]
        sl = slots[bi]
        n0 = ncalls()
        if kind == "a":
            _, mpu, chunks = sl[j]
            if last_kind == "m":
                saw_merge_before_append = True
            out = M._mpu_append_chunks_op([mpu], list(chunks), write=write, spill_sz=L.spill)
            out = list(out)
            require(len(out) == 1, "_mpu_append_chunks_op returned %d items", len(out))
            sl[j] = ["done", out[0]]
            stats["append_spills"] += ncalls() - n0
        else:
            lhs, rhs = sl[j][1], sl[j + 1][1]
            ls, rs = bool(lhs.started_write), bool(rhs.started_write)
            stats["merges"] += 1
            stats["rhs_started"] += rs
            stats["lhs_started"] += ls
            stats["both_started"] += ls and rs
            mm = M._merge_and_spill_op(lhs, rhs, write=write, spill_sz=L.spill)
            sl[j : j + 2] = [["done", mm]]
            stats["merge_spills"] += ncalls() - n0
        last_kind = kind
    stats["interleaved"] = saw_merge_before_append
    roots = [sl[0][1] for sl in slots]
    if len(roots) == 1:
        root = roots[0]
    else:
        n0 = ncalls()
        stats["rhs_started"] += sum(bool(r.started_write) for r in roots[1:])
        root = M._mpu_collate_op(roots, write=write, spill_sz=L.spill)
        stats["merge_spills"] += ncalls() - n0
    stats["before_final"] = ncalls()
    stats["root_started"] = bool(root.started_write)
    stats["left_data"] = len(root.left_data)
    rr = M._finalizer_dask_op(root, write=write, mk_header=hdr, mk_footer=ftr, user_kw=L.user_kw)
    return write, hdr, ftr, rr, stats, max_part


def _classify(L: Layout, T, stats: Optional[dict], nparts_written: int) -> None:
    T.cls("bags_%d" % min(len(L.bags), 3))
    T.cls("partitions_%s" % ("1" if L.npartitions == 1 else "2-3" if L.npartitions <= 3 else "4-6" if L.npartitions <= 6 else "7+"))
    T.cls("wpc_%d" % L.wpc)
    if not L.has_writer:
        T.cls("no_writer")
    elif L.spill == 0:
        T.cls("spill_0")
    elif L.spill < L.m:
        T.cls("spill_lt_min")
    elif L.spill == L.m:
        T.cls("spill_eq_min")
    else:
        T.cls("spill_gt_min")
    T.cls("hdr_%s_ftr_%s" % ("none" if L.hdr_n is None else "empty" if L.hdr_n == 0 else "yes",
                              "none" if L.ftr_n is None else "empty" if L.ftr_n == 0 else "yes"))
    if L.hdr_n is not None and 0 < L.hdr_n < L.m:
        T.cls("hdr_smaller_than_min")
    if L.final_multi:
        T.cls("final_partition_multi_chunk")
    if L.empty_partitions:
        T.cls("empty_partition")
        if L.adjacent_empty:
            T.cls("empty_partitions_adjacent")
        if not L.bags[-1][-1]:
            T.cls("empty_partition_last")
    if L.far_part:
        T.cls("min_part_gt_1")
    if L.has_writer and L.slack == 0:
        T.cls("max_part_tight")
    if any(sz == 0 for sz, _ in L.observed):
        T.cls("has_empty_chunk")
    if len(L.body) < L.m:
        T.cls("stream_smaller_than_min")
    T.cls("parts_written_%s" % ("0" if nparts_written == 0 else "1" if nparts_written == 1 else "2-3" if nparts_written <= 3 else "4+"))
    nt = L.final_multi
    if stats is not None:
        if stats["append_spills"]:
            T.cls("spill_in_append")
        if stats["merge_spills"]:
            T.cls("spill_or_flush_in_merge")
        if stats["rhs_started"]:
            T.cls("merge_rhs_started")
            nt = True
        if stats["both_started"]:
            T.cls("merge_both_started")
        if stats["lhs_started"] and not stats["both_started"]:
            T.cls("merge_lhs_started_only")
        if stats["left_data"] > L.m:
            T.cls("left_data_grown_at_root")
        if stats["root_started"]:
            T.cls("root_started")
        if stats["interleaved"]:
            T.cls("append_after_merge")
        if L.npartitions >= 2 and stats["before_final"] >= 1:
            nt = True
    else:
        # finalisation itself writes at most two parts (tail + first part), a third one means an earlier spill
        if L.npartitions >= 2 and nparts_written >= 3:
            nt = True
    if nt:
        T.nontrivial()


def o_l1(case, T):
    L = Layout(case)
    sched = [int(x) for x in case.get("sched", [])]
    if case.get("appends_first"):
        # enumerated cases: "sched" lists merge picks only; all appends run first, in stream order
        sched = _appends_first_schedule([len(b) for b in L.bags], sched)
    write, hdr, ftr, rr, stats, max_part = drive_l1(L, sched)
    judge_callbacks(L, hdr, ftr)
    if write is None:
        judge_unwritten(L, rr, "L1")
        _classify(L, T, stats, 0)
        return
    judge_written(L, write, max_part, "L1")
    _classify(L, T, stats, len(write.calls))


# --------------------------------------------------------------------------- L2 driver
def _random_get(choices: List[int]):
    """Single-threaded dask ``get`` that runs tasks in a topological order picked by ``choices``."""

    def get(dsk, keys, **kwargs):
        from dask._task_spec import convert_legacy_graph
        from dask.core import flatten

        from collections.abc import Mapping

        if not isinstance(dsk, Mapping):
            dsk = dsk.__dask_graph__()
        g = convert_legacy_graph(dict(dsk))
        want = list(flatten(keys)) if isinstance(keys, list) else [keys]
        deps: Dict[Any, set] = {}
        stack = list(want)
        while stack:
            k = stack.pop()
            if k in deps:
                continue
            deps[k] = set(g[k].dependencies)
            stack.extend(deps[k])
        dependents: Dict[Any, list] = {k: [] for k in deps}
        for k, ds in deps.items():
            for d in ds:
                dependents[d].append(k)
        waiting = {k: set(ds) for k, ds in deps.items()}
        ready = sorted((k for k, ds in waiting.items() if not ds), key=str)
        cache: Dict[Any, Any] = {}
        i = 0
        while ready:
            j = (choices[i % len(choices)] % len(ready)) if choices else len(ready) - 1
            i += 1
            k = ready.pop(j)
            cache[k] = g[k]({d: cache[d] for d in deps[k]})
            newly = []
            for p in dependents[k]:
                waiting[p].discard(k)
                if not waiting[p]:
                    newly.append(p)
            ready.extend(sorted(newly, key=str))
        if len(cache) != len(deps):
            raise HarnessError("random get: graph not fully executed (cycle?)")

        def nested(ks):
            return [nested(k) for k in ks] if isinstance(ks, list) else cache[ks]

        return nested(keys)

    return get


def _mk_bag(parts: List[List[Tuple[bytes, int]]], mode: str):
    import dask.bag as db

    if mode == "seq":
        flat = [c for p in parts for c in p]
        return db.from_sequence(flat, npartitions=len(parts))
    if any(len(p) == 0 for p in parts):
        # from_sequence cannot make a partition without items; a partition that yields nothing is what e.g.
        # Bag.filter / from_delayed produce
        import dask

        return db.from_delayed([dask.delayed(list, pure=False)(list(p)) for p in parts])
    bags = [db.from_sequence(list(p), npartitions=1) for p in parts]
    return bags[0] if len(bags) == 1 else db.concat(bags)


def o_l2(case, T):
    import dask

    from odc.geo.cog._mpu import mpu_write

    L = Layout(case)
    modes = case.get("modes") or ["cut"] * len(L.bags)
    nwritten = 0
    for sched in case.get("scheds", ["random", "threads"]):
        bags = [_mk_bag(parts, mode) for parts, mode in zip(L.bags, modes)]
        for b, parts, mode in zip(bags, L.bags, modes):
            if mode != "seq" and b.npartitions != len(parts):
                raise HarnessError("bag has %d partitions, wanted %d" % (b.npartitions, len(parts)))
        nparts = sum(b.npartitions for b in bags)
        max_part = L.max_part(nparts)
        write = RecWriter(L.m, L.min_part, max_part, L.maxw) if L.has_writer else None
        hdr, ftr = _mk_callbacks(L)
        chunks = bags[0] if (len(bags) == 1 and not case.get("as_list")) else bags
        dd = mpu_write(
            chunks,
            write,
            mk_header=hdr,
            mk_footer=ftr,
            user_kw=L.user_kw,
            writes_per_chunk=L.wpc,
            spill_sz=L.spill,
        )
        with dask.config.set({"optimization.fuse.active": bool(case.get("fuse"))}):
            if sched == "random":
                rr = dd.compute(scheduler=_random_get([int(x) for x in case.get("sched", [])]))
            elif sched == "sync":
                rr = dd.compute(scheduler="synchronous")
            else:
                rr = dd.compute(scheduler="threads", num_workers=int(case.get("nthreads", 3)))
        where = "L2/%s" % sched
        judge_callbacks(L, hdr, ftr)
        if write is None:
            judge_unwritten(L, rr, where)
        else:
            judge_written(L, write, max_part, where)
            nwritten = max(nwritten, len(write.calls))
        T.cls("sched_" + sched)
    if any(m == "seq" for m in modes):
        T.cls("bag_from_sequence")
    if any(len(b) > 16 for b in L.bags):
        T.cls("fold_three_levels")
    elif any(len(b) > 4 for b in L.bags):
        T.cls("fold_two_levels")
    _classify(L, T, None, nwritten)


# --------------------------------------------------------------------------- strategies
_FLAG_COMBOS_MIXED = [(1, 1, 0), (1, 0, 1), (0, 1, 1), (1, 1, 1)]
_FLAG_COMBOS_ANY = [(1, 0, 0), (0, 1, 0), (0, 0, 1)] + _FLAG_COMBOS_MIXED


@st.composite
def s_case(draw, flags=(0, 0, 0), writer=True, l2=False):
    """flags = (final_multi, small_spill, far_part); ``"mixed"`` draws a combination with >= 2 set, ``"any"`` one
    with >= 1 set."""
    if flags == "mixed":
        flags = draw(st.sampled_from(_FLAG_COMBOS_MIXED))
    elif flags == "any":
        flags = draw(st.sampled_from(_FLAG_COMBOS_ANY))
    final_multi, small_spill, far_part = (bool(f) for f in flags)
    m = draw(st.sampled_from([2, 3, 4, 6, 10, 16] if small_spill else [1, 2, 3, 4, 6, 10, 16]))
    if small_spill:
        spill = draw(st.integers(1, m - 1))
    else:
        spill = draw(st.sampled_from([0, m, m, m + 1, 2 * m, 3 * m + 1, 6 * m]))
    wpc = draw(st.sampled_from([1, 1, 2, 2, 3, 4]))
    hdr = draw(st.sampled_from([None, None, 0, 1, m - 1, m, m + 3]))
    ftr = None if final_multi else draw(st.sampled_from([None, None, None, 0, 1, m, 2 * m + 1]))
    min_part = draw(st.sampled_from([0, 0, 2, 3, 7, 100])) if far_part else 1
    slack = draw(st.sampled_from([0, 0, 1, 50]))
    kw = draw(st.booleans())
    size = st.one_of(
        st.sampled_from(sorted({0, 1, max(m - 1, 0), m, m + 1, 2 * m, 2 * m + 1, 3 * m, 4 * m + 2,
                                spill + 2 * m, max(spill + 2 * m - 1, 0), spill + m, spill + 3 * m + 1})),
        st.integers(0, 5 * m),
    )
    small = st.integers(0, m)
    wide = l2 and draw(st.integers(0, 7)) == 0  # one bag, 7..18 partitions: 2- and 3-level dask fold
    nb = 1 if wide else draw(st.sampled_from([1, 1, 1, 2, 2, 3]))
    bags = []
    budget = 10 if l2 else 12
    for bi in range(nb):
        left = nb - bi - 1
        hi = max(1, min(6, budget - left))
        if wide:
            npart = draw(st.integers(7, 18))
        else:
            npart = min(hi, draw(st.sampled_from([1, 2, 2, 3, 3, 4, 5, 6])))
        budget -= npart
        bag = []
        for _ in range(npart):
            nch = draw(st.sampled_from([1, 1, 1, 2] if wide else [1, 1, 1, 2, 2, 3, 4]))
            # a "small" partition cannot be flushed on its own: its bytes travel through .left_data
            sz = small if draw(st.integers(0, 3)) == 0 else size
            bag.append([draw(sz) for _ in range(nch)])
        bags.append(bag)
    last = bags[-1][-1]
    if final_multi and len(last) < 2:
        last.append(draw(size))
    if not final_multi and writer and ftr is None and len(last) >= 2:
        del last[1:]
    npart = sum(len(b) for b in bags)
    nact = 2 * npart - nb
    k = min(nact, 20) if not l2 else 12
    sched = draw(st.lists(st.integers(0, 7), min_size=k, max_size=k))
    case = {"m": m, "spill": spill, "wpc": wpc, "hdr": hdr, "ftr": ftr, "min_part": min_part, "slack": slack,
            "writer": bool(writer), "kw": kw, "ba": draw(st.booleans()), "bags": bags, "sched": sched}
    case["maxw"] = draw(st.sampled_from([None, None, None, 1, 2, 5]))
    if l2:
        modes = [draw(st.sampled_from(["cut", "cut", "seq"])) for _ in bags]
        if writer and ftr is None and not final_multi:
            # from_sequence picks its own (equal) partition sizes: the final-flagged partition could end up with
            # >= 2 chunks, which belongs to the final_multi class
            modes[-1] = "cut"
        case["modes"] = modes
        case["as_list"] = draw(st.booleans())
        case["fuse"] = draw(st.sampled_from([False, False, True]))
        case["nthreads"] = draw(st.sampled_from([2, 3, 4]))
        case["scheds"] = ["random", "threads"]
    return case


@st.composite
def s_empty_partitions(draw, l2=False):
    """'however the stream of data chunks is split into partitions': partitions that hold no chunk at all (what
    Bag.filter or an uneven from_delayed leave behind) - single, adjacent, leading, trailing, a whole sub-stream."""
    case = draw(s_case(draw(st.sampled_from([(0, 0, 0), (0, 0, 0), (0, 1, 0), (0, 0, 1)])), l2=l2))
    bags = case["bags"]
    style = draw(st.sampled_from(["one", "adjacent", "adjacent", "ends", "whole_bag", "scatter"]))
    b = bags[draw(st.integers(0, len(bags) - 1))]
    if style == "one":
        b.insert(draw(st.integers(0, len(b))), [])
    elif style == "adjacent":
        k = draw(st.integers(0, len(b)))
        for _ in range(draw(st.sampled_from([2, 2, 3]))):
            b.insert(k, [])
    elif style == "ends":
        bags[0].insert(0, [])
        bags[-1].append([])
        if draw(st.booleans()):
            bags[-1].append([])
    elif style == "whole_bag":
        b[:] = [[] for _ in range(draw(st.integers(1, 3)))]
    else:
        for bb in bags:
            for k in sorted(draw(st.lists(st.integers(0, len(bb)), min_size=0, max_size=3)), reverse=True):
                bb.insert(k, [])
    npart = sum(len(bb) for bb in bags)
    k = 2 * npart if not l2 else 12
    case["sched"] = draw(st.lists(st.integers(0, 7), min_size=k, max_size=k))
    if l2:
        case["modes"] = ["cut"] * len(bags)
    return case


@st.composite
def s_l2_small_first(draw):
    """End-to-end cases aimed at what only mpu_write decides for the lower layers (per sub-stream part-id blocks and
    lhs_keep): >= 2 sub-streams, the first one (plus header) smaller than the minimum part size, a later one with
    chunks large enough to spill and write parts on its own before the collation."""
    m = draw(st.sampled_from([4, 10, 16]))
    spill = draw(st.sampled_from([m, m + 1, 2 * m, 3 * m]))
    wpc = draw(st.sampled_from([1, 2, 2, 3]))
    first = draw(st.integers(0, m - 1))
    hdr = draw(st.sampled_from([None, None, 0, 1])) if first < m - 1 else None
    ftr = draw(st.sampled_from([None, None, 0, 1, m]))
    big = st.integers(2 * m, 6 * m)
    any_sz = st.one_of(st.integers(0, m), big)
    nb = draw(st.sampled_from([2, 2, 3]))
    bags = [[[first]]]
    for bi in range(1, nb):
        npart = draw(st.integers(1, 3))
        bag = []
        for pi in range(npart):
            nch = draw(st.sampled_from([1, 2, 2, 3, 4]))
            bag.append([draw(big if (pi == 0 and k < 2) else any_sz) for k in range(nch)])
        bags.append(bag)
    last = bags[-1][-1]
    if ftr is None and len(last) >= 2:
        del last[1:]  # a final-flagged partition with >= 2 chunks belongs to the final_multi class
    case = {"m": m, "spill": spill, "wpc": wpc, "hdr": hdr, "ftr": ftr, "min_part": 1, "slack": draw(st.sampled_from([0, 0, 5])),
            "writer": True, "kw": draw(st.booleans()), "ba": draw(st.booleans()), "bags": bags,
            "sched": draw(st.lists(st.integers(0, 7), min_size=12, max_size=12)),
            "modes": ["cut"] * nb, "as_list": True, "fuse": draw(st.sampled_from([False, False, True])),
            "nthreads": draw(st.sampled_from([2, 3, 4])), "scheds": ["random", "threads"]}
    return case


# --------------------------------------------------------------------------- small-scope enumeration
def _compositions(n: int):
    """All ways to cut a sequence of n items into >=1 non-empty adjacent groups (as lists of lengths)."""
    if n == 0:
        yield []
        return
    for first in range(1, n + 1):
        for rest in _compositions(n - first):
            yield [first] + rest


def _merge_orders(npart_per_bag: List[int]):
    """Every order of adjacent merges once all partitions are appended: at step i there are (nmerges - i) adjacent
    pairs left (summed over bags); the pick sequence indexes into that list.  Covers every bracketing (several
    times) and every order in which independent merges can run."""
    nmerges = sum(npart_per_bag) - len(npart_per_bag)
    for picks in itertools.product(*[range(nmerges - i) for i in range(nmerges)]):
        yield list(picks)


def e_small(tier, edge: bool):
    """Small scope: m=3; every stream of n chunks with sizes from a pool chosen around the thresholds (m-1, m,
    lhs_keep+rhs_keep+1 = 7, lhs_keep+rhs_keep+spill+1 = 10), every cut into partitions and bags, every merge order."""
    nmax = 3 if tier == "quick" else 5
    ms = [3]
    for n in range(1, nmax + 1):
        size_pool = {1: [0, 1, 2, 3, 4, 7, 10, 14], 2: [0, 1, 3, 7, 10], 3: [0, 2, 3, 7, 10], 4: [0, 3, 7, 10], 5: [0, 3, 7]}[n]
        for comp in _compositions(n):  # chunks -> partitions
            npart = len(comp)
            for bagcomp in _compositions(npart):  # partitions -> bags
                if len(bagcomp) > 3:
                    continue
                for sizes in itertools.product(size_pool, repeat=n):
                    it = iter(sizes)
                    parts = [[next(it) for _ in range(c)] for c in comp]
                    pit = iter(parts)
                    bags = [[next(pit) for _ in range(c)] for c in bagcomp]
                    for sched in _merge_orders(bagcomp):
                        for m in ms:
                            spills = [0, m, m + 1, 2 * m + 1] + ([1, m - 1] if edge else [])
                            for spill in spills:
                                for wpc in (1, 2, 3):
                                    for hdr, ftr in ((None, None), (1, None), (None, 2), (m, m)):
                                        for min_part in ((1, 4) if edge else (1,)):
                                            case = {"m": m, "spill": spill, "wpc": wpc, "hdr": hdr, "ftr": ftr,
                                                    "min_part": min_part, "slack": 0, "writer": True, "kw": False,
                                                    "bags": bags, "sched": sched, "appends_first": True}
                                            fm = ftr is None and len(bags[-1][-1]) >= 2
                                            is_edge = fm or 0 < spill < m or min_part > 1
                                            if is_edge == edge:
                                                yield case


def _appends_first_schedule(npart_per_bag: List[int], merge_picks: List[int]) -> List[int]:
    """Translate (append everything in stream order, then merges by pick index) into indices into the enabled-action
    list that drive_l1 builds."""
    slots = [["raw"] * n for n in npart_per_bag]
    out = []

    def acts():
        a = []
        for bi, sl in enumerate(slots):
            for j, s in enumerate(sl):
                if s == "raw":
                    a.append(("a", bi, j))
                elif j + 1 < len(sl) and sl[j + 1] == "done":
                    a.append(("m", bi, j))
        return a

    mp = list(merge_picks)
    while True:
        a = acts()
        if not a:
            break
        raw = [i for i, x in enumerate(a) if x[0] == "a"]
        if raw:
            i = raw[0]
        else:
            i = (mp.pop(0) if mp else 0) % len(a)
        out.append(i)
        kind, bi, j = a[i]
        if kind == "a":
            slots[bi][j] = "done"
        else:
            slots[bi][j : j + 2] = ["done"]
    return out


# --------------------------------------------------------------------------- known-finding signatures
def _k_d15(sub, case, msg):
    L = Layout(case)
    return L.final_multi and L.spill > 0 and "AssertionError" in msg and "flush_rhs" in msg


def _k_d19(sub, case, msg):
    L = Layout(case)
    return L.small_spill and "< min_write_sz" in msg


def _k_leftpart(sub, case, msg):
    L = Layout(case)
    return L.far_part and "outside writer range" in msg and "[1]" in msg


def build(chk: Check) -> None:
    q = chk.tier == "quick"
    chk.sub("enum_main", o_l1, enum=lambda tier: e_small(tier, False), exhaustive_tiers=("quick", "thorough"),
            budget_s={"quick": 40, "thorough": 700})
    chk.sub("enum_edge", o_l1, enum=lambda tier: e_small(tier, True), exhaustive_tiers=("quick", "thorough"),
            budget_s={"quick": 40, "thorough": 700})
    chk.sub("l1_main", o_l1, cov={"quick": 4000, "thorough": 600000}, strategy=s_case((0, 0, 0)), n={"quick": 12000, "thorough": 1000000},
            budget_s={"quick": 60, "thorough": 600})
    chk.sub("l1_final_multi", o_l1, strategy=s_case((1, 0, 0)), n={"quick": 6000, "thorough": 400000},
            budget_s={"quick": 40, "thorough": 300})
    chk.sub("l1_small_spill", o_l1, strategy=s_case((0, 1, 0)), n={"quick": 5000, "thorough": 250000},
            budget_s={"quick": 35, "thorough": 250})
    chk.sub("l1_part_range", o_l1, strategy=s_case((0, 0, 1)), n={"quick": 3000, "thorough": 150000},
            budget_s={"quick": 30, "thorough": 200})
    chk.sub("l1_mixed", o_l1, strategy=s_case("mixed"), n={"quick": 5000, "thorough": 250000},
            budget_s={"quick": 35, "thorough": 250}, cov={"quick": 4000, "thorough": 600000})
    chk.sub("l1_nowriter", o_l1, strategy=s_case((0, 0, 0), writer=False), n={"quick": 2000, "thorough": 60000},
            budget_s={"quick": 25, "thorough": 100})
    chk.sub("l1_empty_partitions", o_l1, strategy=s_empty_partitions(), n={"quick": 3000, "thorough": 150000},
            budget_s={"quick": 25, "thorough": 150})
    chk.sub("l2_empty_partitions", o_l2, strategy=s_empty_partitions(l2=True), n={"quick": 150, "thorough": 5000},
            budget_s={"quick": 25, "thorough": 200}, shrink=False)
    chk.sub("l2_dask", o_l2, strategy=s_case((0, 0, 0), l2=True), n={"quick": 700, "thorough": 20000},
            budget_s={"quick": 40, "thorough": 400}, shrink=not q)
    chk.sub("l2_dask_edge", o_l2, strategy=s_case("any", l2=True), n={"quick": 500, "thorough": 12000},
            budget_s={"quick": 35, "thorough": 300}, shrink=not q)
    chk.sub("l2_small_first_substream", o_l2, strategy=s_l2_small_first(), n={"quick": 200, "thorough": 6000},
            budget_s={"quick": 60, "thorough": 600}, shrink=False)
    chk.sub("l2_dask_nowriter", o_l2, strategy=s_case((0, 0, 0), writer=False, l2=True), n={"quick": 100, "thorough": 2000},
            budget_s={"quick": 10, "thorough": 60}, shrink=not q)
    chk.known("D15", _k_d15)
    chk.known("D19", _k_d19)
    chk.known("C06-leftpart", _k_leftpart)
