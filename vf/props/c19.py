"""C19 - value objects: equality, hashing, pickling, tokens and caches are coherent."""
from __future__ import annotations

import copy
import gc
import itertools
import math
import pickle

import numpy as np
from hypothesis import strategies as st

from vf.common import Check, Violation, require
from vf.strategies import CRS_POOL, SINU_SPELLINGS, SPELLINGS, mk_crs, mk_crs_spec

RULE = (
    "Per type (CRS, Geometry, BoundingBox, GeoBox, GCPGeoBox, Tiles, VariableSizedTiles, GeoboxTiles, XY/Resolution/"
    "Index2d/Shape2d, GridSpec) a family of near-identical specifications differing in one field (each affine "
    "coefficient incl. -0.0, one vertex/control point, base size with equal tile count, CRS label, CRS spelling): all "
    "ordered pairs and all triples inside a family are enumerated. CRS construction routes: every label x every pair "
    "of lossless spellings. History sub-check: Hypothesis-drawn operation lists (construct label/spelling, bursts of "
    "UTM zones from a pool of 120, drop references, gc.collect, to_epsg, pickle round trip, transformer requests) run "
    "against freshly cleared caches. Oracle: algebraic laws of ==/hash/token/pickle, a per-specification reference "
    "(str, hash, token) obtained by constructing the specification alone, and a freshly built pyproj transformer. "
    "Non-trivial: a pair differing in exactly one field or equal through different routes; a history with a drop+gc "
    "before a transformer request; distinct = distinct case."
)
ASSUMPTIONS = [
    "hash coherence is claimed within a type (a BoundingBox/Shape2d equals a plain tuple by design and does not share its hash)",
    "hash()/tokens are compared inside one process with PYTHONHASHSEED=0",
    "each history case starts from cleared CRS and transformer caches so that a replay file reproduces it",
]
SHARDS = {"quick": 4, "thorough": 16}


def tok(x):
    from dask.base import tokenize

    return tokenize(x)


def try_hash(x):
    try:
        return hash(x)
    except TypeError:
        return None


# ----------------------------------------------------------------------------- builders from JSON specs
def build_obj(spec):
    from affine import Affine
    from odc.geo import geom as G
    from odc.geo.gcp import GCPGeoBox, GCPMapping
    from odc.geo.geobox import GeoBox, GeoboxTiles
    from odc.geo.gridspec import GridSpec
    from odc.geo.roi import Tiles, VariableSizedTiles
    from odc.geo.types import XY, Index2d, Resolution, Shape2d, xy_

    t = spec["type"]
    if t == "crs":
        return mk_crs(spec["tag"])
    if t == "crs_like":
        # a PROJ string without authority code that resembles an EPSG CRS; optionally with the lazy EPSG lookup done
        from odc.geo.crs import CRS

        c = CRS(LIKE[spec["like"]])
        if spec.get("read_epsg"):
            c.epsg
        return c
    if t == "bbox":
        return G.BoundingBox(*spec["box"], crs=mk_crs_spec(spec["tag"]))
    if t == "geom":
        from vf.props.c01 import mk_shape

        return G.Geometry(mk_shape(tuple(spec["shape"])), mk_crs_spec(spec["tag"]))
    if t == "geobox":
        return GeoBox(tuple(spec["shape"]), Affine(*spec["affine"]), mk_crs_spec(spec["tag"]))
    if t == "gcp":
        pix = np.asarray(spec["pix"], dtype=spec.get("pix_dtype", "float64"))
        wld = np.asarray(spec["wld"], dtype=spec.get("wld_dtype", "float64"))
        aff = Affine(*spec["affine"]) if spec.get("affine") else None
        return GCPGeoBox(tuple(spec["shape"]), GCPMapping(pix, wld, mk_crs_spec(spec["tag"])), aff)
    if t == "tiles":
        return Tiles(tuple(spec["base"]), tuple(spec["tile"]))
    if t == "vtiles":
        return VariableSizedTiles((tuple(spec["chunks"][0]), tuple(spec["chunks"][1])))
    if t == "gbtiles":
        if spec.get("gcp_base") is not None:
            gb = build_obj(spec["gcp_base"])
        else:
            gb = GeoBox(tuple(spec["shape"]), Affine(*spec["affine"]), mk_crs_spec(spec["tag"]))
        how = spec["how"]
        if isinstance(how[0], list):
            how = (tuple(how[0]), tuple(how[1]))
        else:
            how = tuple(how)
        return GeoboxTiles(gb, how)
    if t == "xy":
        cls = {"XY": XY, "Resolution": Resolution, "Index2d": Index2d, "Shape2d": Shape2d}[spec["cls"]]
        return cls(spec["x"], spec["y"])
    if t == "gridspec":
        return GridSpec(mk_crs_spec(spec["tag"]), tuple(spec["tile_shape"]), Resolution(*spec["res"]), origin=xy_(*spec["origin"]), flipx=spec["flipx"], flipy=spec["flipy"])
    raise ValueError(t)


# PROJ strings a user (or a file without authority codes) supplies for "the same" CRS: pyproj's approximate matching
# maps like:4326 to EPSG:4326 although its axis order is lon/lat (a look-alike pyproj matches to nothing, e.g. the
# GRS80 variant of GDA94, is not used: its fruitless database search takes 10 s per lookup)
LIKE = {"like:4326": "+proj=longlat +datum=WGS84 +no_defs +type=crs"}
LIKE_OF = {"like:4326": "4326"}


def T4326(spell="int"):
    return {"label": "4326", "spell": spell}


def families():
    """name -> list of specs (near-identical values)."""
    F = {}
    F["crs"] = [{"type": "crs", "tag": {"label": lab, "spell": sp}} for lab, sp in
                [("4326", "int"), ("4326", "str_lower"), ("4326", "wkt2"), ("4326", "pyproj"), ("4326", "projjson"), ("4326", "pickle"), ("4283", "int"), ("4283", "wkt2"),
                 ("3857", "int"), ("3857", "str_mixed"), ("3857", "odc"), ("32633", "int"), ("32633", "wkt2"), ("sinu", "proj"), ("sinu", "wkt2"), ("sinu", "pyproj")]]
    F["crs_lookalike"] = [{"type": "crs_like", "like": k, "read_epsg": r} for k in LIKE for r in (False, True)] + [
        {"type": "crs", "tag": {"label": lab, "spell": sp}} for lab, sp in (("4326", "int"), ("4326", "wkt2"), ("4283", "int"), ("3857", "int"))]
    base = [0.0, 1.0, 2.0, 3.0]
    F["bbox"] = [{"type": "bbox", "box": base, "tag": T4326()}]
    for i in range(4):
        b = list(base)
        b[i] += 0.5
        F["bbox"].append({"type": "bbox", "box": b, "tag": T4326()})
    F["bbox"] += [{"type": "bbox", "box": base, "tag": t} for t in (None, T4326("wkt2"), T4326("str_upper"), {"label": "4283", "spell": "int"}, {"label": "3857", "spell": "int"})]
    F["bbox"].append({"type": "bbox", "box": [0, 1, 2, 3], "tag": T4326()})  # ints vs floats
    F["bbox"].append({"type": "bbox", "box": [-0.0, 1.0, 2.0, 3.0], "tag": T4326()})
    F["bbox_tiny"] = [{"type": "bbox", "box": [0.0 + d, 1.0, 2.0, 3.0], "tag": T4326()} for d in (0.0, 4e-6, 8e-6, 1.2e-5, 1e-9, 1e-12)]
    F["xy_tiny"] = [{"type": "xy", "cls": "XY", "x": 1.0 + d, "y": 2.0} for d in (0.0, 4e-6, 8e-6, 1.2e-5, 1e-9, 1e-15)] + [{"type": "xy", "cls": "Resolution", "x": 10.0 + d, "y": -10.0} for d in (0.0, 1e-9, 2e-9)]
    from vf.props.c01 import GALLERY_A, GALLERY_B

    F["geom"] = []
    for k in ("point", "line", "polygon", "polygon_hole", "multipolygon", "collection", "ring", "multipoint"):
        F["geom"].append({"type": "geom", "shape": list(GALLERY_A[k]), "tag": T4326()})
    F["geom"].append({"type": "geom", "shape": list(GALLERY_B["polygon"]), "tag": T4326()})
    F["geom"].append({"type": "geom", "shape": ["Polygon", [[[0, 0], [3, 0], [3, 3.5], [0, 3], [0, 0]]]], "tag": T4326()})  # one vertex moved
    F["geom"] += [{"type": "geom", "shape": list(GALLERY_A["polygon"]), "tag": t} for t in (None, T4326("wkt2"), T4326("pyproj"), {"label": "3857", "spell": "int"})]
    aff = [10.0, 0.0, 100.0, 0.0, -10.0, 500.0]
    F["geobox"] = [{"type": "geobox", "shape": [3, 4], "affine": aff, "tag": {"label": "3857", "spell": "int"}}]
    for i in range(6):
        a = list(aff)
        a[i] += 0.5
        F["geobox"].append({"type": "geobox", "shape": [3, 4], "affine": a, "tag": {"label": "3857", "spell": "int"}})
    F["geobox"].append({"type": "geobox", "shape": [3, 4], "affine": [10.0, -0.0, 100.0, 0.0, -10.0, 500.0], "tag": {"label": "3857", "spell": "int"}})
    for i, d in ((2, 4e-6), (2, 8e-6), (2, 1.2e-5), (0, 1e-9), (0, 2e-9), (5, 1e-7), (1, 1e-12)):
        a = list(aff)
        a[i] += d
        F["geobox_tiny"] = F.get("geobox_tiny", [F["geobox"][0]]) + [{"type": "geobox", "shape": [3, 4], "affine": a, "tag": {"label": "3857", "spell": "int"}}]
    F["geobox"] += [{"type": "geobox", "shape": s, "affine": aff, "tag": {"label": "3857", "spell": "int"}} for s in ([4, 3], [3, 5], [1, 4])]
    F["geobox"] += [{"type": "geobox", "shape": [3, 4], "affine": aff, "tag": t} for t in (None, {"label": "3857", "spell": "wkt2"}, {"label": "3857", "spell": "str_lower"}, {"label": "3577", "spell": "int"}, {"label": "3857", "spell": "pickle"})]
    pix = [[0, 0], [4, 0], [0, 3], [4, 3], [2, 1]]
    wld = [[100 + 10 * x, 500 - 10 * y] for x, y in pix]
    F["gcp"] = [{"type": "gcp", "shape": [3, 4], "pix": pix, "wld": wld, "affine": None, "tag": {"label": "3857", "spell": "int"}}]
    w2 = [list(p) for p in wld]
    w2[4][0] += 1.0
    F["gcp"].append({"type": "gcp", "shape": [3, 4], "pix": pix, "wld": w2, "affine": None, "tag": {"label": "3857", "spell": "int"}})
    p2 = [list(p) for p in pix]
    p2[1][0] = 5
    F["gcp"].append({"type": "gcp", "shape": [3, 4], "pix": p2, "wld": wld, "affine": None, "tag": {"label": "3857", "spell": "int"}})
    F["gcp"].append({"type": "gcp", "shape": [3, 5], "pix": pix, "wld": wld, "affine": None, "tag": {"label": "3857", "spell": "int"}})
    F["gcp"].append({"type": "gcp", "shape": [3, 4], "pix": pix, "wld": wld, "affine": [1.0, 0.0, 1.0, 0.0, 1.0, 0.0], "tag": {"label": "3857", "spell": "int"}})
    F["gcp"].append({"type": "gcp", "shape": [3, 4], "pix": pix, "wld": wld, "affine": None, "tag": {"label": "3577", "spell": "int"}})
    F["gcp"].append({"type": "gcp", "shape": [3, 4], "pix": pix, "wld": wld, "affine": None, "tag": {"label": "3857", "spell": "wkt2"}})
    # the same control points in other array representations (equal values must stay equal/hash-equal)
    g0 = F["gcp"][0]
    F["gcp"] += [dict(g0, pix_dtype="int64"), dict(g0, pix_dtype="float32", wld_dtype="float32"), dict(g0, wld_dtype="int64")]
    pz = [list(p) for p in pix]
    pz[0] = [-0.0, 0.0]
    F["gcp"].append(dict(g0, pix=pz))
    F["tiles"] = [{"type": "tiles", "base": b, "tile": t} for b, t in
                  ([[10, 10], [4, 4]], [[11, 11], [4, 4]], [[12, 12], [4, 4]], [[9, 10], [4, 4]], [[10, 10], [4, 5]], [[10, 10], [5, 4]], [[10, 10], [10, 10]], [[10, 10], [12, 12]], [[4, 4], [10, 10]])]
    F["vtiles"] = [{"type": "vtiles", "chunks": c} for c in
                   ([[1, 2], [3]], [[2, 1], [3]], [[3], [3]], [[1, 2], [1, 2]], [[1, 2, 0], [3]], [[1, 2], [3, 0]], [[1, 1, 1], [3]], [[1, 2], [4]])]
    F["gbtiles"] = [{"type": "gbtiles", "shape": [10, 10], "affine": aff, "tag": {"label": "3857", "spell": "int"}, "how": h} for h in ([4, 4], [5, 5], [4, 5], [[4, 4, 2], [4, 4, 2]], [[5, 5], [10]])]
    F["gbtiles"] += [{"type": "gbtiles", "shape": [11, 11], "affine": aff, "tag": {"label": "3857", "spell": "int"}, "how": [4, 4]},
                     {"type": "gbtiles", "shape": [10, 10], "affine": aff, "tag": {"label": "3577", "spell": "int"}, "how": [4, 4]},
                     {"type": "gbtiles", "shape": [10, 10], "affine": [10.0, 0.0, 101.0, 0.0, -10.0, 500.0], "tag": {"label": "3857", "spell": "int"}, "how": [4, 4]},
                     {"type": "gbtiles", "shape": [10, 10], "affine": aff, "tag": {"label": "3857", "spell": "wkt2"}, "how": [4, 4]}]
    # tiled GCP geoboxes: same shape, CRS and pixel affine, different control points -> unequal, so different tokens
    F["gbtiles"] += [{"type": "gbtiles", "gcp_base": g, "how": h} for g in F["gcp"][:4] for h in ([2, 2], [[1, 2], [4]])]
    F["xy"] = [{"type": "xy", "cls": c, "x": x, "y": y} for c, x, y in
               (("XY", 1, 2), ("XY", 2, 1), ("XY", 1.0, 2.0), ("Index2d", 1, 2), ("Index2d", 2, 1), ("Shape2d", 1, 2), ("Shape2d", 2, 1), ("Resolution", 1, 2), ("Resolution", 1, -2), ("Resolution", 2, 1), ("XY", 1, 2.5), ("XY", -0.0, 0.0), ("XY", 0.0, 0.0))]
    g0 = {"type": "gridspec", "tag": {"label": "3857", "spell": "int"}, "tile_shape": [10, 10], "res": [10, -10], "origin": [0.0, 0.0], "flipx": False, "flipy": False}
    F["gridspec"] = [g0]
    for k, v in (("tile_shape", [10, 12]), ("tile_shape", [20, 10]), ("res", [20, -20]), ("res", [10, 10]), ("res", [10, -5]), ("origin", [1.0, 0.0]), ("origin", [0.0, -5.0]), ("flipx", True), ("flipy", True),
                 ("tag", {"label": "3577", "spell": "int"}), ("tag", {"label": "3857", "spell": "wkt2"})):
        g = dict(g0)
        g[k] = v
        F["gridspec"].append(g)
    F["gridspec"].append({**g0, "tile_shape": [5, 5], "res": [20, -20]})  # same tile size in CRS units, different pixels
    return F


def _diff_fields(a, b):
    return [k for k in set(a) | set(b) if a.get(k) != b.get(k)]


def _eq(a, b):
    r1 = a == b
    r2 = not (a != b)
    require(isinstance(r1, (bool, np.bool_)), "== returned %r", type(r1))
    require(bool(r1) == bool(r2), "== and != disagree for %r / %r", str(a)[:60], str(b)[:60])
    return bool(r1)


def _exercise(a, typ) -> str:
    """Read-only queries of a value (never an exception to the caller: a query that does not apply is skipped)."""
    done = []

    def q(name, fn):
        try:
            fn()
            done.append(name)
        except Exception:  # noqa: BLE001 - not every query applies to every value (rotated boxes have no coordinates)
            pass

    if typ == "gridspec":
        q("[0,0]", lambda: a[0, 0])
        q("tile_geobox", lambda: a.tile_geobox((1, -1)))
        q("tiles", lambda: list(a.tiles(a.tile_geobox((0, 0)).boundingbox)))
        q("pt2idx", lambda: a.pt2idx(1.0, 1.0))
    elif typ in ("geobox", "gcp"):
        for nm in ("extent", "boundingbox", "resolution", "coordinates", "geographic_extent", "center_pixel"):
            q(nm, lambda nm=nm: getattr(a, nm))
        q("pix2wld", lambda: a.pix2wld(0.5, 0.5))
        q("crop", lambda: a[0:1, 0:1])
    elif typ == "gbtiles":
        q("[0,0]", lambda: a[0, 0])
        q("chunks", lambda: a.chunks)
        q("tiles", lambda: list(a.tiles(a[0, 0].extent)))
    elif typ in ("tiles", "vtiles"):
        q("[0,0]", lambda: a[0, 0])
        q("chunks", lambda: a.chunks)
        q("locate", lambda: a.locate((0, 0)))
    elif typ == "geom":
        for nm in ("boundingbox", "wkt", "area", "is_valid", "centroid"):
            q(nm, lambda nm=nm: getattr(a, nm))
    elif typ == "bbox":
        q("polygon", lambda: a.polygon)
        q("bbox", lambda: a.bbox)
    elif typ in ("crs", "crs_like"):
        for nm in ("epsg", "units", "geographic", "valid_region", "proj"):
            q(nm, lambda nm=nm: getattr(a, nm))
        q("str", lambda: str(a))
    return ",".join(done)


def check_single(spec, T):
    a = build_obj(spec)
    if spec["type"] in ("crs", "crs_like"):
        a.epsg  # lazily looked-up state must not change what a clone looks like
    elif spec["type"] == "gcp":
        a.pix2wld(0.5, 0.5)  # fitted polynomials are lazily cached state too
        a.extent
    require(_eq(a, a), "not reflexive: %s", spec["type"])
    b = build_obj(spec)
    require(_eq(a, b) and _eq(b, a), "two constructions from the same specification are unequal: %r", _short(spec))
    ta = tok(a)
    require(tok(b) == ta, "two constructions from the same specification have different tokens: %r", _short(spec))
    require(tok(a) == ta, "token not stable")
    ha = try_hash(a)
    if ha is not None:
        require(try_hash(b) == ha, "same specification, different hash: %r", _short(spec))
    # read-only use fills lazily cached state (extents, tile geoboxes, fitted polynomials, EPSG look-ups): a value is
    # still the same value afterwards - equal to a fresh construction, same token, same hash, and so are its clones
    used = _exercise(a, spec["type"])
    if used:
        require(_eq(a, b) and _eq(b, a), "%s no longer equals a fresh construction after read-only use (%s)", spec["type"], used)
        require(tok(a) == ta, "token of %s changed after read-only use (%s)", spec["type"], used)
        if ha is not None:
            require(try_hash(a) == ha, "hash of %s changed after read-only use (%s)", spec["type"], used)
        T.cls("read_only_use:" + spec["type"])
    for name, c in (("pickle", pickle.loads(pickle.dumps(a))), ("copy", copy.copy(a)), ("deepcopy", copy.deepcopy(a))):
        require(_eq(c, a) and _eq(a, c), "%s of %s is not equal to the original (%r)", name, spec["type"], _short(spec))
        require(tok(c) == ta, "%s of %s has a different token", name, spec["type"])
        if ha is not None:
            require(try_hash(c) == ha, "%s of %s has a different hash", name, spec["type"])
    # other types never equal, and comparison does not raise
    for other in (None, 1, "x", (1, 2), object()):
        try:
            r = a == other
        except Exception as e:  # noqa: BLE001
            raise Violation(f"{spec['type']} == {type(other).__name__} raised {type(e).__name__}")
    return a


def _short(spec):
    s = {k: v for k, v in spec.items() if k not in ("pix", "wld")}
    return str(s)[:200]


def o_pair(case, T):
    sa, sb = case["a"], case["b"]
    a = build_obj(sa)
    b = build_obj(sb)
    e1, e2 = _eq(a, b), _eq(b, a)
    require(e1 == e2, "equality not symmetric: a==b is %r, b==a is %r (%r vs %r)", e1, e2, _short(sa), _short(sb))
    ha, hb = try_hash(a), try_hash(b)
    if sa == sb:
        require(e1, "same specification compares unequal: %r", _short(sa))
    if e1:
        if ha is not None and hb is not None:
            require(ha == hb, "equal %s objects have different hashes (%r vs %r)", sa["type"], _short(sa), _short(sb))
        T.cls("equal")
    else:
        require(tok(a) != tok(b), "unequal %s objects share a dask token (%r vs %r)", sa["type"], _short(sa), _short(sb))
        T.cls("unequal")
    d = _diff_fields(sa, sb)
    if len(d) == 1 or (e1 and sa != sb):
        T.nontrivial()
    T.cls("type:" + sa["type"])


def o_triple(case, T):
    objs = [build_obj(s) for s in case["specs"]]
    a, b, c = objs
    if _eq(a, b) and _eq(b, c):
        require(_eq(a, c), "equality not transitive: a==b, b==c, a!=c (%r | %r | %r)", _short(case["specs"][0]), _short(case["specs"][1]), _short(case["specs"][2]))
        T.nontrivial()
        T.cls("chain")
    T.cls("type:" + case["specs"][0]["type"])


def o_single(case, T):
    check_single(case["spec"], T)
    T.nontrivial()
    T.cls("type:" + case["spec"]["type"])


def e_single(tier):
    for name, fam in families().items():
        for s in fam:
            yield {"spec": s}


def e_pairs(tier):
    for name, fam in families().items():
        for a, b in itertools.product(fam, fam):
            yield {"a": a, "b": b}


def e_triples(tier):
    for name, fam in families().items():
        if tier == "quick" and len(fam) > 10:
            # all triples that contain at least two specs which might be equal is what matters; stride the rest
            tr = [t for i, t in enumerate(itertools.permutations(fam, 3)) if i % 3 == 0]
        else:
            tr = itertools.permutations(fam, 3)
        for t in tr:
            yield {"specs": list(t)}


# ----------------------------------------------------------------------------- CRS construction routes
def e_routes(tier):
    for lab in CRS_POOL:
        sp = SINU_SPELLINGS if lab == "sinu" else SPELLINGS
        for a, b in itertools.product(sp, sp):
            yield {"label": lab, "a": a, "b": b}


def o_routes(case, T):
    _clear_caches()
    a = mk_crs({"label": case["label"], "spell": case["a"]})
    b = mk_crs({"label": case["label"], "spell": case["b"]})
    require(_eq(a, b) and _eq(b, a), "CRS %s built from %s and from %s are unequal", case["label"], case["a"], case["b"])
    ha, hb = hash(a), hash(b)
    require(ha == hb, "CRS %s built from %s and from %s are equal but hash differently (str forms %r / %r)", case["label"], case["a"], case["b"], str(a)[:30], str(b)[:30])
    # mixed case strings
    if case["label"] != "sinu":
        from odc.geo.crs import CRS

        for txt in (f"epsg:{case['label']}", f"EPSG:{case['label']}", f"EpSg:{case['label']}"):
            c = CRS(txt)
            require(c == a and hash(c) == hash(CRS(int(case["label"]))) and str(c) == f"EPSG:{case['label']}", "CRS(%r) differs from the integer code form", txt)
    if case["a"] != case["b"]:
        T.nontrivial()


# ----------------------------------------------------------------------------- history of the caches
def _clear_caches():
    from odc.geo import crs as C

    C._crs_cache.clear()
    cache = getattr(C._make_crs_transform, "cache", None)
    if cache is not None:
        cache.clear()
    gc.collect()


_TMERC = "+proj=tmerc +lat_0=0 +lon_0=%.2f +k=1 +x_0=0 +y_0=0 +ellps=WGS84 +units=m +no_defs +type=crs"
UTM_POOL = [32600 + z for z in range(1, 61)] + [32700 + z for z in range(1, 61)]
HIST_LABELS = ["4326", "4283", "3857", "3577", "32633", "32755", "3035", "6933", "sinu"]
_REF = {}


def _spec_key(label, spell):
    return f"{label}/{spell}"


def _reference(label, spell):
    """(str, hash, token) of the specification constructed alone with empty caches."""
    k = _spec_key(label, spell)
    if k not in _REF:
        _clear_caches()
        c = _mk_any(label, spell)
        _REF[k] = (str(c), hash(c), tok(c))
        del c
        _clear_caches()
    return _REF[k]


# CRSs known by a non-EPSG authority code, written in several letter cases (each spelling is its own specification)
AUTH_LABELS = {"auth:ESRI:54009": (-170.0, -75.0, 170.0, 75.0), "auth:ESRI:102008": (-120.0, 25.0, -70.0, 55.0), "auth:ESRI:53009": (-170.0, -75.0, 170.0, 75.0)}
AUTH_SPELLINGS = ["upper", "lower", "mixed"]


def _auth_text(label, spell):
    code = label.split(":", 1)[1]
    a, n = code.split(":")
    return {"upper": a.upper(), "lower": a.lower(), "mixed": a[0].upper() + a[1:].lower()}[spell] + ":" + n


def _mk_any(label, spell):
    if label.startswith("utm:"):
        return _mk_utm(label, spell)
    if label.startswith("auth:"):
        from odc.geo.crs import CRS

        return CRS(_auth_text(label, spell))
    if label.startswith("like:"):
        from odc.geo.crs import CRS
        from pyproj import CRS as P

        return CRS(P.from_user_input(LIKE[label])) if spell == "pyproj" else CRS(LIKE[label])
    return mk_crs({"label": label, "spell": spell})


def _mk_utm(label, spell):
    from odc.geo.crs import CRS

    code = int(label.split(":")[1])
    if spell == "int":
        return CRS(code)
    if spell == "str_lower":
        return CRS(f"epsg:{code}")
    from pyproj import CRS as P

    if spell == "pyproj":
        return CRS(P.from_epsg(code))
    return CRS(P.from_epsg(code).to_wkt())


def _lonlat_box(label):
    if label.startswith("utm:"):
        code = int(label.split(":")[1])
        z = code % 100
        south = code // 100 == 327
        lon0 = -180 + 6 * (z - 1)
        return (lon0 + 1, -60.0, lon0 + 5, -10.0) if south else (lon0 + 1, 10.0, lon0 + 5, 60.0)
    if label.startswith("like:"):
        return CRS_POOL[LIKE_OF[label]][1]
    if label.startswith("auth:"):
        return AUTH_LABELS[label]
    return CRS_POOL[label][1]


def _pyproj_of(label):
    from pyproj import CRS as P

    from vf.strategies import _pyproj

    if label.startswith("utm:"):
        return P.from_epsg(int(label.split(":")[1]))
    if label.startswith("like:"):
        return P.from_user_input(LIKE[label])
    if label.startswith("auth:"):
        return P.from_user_input(label.split(":", 1)[1])
    return _pyproj(label)


@st.composite
def s_lookalike(draw):
    """An authority-less look-alike and the EPSG CRS it resembles (axis order differs), the lazy EPSG lookup on either,
    then transformer requests from/to both in either axis convention, in any order."""
    like = draw(st.sampled_from(sorted(LIKE)))
    real = LIKE_OF[like]
    other = draw(st.sampled_from([lab for lab in HIST_LABELS if lab != real]))
    ops = [["new", like, draw(st.sampled_from(["proj", "pyproj"]))], ["new", real, draw(st.sampled_from(SPELLINGS))], ["new", other, "proj" if other == "sinu" else "int"]]
    rest = [["epsg", 0]] * draw(st.integers(0, 1)) + [["epsg", 1]] * draw(st.integers(0, 1))
    for _ in range(draw(st.integers(2, 6))):
        a = draw(st.integers(0, 1))
        axy = draw(st.sampled_from([False, False, True]))
        rest.append(["tr", a, 2, axy] if draw(st.booleans()) else ["tr", 2, a, axy])
    rest = draw(st.permutations(rest))
    if draw(st.booleans()):
        rest = [["epsg", 0]] + list(rest)
    return {"ops": ops + [list(o) for o in rest]}


@st.composite
def s_history(draw):
    if draw(st.integers(0, 4)) == 0:
        return draw(s_lookalike())
    n = draw(st.integers(3, 40))
    ops = []
    nobj = 0
    for _ in range(n):
        kind = draw(st.sampled_from(["new", "new", "new", "utm", "auth", "burst", "drop", "gc", "tr", "tr", "pickle", "wrap", "epsg", "dropall"]))
        if kind == "auth":
            ops.append(["new", draw(st.sampled_from(sorted(AUTH_LABELS))), draw(st.sampled_from(AUTH_SPELLINGS))])
            nobj += 1
        elif kind == "new":
            lab = draw(st.sampled_from(HIST_LABELS))
            sp = draw(st.sampled_from(SINU_SPELLINGS if lab == "sinu" else SPELLINGS))
            ops.append(["new", lab, sp])
            nobj += 1
        elif kind == "utm":
            ops.append(["new", "utm:%d" % draw(st.sampled_from(UTM_POOL)), draw(st.sampled_from(["int", "str_lower", "pyproj", "wkt2"]))])
            nobj += 1
        elif kind == "burst":
            ops.append(["burst", draw(st.integers(0, 119)), draw(st.integers(5, 40)), draw(st.sampled_from(["int", "pyproj", "wkt2"]))])
        elif kind in ("drop", "pickle", "wrap", "epsg") and nobj:
            k = draw(st.integers(0, nobj - 1))
            ops.append([kind, k])
            if kind in ("pickle", "wrap"):
                nobj += 1
            elif kind == "epsg" and draw(st.booleans()):
                ops.append(["pickle", k])  # clone after the lazy EPSG lookup has run
                nobj += 1
        elif kind == "tr" and nobj >= 1:
            ops.append(["tr", draw(st.integers(0, nobj - 1)), draw(st.integers(0, nobj - 1)), draw(st.booleans())])
        elif kind in ("gc", "dropall"):
            ops.append([kind])
    return {"ops": ops}


@st.composite
def s_pressure(draw):
    """fill the caches with hundreds of distinct CRSs, drop them, collect, then build fresh CRSs and ask for
    transformers between them (and between CRSs that were alive all along)."""
    ops = []
    nobj = 0
    for _ in range(draw(st.integers(1, 3))):
        lab = draw(st.sampled_from(HIST_LABELS))
        ops.append(["new", lab, draw(st.sampled_from(SINU_SPELLINGS if lab == "sinu" else ["int", "str_lower", "odc", "pickle"]))])
        nobj += 1
    start = draw(st.integers(-700, 0))
    for _ in range(draw(st.integers(1, 3))):
        ops.append(["fill", start, draw(st.sampled_from([40, 150, 300, 520])), draw(st.sampled_from(["str", "dict", "json", "mixed", "mixed"]))])
        start += 600
        ops.append(["gc"])
        for _ in range(draw(st.integers(2, 5))):
            kind = draw(st.sampled_from(["new", "utm", "tr", "tr"]))
            if kind == "new":
                lab = draw(st.sampled_from(HIST_LABELS))
                ops.append(["new", lab, draw(st.sampled_from(SINU_SPELLINGS if lab == "sinu" else ["int", "str_lower", "odc", "pickle"]))])
                nobj += 1
            elif kind == "utm":
                ops.append(["new", "utm:%d" % draw(st.sampled_from(UTM_POOL)), "int"])
                nobj += 1
            else:
                ops.append(["tr", draw(st.integers(0, nobj - 1)), draw(st.integers(0, nobj - 1)), draw(st.booleans())])
        ops.append(["tr", draw(st.integers(0, nobj - 1)), nobj - 1, True])
    return {"ops": ops}


def o_history(case, T):
    from odc.geo.crs import CRS
    from pyproj import Transformer

    # references first (they clear the caches themselves)
    for op in case["ops"]:
        if op[0] == "new":
            _reference(op[1], op[2])
            for lab, sp in _family(op[1]):  # sibling references are needed by the D4 signature; never compute them
                _reference(lab, sp)  # in the middle of a history (computing one clears the caches)
    _clear_caches()
    objs = []  # (label, spell, obj | None)
    first = {}
    dropped_then_gc = False
    dropped = False
    interesting = False

    def construct(label, spell):
        c = _mk_any(label, spell)
        got = (str(c), hash(c), tok(c))
        k = _spec_key(label, spell)
        ref = _reference_cached(k)
        if got != ref:
            msg = "CRS from %s: (str, hash, token) = %r, but constructed alone it is %r (depends on what was created before)" % (k, _trim(got), _trim(ref))
            if not (_is_d4(label, spell, got) and T.known("D4", msg)):
                raise Violation(msg)
        elif k in first and got != first[k] and not _is_d4(label, spell, first[k]):
            raise Violation("CRS from %s built again in this history: (str, hash, token) changed from %r to %r" % (k, _trim(first[k]), _trim(got)))
        first.setdefault(k, got)
        return c

    for op in case["ops"]:
        if op[0] == "new":
            objs.append([op[1], op[2], construct(op[1], op[2])])
        elif op[0] == "burst":
            tmp = [_mk_utm("utm:%d" % UTM_POOL[(op[1] + i) % 120], op[3]) for i in range(op[2])]
            del tmp
            dropped = True
        elif op[0] == "fill":
            # many distinct short-lived CRSs (cache pressure): a bounded construction cache would evict and free
            # pyproj objects whose ids the transformer cache still uses as keys
            route = op[3] if len(op) > 3 else "str"

            def _short_lived(i):
                lon0 = (op[1] + i) * 0.25
                r = route if route != "mixed" else ("str", "dict", "json", "pyproj")[i % 4]
                if r == "dict":  # PROJ parameter dict
                    return CRS({"proj": "tmerc", "lat_0": 0, "lon_0": lon0, "k": 1, "x_0": 0, "y_0": 0, "ellps": "WGS84", "units": "m", "no_defs": True, "type": "crs"})
                if r == "json":  # PROJJSON dict
                    from pyproj import CRS as P

                    return CRS(P.from_user_input(_TMERC % lon0).to_json_dict())
                if r == "pyproj":
                    from pyproj import CRS as P

                    return CRS(P.from_user_input(_TMERC % lon0))
                return CRS(_TMERC % lon0)

            tmp = [_short_lived(i) for i in range(op[2])]
            live = [o for o in objs if o[2] is not None]
            if live:
                # leave transformer-cache entries behind that are keyed by the ids of these short-lived objects
                tgt = live[0][2]
                for c in tmp[:: max(1, len(tmp) // 64)]:
                    c.transformer_to_crs(tgt)
                    tgt.transformer_to_crs(c)
            del tmp
            dropped = True
        elif op[0] == "drop":
            objs[op[1]][2] = None
            dropped = True
        elif op[0] == "dropall":
            for o in objs:
                o[2] = None
            dropped = True
        elif op[0] == "gc":
            gc.collect()
            if dropped:
                dropped_then_gc = True
        elif op[0] in ("pickle", "wrap", "epsg"):
            lab, sp, o = objs[op[1]]
            if o is None:
                o = construct(lab, sp)
                objs[op[1]][2] = o
            if op[0] == "epsg":
                before = (str(o), hash(o), tok(o))
                o.to_epsg()
                require((str(o), hash(o), tok(o)) == before, "to_epsg() changed str/hash/token of CRS %s/%s", lab, sp)
                continue
            c = pickle.loads(pickle.dumps(o)) if op[0] == "pickle" else CRS(o)
            require(c == o and o == c, "%s copy of CRS %s/%s is not equal to it", op[0], lab, sp)
            require(hash(c) == hash(o) and tok(c) == tok(o) and str(c) == str(o), "%s copy of CRS %s/%s differs in str/hash/token", op[0], lab, sp)
            objs.append([lab, sp, c])
        elif op[0] == "tr":
            (la, sa, oa), (lb, sb, ob) = objs[op[1]], objs[op[2]]
            if oa is None:
                oa = objs[op[1]][2] = construct(la, sa)
            if ob is None:
                ob = objs[op[2]][2] = construct(lb, sb)
            axy = op[3]
            # probe points inside both valid areas (fall back to source area)
            a0, b0 = _lonlat_box(la), _lonlat_box(lb)
            lo = (max(a0[0], b0[0]), max(a0[1], b0[1]), min(a0[2], b0[2]), min(a0[3], b0[3]))
            if not (lo[0] < lo[2] and lo[1] < lo[3]):
                lo = a0
            lons = [lo[0] + (lo[2] - lo[0]) * f for f in (0.1, 0.5, 0.9, 0.3, 0.7)]
            lats = [lo[1] + (lo[3] - lo[1]) * f for f in (0.2, 0.5, 0.8, 0.9, 0.1)]
            pa, pb = _pyproj_of(la), _pyproj_of(lb)
            if axy:
                sx, sy = Transformer.from_crs(4326, pa, always_xy=True).transform(lons, lats)
            else:
                sx, sy = Transformer.from_crs(4326, pa, always_xy=False).transform(lats, lons)
            ex, ey = Transformer.from_crs(pa, pb, always_xy=axy).transform(list(sx), list(sy))
            gx, gy = oa.transformer_to_crs(ob, always_xy=axy)(np.asarray(sx, dtype="float64"), np.asarray(sy, dtype="float64"))
            for k in range(len(lons)):
                ok = (_close(gx[k], ex[k]) and _close(gy[k], ey[k]))
                require(ok, "transformer %s -> %s (always_xy=%r) maps %r to %r, a fresh pyproj transformer gives %r", la, lb, axy, (sx[k], sy[k]), (float(gx[k]), float(gy[k])), (ex[k], ey[k]))
            if dropped_then_gc:
                interesting = True
    if any(o[0] == "new" and o[1].startswith("like:") for o in case["ops"]) and any(o[0] == "tr" for o in case["ops"]):
        T.cls("has_lookalike")
        T.nontrivial()
    if interesting:
        T.nontrivial()
        T.cls("transformer_after_drop_gc")
    if any(o[0] == "burst" for o in case["ops"]):
        T.cls("has_burst")
    if any(o[0] == "fill" for o in case["ops"]):
        T.cls("fill_%d" % max(o[2] for o in case["ops"] if o[0] == "fill"))
    T.cls("ops_%d" % (len(case["ops"]) // 10 * 10))


def _reference_cached(k):
    return _REF[k]


D4_SPELLS = ("wkt2", "pyproj", "projjson")


def _is_d4(label, spell, got):
    """Signature of known finding D4: the cache key of a pyproj object collides with its WKT text (and with equal
    pyproj objects made from other text), so a specification in one of those spellings takes on the str/hash/token
    of a *sibling spelling of the same CRS* that happened to be constructed first.  Anything else (the identity of
    another CRS, a form no spelling of this CRS produces) is not this finding."""
    if spell not in D4_SPELLS:
        return False
    # the same CRS can be reached under two generator labels (pool label "32755" and UTM-pool label "utm:32755")
    return any(got == _reference(lab, s) for lab, s in _family(label) if (lab, s) != (label, spell))


def _family(label):
    """All (label, spelling) specifications of the generator that denote the same CRS as ``label`` and take part in
    the D4 key collision."""
    code = label.split(":")[1] if label.startswith("utm:") else label
    fam = []
    if code in CRS_POOL:
        fam += [(code, s) for s in (["proj", "pyproj", "wkt2", "projjson"] if code == "sinu" else ["int", "pyproj", "wkt2", "projjson"])]
    if code.isdigit() and int(code) in UTM_POOL:
        fam += [("utm:" + code, s) for s in ("int", "pyproj", "wkt2")]
    return fam


def _trim(t):
    return (t[0][:40], t[1], t[2][:12])


def _close(a, b):
    a, b = float(a), float(b)
    if math.isnan(a) or math.isnan(b) or math.isinf(a) or math.isinf(b):
        return (math.isnan(a) or math.isinf(a)) and (math.isnan(b) or math.isinf(b))
    return abs(a - b) <= 1e-9 * max(1.0, abs(b))


# ----------------------------------------------------------------------------- known findings
def _known_d3(sub, case, msg):
    """CRS objects that compare equal through different spellings hash by spelling (also inside BoundingBox/GeoBox)."""
    if "hash" not in msg:
        return False
    if sub == "crs_routes":
        return "are equal but hash differently" in msg and case["a"] != case["b"]
    if sub == "pairs" and "have different hashes" in msg:
        ta, tb = case["a"].get("tag"), case["b"].get("tag")
        if not (ta is not None and tb is not None and ta["label"] == tb["label"] and ta["spell"] != tb["spell"]):
            return False
        # attributable to the spelling only: with b re-tagged in a's spelling the hashes must agree
        a = build_obj(case["a"])
        b2 = build_obj(dict(case["b"], tag=ta))
        return a == b2 and try_hash(a) == try_hash(b2)
    return False


def _known_d36(sub, case, msg):
    """A CRS without authority code whose ``.epsg`` has been read carries the code pyproj's approximate matching found,
    and ``==`` trusts any two codes: it then equals the EPSG CRS (different axis order, different hash) although it did
    not before the lookup and although an identical CRS object without the lookup still does not."""
    if sub == "pairs" and "have different hashes" in msg:
        specs = [case["a"], case["b"]]
    elif sub == "triples" and "not transitive" in msg:
        specs = list(case["specs"])
    else:
        return False
    if not any(sp.get("type") == "crs_like" and sp.get("read_epsg") for sp in specs):
        return False
    if not all(sp.get("type") in ("crs", "crs_like") for sp in specs):
        return False
    # attributable to the lazily stored code only: the same values without the lookup behave
    objs = [build_obj(dict(sp, read_epsg=False)) if sp["type"] == "crs_like" else build_obj(sp) for sp in specs]
    if sub == "pairs":
        a, b = objs
        return not (a == b) and not (b == a)
    a, b, c = objs
    return not (a == b and b == c) or a == c


def build(chk: Check) -> None:
    chk.sub("single", o_single, enum=e_single, exhaustive_tiers=("quick", "thorough"))
    chk.sub("pairs", o_pair, enum=e_pairs, exhaustive_tiers=("quick", "thorough"))
    chk.sub("triples", o_triple, enum=e_triples, exhaustive_tiers=("thorough",), budget_s={"quick": 60, "thorough": 900})
    chk.sub("crs_routes", o_routes, enum=e_routes, exhaustive_tiers=("quick", "thorough"))
    chk.sub("history", o_history, cov={"quick": 60, "thorough": 6000}, strategy=s_history(), n={"quick": 300, "thorough": 20000})
    chk.sub("cache_pressure", o_history, strategy=s_pressure(), n={"quick": 60, "thorough": 3000}, shrink=False, budget_s={"quick": 60, "thorough": 600})
    chk.known("D3", _known_d3)
    chk.known("D36", _known_d36)
