"""C10 - the paste shortcut is pixel-identical to a nearest-neighbour warp."""
from __future__ import annotations

import math
from fractions import Fraction as Fr

import numpy as np
from hypothesis import strategies as st

from vf.common import Check, Violation, require
from vf.props.c03 import exact_map, s_axis_map
from vf.strategies import FA, mk_affine

RULE = (
    "Same-CRS GeoBox pairs (sides 1..40): integer shift + residue in {0, +-0.2ttol, +-0.9ttol, +-1.1ttol, +-0.3, 0.5}, "
    "mirror in x/y/both, scale in {1,2,3,4,1/k, k(1+-0.5stol), k(1+-2stol), fractional, independent integer scales per axis}, rotation/shear as negatives, "
    "every placement class (contained/partial/touching/disjoint/covering), ttol/stol defaults and overrides, dtypes "
    "u1,i1,bool (destination nodata omitted / 0 / False),u2,i2,u4,i4,f4,f8. Oracle: when paste_ok and read_shrink==1 the pasted image (fill + flipped copy of "
    "roi_src into roi_dst) must equal GDAL's nearest-neighbour warp of the whole source; for read_shrink=k>1 roi_src "
    "must be roi_dst scaled by k and contain every block the exact map prescribes; whenever paste_ok is reported the "
    "exact rational dst->src matrix must be an integer scale + whole-pixel shift within the tolerances. Non-trivial: "
    "paste_ok with a non-empty region that is a strict subset of the destination, or a case just outside a tolerance; "
    "distinct = distinct case."
)
ASSUMPTIONS = [
    "GDAL (rasterio.warp.reproject, nearest) is the reference warp; geotransforms within 1e-6 of the identity are never generated (back-end artefact)",
    "destination pixels whose exact source coordinate is within 1e-6 px of a source pixel edge are masked (nearest neighbour ambiguous)",
    "tolerances are such that ttol + stol*max_side < 0.45 px, so a tolerated drift can never cross a pixel centre",
]
SHARDS = {"quick": 4, "thorough": 16}

DTYPES = ["uint8", "int8", "bool", "uint16", "int16", "uint32", "int32", "float32", "float64"]


@st.composite
def s_case(draw):
    res = draw(st.sampled_from([10.0, 30.0, 0.5, 2.0, 100.0, 0.25, 16.0]))
    flipy = draw(st.sampled_from([-1, -1, 1]))
    flipx = draw(st.sampled_from([1, 1, -1]))
    tx = float(draw(st.integers(-1000, 1000))) * res + draw(st.sampled_from([0.0, 0.0, 3.25]))
    ty = float(draw(st.integers(-1000, 1000))) * res + draw(st.sampled_from([0.0, 0.0, -7.5]))
    src_aff = [flipx * res, 0.0, tx + 5.0, 0.0, flipy * res, ty + 5.0]  # +5: never the identity geotransform
    Hs, Ws = draw(st.integers(1, 40)), draw(st.integers(1, 40))
    Hd, Wd = draw(st.integers(1, 40)), draw(st.integers(1, 40))
    ttol = draw(st.sampled_from([0.05, 0.05, 0.01, 0.2, 0.25, 0.125]))
    stol = draw(st.sampled_from([1e-3, 1e-3, 1e-5, 1e-2]))
    klass = draw(st.sampled_from(["shift_int", "shift_int", "shift_sub", "shift_sub", "scale_int", "scale_int", "scale_near", "scale_frac", "scale_aniso", "rot"]))
    if klass == "rot":
        ang = draw(st.sampled_from([90.0, 1.0, 45.0, 0.01, 180.0]))
        c, s_ = math.cos(math.radians(ang)), math.sin(math.radians(ang))
        shear = draw(st.sampled_from([0.0, 0.0, 0.01]))
        Tm = [c, -s_ + shear, float(draw(st.integers(-5, 20))), s_, c, float(draw(st.integers(-5, 20)))]
        places, mirrors = ["rot", "rot"], [False, False]
    else:
        sx, txx, px, mx = draw(s_axis_map(Ws, Wd, "scale_int" if klass == "scale_aniso" else klass, ttol, stol))
        if klass == "scale_aniso":
            # integer (or 1/integer) scale per axis, chosen independently: (1,2), (2,4), (3,1/2) ... must never paste
            sy, tyy, py, my = draw(s_axis_map(Hs, Hd, draw(st.sampled_from(["scale_int", "scale_int", "shift_int"])), ttol, stol))
        elif klass in ("scale_int", "scale_near"):
            _, ty0, py, my = draw(s_axis_map(Hs, Hd, "shift_int", ttol, stol))
            s_abs = abs(sx)
            L = ty0 if not my else ty0 - Hd
            # keep the placement class roughly: scale the low end
            sy = -s_abs if my else s_abs
            tyy = L if sy > 0 else L + s_abs * Hd
            if klass == "scale_near" and draw(st.booleans()):
                sy = sy * (1 + draw(st.sampled_from([0.5, -0.5, 2.0])) * stol)
        else:
            sy, tyy, py, my = draw(s_axis_map(Hs, Hd, klass if draw(st.booleans()) else "shift_int", ttol, stol))
        if klass == "scale_int" and abs(sx) == abs(sy) and abs(sx) >= 2 and draw(st.integers(0, 3)) > 0:
            k = abs(sx)  # whole-overview-pixel translations make the shrink>1 paste situation common
            txx = float(round(txx / k) * k) + draw(st.sampled_from([0.0, 0.0, 0.4 * ttol * k, -0.9 * ttol * k, 1.1 * ttol * k]))
            tyy = float(round(tyy / k) * k)
        Tm = [sx, 0.0, txx, 0.0, sy, tyy]
        places, mirrors = [px, py], [mx, my]
    return {"src": {"shape": [Hs, Ws], "affine": src_aff}, "dshape": [Hd, Wd], "T": Tm, "ttol": ttol, "stol": stol, "klass": klass,
            "places": places, "mirrors": mirrors, "dtype": draw(st.sampled_from(DTYPES)),
            # destination nodata handed to the warp for bool rasters (None: not given; 0 / False: given explicitly)
            "bool_nodata": draw(st.sampled_from(["none", "zero", "false"])),
            # float images: NaN pixels inside the source, no source nodata declared, explicit non-NaN destination nodata
            "float_nan": draw(st.sampled_from([False, False, True])),
            # documented planning options; whatever they are, a reported paste must still be a paste
            "opts": draw(st.sampled_from([{}, {}, {}, {"padding": 0}, {"padding": 1}, {"padding": 3}, {"align": 0}, {"align": 4}, {"padding": 1, "align": 2}]))}


def _mk(case):
    from odc.geo.geobox import GeoBox

    A = mk_affine(case["src"]["affine"])
    src = GeoBox(tuple(case["src"]["shape"]), A, "epsg:3857")
    dst = GeoBox(tuple(case["dshape"]), A * mk_affine(case["T"]), "epsg:3857")
    return src, dst


def _near_identity(A):
    return all(abs(x - y) < 1e-6 for x, y in zip(tuple(A)[:6], (1, 0, 0, 0, -1, 0)))


def _src_pixels(shape, dtype):
    H, W = shape
    idx = np.arange(H * W, dtype="int64").reshape(H, W)
    if dtype == "bool":
        return ((idx * 7 + idx // W * 3) % 2).astype("bool")
    if dtype in ("uint8", "int8"):
        return (idx % 120 + 1).astype(dtype)
    return (idx + 1).astype(dtype)


def o_paste(case, T):
    from odc.geo.overlap import compute_reproject_roi
    from odc.geo.roi import roi_is_empty, roi_shape
    from odc.geo.warp import rio_reproject

    src, dst = _mk(case)
    if _near_identity(src.affine) or _near_identity(dst.affine):
        T.exclude("backend_identity_transform")
        return
    ttol, stol = case["ttol"], case["stol"]
    opts = case.get("opts") or {}
    info = compute_reproject_roi(src, dst, ttol=ttol, stol=stol, **opts)
    if opts:
        T.cls("opts:" + "+".join("%s=%s" % kv for kv in sorted(opts.items())))
    M = exact_map(src, dst)
    a, b, c, d, e, f = M.m
    Hs, Ws = src.shape
    Hd, Wd = dst.shape
    rs = info.read_shrink
    T.cls("klass:" + case["klass"])
    for p in case["places"]:
        T.cls("place:" + p)
    # residue classes just outside tolerance
    def frac_dist(v):
        return abs(v - round(v))

    if not info.paste_ok:
        T.cls("not_pasteable")
        if b == 0 and d == 0 and abs(a) == abs(e) and abs(a) == round(abs(a)):
            r = max(frac_dist(c / abs(a)), frac_dist(f / abs(a)))
            if Fr(ttol) < r < Fr(ttol) * 2:
                T.nontrivial()
                T.cls("just_outside_ttol")
            # clear-cut paste-able situation should be recognised (health indicator, not a verdict)
            if r <= Fr(ttol) * Fr(9, 10):
                T.cls("pasteable_but_not_reported")
        return
    T.cls("paste_ok")
    # ---- soundness of paste_ok
    require(abs(float(b)) < 1e-9 and abs(float(d)) < 1e-9, "paste_ok with rotation/shear: dst->src matrix %r", M.floats())
    slack = Fr(1, 10**9)
    for v, name in ((a, "x"), (e, "y")):
        sc = abs(v) / rs
        require(abs(sc - 1) <= Fr(stol) + slack, "paste_ok but %s scale %r is not within stol=%r of the integer read_shrink %d", name, float(abs(v)), stol, rs)
    # the reported scale (the smaller of the two) is itself within stol of the integer - the tolerance is on the scale,
    # it does not grow with the shrink factor
    smin = min(abs(a), abs(e))
    require(abs(smin - rs) <= Fr(stol) + slack, "paste_ok but the scale %r differs from the integer %d by %.4g > stol=%r", float(smin), rs, float(abs(smin - rs)), stol)
    for v, name in ((c, "x"), (f, "y")):
        t_ov = v / rs
        require(frac_dist(t_ov) <= Fr(ttol) + slack, "paste_ok but %s translation %r (overview pixels) is %.4g from a whole pixel (> ttol=%r)", name, float(t_ov), float(frac_dist(t_ov)), ttol)
    sy0, sy1, sx0, sx1 = info.roi_src[0].start, info.roi_src[0].stop, info.roi_src[1].start, info.roi_src[1].stop
    dy0, dy1, dx0, dx1 = info.roi_dst[0].start, info.roi_dst[0].stop, info.roi_dst[1].start, info.roi_dst[1].stop
    empty = roi_is_empty(info.roi_dst) or roi_is_empty(info.roi_src)
    if rs > 1:
        T.cls("shrink>1")
        if not empty:
            hs, ws = roi_shape(info.roi_src)
            hd, wd = roi_shape(info.roi_dst)
            require((hs, ws) == (rs * hd, rs * wd), "read_shrink %d: roi_src %r is not roi_dst %r scaled by it", rs, info.roi_src, info.roi_dst)
            require(sy0 % rs == 0 and sx0 % rs == 0, "read_shrink %d: roi_src %r does not start on a multiple of it", rs, info.roi_src)
            up = lambda n: -(-n // rs) * rs  # noqa: E731
            require(0 <= sy0 and sy1 <= up(Hs) and 0 <= sx0 and sx1 <= up(Ws), "read_shrink %d: roi_src %r reaches outside the source image %r (rounded up to the shrink factor)", rs, info.roi_src, (Hs, Ws))
            require(0 <= dy0 and dy1 <= Hd and 0 <= dx0 and dx1 <= Wd, "roi_dst %r outside the destination %r", info.roi_dst, (Hd, Wd))
            # every destination pixel of the region reads its own rs x rs block
            for j in (dy0, dy1 - 1, (dy0 + dy1) // 2):
                for i in (dx0, dx1 - 1, (dx0 + dx1) // 2):
                    x, y = M * (Fr(2 * i + 1, 2), Fr(2 * j + 1, 2))
                    bi = (i - dx0) if a > 0 else (dx1 - 1 - i)
                    bj = (j - dy0) if e > 0 else (dy1 - 1 - j)
                    bx0, by0 = sx0 + rs * bi, sy0 + rs * bj
                    require(bx0 <= x <= bx0 + rs and by0 <= y <= by0 + rs, "read_shrink %d: destination pixel (row %d, col %d) maps to source (%.4g, %.4g), outside its block x[%d,%d) y[%d,%d)", rs, j, i, float(x), float(y), bx0, bx0 + rs, by0, by0 + rs)
            T.nontrivial()
        return
    # ---- read_shrink == 1: pixel comparison with the warp back end
    dtype = case["dtype"]
    src_px = _src_pixels((Hs, Ws), dtype)
    isf = dtype.startswith("float")
    fill = np.nan if isf else (False if dtype == "bool" else 0)
    fnan = isf and bool(case.get("float_nan"))
    if fnan:
        # a paste moves a NaN pixel across like any other value; with no source nodata declared so does the warp
        src_px = src_px.copy()
        src_px.ravel()[::5] = np.nan
        fill = -9999.0
        T.cls("float_nan_pixels_explicit_dst_nodata")
    A_img = np.full((Hd, Wd), fill, dtype=dtype)
    # the regions are slices a caller applies as they are: do exactly that (numpy semantics - a negative or reversed
    # bound is not "empty" to numpy) before any reasoning about them
    try:
        lit = np.full((Hd, Wd), fill, dtype=dtype)
        blk = src_px[info.roi_src]
        if e < 0:
            blk = blk[::-1, :]
        if a < 0:
            blk = blk[:, ::-1]
        lit[info.roi_dst] = blk
    except ValueError as ex:
        raise Violation("paste_ok, but src[roi_src] does not fit dst[roi_dst]: roi_src=%r roi_dst=%r (%s)" % (info.roi_src, info.roi_dst, str(ex)[:80]))
    for sl_, n_ in zip((*info.roi_src, *info.roi_dst), (Hs, Ws, Hd, Wd)):
        require(0 <= sl_.start <= n_ and 0 <= sl_.stop <= n_, "paste_ok with a region bound outside the image: roi_src=%r roi_dst=%r (images %r, %r)", info.roi_src, info.roi_dst, (Hs, Ws), (Hd, Wd))
    if not empty:
        require((sy1 - sy0, sx1 - sx0) == (dy1 - dy0, dx1 - dx0), "paste regions differ in shape: roi_src %r roi_dst %r", info.roi_src, info.roi_dst)
        block = src_px[sy0:sy1, sx0:sx1]
        if e < 0:
            block = block[::-1, :]
        if a < 0:
            block = block[:, ::-1]
        A_img[dy0:dy1, dx0:dx1] = block
    if ttol + stol * max(Hs, Ws, Hd, Wd) >= 0.45:
        # caller-chosen tolerances this wide allow a drift that crosses a pixel centre: the pixel-identity claim is
        # only meaningful below that (see ASSUMPTIONS); eligibility and region shapes were still checked above
        T.exclude("tolerances_allow_half_pixel_drift")
        return
    B_img = np.full((Hd, Wd), fill, dtype=dtype)
    if dtype == "bool":
        # bool takes a uint8 detour in which "no data" cannot be told from False: compare with fill False, with the
        # destination nodata left out or given explicitly as 0 / False (the detour has to undo GDAL's nudging of valid
        # zeros off the nodata value)
        bn = case.get("bool_nodata", "none")
        if bn == "none":
            B_img = rio_reproject(src_px, B_img, src, dst, "nearest")
        else:
            B_img = rio_reproject(src_px, B_img, src, dst, "nearest", dst_nodata=(0 if bn == "zero" else False))
            T.cls("bool_explicit_nodata")
    else:
        B_img = rio_reproject(src_px, B_img, src, dst, "nearest", dst_nodata=(fill if fnan else None if isf else 0))
    # ambiguity mask: exact source coordinate of the destination centre within 1e-6 px of a source pixel edge
    amb = np.zeros((Hd, Wd), dtype=bool)
    lim = Fr(1, 10**6)
    xs = [a * Fr(2 * i + 1, 2) + c for i in range(Wd)]
    ys = [e * Fr(2 * j + 1, 2) + f for j in range(Hd)]
    ax = np.array([frac_dist(x) < lim for x in xs])
    ay = np.array([frac_dist(y) < lim for y in ys])
    amb |= ax[None, :]
    amb |= ay[:, None]
    if amb.any():
        T.exclude("ambiguous_pixels", int(amb.sum()))
    if isf:
        same = (A_img == B_img) | (np.isnan(A_img) & np.isnan(B_img))
    else:
        same = A_img == B_img
    bad = ~same & ~amb
    if bad.any():
        j, i = map(int, np.argwhere(bad)[0])
        raise Violation(
            f"paste differs from nearest warp at destination (row {j}, col {i}): paste={A_img[j, i]!r} warp={B_img[j, i]!r}; {int(bad.sum())} px differ; "
            f"roi_src={info.roi_src} roi_dst={info.roi_dst} dst->src=({float(a):.6g}*x+{float(c):.6g}, {float(e):.6g}*y+{float(f):.6g}) dtype={dtype}"
        )
    n_cov = 0 if empty else (dy1 - dy0) * (dx1 - dx0)
    if 0 < n_cov < Hd * Wd:
        T.nontrivial()
        T.cls("partial_paste")
    elif n_cov == 0:
        T.cls("empty_paste")
    else:
        T.cls("full_paste")
    T.cls("dtype:" + dtype)
    if any(case["mirrors"]):
        T.cls("mirrored")


# --------------------------------------------------------------------------- different CRSs never paste
# (a, b, centre x range, centre y range, pixel sizes): the same numbers are valid coordinates in both CRSs
XCRS = [
    ("EPSG:32633", "EPSG:32634", (3.0e5, 7.0e5), (1.0e6, 8.0e6), [10.0, 30.0, 100.0]),
    ("EPSG:32633", "EPSG:32733", (3.0e5, 7.0e5), (2.0e6, 8.0e6), [10.0, 20.0]),
    ("EPSG:32755", "EPSG:32633", (3.0e5, 7.0e5), (2.0e6, 8.0e6), [10.0, 60.0]),
    ("EPSG:3857", "EPSG:6933", (-1.5e7, 1.5e7), (-6.0e6, 6.0e6), [500.0, 1000.0]),
    ("EPSG:6933", "EPSG:3857", (-1.5e7, 1.5e7), (-6.0e6, 6.0e6), [500.0, 9000.0]),
    ("EPSG:4326", "EPSG:4283", (115.0, 150.0), (-40.0, -12.0), [0.01, 0.00025]),
    ("EPSG:4283", "EPSG:4326", (115.0, 150.0), (-40.0, -12.0), [0.01, 0.1]),
]


@st.composite
def s_xcrs(draw):
    k = draw(st.integers(0, len(XCRS) - 1))
    a, b, xr, yr, ress = XCRS[k]
    res = draw(st.sampled_from(ress))
    cx = float(round(draw(st.floats(*xr)) / res)) * res
    cy = float(round(draw(st.floats(*yr)) / res)) * res
    Hs, Ws = draw(st.integers(1, 64)), draw(st.integers(1, 64))
    same_shape = draw(st.sampled_from([True, True, False]))
    Hd, Wd = (Hs, Ws) if same_shape else (draw(st.integers(1, 64)), draw(st.integers(1, 64)))
    rel = draw(st.sampled_from(["identical", "identical", "shift_int", "scale_int", "mirror"]))
    if rel == "identical":
        Tm = [1.0, 0.0, 0.0, 0.0, 1.0, 0.0]
    elif rel == "shift_int":
        Tm = [1.0, 0.0, float(draw(st.integers(-5, 5))), 0.0, 1.0, float(draw(st.integers(-5, 5)))]
    elif rel == "scale_int":
        kk = float(draw(st.sampled_from([2, 3, 4])))
        Tm = [kk, 0.0, float(draw(st.integers(-2, 2))) * kk, 0.0, kk, float(draw(st.integers(-2, 2))) * kk]
    else:
        Tm = [1.0, 0.0, 0.0, 0.0, -1.0, float(Hs)]
    return {"pair": k, "res": res, "centre": [cx, cy], "sshape": [Hs, Ws], "dshape": [Hd, Wd], "T": Tm, "rel": rel,
            "opts": draw(st.sampled_from([{}, {}, {"padding": 0}, {"align": 0}, {"padding": 1}, {"ttol": 0.2, "stol": 1e-2}]))}


def o_xcrs(case, T):
    """'paste-ability is reported only for same-CRS grids': grids whose *numbers* (shape, affine) are identical or
    integer related but whose CRSs differ (neighbouring UTM zones share origins and pixel sizes) must never paste."""
    from affine import Affine

    from odc.geo.geobox import GeoBox
    from odc.geo.overlap import compute_reproject_roi

    a, b, _, _, _ = XCRS[case["pair"]]
    res = case["res"]
    Hs, Ws = case["sshape"]
    cx, cy = case["centre"]
    A = Affine(res, 0, cx - res * (Ws // 2), 0, -res, cy + res * (Hs // 2))
    src = GeoBox((Hs, Ws), A, a)
    dst = GeoBox(tuple(case["dshape"]), A * mk_affine(case["T"]), b)
    require(src.crs != dst.crs, "harness: %s == %s", a, b)
    info = compute_reproject_roi(src, dst, **case["opts"])
    T.cls("rel:" + case["rel"])
    T.cls("pair:%s->%s" % (a.split(":")[1], b.split(":")[1]))
    if src.shape == dst.shape and case["rel"] == "identical":
        T.cls("same_shape_and_affine")
    T.nontrivial((case["pair"], case["rel"], tuple(sorted(case["opts"]))))
    require(not info.paste_ok, "paste_ok reported for grids in different CRSs (%s -> %s, relation of the numbers: %s, options %r): roi_src=%r roi_dst=%r",
            a, b, case["rel"], case["opts"], info.roi_src, info.roi_dst)
    require(isinstance(info.read_shrink, int) and info.read_shrink >= 1, "read_shrink %r", info.read_shrink)
    (sy, sx), (dy, dx) = info.roi_src, info.roi_dst
    require(0 <= dy.start <= dy.stop <= dst.shape[0] and 0 <= dx.start <= dx.stop <= dst.shape[1], "roi_dst %r outside the destination %r", info.roi_dst, tuple(dst.shape))
    require(0 <= sy.start and 0 <= sx.start, "roi_src %r starts outside the source", info.roi_src)


def build(chk: Check) -> None:
    chk.sub("other_crs_never_pastes", o_xcrs, strategy=s_xcrs(), n={"quick": 1200, "thorough": 40000})
    chk.sub("paste", o_paste, cov={"quick": 1500, "thorough": 100000}, strategy=s_case(), n={"quick": 12000, "thorough": 250000}, shrink=True)
