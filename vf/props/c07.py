"""C07 - Geometry reprojection and densification are faithful (Geometry.to_crs / segmented / densify)."""
from __future__ import annotations

import functools
import math
from fractions import Fraction as Fr

from hypothesis import strategies as st

from vf.common import Check, HarnessError, Violation, require
from vf.strategies import crs_kind, CRS_POOL, SINU_PROJ, crs_tags, mk_crs, mk_crs_spec

RULE = (
    "Hypothesis-generated geometries of every kind (Point, LineString, LinearRing, Polygon without/with 1-2 holes, "
    "MultiPoint, MultiLineString, MultiPolygon, GeometryCollection, nested GeometryCollection) held as JSON coordinate "
    "lists. Densification (segmented/densify): two coordinate families - 'lattice' (all coordinates and the resolution "
    "integer multiples of a dyadic unit, so float arithmetic is exact) and 'float'; per axis the geometry is anchored "
    "on/next to the coordinate axis (a vertex at distance 0 or << resolution), straddles it, or lies 10..1e6 "
    "part-sizes away; multi-part geometries either share one placement or get one per part (mixed); edges uniform in "
    "direction plus exactly vertical/horizontal ones; resolution log-uniform in [1/500, 3] x the largest part's "
    "diameter, or tied to an actual edge length (x1, x1/2, x1/3, x(1+-1e-6), x2), capped so that <= ~4000 points are "
    "added, also inf. Reprojection: every ordered pair of CRS pool labels whose lon/lat validity boxes intersect "
    "(60 pairs), every spelling of each label, vertices drawn inside the intersection of the boxes (size 1e-5 deg .. "
    "whole box; anchored on the source CRS axes where those are inside the box), converted to source units with an "
    "independent pyproj transformer; resolution None/inf/finite through to_crs(resolution=). Non-trivial: at least one "
    "vertex must be inserted, or the geometry has more than one ring/part, or (plain reprojection) it has >= 2 "
    "vertices that differ in both coordinates; distinct = distinct (sub-check, kind, position class, CRS label/pair, "
    "resolution class)."
)
ASSUMPTIONS = [
    "pyproj.Transformer.from_crs(src, dst, always_xy=True) built from the pool *label* is the reference mapping; "
    "vertices must agree with it to 1e-12 relative (same library: observed difference is 0)",
    "there-and-back bound: 1e-6 CRS units (metres) for projected sources, 1e-9 degrees for geographic sources, inside "
    "the intersection of the pool's validity boxes (observed worst case 3e-8 m / 7e-14 deg)",
    "edge-length bound is resolution*(1+1e-9) + 32 ulp(max |coordinate|): interpolated vertices are rounded to the "
    "coordinate grid (each ordinate off by <= ~2.5 ulp); on-edge distance bound is 1e-9*edge length + 16 ulp",
    "area is compared with exact integer arithmetic on the float coordinates (tolerance 1e-9 relative + "
    "16 ulp * min(resolution, diameter) per inserted vertex), length with fsum/hypot (1e-9 relative + 16 ulp per vertex)",
    "strictly advancing inserted vertices (no repeat of an original vertex) is demanded only on the lattice family "
    "where the length test of the implementation is exact; on the float family only monotone up to rounding",
    "polygons need not be valid (operations are vertex-wise); no empty geometries; resolution > 0; "
    "wrapdateline/check_and_fix/'auto' are not part of the statement",
    "for multi-part geometries 'diameter' is the largest single chain's bounding-box diagonal",
]
SHARDS = {"quick": 4, "thorough": 16}

TWO_PI = 2 * math.pi
LABELS = list(CRS_POOL)
GEOGRAPHIC = {k for k, v in CRS_POOL.items() if v[0] == "geographic"}
# lon / lat at which the source CRS has x == 0 / y == 0 (None: not inside its validity box)
AXES = {
    "4326": (0.0, 0.0), "3857": (0.0, 0.0), "6933": (0.0, 0.0), "sinu": (0.0, 0.0), "3577": (132.0, None),
    "4283": (None, None), "32633": (None, None), "32755": (None, None), "3035": (None, None),
}


def _isect(a, b):
    x0, y0, x1, y1 = max(a[0], b[0]), max(a[1], b[1]), min(a[2], b[2]), min(a[3], b[3])
    return (x0, y0, x1, y1) if x0 < x1 and y0 < y1 else None


PAIRS = [(a, b) for a in LABELS for b in LABELS if a != b and _isect(CRS_POOL[a][1], CRS_POOL[b][1]) is not None]
# pairs of the same kind (geographic -> geographic: "only a datum shift") are few among all pairs: weight them up
PAIRS += 4 * [(a, b) for a, b in PAIRS if crs_kind(a) == "geographic" and crs_kind(b) == "geographic"]

# ----------------------------------------------------------------------------- reference transformers
_PP: dict = {}
_TR: dict = {}


def _pp(label):
    if label not in _PP:
        from pyproj import CRS as P

        _PP[label] = P.from_user_input(SINU_PROJ) if label == "sinu" else P.from_epsg(int(label))
    return _PP[label]


def _tr(a, b):
    """Reference transformer between two pool labels (pure function of the labels; cached per process)."""
    if (a, b) not in _TR:
        from pyproj import Transformer

        _TR[(a, b)] = Transformer.from_crs(_pp(a), _pp(b), always_xy=True)
    return _TR[(a, b)]


def _chain_tr(a, b):
    if a == b:
        return lambda ch: [[float(p[0]), float(p[1])] for p in ch]
    tr = _tr(a, b)

    def f(ch):
        xs, ys = tr.transform([float(p[0]) for p in ch], [float(p[1]) for p in ch])
        return [[float(x), float(y)] for x, y in zip(xs, ys)]

    return f


# ----------------------------------------------------------------------------- JSON geometry <-> shapely
# G = [type, data]; Point: [x,y]; LineString/LinearRing/MultiPoint: [[x,y]..]; Polygon/MultiLineString: [chain..];
# MultiPolygon: [[ring..]..]; GeometryCollection: [G..].  Rings are explicitly closed.
def mk_shape(g):
    from shapely import geometry as sg

    t, c = g
    if t == "Point":
        return sg.Point(c[0], c[1])
    if t == "LineString":
        return sg.LineString(c)
    if t == "LinearRing":
        return sg.LinearRing(c)
    if t == "Polygon":
        return sg.Polygon(c[0], c[1:])
    if t == "MultiPoint":
        return sg.MultiPoint(c)
    if t == "MultiLineString":
        return sg.MultiLineString(c)
    if t == "MultiPolygon":
        return sg.MultiPolygon([sg.Polygon(p[0], p[1:]) for p in c])
    if t == "GeometryCollection":
        return sg.GeometryCollection([mk_shape(s) for s in c])
    raise HarnessError(f"bad geometry type {t}")


def _cl(coords):
    return [list(p) for p in coords]


def shp_to_g(s):
    """Independent read-out of a shapely object into the JSON form (observation point of the property)."""
    t = s.geom_type
    if s.is_empty:
        return [t + "(empty)", []]
    if t == "Point":
        return [t, list(s.coords[0])]
    if t in ("LineString", "LinearRing"):
        return [t, _cl(s.coords)]
    if t == "Polygon":
        return [t, [_cl(s.exterior.coords)] + [_cl(r.coords) for r in s.interiors]]
    if t == "MultiPoint":
        return [t, [list(p.coords[0]) if not p.is_empty else [] for p in s.geoms]]
    if t == "MultiLineString":
        return [t, [_cl(l.coords) for l in s.geoms]]
    if t == "MultiPolygon":
        return [t, [[_cl(p.exterior.coords)] + [_cl(r.coords) for r in p.interiors] for p in s.geoms]]
    if t == "GeometryCollection":
        return [t, [shp_to_g(x) for x in s.geoms]]
    return [t, []]


def g_map(g, f):
    """Apply chain function f (list of [x,y] -> list of [x,y]) to every coordinate chain."""
    t, c = g
    if t == "Point":
        return [t, f([c])[0]]
    if t in ("LineString", "LinearRing", "MultiPoint"):
        return [t, f(c)]
    if t in ("Polygon", "MultiLineString"):
        return [t, [f(r) for r in c]]
    if t == "MultiPolygon":
        return [t, [[f(r) for r in p] for p in c]]
    if t == "GeometryCollection":
        return [t, [g_map(s, f) for s in c]]
    raise HarnessError(f"bad geometry type {t}")


def g_chains(g):
    """Yield (kind, chain) with kind in pt|line|ring for every coordinate chain in order."""
    t, c = g
    if t == "Point":
        yield "pt", [c]
    elif t == "MultiPoint":
        yield "pt", c
    elif t == "LineString":
        yield "line", c
    elif t == "LinearRing":
        yield "ring", c
    elif t == "Polygon":
        for r in c:
            yield "ring", r
    elif t == "MultiLineString":
        for l in c:
            yield "line", l
    elif t == "MultiPolygon":
        for p in c:
            for r in p:
                yield "ring", r
    elif t == "GeometryCollection":
        for s in c:
            yield from g_chains(s)


def g_pairs(got, want, path="$"):
    """Walk two JSON geometries in parallel: type / part count / ring count must agree.  Yields
    (path, kind, got_chain, want_chain, area_sign) where area_sign is +1 shell, -1 hole, 0 not areal."""
    tg, cg = got
    tw, cw = want
    require(tg == tw, "geometry type at %s is %s, expected %s", path, tg, tw)
    if tw == "Point":
        yield path, "pt", [cg], [cw], 0
    elif tw == "MultiPoint":
        yield path, "pt", cg, cw, 0
    elif tw == "LineString":
        yield path, "line", cg, cw, 0
    elif tw == "LinearRing":
        yield path, "ring", cg, cw, 0
    elif tw == "Polygon":
        require(len(cg) == len(cw), "Polygon at %s has %d rings, expected %d", path, len(cg), len(cw))
        for i, (a, b) in enumerate(zip(cg, cw)):
            yield f"{path}.ring{i}", "ring", a, b, (1 if i == 0 else -1)
    elif tw == "MultiLineString":
        require(len(cg) == len(cw), "MultiLineString at %s has %d parts, expected %d", path, len(cg), len(cw))
        for i, (a, b) in enumerate(zip(cg, cw)):
            yield f"{path}[{i}]", "line", a, b, 0
    elif tw == "MultiPolygon":
        require(len(cg) == len(cw), "MultiPolygon at %s has %d parts, expected %d", path, len(cg), len(cw))
        for i, (pa, pb) in enumerate(zip(cg, cw)):
            require(len(pa) == len(pb), "Polygon at %s[%d] has %d rings, expected %d", path, i, len(pa), len(pb))
            for j, (a, b) in enumerate(zip(pa, pb)):
                yield f"{path}[{i}].ring{j}", "ring", a, b, (1 if j == 0 else -1)
    elif tw == "GeometryCollection":
        require(len(cg) == len(cw), "GeometryCollection at %s has %d members, expected %d", path, len(cg), len(cw))
        for i, (a, b) in enumerate(zip(cg, cw)):
            yield from g_pairs(a, b, f"{path}[{i}]")
    else:
        raise HarnessError(f"bad geometry type {tw}")


def kind_of(g):
    t, c = g
    if t == "Polygon":
        return "Polygon+holes" if len(c) > 1 else "Polygon"
    if t == "MultiPolygon":
        return "MultiPolygon+holes" if any(len(p) > 1 for p in c) else "MultiPolygon"
    if t == "GeometryCollection":
        return "Collection(nested)" if any(s[0] == "GeometryCollection" for s in c) else "Collection"
    return t


def n_chains(g):
    return sum(1 for _ in g_chains(g))


def _bbox_diag(ch):
    xs = [p[0] for p in ch]
    ys = [p[1] for p in ch]
    return math.hypot(max(xs) - min(xs), max(ys) - min(ys))


def _chain_len(ch):
    return math.fsum(math.hypot(b[0] - a[0], b[1] - a[1]) for a, b in zip(ch, ch[1:]))


def geom_stats(g):
    """(largest chain diameter, total edge length, max |coordinate|) of a JSON geometry."""
    D, L, M = 0.0, 0.0, 0.0
    for kind, ch in g_chains(g):
        M = max(M, max(max(abs(p[0]), abs(p[1])) for p in ch))
        if kind != "pt":
            D = max(D, _bbox_diag(ch))
            L += _chain_len(ch)
    return D, L, M


def area2_exact(ch) -> Fr:
    """Twice the signed area of a closed chain, exactly (float coordinates are dyadic rationals)."""
    rat = [(float(p[0]).as_integer_ratio(), float(p[1]).as_integer_ratio()) for p in ch]
    D = max(max(a[1], b[1]) for a, b in rat)
    pts = [(a[0] * (D // a[1]), b[0] * (D // b[1])) for a, b in rat]
    s = 0
    for (x0, y0), (x1, y1) in zip(pts, pts[1:]):
        s += x0 * y1 - x1 * y0
    return Fr(s, D * D)


# ----------------------------------------------------------------------------- densification oracle
def check_chain(path, P, Q, res, exact, what="segmented"):
    """P: original chain, Q: densified chain.  Returns number of inserted vertices."""
    P = [tuple(p) for p in P]
    Q = [tuple(q) for q in Q]
    for q in Q:
        require(len(q) == 2 and all(math.isfinite(v) for v in q), "%s %s: bad vertex %r", what, path, q)
    M = max(max(abs(p[0]), abs(p[1])) for p in P)
    u = math.ulp(M)
    require(len(Q) >= len(P), "%s %s: result has %d vertices, fewer than the original %d", what, path, len(Q), len(P))
    require(Q[0] == P[0], "%s %s: first vertex %r became %r", what, path, P[0], Q[0])
    require(Q[-1] == P[-1], "%s %s: last vertex %r became %r", what, path, P[-1], Q[-1])
    j = 0
    n_ins = 0
    last = len(P) - 1
    for i in range(1, len(P)):
        p1, p2 = P[i - 1], P[i]
        if i == last:
            k = len(Q) - 1
            require(k > j or len(P) == 1, "%s %s: original vertices not retained in order (ran out before vertex %d)", what, path, i)
        else:
            k = j + 1
            while k < len(Q) and Q[k] != p2:
                k += 1
            require(k < len(Q), "%s %s: original vertex #%d %r not retained in order after vertex #%d (res=%r)", what, path, i, p2, i - 1, res)
        dx, dy = p2[0] - p1[0], p2[1] - p1[1]
        L = math.hypot(dx, dy)
        tol = 1e-9 * L + 16 * u
        prev = 0.0
        for q in Q[j + 1 : k]:
            ax, ay = q[0] - p1[0], q[1] - p1[1]
            if L > 0:
                s = (ax * dx + ay * dy) / L
                off = abs(ax * dy - ay * dx) / L
            else:
                s, off = 0.0, math.hypot(ax, ay)
            require(off <= tol, "%s %s: added vertex %r is %.3g away from its edge %r-%r (tol %.3g, res=%r)", what, path, q, off, p1, p2, tol, res)
            require(-tol <= s <= L + tol, "%s %s: added vertex %r lies outside its edge %r-%r (at %.6g of length %.6g)", what, path, q, p1, p2, s, L)
            require(s >= prev - tol, "%s %s: added vertices do not advance along edge %r-%r: %.9g after %.9g", what, path, p1, p2, s, prev)
            if exact:
                require(q != p1 and q != p2 and prev < s < L, "%s %s: added vertex %r repeats a vertex / does not strictly advance on edge %r-%r (at %.9g after %.9g of %.9g, res=%r)", what, path, q, p1, p2, s, prev, L, res)
            prev = s
        n_ins += k - j - 1
        j = k
    lim = res * (1 + 1e-9) + 32 * u
    for a, b in zip(Q, Q[1:]):
        e = math.hypot(b[0] - a[0], b[1] - a[1])
        require(e <= lim, "%s %s: edge %r-%r has length %.17g > resolution %.17g", what, path, a, b, e, res)
    return n_ins


def check_densified(G, got, res, exact, what="segmented"):
    """Full oracle of the densification clauses.  G original JSON geometry, got result JSON geometry.
    Returns (#inserted vertices, #edges longer than res in the original)."""
    D, Lsum, M = geom_stats(G)
    u = math.ulp(M) if M > 0 else 5e-324
    n_ins = 0
    long_edges = 0
    a_orig, a_res = Fr(0), Fr(0)
    l_res = 0.0
    nv = 0
    for path, kind, q, p, sgn in g_pairs(got, G):
        if kind == "pt":
            require(len(q) == len(p), "%s %s: %d points became %d", what, path, len(p), len(q))
            require([tuple(v) for v in q] == [tuple(v) for v in p], "%s %s: point coordinates changed: %r -> %r", what, path, p[:3], q[:3])
            continue
        for a, b in zip(p, p[1:]):
            if math.hypot(b[0] - a[0], b[1] - a[1]) > res * (1 + 1e-9) + 32 * u:
                long_edges += 1
        n_ins += check_chain(path, p, q, res, exact, what)
        nv += len(q) + len(p)
        l_res += _chain_len(q)
        if sgn:
            a_orig += sgn * abs(area2_exact(p))
            a_res += sgn * abs(area2_exact(q))
    # length / area of the whole geometry
    tol_l = 1e-9 * Lsum + 16 * u * nv
    require(abs(l_res - Lsum) <= tol_l, "%s: length changed %.17g -> %.17g (tol %.3g)", what, Lsum, l_res, tol_l)
    A0, A1 = float(a_orig) / 2, float(a_res) / 2
    rcap = min(res, D) if D > 0 else 0.0
    tol_a = 1e-9 * abs(A0) + 16 * u * rcap * n_ins
    require(abs(float(a_res - a_orig)) / 2 <= tol_a, "%s: area changed %.17g -> %.17g (tol %.3g)", what, A0, A1, tol_a)
    if long_edges:
        require(n_ins > 0, "%s: %d edges longer than resolution %r but nothing was added", what, long_edges, res)
    return n_ins, long_edges


# ----------------------------------------------------------------------------- classification helpers
def res_class(res, D):
    if res is None:
        return "res=None"
    if math.isinf(res):
        return "res=inf"
    if D <= 0:
        return "res/pointlike"
    r = res / D
    if r < 0.01:
        return "res<D/100"
    if r < 0.1:
        return "res<D/10"
    if r < 1:
        return "res<D"
    return "res>=D"


def pos_class(G, res):
    """Position of the geometry relative to the coordinate axes, judged per chain."""
    labs = set()
    hug = False
    for kind, ch in g_chains(G):
        d = _bbox_diag(ch) if kind != "pt" else 0.0
        ref = min(res, d) if (d > 0 and math.isfinite(res)) else (d if d > 0 else (res if math.isfinite(res) else 1.0))
        mx = min(abs(p[0]) for p in ch)
        my = min(abs(p[1]) for p in ch)
        sx = min(p[0] for p in ch) < 0 < max(p[0] for p in ch)
        sy = min(p[1] for p in ch) < 0 < max(p[1] for p in ch)
        if mx <= 1e-2 * ref or my <= 1e-2 * ref:
            labs.add("near")
        elif sx or sy:
            labs.add("straddle")
        elif mx >= 10 * max(d, ref) and my >= 10 * max(d, ref):
            labs.add("far")
        else:
            labs.add("beside")
        if kind != "pt" and math.isfinite(res):
            for a, b in zip(ch, ch[1:]):
                if math.hypot(b[0] - a[0], b[1] - a[1]) > res and (
                    max(abs(a[0]), abs(b[0])) < res / 2 or max(abs(a[1]), abs(b[1])) < res / 2
                ):
                    hug = True
    lab = next(iter(labs)) if len(labs) == 1 else "mixed"
    return lab, hug


def _count_ins_class(n):
    if n == 0:
        return "added=0"
    if n <= 10:
        return "added=1..10"
    if n <= 100:
        return "added=11..100"
    if n <= 1000:
        return "added=101..1000"
    return "added>1000"


# ----------------------------------------------------------------------------- local geometry generators
@functools.lru_cache(maxsize=None, typed=True)
def _S(*opts):
    return st.sampled_from(opts)


@functools.lru_cache(maxsize=None, typed=True)
def _I(lo, hi):
    return st.integers(lo, hi)


_B = st.booleans()


@functools.lru_cache(maxsize=None, typed=True)
def _u(lo, hi):
    """Uniform on [lo, hi] (Hypothesis' own float strategy is strongly biased to 0 / the bounds / subnormals)."""
    d = st.integers(0, 99)  # ranges <= 127 are drawn uniformly; wider ones are biased towards small values
    return st.tuples(d, d, d).map(lambda t: lo + (hi - lo) * (((t[0] * 100 + t[1]) * 100 + t[2]) / 999999.0))


@functools.lru_cache(maxsize=None, typed=True)
def _f(lo, hi):
    """Mostly uniform, sometimes Hypothesis' nasty floats (exact bounds, 0, tiny values)."""
    return st.one_of(_u(lo, hi), _u(lo, hi), _u(lo, hi), st.floats(lo, hi, allow_nan=False, allow_infinity=False))


def _loc_point(draw, fam):
    if fam == "lattice":
        return [draw(_I(-8, 8)), draw(_I(-8, 8))]
    a, r = draw(_f(0, TWO_PI)), draw(_f(0.0, 1.0))
    return [r * math.cos(a), r * math.sin(a)]


def _loc_path(draw, fam, nmin=2, nmax=6):
    n = draw(_I(nmin, nmax))
    pts = []
    for _ in range(n):
        x, y = _loc_point(draw, fam)
        if pts:
            mode = draw(_S("free", "free", "free", "same_x", "same_y"))
            if mode == "same_x":
                x = pts[-1][0]
            elif mode == "same_y":
                y = pts[-1][1]
            if x == pts[-1][0] and y == pts[-1][1]:
                y = y + (1 if fam == "lattice" else 0.25)
        pts.append([x, y])
    return pts


@functools.lru_cache(maxsize=None, typed=True)
def _lattice_pts(R, kmin):
    return st.lists(st.tuples(_I(-R, R), _I(-R, R)).filter(lambda p: p != (0, 0)), min_size=kmin, max_size=8, unique=True)


def _loc_ring(draw, fam, R, cx=0, cy=0, kmin=3):
    """Closed chain around (cx, cy) with radius <= R (R int for the lattice family)."""
    shape = draw(_S("box", "star"))
    if fam == "lattice":
        R = int(R)
        if shape == "box" or R < 2:
            x0, x1 = -draw(_I(1, R)), draw(_I(1, R))
            y0, y1 = -draw(_I(1, R)), draw(_I(1, R))
            ring = [[x0, y0], [x1, y0], [x1, y1], [x0, y1]]
        else:
            pts = draw(_lattice_pts(R, max(3, kmin)))
            ring = [list(p) for p in sorted(pts, key=lambda p: (math.atan2(p[1], p[0]), p[0] * p[0] + p[1] * p[1]))]
    else:
        if shape == "box":
            x0, x1 = -draw(_f(0.7, 1.0)) * R, draw(_f(0.7, 1.0)) * R
            y0, y1 = -draw(_f(0.7, 1.0)) * R, draw(_f(0.7, 1.0)) * R
            ring = [[x0, y0], [x1, y0], [x1, y1], [x0, y1]]
        else:
            k = draw(_I(kmin, 8))
            ph = draw(_f(0, TWO_PI))
            jit = 0.3 if kmin >= 6 else 0.8
            rlo = 0.7 if kmin >= 6 else 0.4
            ring = []
            for i in range(k):
                a = ph + (i + draw(_f(0, jit))) * TWO_PI / k
                r = draw(_f(rlo, 1.0)) * R
                ring.append([r * math.cos(a), r * math.sin(a)])
    if draw(_B):
        ring.reverse()
    rot = draw(_I(0, len(ring) - 1))
    ring = ring[rot:] + ring[:rot]
    ring = [[x + cx, y + cy] for x, y in ring]
    return ring + [list(ring[0])]


def _loc_polygon(draw, fam, holes=None):
    nh = draw(_S(0, 0, 1, 2)) if holes is None else holes
    if fam == "lattice":
        if nh == 0:
            return [_loc_ring(draw, fam, 8)]
        x0, x1 = -draw(_I(6, 8)), draw(_I(6, 8))
        y0, y1 = -draw(_I(4, 8)), draw(_I(4, 8))
        shell = [[x0, y0], [x1, y0], [x1, y1], [x0, y1]]
        if draw(_B):
            shell.reverse()
        shell = shell + [list(shell[0])]
        rings = [shell]
        for sx in ([-3, 3][:nh]):
            rings.append(_loc_ring(draw, fam, 2, cx=sx + draw(_I(-1, 1)), cy=draw(_I(-1, 1))))
        return rings
    if nh == 0:
        return [_loc_ring(draw, fam, 1.0)]
    rings = [_loc_ring(draw, fam, 1.0, kmin=6)]
    th = draw(_f(0, TWO_PI))
    for i in range(nh):
        cx, cy = 0.25 * math.cos(th + math.pi * i), 0.25 * math.sin(th + math.pi * i)
        rings.append(_loc_ring(draw, fam, draw(_f(0.03, 0.15)), cx=cx, cy=cy))
    return rings


ATOMIC = ["Point", "LineString", "LinearRing", "Polygon", "Polygon+holes"]
_LINEAR = ["LineString", "LinearRing", "Polygon", "Polygon+holes", "MultiLineString", "MultiPolygon", "GeometryCollection", "Nested"]
TOP_KINDS = ["Point", "MultiPoint"] + _LINEAR + _LINEAR


def _loc_atomic(draw, fam, kind):
    if kind == "Point":
        return ["Point", _loc_point(draw, fam)]
    if kind == "LineString":
        return ["LineString", _loc_path(draw, fam)]
    if kind == "LinearRing":
        return ["LinearRing", _loc_ring(draw, fam, 8 if fam == "lattice" else 1.0)]
    if kind == "Polygon":
        return ["Polygon", _loc_polygon(draw, fam, holes=0)]
    return ["Polygon", _loc_polygon(draw, fam, holes=draw(_S(1, 2)))]


def _shift(g, ox, oy):
    return g_map(g, lambda ch: [[p[0] + ox, p[1] + oy] for p in ch])


class _Slots:
    """Hands out disjoint local offsets for the atomic parts of a multi-geometry."""

    def __init__(self, fam):
        self.i = 0
        self.step = 20 if fam == "lattice" else 2.5

    def next(self):
        i = self.i
        self.i += 1
        return (i % 3) * self.step, (i // 3) * self.step


def _loc_geom(draw, fam, kind=None, depth=0, slots=None):
    """Local geometry as a list of 'atomic parts' tree: returns JSON geometry in local coordinates where every
    atomic part (Point/LineString/LinearRing/Polygon, also as member of a Multi*) sits in its own slot."""
    slots = slots or _Slots(fam)
    kind = kind or draw(_S(*TOP_KINDS))
    if kind in ATOMIC:
        return _shift(_loc_atomic(draw, fam, kind), *slots.next())
    if kind == "MultiPoint":
        n = draw(_I(1, 5))
        return ["MultiPoint", [_shift(_loc_atomic(draw, fam, "Point"), *slots.next())[1] for _ in range(n)]]
    if kind == "MultiLineString":
        n = draw(_I(1, 3))
        return ["MultiLineString", [_shift(_loc_atomic(draw, fam, "LineString"), *slots.next())[1] for _ in range(n)]]
    if kind == "MultiPolygon":
        n = draw(_I(1, 3))
        return ["MultiPolygon", [_shift(_loc_atomic(draw, fam, draw(_S("Polygon", "Polygon+holes"))), *slots.next())[1] for _ in range(n)]]
    # collections
    n = draw(_I(1, 4))
    members = []
    pool = ATOMIC + ["MultiPoint", "MultiLineString", "MultiPolygon"]
    for i in range(n):
        if kind == "Nested" and depth < 2 and (i == 0 or draw(_I(0, 3)) == 0):
            sub = _loc_geom(draw, fam, kind=draw(_S("GeometryCollection", "Nested")) if depth == 0 else "GeometryCollection", depth=depth + 1, slots=slots)
        else:
            sub = _loc_geom(draw, fam, kind=draw(_S(*pool)), depth=depth + 1, slots=slots)
        members.append(sub)
    return ["GeometryCollection", members]


def _atomic_parts(g, out=None):
    """List of (container, key) handles is awkward in JSON; instead return list of atomic sub-geometries as
    [type, data] *views* (Multi* members are wrapped)."""
    out = [] if out is None else out
    t, c = g
    if t in ("Point", "LineString", "LinearRing", "Polygon"):
        out.append(g)
    elif t == "MultiPoint":
        out.extend(["Point", p] for p in c)
    elif t == "MultiLineString":
        out.extend(["LineString", l] for l in c)
    elif t == "MultiPolygon":
        out.extend(["Polygon", p] for p in c)
    else:
        for s in c:
            _atomic_parts(s, out)
    return out


def _first_vertex(part):
    return next(g_chains(part))[1][0]


def _map_parts(g, fns, counter=None):
    """Rebuild g applying fns[i] (point -> point) to the i-th atomic part (same order as _atomic_parts)."""
    counter = counter if counter is not None else [0]
    t, c = g

    def nxt():
        f = fns[counter[0]]
        counter[0] += 1
        return lambda ch: [f(p) for p in ch]

    if t in ("Point", "LineString", "LinearRing", "Polygon"):
        return g_map(g, nxt())
    if t == "MultiPoint":
        return [t, [g_map(["Point", p], nxt())[1] for p in c]]
    if t == "MultiLineString":
        return [t, [g_map(["LineString", l], nxt())[1] for l in c]]
    if t == "MultiPolygon":
        return [t, [g_map(["Polygon", p], nxt())[1] for p in c]]
    return [t, [_map_parts(s, fns, counter) for s in c]]


# ----------------------------------------------------------------------------- placement for the densify family
def _axis_mode(draw):
    return draw(_S("at", "at", "straddle", "far", "far", "farther"))


def _place_float(draw, anchor, s):
    """Return f(point)->point placing local coordinates at scale s; per axis anchored / straddling / far."""
    C = []
    for ax in (0, 1):
        mode = _axis_mode(draw)
        if mode == "at":
            eps = draw(_S(0.0, 0.0, 1.0, -1.0)) * s * 10 ** -draw(_u(2, 9))
            c = eps - s * anchor[ax]
        elif mode == "straddle":
            c = s * draw(_f(-1, 1)) - s * anchor[ax]
        else:
            lo, hi = (1, 4) if mode == "far" else (4, 6)
            c = draw(_S(1.0, -1.0)) * s * 10 ** draw(_u(lo, hi))
        C.append(c)
    cx, cy = C
    return lambda p: [cx + s * p[0], cy + s * p[1]]


def _place_lattice(draw, anchor, u):
    K = []
    for ax in (0, 1):
        mode = _axis_mode(draw)
        if mode == "at":
            k = -int(anchor[ax])
        elif mode == "straddle":
            k = -int(anchor[ax]) + draw(_I(-8, 8))
        else:
            lo, hi = (8, 16) if mode == "far" else (17, 30)
            k = draw(_S(1, -1)) * (2 ** draw(_I(lo, hi)) + draw(_I(-9, 9)))
        K.append(k)
    kx, ky = K
    return lambda p: [(kx + int(p[0])) * u, (ky + int(p[1])) * u]


@st.composite
def s_segmented(draw):
    fam = draw(_S("lattice", "float"))
    loc = _loc_geom(draw, fam)
    parts = _atomic_parts(loc)
    if fam == "lattice":
        unit = 2.0 ** draw(_I(-6, 12))
        placer = lambda a: _place_lattice(draw, a, unit)  # noqa: E731
    else:
        unit = None
        s = 10 ** draw(_u(-2, 6))
        placer = lambda a: _place_float(draw, a, s)  # noqa: E731
    mixed = len(parts) > 1 and draw(_B)
    if mixed:
        fns = [placer(_first_vertex(p)) for p in parts]
    else:
        a = _first_vertex(parts[draw(_I(0, len(parts) - 1))])
        f = placer(a)
        fns = [f] * len(parts)
    G = _map_parts(loc, fns)
    D, Lsum, M = geom_stats(G)
    edges = [math.hypot(b[0] - a[0], b[1] - a[1]) for k, ch in g_chains(G) if k != "pt" for a, b in zip(ch, ch[1:])]
    edges = [e for e in edges if e > 0]
    how = draw(_S("phi", "phi", "phi", "edge", "edge", "inf"))
    if how == "inf":
        res = math.inf
    elif fam == "lattice":
        m = draw(_S(0.25, 0.5, 1, 1, 2, 2, 3, 4, 5, 6, 7, 8, 12, 16, 24))
        res = m * unit
        while Lsum / res > 4000:
            res *= 2
    else:
        if how == "edge" and edges:
            e = edges[draw(_I(0, len(edges) - 1))]
            res = e * draw(_S(1.0, 0.5, 1 / 3.0, 1 - 1e-6, 1 + 1e-6, 2.0, 0.25, 0.1))
        elif D > 0:
            res = D * 10 ** draw(_u(math.log10(1 / 500), math.log10(3)))
        else:
            res = 10 ** draw(_u(-3, 3))
        if Lsum / res > 4000:
            res = Lsum / 4000
    crs = draw(crs_tags())
    return {"family": fam, "unit": unit, "crs": crs, "geom": G, "res": res, "placement": "mixed" if mixed else "one"}


def _check_lattice(case):
    u = case["unit"]
    ok = all(float(v / u).is_integer() and abs(v / u) < 2**40 for _, ch in g_chains(case["geom"]) for p in ch for v in p)
    if math.isfinite(case["res"]):
        ok = ok and float(case["res"] * 4 / u).is_integer()
    if not ok:
        raise HarnessError("lattice case is not on its lattice")


def _mk_geometry(G, tag):
    from odc.geo.geom import Geometry

    return Geometry(mk_shape(G), mk_crs_spec(tag))


def o_segmented(case, T):
    from odc.geo.geom import densify

    G, res, fam = case["geom"], float(case["res"]), case["family"]
    exact = fam == "lattice"
    if exact:
        _check_lattice(case)
    if not exact:
        # the rounding analysis behind the tolerances assumes normal floats whose squares neither underflow nor
        # overflow (edge lengths are compared through squares): Hypothesis' "nasty" floats reach subnormals
        mags = [abs(v) for _, ch in g_chains(G) for p in ch for v in p if v != 0.0]
        if (math.isfinite(res) and not (1e-150 < res < 1e150)) or any(not (1e-150 < m < 1e150) for m in mags):
            T.exclude("subnormal_or_huge_scale")
            return
    g = _mk_geometry(G, case["crs"])
    wkb0 = g.geom.wkb
    out = g.segmented(res)
    require(type(out) is type(g), "segmented returned %r", type(out))
    require((out.crs is None) == (g.crs is None) and out.crs == g.crs, "segmented changed the CRS: %r -> %r", g.crs, out.crs)
    got = shp_to_g(out.geom)
    require(out.geom_type == G[0], "geom_type %s, expected %s", out.geom_type, G[0])
    n_ins, long_edges = check_densified(G, got, res, exact)
    require(g.geom.wkb == wkb0, "segmented modified its input")
    if math.isinf(res):
        require(n_ins == 0, "segmented(inf) added %d vertices", n_ins)
    # the plain function on coordinate lists
    if G[0] in ("LineString", "LinearRing"):
        P = [tuple(p) for p in G[1]]
        Q = densify(list(P), res)
        require(isinstance(Q, list) and P == [tuple(p) for p in G[1]], "densify modified its input or returned %r", type(Q))
        check_chain("densify()", P, Q, res, exact, what="densify")
        require([tuple(q) for q in Q] == [tuple(q) for q in got[1]], "densify() and segmented() disagree on a %s", G[0])
    # bookkeeping
    D, _, _ = geom_stats(G)
    kind = kind_of(G)
    pos, hug = pos_class(G, res)
    rc = res_class(res, D)
    T.cls("kind:" + kind)
    T.cls("pos:" + pos)
    T.cls("family:" + fam)
    T.cls(rc)
    T.cls(_count_ins_class(n_ins))
    T.cls("placement:" + case.get("placement", "?"))
    if hug:
        T.cls("long_edge_hugging_axis")
    if exact and math.isfinite(res):
        for k, ch in g_chains(G):
            if k != "pt" and any((a[0] == b[0] or a[1] == b[1]) and float(math.hypot(b[0] - a[0], b[1] - a[1]) / res).is_integer() for a, b in zip(ch, ch[1:])):
                T.cls("edge_is_multiple_of_res")
                break
    if n_ins > 0 or n_chains(G) > 1:
        T.nontrivial(("segmented", kind, pos, case["crs"] and case["crs"]["label"], rc))


# ----------------------------------------------------------------------------- reprojection generators
def _ll_geom(draw, src, box, axis_anchor=True):
    """lon/lat geometry inside ``box``; returns (G_lonlat, anchoring label)."""
    loc = _loc_geom(draw, "float")
    chains = [ch for _, ch in g_chains(loc)]
    xs = [p[0] for ch in chains for p in ch]
    ys = [p[1] for ch in chains for p in ch]
    cx, cy = (max(xs) + min(xs)) / 2, (max(ys) + min(ys)) / 2
    half = max(max(xs) - min(xs), max(ys) - min(ys)) / 2
    half = half if half > 0 else 1.0
    loc = g_map(loc, lambda ch: [[max(-1.0, min(1.0, (p[0] - cx) / half)), max(-1.0, min(1.0, (p[1] - cy) / half))] for p in ch])
    x0, y0, x1, y1 = box
    hmax = min(x1 - x0, y1 - y0) / 2
    h = min(hmax, 10 ** draw(_u(-5, math.log10(hmax))))
    anchor = _first_vertex(_atomic_parts(loc)[0])
    c0 = []
    lab = []
    for ax, (lo, hi) in enumerate(((x0, x1), (y0, y1))):
        axv = AXES[src][ax]
        lo_c, hi_c = lo + h, hi - h
        if hi_c < lo_c:
            lo_c = hi_c = (lo + hi) / 2
        c = None
        if axis_anchor and axv is not None and draw(_I(0, 2)) == 0:
            eps = draw(_S(0.0, 0.0, 1e-9, -1e-9, 1e-4, -1e-4, 0.3, -0.3)) * h
            c = axv + eps - h * anchor[ax]
            if not lo_c <= c <= hi_c:
                c = None
            else:
                lab.append("xy"[ax] + "-axis")
        if c is None:
            c = lo_c + (hi_c - lo_c) * draw(_f(0.0, 1.0))
        c0.append(c)
    lon0, lat0 = c0

    def place(p):
        return [min(x1, max(x0, lon0 + h * p[0])), min(y1, max(y0, lat0 + h * p[1]))]

    return g_map(loc, lambda ch: [place(p) for p in ch]), "+".join(lab) or "free"


def _pair_tags(draw):
    a, b = draw(_S(*PAIRS))
    return draw(crs_tags(labels=[a], allow_none=False)), draw(crs_tags(labels=[b], allow_none=False))


@st.composite
def s_to_crs(draw):
    src, dst = _pair_tags(draw)
    box = _isect(CRS_POOL[src["label"]][1], CRS_POOL[dst["label"]][1])
    G, anch = _ll_geom(draw, src["label"], box)
    back = draw(crs_tags(labels=[src["label"]], allow_none=False))
    return {"src": src, "dst": dst, "back": back, "geom_lonlat": G, "anchor": anch}


def _src_geom(case):
    """JSON geometry in source CRS units (independent lon/lat -> source conversion)."""
    return g_map(case["geom_lonlat"], _chain_tr("4326", case["src"]["label"]))


def _cmp_coords(got, want, rel, what, abs_tol=0.0):
    for path, kind, q, p, _ in g_pairs(got, want):
        require(len(q) == len(p), "%s %s: %d vertices, expected %d", what, path, len(q), len(p))
        for i, (a, b) in enumerate(zip(q, p)):
            require(len(a) == 2, "%s %s: vertex %d has %d ordinates", what, path, i, len(a))
            tol = max(abs_tol, rel * max(abs(b[0]), abs(b[1]), 1.0))
            require(
                abs(a[0] - b[0]) <= tol and abs(a[1] - b[1]) <= tol,
                "%s %s: vertex %d is %r, expected %r (|diff|=%.3g, tol %.3g)", what, path, i, a, b, max(abs(a[0] - b[0]), abs(a[1] - b[1])), tol,
            )


def _crs_is(crs, label):
    return crs is not None and crs.proj == _pp(label)


def _nt_reproj(G):
    if n_chains(G) > 1:
        return True
    ch = next(g_chains(G))[1]
    return any(a[0] != b[0] and a[1] != b[1] for a, b in zip(ch, ch[1:]))


def o_to_crs(case, T):
    a, b = case["src"]["label"], case["dst"]["label"]
    G = _src_geom(case)
    g = _mk_geometry(G, case["src"])
    wkb0 = g.geom.wkb
    out = g.to_crs(mk_crs_spec(case["dst"]))
    require(_crs_is(out.crs, b), "result crs is %r, expected %s", out.crs, b)
    require(out.geom_type == G[0], "geom_type %s, expected %s", out.geom_type, G[0])
    want = g_map(G, _chain_tr(a, b))
    _cmp_coords(shp_to_g(out.geom), want, 1e-12, f"to_crs({a}->{b})")
    require(g.geom.wkb == wkb0 and _crs_is(g.crs, a), "to_crs modified its input")
    kind = kind_of(G)
    T.cls("kind:" + kind)
    T.cls("pair:%s->%s" % (CRS_POOL[a][0][:4], CRS_POOL[b][0][:4]))
    T.cls("spell:%s" % case["dst"]["spell"])
    if _nt_reproj(G):
        T.nontrivial(("to_crs", kind, a, b))


def o_to_crs_options(case, T):
    """Options that do not concern geometries inside the valid areas must not change the faithful result: for a
    geometry whose longitudes stay within +-170 deg, to_crs(..., wrapdateline=True) and to_crs(..., check_and_fix=True)
    must give the same type, part/ring structure and vertices as the plain conversion (the statement's 'maps every
    vertex as the projection library does, preserves geometry type, ring/part structure and vertex order' holds for
    every way of asking for the conversion)."""
    a, b = case["src"]["label"], case["dst"]["label"]
    G = _src_geom(case)
    g = _mk_geometry(G, case["src"])
    want = g_map(G, _chain_tr(a, b))
    for kw in ({"wrapdateline": True}, {"check_and_fix": True}, {"wrapdateline": True, "check_and_fix": True}, {"resolution": float("inf"), "wrapdateline": True}):
        if "check_and_fix" in kw and not g.to_crs(mk_crs_spec(case["dst"])).is_valid:
            continue  # check_and_fix is allowed to repair an invalid result
        out = g.to_crs(mk_crs_spec(case["dst"]), **kw)
        require(_crs_is(out.crs, b), "to_crs(%r): result crs %r, expected %s", kw, out.crs, b)
        require(out.geom_type == G[0], "to_crs(%r): geom_type %s, expected %s (structure must be preserved away from the dateline)", kw, out.geom_type, G[0])
        _cmp_coords(shp_to_g(out.geom), want, 1e-12, f"to_crs({a}->{b}, {kw})")
    kind = kind_of(G)
    T.cls("kind:" + kind)
    T.nontrivial(("to_crs_options", kind, a, b))


def o_round_trip(case, T):
    a, b = case["src"]["label"], case["dst"]["label"]
    G = _src_geom(case)
    g = _mk_geometry(G, case["src"])
    there = g.to_crs(mk_crs_spec(case["dst"]))
    back = there.to_crs(mk_crs_spec(case["back"]))
    require(_crs_is(back.crs, a), "round trip crs is %r, expected %s", back.crs, a)
    tol = 1e-9 if a in GEOGRAPHIC else 1e-6
    _cmp_coords(shp_to_g(back.geom), G, 0.0, f"there-and-back({a}->{b}->{a})", abs_tol=tol)
    kind = kind_of(G)
    T.cls("kind:" + kind)
    T.cls("src:" + CRS_POOL[a][0])
    if _nt_reproj(G):
        T.nontrivial(("round_trip", kind, a, b))


# ----------------------------------------------------------------------------- the point transformer itself
@st.composite
def s_transformer(draw):
    src, dst = _pair_tags(draw)
    x0, y0, x1, y1 = _isect(CRS_POOL[src["label"]][1], CRS_POOL[dst["label"]][1])
    n = draw(_I(1, 6))
    pts = [[x0 + (x1 - x0) * draw(_f(0.0, 1.0)), y0 + (y1 - y0) * draw(_f(0.0, 1.0))] for _ in range(n)]
    return {"src": src, "dst": dst, "lonlat": pts, "authority_order": draw(_S("no", "no", "before", "after"))}


_TR_AUTH: dict = {}


def _authority_order(case, P, T):
    """The same pair requested in authority axis order (always_xy=False) is a different transformer: it must agree
    with pyproj's, and asking for it must not change what the traditional-order transformer / to_crs return."""
    from pyproj import Transformer

    a, b = case["src"]["label"], case["dst"]["label"]
    if (a, b) not in _TR_AUTH:
        _TR_AUTH[(a, b)] = Transformer.from_crs(_pp(a), _pp(b), always_xy=False)
    ref = _TR_AUTH[(a, b)]
    swap_in = _pp(a).axis_info[0].direction in ("north", "south")
    f = mk_crs(case["src"]).transformer_to_crs(mk_crs(case["dst"]), always_xy=False)
    for p in P:
        q = (p[1], p[0]) if swap_in else (p[0], p[1])
        w = ref.transform(q[0], q[1])
        r = f(q[0], q[1])
        tol = 1e-12 * max(abs(w[0]), abs(w[1]), 1.0)
        require(len(r) == 2 and abs(float(r[0]) - w[0]) <= tol and abs(float(r[1]) - w[1]) <= tol,
                "transformer(%s->%s, always_xy=False)(%r, %r) = %r, pyproj (authority axis order) gives %r", a, b, q[0], q[1], r, w)
    T.cls("authority_order_" + case["authority_order"])
    if swap_in or _pp(b).axis_info[0].direction in ("north", "south"):
        T.cls("authority_order_differs_from_xy")


def o_transformer(case, T):
    """CRS.transformer_to_crs (what to_crs maps vertices with): scalars and arrays, inside the valid area."""
    import numpy as np

    a, b = case["src"]["label"], case["dst"]["label"]
    P = _chain_tr("4326", a)(case["lonlat"])
    want = _chain_tr(a, b)(P)
    ao = case.get("authority_order", "no")
    if ao != "no":
        # start the pair's history from an empty transformer cache so that the case replays on its own
        from odc.geo import crs as _crs_mod

        cache = getattr(getattr(_crs_mod, "_make_crs_transform", None), "cache", None)
        if hasattr(cache, "clear"):
            cache.clear()
    if ao == "before" and a != b:
        _authority_order(case, P, T)
    f = mk_crs(case["src"]).transformer_to_crs(mk_crs(case["dst"]))
    if ao == "after" and a != b:
        _authority_order(case, P, T)

    def close(g, w):
        tol = 1e-12 * max(abs(w[0]), abs(w[1]), 1.0)
        return abs(g[0] - w[0]) <= tol and abs(g[1] - w[1]) <= tol

    for p, w in zip(P, want):
        r = f(p[0], p[1])
        require(len(r) == 2 and close((float(r[0]), float(r[1])), w), "transformer(%s->%s)(%r, %r) = %r, pyproj gives %r", a, b, p[0], p[1], r, w)
    xs, ys = np.array([p[0] for p in P]), np.array([p[1] for p in P])
    xs0, ys0 = xs.copy(), ys.copy()
    rx, ry = f(xs, ys)
    require(np.shape(rx) == xs.shape and np.shape(ry) == ys.shape, "array call returned shapes %r %r", np.shape(rx), np.shape(ry))
    for i, w in enumerate(want):
        require(close((float(rx[i]), float(ry[i])), w), "transformer(%s->%s) array element %d = %r, pyproj gives %r", a, b, i, (float(rx[i]), float(ry[i])), w)
    require((xs == xs0).all() and (ys == ys0).all(), "transformer modified its input arrays")
    if a != b:
        from odc.geo import geom as G

        out = G.point(P[0][0], P[0][1], mk_crs(case["src"])).to_crs(mk_crs(case["dst"]))
        gx, gy = out.coords[0]
        require(close((float(gx), float(gy)), want[0]), "point(%r, %r, %s).to_crs(%s) = %r, pyproj gives %r (authority-order transformer requested: %s)",
                P[0][0], P[0][1], a, b, (gx, gy), want[0], ao)
    T.cls("pair:%s->%s" % (CRS_POOL[a][0][:4], CRS_POOL[b][0][:4]))
    T.cls("npts:%d" % min(len(P), 3))
    T.nontrivial(("transformer", a, b, case["src"]["spell"], case["dst"]["spell"]))


# ----------------------------------------------------------------------------- same CRS / no CRS
def _res_arg(draw):
    return draw(_S(None, None, "inf", 0.5, 0.05, 2.0))


@st.composite
def s_same_crs(draw):
    src = draw(crs_tags(allow_none=False))
    dst = draw(crs_tags(labels=[src["label"]], allow_none=False))
    G, _ = _ll_geom(draw, src["label"], CRS_POOL[src["label"]][1])
    return {"src": src, "dst": dst, "geom_lonlat": G, "phi": _res_arg(draw), "kw": draw(_B),
            # optional flags of to_crs and an input that is not OGC-valid (bow-tie / spike / hole outside the shell):
            # "unchanged" means unchanged, there is nothing to fix when nothing was projected
            "opts": draw(st.sampled_from([{}, {}, {"check_and_fix": True}, {"wrapdateline": True}, {"check_and_fix": True, "wrapdateline": True}])),
            "invalid": draw(_S(None, None, None, "bowtie", "spike", "hole_outside"))}


def _invalid_polygon(kind, x0, y0, d):
    import shapely.geometry as sg

    if kind == "bowtie":
        return sg.Polygon([(x0, y0), (x0 + d, y0 + d), (x0 + d, y0), (x0, y0 + d), (x0, y0)])
    if kind == "spike":
        return sg.Polygon([(x0, y0), (x0 + d, y0), (x0 + 2 * d, y0), (x0 + d, y0), (x0 + d, y0 + d), (x0, y0)])
    return sg.Polygon([(x0, y0), (x0 + d, y0), (x0 + d, y0 + d), (x0, y0 + d), (x0, y0)],
                      [[(x0 + 2 * d, y0), (x0 + 3 * d, y0), (x0 + 3 * d, y0 + d), (x0 + 2 * d, y0)]])


def _res_value(phi, G):
    if phi is None:
        return None
    if phi == "inf":
        return math.inf
    D, Lsum, _ = geom_stats(G)
    res = phi * D if D > 0 else float(phi)
    if Lsum / res > 4000:
        res = Lsum / 4000
    return res


def _call_to_crs(g, spec, res, kw):
    if res is None and not kw:
        return g.to_crs(spec)
    if kw:
        return g.to_crs(spec, resolution=res)
    return g.to_crs(spec, res)


def o_same_crs(case, T):
    G = _src_geom(case)
    g = _mk_geometry(G, case["src"])
    if case.get("invalid"):
        from odc.geo.geom import Geometry

        ch = list(g_chains(shp_to_g(g.geom)))
        x0, y0 = ch[0][1][0][:2] if ch and ch[0][1] else (0.0, 0.0)
        d = 1e-3 if CRS_POOL[case["src"]["label"]][0] == "geographic" else 100.0
        g = Geometry(_invalid_polygon(case["invalid"], float(x0), float(y0), d), mk_crs_spec(case["src"]))
        G = shp_to_g(g.geom)
        T.cls("invalid_input:" + case["invalid"])
    before = shp_to_g(g.geom)
    res = _res_value(case["phi"], G)
    opts = case.get("opts") or {}
    if opts:
        out = g.to_crs(mk_crs_spec(case["dst"]), resolution=res, **opts)
        T.cls("opts:" + "+".join(sorted(opts)))
    else:
        out = _call_to_crs(g, mk_crs_spec(case["dst"]), res, case["kw"])
    require(out is g, "to_crs to the same CRS (%s: %s -> %s, resolution=%r) did not return the input object", case["src"]["label"], case["src"]["spell"], case["dst"]["spell"], res)
    require(shp_to_g(out.geom) == before and _crs_is(out.crs, case["src"]["label"]), "to_crs to the same CRS changed the geometry")
    T.cls("spell:same" if case["src"]["spell"] == case["dst"]["spell"] else "spell:different")
    T.cls("label:" + case["src"]["label"])
    T.cls("res:%s" % ("finite" if isinstance(case["phi"], float) else case["phi"]))
    if case["src"]["spell"] != case["dst"]["spell"]:
        T.nontrivial(("same", case["src"]["label"], case["src"]["spell"], case["dst"]["spell"], kind_of(G)))


@st.composite
def s_no_crs(draw):
    dst = draw(crs_tags(allow_none=False))
    G, _ = _ll_geom(draw, dst["label"], CRS_POOL[dst["label"]][1])
    return {"dst": dst, "geom_lonlat": G, "phi": _res_arg(draw), "kw": draw(_B)}


def o_no_crs(case, T):
    G = case["geom_lonlat"]
    g = _mk_geometry(G, None)
    require(g.crs is None, "Geometry(crs=None).crs is %r", g.crs)
    res = _res_value(case["phi"], G)
    try:
        out = _call_to_crs(g, mk_crs_spec(case["dst"]), res, case["kw"])
    except ValueError:
        pass
    else:
        raise Violation("to_crs on a geometry without CRS returned %s (crs %r) instead of raising ValueError" % (type(out).__name__, getattr(out, "crs", None)))
    T.cls("kind:" + kind_of(G))
    T.cls("res:%s" % ("finite" if isinstance(case["phi"], float) else case["phi"]))
    T.nontrivial(("no_crs", kind_of(G), case["dst"]["label"], case["dst"]["spell"], str(case["phi"])))


# ----------------------------------------------------------------------------- densification through to_crs
@st.composite
def s_to_crs_res(draw):
    src, dst = _pair_tags(draw)
    box = _isect(CRS_POOL[src["label"]][1], CRS_POOL[dst["label"]][1])
    G, anch = _ll_geom(draw, src["label"], box)
    how = draw(_S("phi", "phi", "phi", "phi", "none", "inf"))
    if how == "phi":
        phi = 10 ** draw(_u(math.log10(1 / 500), math.log10(3)))
    else:
        phi = None if how == "none" else "inf"
    return {"src": src, "dst": dst, "geom_lonlat": G, "phi": phi, "kw": draw(_B), "anchor": anch}


def o_to_crs_res(case, T):
    a, b = case["src"]["label"], case["dst"]["label"]
    G = _src_geom(case)
    g = _mk_geometry(G, case["src"])
    res = _res_value(case["phi"], G)
    out = _call_to_crs(g, mk_crs_spec(case["dst"]), res, case["kw"])
    require(_crs_is(out.crs, b), "result crs is %r, expected %s", out.crs, b)
    got = shp_to_g(out.geom)
    D, _, _ = geom_stats(G)
    kind = kind_of(G)
    if res is None or math.isinf(res):
        want = g_map(G, _chain_tr(a, b))
        _cmp_coords(got, want, 1e-12, f"to_crs({a}->{b}, resolution={res})")
        n_ins = 0
        rc = res_class(res, D)
        pos = "n/a"
    else:
        # reference densification: segmented(res), itself held to the densification oracle here
        seg = g.segmented(res)
        Gs = shp_to_g(seg.geom)
        n_ins, long_edges = check_densified(G, Gs, res, False, what=f"segmented[{a}]")
        want = g_map(Gs, _chain_tr(a, b))
        _cmp_coords(got, want, 1e-12, f"to_crs({a}->{b}, resolution={res!r}) vs segmented+transform")
        rc = res_class(res, D)
        pos, hug = pos_class(G, res)
        if hug:
            T.cls("long_edge_hugging_axis")
    T.cls("kind:" + kind)
    T.cls(rc)
    T.cls("pos:" + pos)
    T.cls(_count_ins_class(n_ins))
    T.cls("anchor:" + case.get("anchor", "?"))
    if n_ins > 0 or n_chains(G) > 1:
        T.nontrivial(("to_crs_res", kind, pos, a, b, rc))


# ----------------------------------------------------------------------------- fixed regression-style examples
def e_examples(tier):
    """Hand-picked shapes named in the property's motivation (edges on / next to the axes, any direction)."""
    lines = [
        [[0, 0], [0, 100]], [[1, 0], [3, 100]], [[0, 0], [100, 0]], [[0, -50], [0, 50]], [[-1, -50], [1, 50]],
        [[0, 0], [0, -100]], [[0, 0], [-100, 0]], [[0, 0], [60, 80]], [[5, 5], [5, 105]], [[1e6, 1e6], [1e6 + 3, 1e6 + 4]],
        [[1e6, 0], [1e6, 100]], [[0, 1e6], [0, 1e6 + 100]], [[-3, 0], [0, 0], [0, 40], [30, 40]],
    ]
    for ch in lines:
        for res in (10.0, 5.0, 3.0, 100.0, 1.0, 250.0, 7.5):
            yield {"family": "lattice", "unit": 0.125, "crs": None, "geom": ["LineString", [[float(v) for v in p] for p in ch]], "res": res, "placement": "one"}
    box = [[0.0, 0.0], [0.0, 10.0], [10.0, 10.0], [10.0, 0.0], [0.0, 0.0]]
    hole = [[2.0, 2.0], [4.0, 2.0], [4.0, 4.0], [2.0, 4.0], [2.0, 2.0]]
    for res in (1.0, 2.5, 3.0, 20.0):
        yield {"family": "lattice", "unit": 0.125, "crs": {"label": "3857", "spell": "int"}, "geom": ["Polygon", [box, hole]], "res": res, "placement": "one"}
        yield {"family": "lattice", "unit": 0.125, "crs": {"label": "4326", "spell": "str_lower"}, "geom": ["GeometryCollection", [["LinearRing", box], ["GeometryCollection", [["Point", [0.0, 0.0]], ["MultiLineString", [hole, [[0.0, 0.0], [0.0, 9.0]]]]]]]], "res": res, "placement": "one"}


# ----------------------------------------------------------------------------- to_crs after many short-lived CRSs
_TMERC = "+proj=tmerc +lat_0=0 +lon_0=%.3f +k=1 +x_0=0 +y_0=0 +ellps=WGS84 +units=m +no_defs +type=crs"


@st.composite
def s_after_many(draw):
    return {"start": draw(st.integers(-16000, 15000)), "n_fill": draw(st.sampled_from([60, 140, 280, 400])), "dst": draw(st.sampled_from(["4326", "3857", "6933"])),
            "k": draw(st.integers(3, 8)), "pt": [draw(st.integers(-300000, 300000)), draw(st.integers(-4000000, 4000000))]}


def o_after_many(case, T):
    """'maps every vertex exactly as the projection library maps that point' must not depend on how many other CRSs
    were used before: convert from hundreds of distinct short-lived CRSs, drop them, then convert from fresh ones."""
    import gc

    from odc.geo import geom as G
    from odc.geo.crs import CRS
    from pyproj import CRS as P
    from pyproj import Transformer

    dst = CRS("epsg:" + case["dst"])
    x, y = case["pt"]
    tmp = []
    for i in range(case["n_fill"]):
        g = G.point(x, y, CRS(_TMERC % ((case["start"] + i) * 0.01)))
        tmp.append(g.to_crs(dst))
    del tmp, g
    gc.collect()
    for j in range(case["k"]):
        lon0 = (case["start"] + case["n_fill"] + 7 * j + 3) * 0.01 + 0.005
        spec = _TMERC % lon0
        g = G.line([(x, y), (x + 1000, y + 500)], CRS(spec))
        out = g.to_crs(dst)
        ex, ey = Transformer.from_crs(P.from_user_input(spec), P.from_epsg(int(case["dst"])), always_xy=True).transform([x, x + 1000], [y, y + 500])
        for (gx, gy), wx, wy in zip(out.coords, ex, ey):
            require(abs(gx - wx) <= 1e-9 * max(1, abs(wx)) and abs(gy - wy) <= 1e-9 * max(1, abs(wy)),
                    "to_crs from tmerc(lon_0=%.3f) to EPSG:%s gives (%r, %r), a fresh pyproj transformer gives (%r, %r) [after %d other CRSs were used and dropped]",
                    lon0, case["dst"], gx, gy, wx, wy, case["n_fill"])
    T.nontrivial()
    T.cls("fill_%d" % case["n_fill"])


# ----------------------------------------------------------------------------- empty geometries
EMPTY_KINDS = ["Point", "LineString", "LinearRing", "Polygon", "MultiPoint", "MultiLineString", "MultiPolygon", "GeometryCollection"]


def e_empty(tier):
    """Empty geometries (what an intersection of disjoint shapes returns) are first-class values: every clause that
    does not need a vertex still applies to them."""
    pairs = [("4326", "3857"), ("3857", "4326"), ("3577", "4283"), ("32755", "4326"), ("sinu", "4326")]
    for kind in EMPTY_KINDS + ["from_intersection", "collection_of_empties"]:
        for a, b in pairs:
            for res in (None, "auto", 0.5, 1000.0, "inf"):
                for mode in ("to_crs", "to_crs_kw", "no_crs", "same_crs", "segmented"):
                    if mode == "segmented" and not isinstance(res, float):
                        continue
                    yield {"kind": kind, "src": a, "dst": b, "res": res, "mode": mode}


def o_empty(case, T):
    import shapely.geometry as SG

    from odc.geo.geom import Geometry

    kind = case["kind"]
    if kind == "from_intersection":
        shp = SG.box(0, 0, 1, 1).intersection(SG.box(5, 5, 6, 6))
    elif kind == "collection_of_empties":
        shp = SG.GeometryCollection([SG.Polygon(), SG.LineString()])
    else:
        shp = getattr(SG, kind)()
    require(shp.is_empty, "harness: %s not empty", kind)
    res = case["res"]
    res = float("inf") if res == "inf" else res
    src = mk_crs_spec({"label": case["src"], "spell": "proj" if case["src"] == "sinu" else "int"})
    dst = mk_crs_spec({"label": case["dst"], "spell": "proj" if case["dst"] == "sinu" else "int"})
    mode = case["mode"]
    T.cls("mode:" + mode)
    T.cls("kind:" + kind)
    T.nontrivial((kind, mode, str(case["res"])))
    if mode == "no_crs":
        g = Geometry(shp, None)
        try:
            out = g.to_crs(dst, resolution=res)
        except ValueError:
            return
        raise Violation("to_crs on an empty %s without CRS returned %r (crs %r) instead of raising ValueError" % (kind, type(out).__name__, str(getattr(out, "crs", None))[:40]))
    g = Geometry(shp, src)
    if mode == "same_crs":
        out = g.to_crs(src, resolution=res)
        require(out is g, "to_crs to the geometry's own CRS returned a different object for an empty %s", kind)
        return
    if mode == "segmented":
        out = g.segmented(res)
        want_crs = src
    elif mode == "to_crs_kw":
        out = g.to_crs(dst, resolution=res)
        want_crs = dst
    else:
        out = g.to_crs(dst, res) if res is not None else g.to_crs(dst)
        want_crs = dst
    require(isinstance(out, Geometry), "%s of an empty %s returned %r", mode, kind, type(out).__name__)
    require(out.geom.geom_type == shp.geom_type, "%s changed the geometry type of an empty %s to %s", mode, shp.geom_type, out.geom.geom_type)
    require(out.geom.is_empty and out.geom.area == 0 and out.geom.length == 0, "%s of an empty %s is not empty: %s", mode, kind, out.geom.wkt[:80])
    require(out.crs == want_crs, "%s of an empty %s is tagged %r", mode, kind, str(out.crs)[:40])


# ----------------------------------------------------------------------------- CRS handed over as a foreign object
FOREIGN_DEFS = [
    ("utm33_intl", "+proj=utm +zone=33 +ellps=intl +units=m +no_defs", (13.0, 42.0, 17.0, 50.0)),
    ("utm55s_aust_SA", "+proj=utm +zone=55 +south +ellps=aust_SA +units=m +no_defs", (145.0, -40.0, 149.0, -30.0)),
    ("utm33_towgs84", "+proj=utm +zone=33 +ellps=bessel +towgs84=598.1,73.7,418.2,0.202,0.045,-2.455,6.7 +units=m +no_defs", (13.0, 46.0, 17.0, 52.0)),
    ("longlat_intl", "+proj=longlat +ellps=intl +no_defs", (5.0, 40.0, 20.0, 55.0)),
    ("laea_sphere", "+proj=laea +lat_0=52 +lon_0=10 +x_0=4321000 +y_0=3210000 +R=6371007 +units=m +no_defs", (0.0, 45.0, 20.0, 60.0)),
]


def e_foreign(tier):
    """The CRS is a rasterio CRS object built from a definition that merely *resembles* a registered CRS (bare
    ellipsoid instead of the datum, custom towgs84): the object says exactly what it is."""
    for name, proj4, box in FOREIGN_DEFS:
        for role in ("src", "dst"):
            for other in ("4326", "3857", "3035" if box[0] < 100 else "3577"):
                for kind in ("MultiPoint", "Polygon"):
                    yield {"name": name, "proj4": proj4, "box": list(box), "role": role, "other": other, "kind": kind}


def o_foreign(case, T):
    import rasterio.crs
    import shapely.geometry as SG
    from pyproj import CRS as P
    from pyproj import Transformer

    from odc.geo.geom import Geometry

    rio = rasterio.crs.CRS.from_string(case["proj4"])
    ref = P.from_user_input(case["proj4"])
    x0, y0, x1, y1 = case["box"]
    ll = [(x0 + (x1 - x0) * u, y0 + (y1 - y0) * v) for u, v in ((0.1, 0.1), (0.9, 0.2), (0.8, 0.85), (0.15, 0.7), (0.5, 0.5))]
    other_pp = _pp(case["other"])
    other_spec = mk_crs_spec({"label": case["other"], "spell": "int"})
    if case["role"] == "src":
        pts = [Transformer.from_crs(4326, ref, always_xy=True).transform(x, y) for x, y in ll]
        src_spec, dst_spec, tr = rio, other_spec, Transformer.from_crs(ref, other_pp, always_xy=True)
    else:
        pts = [Transformer.from_crs(4326, other_pp, always_xy=True).transform(x, y) for x, y in ll]
        src_spec, dst_spec, tr = other_spec, rio, Transformer.from_crs(other_pp, ref, always_xy=True)
    shp = SG.MultiPoint(pts) if case["kind"] == "MultiPoint" else SG.Polygon(pts[:4])
    g = Geometry(shp, src_spec)
    out = g.to_crs(dst_spec)
    got = [(p.x, p.y) for p in out.geom.geoms] if case["kind"] == "MultiPoint" else list(out.geom.exterior.coords)[:-1]
    want = [tr.transform(x, y) for x, y in (pts if case["kind"] == "MultiPoint" else pts[:4])]
    require(len(got) == len(want), "vertex count changed")
    for i, (q, w) in enumerate(zip(got, want)):
        tol = 1e-6 * max(1.0, abs(w[0]), abs(w[1])) * 1e-3 + (1e-9 if max(abs(w[0]), abs(w[1])) < 400 else 1e-4)
        require(abs(q[0] - w[0]) <= tol and abs(q[1] - w[1]) <= tol, "%s as %s (CRS handed over as a rasterio object) <-> %s: vertex %d maps to (%.9g, %.9g), the projection library gives (%.9g, %.9g) for the identical definition",
                case["name"], case["role"], case["other"], i, q[0], q[1], w[0], w[1])
    T.nontrivial((case["name"], case["role"], case["other"], case["kind"]))
    T.cls("foreign:" + case["name"])


# ----------------------------------------------------------------------------- the edge of the world
def e_world_edges(tier):
    """Geometries that touch the +-180 degree meridian / the edge of a global projection: the last column of a global
    grid, world-wide bounding boxes (the Web-Mercator world square maps to lon +-180 exactly)."""
    rings = {
        "east_strip": [[170.0, -20.0], [180.0, -20.0], [180.0, -10.0], [170.0, -10.0]],
        "west_strip": [[-180.0, 10.0], [-170.0, 10.0], [-170.0, 20.0], [-180.0, 20.0]],
        "world": [[-180.0, -85.0], [180.0, -85.0], [180.0, 85.0], [-180.0, 85.0]],
        "east_half": [[0.0, -60.0], [180.0, -60.0], [180.0, 60.0], [0.0, 60.0]],
    }
    for name, ring in rings.items():
        for a, b in (("4326", "3857"), ("3857", "4326"), ("4326", "6933"), ("6933", "4326"), ("4326", "sinu"), ("sinu", "4326"), ("3857", "6933")):
            for kind in ("Polygon", "LineString", "MultiPoint"):
                yield {"name": name, "ring": ring, "src": a, "dst": b, "kind": kind}


def o_world_edges(case, T):
    """'maps every vertex exactly as the projection library maps that point' and 'there and back returns the original
    coordinates' also hold on the rim of the valid area (lon = +-180)."""
    import shapely.geometry as SG
    from pyproj import Transformer

    from odc.geo.geom import Geometry

    a, b = case["src"], case["dst"]
    ring = [tuple(p) for p in case["ring"]]
    ta = Transformer.from_crs(_pp("4326"), _pp(a), always_xy=True)
    src_pts = [ta.transform(x, y) for x, y in ring] if a != "4326" else ring
    if not all(math.isfinite(v) for p in src_pts for v in p):
        T.exclude("rim_not_projectable")
        return
    shp = {"Polygon": lambda: SG.Polygon(src_pts), "LineString": lambda: SG.LineString(src_pts), "MultiPoint": lambda: SG.MultiPoint(src_pts)}[case["kind"]]()
    g = Geometry(shp, mk_crs_spec({"label": a, "spell": "proj" if a == "sinu" else "int"}))
    dst = mk_crs_spec({"label": b, "spell": "proj" if b == "sinu" else "int"})
    out = g.to_crs(dst)
    tr = Transformer.from_crs(_pp(a), _pp(b), always_xy=True)
    want = [tr.transform(x, y) for x, y in src_pts]
    if case["kind"] == "Polygon":
        got = list(out.geom.exterior.coords)[:-1]
    elif case["kind"] == "LineString":
        got = list(out.geom.coords)
    else:
        got = [(p.x, p.y) for p in out.geom.geoms]
    require(out.geom.geom_type == shp.geom_type and len(got) == len(want), "%s %s->%s: type/vertex count changed (%s, %d vertices)", case["name"], a, b, out.geom.geom_type, len(got))
    scale = 1.0 if b in ("4326",) else 1.0
    for i, (q, w) in enumerate(zip(got, want)):
        if not all(math.isfinite(v) for v in w):
            continue
        tol = 1e-9 * max(1.0, abs(w[0]), abs(w[1])) * scale
        require(abs(q[0] - w[0]) <= tol and abs(q[1] - w[1]) <= tol, "%s %s->%s: vertex %d maps to (%.12g, %.12g), the projection library gives (%.12g, %.12g)", case["name"], a, b, i, q[0], q[1], w[0], w[1])
    # there and back
    back = out.to_crs(g.crs)
    if case["kind"] == "Polygon":
        gb = list(back.geom.exterior.coords)[:-1]
    elif case["kind"] == "LineString":
        gb = list(back.geom.coords)
    else:
        gb = [(p.x, p.y) for p in back.geom.geoms]
    tb = Transformer.from_crs(_pp(b), _pp(a), always_xy=True)
    for i, (q, w, p0) in enumerate(zip(gb, want, src_pts)):
        if not all(math.isfinite(v) for v in w):
            continue
        ref = tb.transform(*w)  # what the library itself returns for the way back
        tol = 1e-6 if a != "4326" else 1e-9
        require(abs(q[0] - ref[0]) <= tol * max(1.0, abs(ref[0])) and abs(q[1] - ref[1]) <= tol * max(1.0, abs(ref[1])), "%s %s->%s->%s: vertex %d comes back as (%.12g, %.12g), the projection library's round trip gives (%.12g, %.12g) (started at (%.12g, %.12g))", case["name"], a, b, a, i, q[0], q[1], ref[0], ref[1], p0[0], p0[1])
    T.nontrivial((case["name"], a, b, case["kind"]))
    T.cls("rim:" + case["name"])


def build(chk: Check) -> None:
    chk.sub("to_crs_options", o_to_crs_options, strategy=s_to_crs(), n={"quick": 1200, "thorough": 40000}, budget_s={"quick": 40, "thorough": 200})
    chk.sub("to_crs_after_many_crs", o_after_many, strategy=s_after_many(), n={"quick": 40, "thorough": 1500}, budget_s={"quick": 40, "thorough": 200}, shrink=False)
    # budgets are per sub-check per shard; their sum bounds the tier's wall time (quick 90 s, thorough 15 min)
    chk.sub("foreign_crs_objects", o_foreign, enum=e_foreign, exhaustive_tiers=("quick", "thorough"))
    chk.sub("world_edges", o_world_edges, enum=e_world_edges, exhaustive_tiers=("quick", "thorough"))
    chk.sub("empty_geometries", o_empty, enum=e_empty, exhaustive_tiers=("quick", "thorough"))
    chk.sub("segmented_examples", o_segmented, enum=e_examples, exhaustive_tiers=("quick", "thorough"))
    chk.sub("segmented", o_segmented, cov={"quick": 1500, "thorough": 100000}, strategy=s_segmented(), n={"quick": 6000, "thorough": 250000}, budget_s={"quick": 26, "thorough": 310})
    chk.sub("to_crs", o_to_crs, strategy=s_to_crs(), n={"quick": 3000, "thorough": 120000}, budget_s={"quick": 15, "thorough": 150})
    chk.sub("transformer", o_transformer, strategy=s_transformer(), n={"quick": 800, "thorough": 30000}, budget_s={"quick": 6, "thorough": 30})
    chk.sub("round_trip", o_round_trip, strategy=s_to_crs(), n={"quick": 1500, "thorough": 60000}, budget_s={"quick": 10, "thorough": 90})
    chk.sub("same_crs", o_same_crs, strategy=s_same_crs(), n={"quick": 1500, "thorough": 50000}, budget_s={"quick": 7, "thorough": 60})
    chk.sub("no_crs", o_no_crs, strategy=s_no_crs(), n={"quick": 500, "thorough": 20000}, budget_s={"quick": 4, "thorough": 30})
    chk.sub("to_crs_resolution", o_to_crs_res, strategy=s_to_crs_res(), n={"quick": 2500, "thorough": 100000}, budget_s={"quick": 22, "thorough": 230})
