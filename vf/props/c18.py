"""C18 - part writers: upload initiated exactly once under every interleaving; sinks honour their contract.

Two halves:

* **Schedules** (``sched_random``, ``sched_dfs2``).  A deterministic cooperative schedule controller
  (:class:`Sched`) runs 2-3 workers, each a real thread, such that exactly one of them runs between *yield points*.
  Yield points are installed from outside the code under test: a ``MultiPartUpload`` subclass whose ``uploadId`` is a
  property (yield before every read/write when the object is shared between workers) and whose ``s3_client()``
  returns an in-memory fake S3 (yield before every call); an instrumented lock class that replaces
  ``threading.Lock`` inside ``odc.geo.cog._s3`` (yield before acquire and before release, a held lock makes the
  worker non-runnable); in-memory ``distributed.Variable`` / ``distributed.Lock`` / client fakes keyed by name (yield
  before get/set/delete/acquire/release).  Which runnable worker goes next is decided by a list of ints that is part
  of the JSON case; forced moves (one runnable worker) consume no choice, so the list *is* the path in the schedule
  tree, which ``sched_dfs2`` enumerates depth first for two workers.
* **Sinks** (``sink_finalise``, ``sink_limits``, ``s3_limits``): MPUFileSink finalisation against a byte-level model
  and the limit accessors of every writer.

No wall-clock verdicts: the only timeout is a generous safety net that reports a *harness error*.
"""
from __future__ import annotations

import atexit
import contextlib
import hashlib
import inspect
import itertools
import os
import pickle
import shutil
import tempfile
import threading
import traceback
from pathlib import Path
from typing import Any, Callable, Dict, List, Optional

from hypothesis import strategies as st

from vf.common import REPO, Check, HarnessError, Violation, require

RULE = (
    "Schedules: 2-3 workers each perform 1-2 first writes through DelayedS3Writer in one of three set-ups (local = one "
    "shared writer, no dask client; cluster = one pickled copy per worker + fake client/Variable/Lock; cluster_shared "
    "= fake client and some workers sharing one copy), followed by an optional finalise by one of the workers or by "
    "a fresh copy. Workers are real threads gated so that one runs between yield points (uploadId read/write on "
    "shared objects, lock acquire/release, Variable get/set/delete, every fake-S3 call); the next runnable worker is "
    "taken from a Hypothesis-drawn choice list (sched_random) or from depth-first enumeration of the complete "
    "two-worker schedule tree of each set-up, split into 64 subtrees by the first 6 decisions (sched_dfs2; the quick "
    "tier stops after 150 schedules per subtree, the thorough tier explores every schedule - class subtree_truncated "
    "must be 0 for the exhaustive flag to mean anything; 'schedules' in classes is the number of schedules run). "
    "Non-trivial schedule: >=2 workers executed a shared-state step before the first create_multipart_upload was "
    "executed; distinct = distinct (set-up, executed worker order). "
    "Sinks: MPUFileSink with 1-12 parts of 0..64KiB, arbitrary distinct part numbers, any order of writing and of the "
    "list given to finalise, parts dir beside/elsewhere, keep_parts, pickled clones; every subset of the four limit "
    "kwargs; S3 classes' accessors. Non-trivial: >=2 parts / >=1 configured limit."
)
ASSUMPTIONS = [
    "interleavings are controlled at the instrumented yield points only, under CPython's sequentially consistent execution",
    "fake S3: create returns a fresh UploadId; upload_part/complete for an unknown UploadId fail with NoSuchUpload; "
    "complete validates PartNumber/ETag pairs",
    "fake distributed.Variable.get(timeout) on an unset/deleted variable raises TimeoutError at once (any later set is "
    "covered by the schedule in which the get runs after it); fake Lock is a plain named mutex",
    "the fake Variable/Lock constructors bind their arguments with the signatures of the installed distributed classes; a "
    "client bound to a parameter other than 'client' fails on first use the way distributed 2026.8 does (AttributeError)",
    "finalise runs after all concurrent writes have returned (it needs their results; the dask graph orders it so)",
    "S3 service limits (AWS documentation): part size 5 MiB..5 GiB, part numbers 1..10000; S3 writers must report "
    "limits inside these bounds",
    "a limit that was not configured is reported as whatever an unconfigured sink reports (metamorphic, no constants)",
]
SHARDS = {"quick": 4, "thorough": 16}

SAFETY_TIMEOUT_S = 300.0  # a worker that does not come back in this time => harness error (never a violation)
MAX_STEPS = 600  # per schedule; correct code needs < 80

_REPO_ODC = os.path.join(os.path.realpath(REPO), "odc")


# ===================================================================================================
# schedule controller
# ===================================================================================================
class _Abort(BaseException):
    """Raised inside parked workers to unwind them when a schedule is abandoned."""


class _Worker:
    __slots__ = ("idx", "fn", "go", "done", "exc", "blocked_on", "thread")

    def __init__(self, idx: int, fn: Callable[[], Any]):
        self.idx = idx
        self.fn = fn
        self.go = threading.Semaphore(0)
        self.done = False
        self.exc: Optional[BaseException] = None
        self.blocked_on: Any = None
        self.thread: Optional[threading.Thread] = None


class Sched:
    """Runs worker callables as threads, one at a time, switching only at yield points.

    ``choices[k]`` picks (modulo the number of runnable workers, which are ordered by index) who runs at the k-th
    *decision*, i.e. the k-th time more than one worker is runnable; when the list is exhausted the lowest-numbered
    runnable worker continues.  ``made``/``branch`` record the decisions taken and the number of alternatives, which
    is what depth-first enumeration needs; ``order`` is the executed sequence of worker indices; ``trace`` the
    executed (worker, label) steps.
    """

    def __init__(self, choices: List[int]):
        self.choices = list(choices)
        self.workers: List[_Worker] = []
        self.ctl = threading.Semaphore(0)
        self.tls = threading.local()
        self.trace: List[tuple] = []
        self.made: List[int] = []
        self.branch: List[int] = []
        self.order: List[int] = []
        self.aborted = False
        self.deadlock: Optional[str] = None
        self.step_bound_hit = False

    # ---------------------------------------------------------------- worker side
    def me(self) -> Optional[_Worker]:
        return getattr(self.tls, "w", None)

    def _park(self, w: _Worker) -> None:
        self.ctl.release()
        w.go.acquire()
        if self.aborted:
            raise _Abort()

    def yield_point(self, label: str) -> None:
        w = self.me()
        if w is None or self.aborted:
            return
        self._park(w)
        self.trace.append((w.idx, label))

    def block_on(self, w: _Worker, res: Any, label: str) -> None:
        """Park until the controller sees ``res.is_free()`` and picks us again."""
        if self.aborted:
            raise _Abort()
        w.blocked_on = res
        try:
            self._park(w)
        finally:
            w.blocked_on = None
        self.trace.append((w.idx, label))

    def _main(self, w: _Worker) -> None:
        self.tls.w = w
        w.go.acquire()
        try:
            if not self.aborted:
                w.fn()
        except _Abort:
            pass
        except BaseException as e:  # noqa: BLE001 - reported by the oracle
            if not self.aborted:  # whatever happens while an abandoned schedule unwinds is not an observation
                w.exc = e
        finally:
            w.done = True
            self.ctl.release()

    # ---------------------------------------------------------------- controller side
    def _step(self, w: _Worker) -> None:
        w.go.release()
        if not self.ctl.acquire(timeout=SAFETY_TIMEOUT_S):
            raise HarnessError(
                f"worker {w.idx} did not reach a yield point within {SAFETY_TIMEOUT_S}s "
                f"(blocked on something the harness does not control?) trace={fmt_trace(self.trace)}"
            )

    def run(self, fns: List[Callable[[], Any]]) -> None:
        self.workers = [_Worker(i, fn) for i, fn in enumerate(fns)]
        for w in self.workers:
            w.thread = threading.Thread(target=self._main, args=(w,), daemon=True, name=f"vf-c18-w{w.idx}")
            w.thread.start()
        patience = SAFETY_TIMEOUT_S
        try:
            # warm-up: code before the first yield point touches no shared state; no decision is spent on it
            for w in self.workers:
                self._step(w)
            while True:
                alive = [w for w in self.workers if not w.done]
                if not alive:
                    break
                runnable = [w for w in alive if w.blocked_on is None or w.blocked_on.is_free()]
                if not runnable:
                    self.deadlock = ", ".join(f"w{w.idx} waits for {w.blocked_on.describe()}" for w in alive)
                    break
                if len(runnable) == 1:
                    w = runnable[0]
                else:
                    k = len(self.made)
                    c = self.choices[k] % len(runnable) if k < len(self.choices) else 0
                    self.made.append(c)
                    self.branch.append(len(runnable))
                    w = runnable[c]
                if len(self.order) >= MAX_STEPS:
                    self.step_bound_hit = True
                    break
                self.order.append(w.idx)
                self._step(w)
        except HarnessError:
            patience = 5.0  # a worker is stuck already; do not wait long for it again
            raise
        finally:
            if any(not w.done for w in self.workers):
                self.aborted = True
                for w in self.workers:
                    w.go.release()
            for w in self.workers:
                w.thread.join(patience)
                if w.thread.is_alive() and patience == SAFETY_TIMEOUT_S:
                    raise HarnessError(f"worker thread {w.idx} could not be stopped")


def fmt_trace(trace: List[tuple], limit: int = 330) -> str:
    s = " ".join(f"{i}:{lab}" for i, lab in trace)
    return s if len(s) <= limit else s[: limit - 3] + "..."


# ---------------------------------------------------------------------------------------------------
# the current context (one scenario at a time per process)
# ---------------------------------------------------------------------------------------------------
class _Ctx:
    def __init__(self, with_client: bool):
        self.s3 = FakeS3()
        self.vars: Dict[str, Any] = {}
        self.dlocks: Dict[str, "_NamedLock"] = {}
        self.client = FakeClient() if with_client else None
        self.sched: Optional[Sched] = None


_CTX: Optional[_Ctx] = None


def _sched() -> Optional[Sched]:
    return _CTX.sched if _CTX is not None else None


def _yield(label: str) -> None:
    s = _sched()
    if s is not None:
        s.yield_point(label)


def _who() -> int:
    s = _sched()
    w = s.me() if s is not None else None
    return -1 if w is None else w.idx


def _wait_free(res: Any, label: str) -> bool:
    """Block the calling worker until ``res`` is free.  False when called outside a schedule."""
    s = _sched()
    w = s.me() if s is not None else None
    if w is None:
        return False
    s.block_on(w, res, label)
    return True


# ---------------------------------------------------------------------------------------------------
# instrumented process-local lock (stands in for threading.Lock inside odc.geo.cog._s3)
# ---------------------------------------------------------------------------------------------------
class ILock:
    def __init__(self):
        self._held = False

    def is_free(self) -> bool:
        return not self._held

    def describe(self) -> str:
        return "the process-local lock"

    def acquire(self, blocking: bool = True, timeout: float = -1) -> bool:
        _yield("L.acq")
        while self._held:
            if not blocking:
                return False
            if not _wait_free(self, "L.got"):
                raise HarnessError("process-local lock is held outside of a schedule")
        self._held = True
        return True

    def release(self) -> None:
        _yield("L.rel")
        if not self._held:
            raise RuntimeError("release unlocked lock")
        self._held = False

    def locked(self) -> bool:
        return self._held

    def __enter__(self):
        self.acquire()
        return True

    def __exit__(self, *exc):
        self.release()


# ---------------------------------------------------------------------------------------------------
# fake distributed: client, Variable, Lock
# ---------------------------------------------------------------------------------------------------
class FakeClient:
    """Stands for a ``distributed.Client``; the fakes below find the cluster state through ``_CTX``."""

    scheduler = "fake-scheduler-rpc"
    loop = None

    def __reduce__(self):
        return (_current_client, ())


# Constructor signatures of the *installed* distributed.Variable / distributed.Lock, captured before patching: the
# fakes accept exactly the calls the real classes accept and notice a client that lands in a non-client parameter.
_REAL_SIGS: Dict[str, Any] = {}


def _capture_real_signatures(distributed) -> None:
    if _REAL_SIGS:
        return
    for kind in ("Variable", "Lock"):
        cls = getattr(distributed, kind)
        if cls in (FakeVariable, FakeDLock):
            raise HarnessError("distributed is already patched")
        _REAL_SIGS[kind] = inspect.signature(cls.__init__)


def _bind_like_installed(kind: str, args, kwargs):
    """(arguments, name of the parameter that received the client or None); TypeError as the real class would."""
    ba = _REAL_SIGS[kind].bind(None, *args, **kwargs)
    ba.apply_defaults()
    to = None
    for k, v in ba.arguments.items():
        if isinstance(v, FakeClient):
            to = k
    return ba.arguments, to


def _misplaced_client(kind: str, param: str) -> Exception:
    # what the installed distributed (2026.8) does on first use of Lock(name, <Client>): the second positional
    # parameter is ``scheduler_rpc`` there, and a Client is not an rpc
    return AttributeError(
        f"'Client' object has no attribute 'semaphore_register' [installed distributed.{kind} got the client as {param!r}]"
    )


def _current_client():
    return _CTX.client if _CTX is not None else None


def _fake_get_client(*a, **kw):
    c = _current_client()
    if c is None:
        raise ValueError("No global client found and no address provided")
    return c


class _VarIsSet:
    def __init__(self, name):
        self.name = name

    def is_free(self) -> bool:
        return self.name in _CTX.vars

    def describe(self) -> str:
        return f"Variable {self.name[:24]} to be set"


class FakeVariable:
    def __init__(self, *args, **kwargs):
        a, to = _bind_like_installed("Variable", args, kwargs)
        self.name = a.get("name")
        self._client_as = to if to not in (None, "client") else None

    def _use(self) -> None:
        if self._client_as is not None:
            raise _misplaced_client("Variable", self._client_as)

    def set(self, value, **kw) -> None:
        _yield("v.set")
        self._use()
        _CTX.vars[self.name] = value

    def get(self, timeout=None, **kw):
        _yield("v.get")
        self._use()
        while self.name not in _CTX.vars:
            if timeout is not None:
                raise TimeoutError(f"Variable {self.name} not set")
            if not _wait_free(_VarIsSet(self.name), "v.got"):
                raise HarnessError("Variable.get() without timeout on an unset variable outside of a schedule")
        return _CTX.vars[self.name]

    def delete(self) -> None:
        _yield("v.del")
        self._use()
        _CTX.vars.pop(self.name, None)

    def __reduce__(self):
        return (FakeVariable, (self.name,))


class _NamedLock:
    def __init__(self, name):
        self.name = name
        self.held = False

    def is_free(self) -> bool:
        return not self.held

    def describe(self) -> str:
        return f"distributed Lock {self.name[:24]}"


class FakeDLock:
    def __init__(self, *args, **kwargs):
        a, to = _bind_like_installed("Lock", args, kwargs)
        self.name = a.get("name")
        self._client_as = to if to not in (None, "client") else None

    def _nl(self) -> _NamedLock:
        return _CTX.dlocks.setdefault(self.name, _NamedLock(self.name))

    def acquire(self, blocking=True, timeout=None) -> bool:
        _yield("D.acq")
        if self._client_as is not None:
            raise _misplaced_client("Lock", self._client_as)
        nl = self._nl()
        while nl.held:
            if not blocking:
                return False
            if not _wait_free(nl, "D.got"):
                raise HarnessError("distributed lock is held outside of a schedule")
        nl.held = True
        return True

    def release(self) -> None:
        _yield("D.rel")
        nl = self._nl()
        if not nl.held:
            raise ValueError("Lock is not yet acquired")
        nl.held = False

    def locked(self) -> bool:
        return self._nl().held

    def __enter__(self):
        self.acquire()
        return self

    def __exit__(self, *exc):
        self.release()


# ---------------------------------------------------------------------------------------------------
# fake S3
# ---------------------------------------------------------------------------------------------------
class FakeS3Error(Exception):
    def __init__(self, code: str, op: str):
        super().__init__(f"An error occurred ({code}) when calling the {op} operation")
        self.code = code


class FakeS3:
    """In-memory model of the multi-part part of the S3 API (keyword-only like a botocore client)."""

    def __init__(self):
        self.calls: List[dict] = []
        self.uploads: Dict[str, dict] = {}
        self.objects: Dict[tuple, bytes] = {}

    def _active(self, op, Bucket, Key, UploadId) -> dict:
        u = self.uploads.get(UploadId)
        if u is None or not u["open"] or (u["bucket"], u["key"]) != (Bucket, Key):
            raise FakeS3Error("NoSuchUpload", op)
        return u

    def create_multipart_upload(self, *, Bucket, Key, **kw):
        _yield("s3.create")
        uid = f"UPLOAD-{len(self.uploads) + 1}"
        self.uploads[uid] = {"bucket": Bucket, "key": Key, "open": True, "parts": {}}
        self.calls.append({"op": "create", "w": _who(), "Bucket": Bucket, "Key": Key, "UploadId": uid, "kw": kw})
        return {"Bucket": Bucket, "Key": Key, "UploadId": uid}

    def upload_part(self, *, PartNumber, Body, Bucket, Key, UploadId, **kw):
        _yield("s3.upload")
        body = bytes(Body)
        self.calls.append({"op": "upload", "w": _who(), "Bucket": Bucket, "Key": Key, "UploadId": UploadId,
                           "PartNumber": PartNumber, "Body": body})
        u = self._active("UploadPart", Bucket, Key, UploadId)
        etag = '"%s"' % hashlib.md5(body).hexdigest()
        u["parts"][PartNumber] = (etag, body)
        return {"ETag": etag}

    def complete_multipart_upload(self, *, Bucket, Key, UploadId, MultipartUpload, **kw):
        _yield("s3.complete")
        parts = list(MultipartUpload["Parts"])
        self.calls.append({"op": "complete", "w": _who(), "Bucket": Bucket, "Key": Key, "UploadId": UploadId,
                           "Parts": parts})
        u = self._active("CompleteMultipartUpload", Bucket, Key, UploadId)
        data = b""
        last = None
        for p in parts:
            have = u["parts"].get(p["PartNumber"])
            if have is None or have[0] != p["ETag"]:
                raise FakeS3Error("InvalidPart", "CompleteMultipartUpload")
            if last is not None and p["PartNumber"] <= last:
                raise FakeS3Error("InvalidPartOrder", "CompleteMultipartUpload")
            last = p["PartNumber"]
            data += have[1]
        u["open"] = False
        self.objects[(Bucket, Key)] = data
        return {"Bucket": Bucket, "Key": Key, "ETag": '"%s-%d"' % (hashlib.md5(data).hexdigest(), len(parts))}

    def abort_multipart_upload(self, *, Bucket, Key, UploadId, **kw):
        _yield("s3.abort")
        self.calls.append({"op": "abort", "w": _who(), "Bucket": Bucket, "Key": Key, "UploadId": UploadId})
        self._active("AbortMultipartUpload", Bucket, Key, UploadId)["open"] = False
        return {}

    def list_multipart_uploads(self, *, Bucket, Prefix="", **kw):
        _yield("s3.list")
        ups = [{"UploadId": uid, "Key": u["key"]} for uid, u in self.uploads.items()
               if u["open"] and u["bucket"] == Bucket and u["key"].startswith(Prefix)]
        return {"Uploads": ups} if ups else {}


# ---------------------------------------------------------------------------------------------------
# code under test, instrumented from outside
# ---------------------------------------------------------------------------------------------------
_MPU_CLS = None


def _mpu_cls():
    """MultiPartUpload with a fake client and an observable uploadId (built lazily, importable for pickle)."""
    global _MPU_CLS
    if _MPU_CLS is not None:
        return _MPU_CLS
    from odc.geo.cog._s3 import MultiPartUpload

    class InstrumentedMPU(MultiPartUpload):
        _vf_shared = False  # set on instances that more than one worker holds

        def s3_client(self):  # how the code obtains its client: self.s3_client()
            return _CTX.s3

        @property
        def uploadId(self) -> str:
            if self._vf_shared:
                _yield("id.r")
            return self.__dict__["_vf_uid"]

        @uploadId.setter
        def uploadId(self, v: str) -> None:
            if self._vf_shared:
                _yield("id.w")
            self.__dict__["_vf_uid"] = v

    InstrumentedMPU.__module__ = __name__
    InstrumentedMPU.__qualname__ = "InstrumentedMPU"
    globals()["InstrumentedMPU"] = InstrumentedMPU
    _MPU_CLS = InstrumentedMPU
    return _MPU_CLS


class YDict(dict):
    """The module-level lock registry of _s3 with a yield point before every (atomic) access, so that check-then-act
    sequences on it are interleaved too."""

    def get(self, k, d=None):
        _yield("R.get")
        return dict.get(self, k, d)

    def setdefault(self, k, d=None):
        _yield("R.setdefault")
        return dict.setdefault(self, k, d)

    def __getitem__(self, k):
        _yield("R.getitem")
        return dict.__getitem__(self, k)

    def __setitem__(self, k, v):
        _yield("R.setitem")
        dict.__setitem__(self, k, v)

    def __contains__(self, k):
        _yield("R.contains")
        return dict.__contains__(self, k)


@contextlib.contextmanager
def _installed(ctx: _Ctx):
    """Patch the seams of odc.geo.cog._s3 / distributed for one scenario; restore everything afterwards."""
    global _CTX
    import distributed
    from odc.geo.cog import _s3 as S3

    if _CTX is not None:
        raise HarnessError("nested scenario")
    _capture_real_signatures(distributed)
    saved_state_obj = S3._state
    saved_state = dict(S3._state)
    saved = [(S3, n, getattr(S3, n)) for n in ("_dask_client", "Lock") if hasattr(S3, n)]
    saved += [(distributed, n, getattr(distributed, n)) for n in ("get_client", "Variable", "Lock")]
    real_lock_t = type(threading.Lock())
    for n, v in list(vars(S3).items()):
        if isinstance(v, real_lock_t):  # a module-level lock object, should a future version have one
            saved.append((S3, n, v))
            setattr(S3, n, ILock())
    _CTX = ctx
    try:
        S3._state = YDict()  # the lock registry, empty: the lock is re-created (as an ILock) on first use
        if hasattr(S3, "_dask_client"):
            S3._dask_client = _current_client
        S3.Lock = ILock
        distributed.get_client = _fake_get_client
        distributed.Variable = FakeVariable
        distributed.Lock = FakeDLock
        yield ctx
    finally:
        for mod, n, v in saved:
            setattr(mod, n, v)
        S3._state = saved_state_obj
        S3._state.clear()
        S3._state.update(saved_state)
        _CTX = None


BUCKET, KEY = "vf-bucket", "some/dir/object.tif"


def _part_data(w: int, j: int) -> bytes:
    return (b"worker%d-write%d|" % (w, j)) * 3


class _Run:
    """Everything observed in one scenario execution."""

    def __init__(self):
        self.ctx: Optional[_Ctx] = None
        self.sched: Optional[Sched] = None
        self.sched_fin: Optional[Sched] = None
        self.plan: List[List[tuple]] = []
        self.results: List[List[Any]] = []
        self.fin_result: Any = None
        self.fin_parts: Optional[List[Any]] = None


def run_scenario(case: dict, choices: List[int]) -> _Run:
    mode, share, writes, fin = case["mode"], case["share"], case["writes"], case["fin"]
    nw = len(share)
    run = _Run()
    ctx = _Ctx(with_client=(mode != "local"))
    run.ctx = ctx
    with _installed(ctx):
        kw = {"ContentType": "image/tiff"}
        if case.get("stale") and mode != "local":
            # history: an earlier upload of the same object on this cluster was abandoned before finalise/cleanup, so
            # its shared variable still holds the old upload id when the new writer is prepared
            from odc.geo.cog import _s3 as S3

            old = S3.DelayedS3Writer(_mpu_cls()(BUCKET, KEY), kw)
            ctx.vars[old._build_name("MPUpload")] = "abandoned-upload-id"
        if case.get("earlier_upload"):
            # history: the same object was already written once in this process (and on this cluster), start to
            # finish; whatever that left behind must not be mistaken for the new upload
            from odc.geo.cog import _s3 as S3

            prev_mpu = _mpu_cls()(BUCKET, KEY)
            prev = prev_mpu.writer(kw, client=ctx.client) if mode != "local" else prev_mpu.writer(kw)
            rec = prev(2, b"earlier upload of the same object" * 200)
            prev.finalise([rec])
            if not any(c["op"] == "complete" for c in ctx.s3.calls):
                raise HarnessError("earlier upload did not complete")
            ctx.s3.calls.clear()
        mpu = _mpu_cls()(BUCKET, KEY)
        late = bool(case.get("late_client")) and mode != "local"
        if late:
            # history: the writer (the graph) is built before the cluster exists, so nothing prepared the shared
            # variable; the workers that later run it do have a client and must still elect one initiator
            the_client, ctx.client = ctx.client, None
            w0 = mpu.writer(kw)
            ctx.client = the_client
        elif mode != "local" and case.get("explicit_client", True):
            w0 = mpu.writer(kw, client=ctx.client)
        else:
            w0 = mpu.writer(kw)
        if mode == "local":
            objs = {0: w0}
            fresh = w0
        else:
            blob = pickle.dumps(w0)  # what a cluster does with the writer embedded in the graph
            objs = {g: pickle.loads(blob) for g in sorted(set(share))}
            fresh = pickle.loads(blob)
        for g, o in objs.items():
            o.mpu._vf_shared = share.count(g) > 1
        run.plan = [[(2 + 2 * i + j, _part_data(i, j)) for j in range(writes[i])] for i in range(nw)]
        run.results = [[] for _ in range(nw)]

        def mk(i):
            def fn():
                wr = objs[share[i]]
                for pn, data in run.plan[i]:
                    run.results[i].append(wr(pn, data))

            return fn

        run.sched = ctx.sched = Sched(choices)
        run.sched.run([mk(i) for i in range(nw)])
        clean = (
            run.sched.deadlock is None
            and not run.sched.step_bound_hit
            and all(w.exc is None for w in run.sched.workers)
        )
        if clean and fin >= 0:
            parts = sorted((r for rr in run.results for r in rr), key=lambda r: r["PartNumber"])
            run.fin_parts = parts
            fobj = fresh if fin >= nw else objs[share[fin]]

            def fin_fn():
                run.fin_result = fobj.finalise(parts)

            run.sched_fin = ctx.sched = Sched([])
            run.sched_fin.run([fin_fn])
        ctx.sched = None
    return run


def _exc_where(e: BaseException) -> tuple:
    """(innermost repo frame or None, one-line description)."""
    where = None
    for fr in traceback.extract_tb(e.__traceback__):
        if os.path.realpath(fr.filename).startswith(_REPO_ODC):
            where = f"{os.path.relpath(fr.filename, REPO)}:{fr.lineno} {fr.name}"
    return where, f"{type(e).__name__}: {str(e)[:160]}"


def _ctxmsg(case: dict, run: _Run) -> str:
    s = run.sched
    fin = "" if run.sched_fin is None else " finalise=[%s]" % fmt_trace(run.sched_fin.trace, 80)
    return "mode=%s share=%s writes=%s fin=%s choices=%s trace=[%s]%s" % (
        case["mode"], case["share"], case["writes"], case["fin"], s.made, fmt_trace(s.trace), fin,
    )


def _check_workers(case, run, sched: Sched, phase: str) -> None:
    for w in sched.workers:
        if w.exc is not None:
            if isinstance(w.exc, HarnessError):
                raise w.exc
            where, desc = _exc_where(w.exc)
            if where is None:
                raise HarnessError(
                    f"{phase}: worker {w.idx} failed outside the code under test: {desc}\n"
                    + "".join(traceback.format_exception(w.exc))
                )
            raise Violation(f"{phase}: worker {w.idx} raised {desc} at {where}; {_ctxmsg(case, run)}")
    if sched.deadlock is not None:
        raise Violation(f"deadlock during {phase}: {sched.deadlock}; {_ctxmsg(case, run)}")


def check_run(case: dict, run: _Run, T) -> bool:
    """Oracle for one executed schedule.  Returns False when the schedule was excluded."""
    sched = run.sched
    if sched.step_bound_hit or (run.sched_fin is not None and run.sched_fin.step_bound_hit):
        T.exclude("step_bound")
        return False
    _check_workers(case, run, sched, "concurrent writes")
    calls = run.ctx.s3.calls
    creates = [c for c in calls if c["op"] == "create"]
    require(
        len(creates) == 1,
        "%d create_multipart_upload calls (by workers %s), expected exactly 1; %s",
        len(creates), [c["w"] for c in creates], _ctxmsg(case, run),
    )
    uid = creates[0]["UploadId"]
    for c in calls:
        require(
            (c["Bucket"], c["Key"]) == (BUCKET, KEY),
            "%s call for %s/%s, the object is %s/%s; %s", c["op"], c["Bucket"], c["Key"], BUCKET, KEY, _ctxmsg(case, run),
        )
        if c["op"] in ("upload", "complete"):
            require(
                c["UploadId"] == uid,
                "%s by worker %d carries UploadId %r, the one initiated upload is %r; %s",
                c["op"], c["w"], c["UploadId"], uid, _ctxmsg(case, run),
            )
    want = sorted((pn, data) for pl in run.plan for pn, data in pl)
    got = sorted((c["PartNumber"], c["Body"]) for c in calls if c["op"] == "upload")
    require(
        got == want,
        "parts uploaded %s differ from parts written %s; %s",
        [g[0] for g in got], [w_[0] for w_ in want], _ctxmsg(case, run),
    )
    for i, (pl, rr) in enumerate(zip(run.plan, run.results)):
        require(
            len(rr) == len(pl) and all(isinstance(r, dict) and r.get("PartNumber") == pn for r, (pn, _) in zip(rr, pl)),
            "worker %d: results %r do not describe parts %s; %s", i, rr, [pn for pn, _ in pl], _ctxmsg(case, run),
        )
    if case["fin"] >= 0:
        require(run.sched_fin is not None, "finalise did not run")
        _check_workers(case, run, run.sched_fin, "finalise")
        completes = [c for c in calls if c["op"] == "complete"]
        pe = lambda pp: [(p_.get("PartNumber"), p_.get("ETag")) for p_ in pp]  # noqa: E731
        require(
            len(completes) == 1 and pe(completes[0]["Parts"]) == pe(run.fin_parts),
            "finalise made %d complete_multipart_upload calls / wrong part list; %s", len(completes), _ctxmsg(case, run),
        )
        require(
            len([c for c in calls if c["op"] == "create"]) == 1,
            "finalise initiated another upload; %s", _ctxmsg(case, run),
        )
        obj = run.ctx.s3.objects.get((BUCKET, KEY))
        require(obj == b"".join(d for _, d in want), "object content differs from the parts in part order; %s", _ctxmsg(case, run))
    return True


def _contenders(sched: Sched) -> int:
    """Workers that executed a shared-state step before the first create_multipart_upload was executed."""
    seen = set()
    for i, lab in sched.trace:
        if lab == "s3.create":
            break
        seen.add(i)
    return len(seen)


def _classify(case: dict, run: _Run, T) -> None:
    s = run.sched
    nc = _contenders(s)
    key = (case["mode"], tuple(case["share"]), tuple(case["writes"]), case["fin"], tuple(s.order))
    if nc >= 2:
        T.nontrivial(key)
    T.cls("contenders_%d" % nc)
    if any(lab in ("L.got", "D.got") for _, lab in s.trace):
        T.cls("lock_contended")


# ------------------------------------------------------------------------------------------ sched_random
MODES = ("local", "cluster", "cluster_shared")


def _share_patterns(mode: str, nw: int) -> List[List[int]]:
    if mode == "local":
        return [[0] * nw]
    if mode == "cluster":
        return [list(range(nw))]
    if nw == 2:
        return [[0, 0]]
    return [[0, 0, 0], [0, 0, 1], [0, 1, 0], [0, 1, 1]]


@st.composite
def s_sched(draw):
    mode = draw(st.sampled_from(["local", "local", "cluster", "cluster", "cluster_shared"]))
    nw = draw(st.sampled_from([2, 2, 3]))
    share = draw(st.sampled_from(_share_patterns(mode, nw)))
    writes = [draw(st.sampled_from([1, 1, 1, 2])) for _ in range(nw)]
    fin = draw(st.sampled_from([-1] + list(range(nw + 1))))
    explicit = draw(st.booleans())
    kind = draw(st.sampled_from(["uniform", "uniform", "runs"]))
    if kind == "uniform":
        choices = draw(st.lists(st.integers(0, 5), max_size=70))
    else:
        runs = draw(st.lists(st.tuples(st.integers(0, 5), st.integers(1, 8)), max_size=14))
        choices = [c for c, n in runs for _ in range(n)]
    stale = mode != "local" and draw(st.integers(0, 3)) == 0
    return {"mode": mode, "share": share, "writes": writes, "fin": fin, "explicit_client": explicit, "choices": choices,
            "stale": stale, "late_client": mode != "local" and not stale and draw(st.integers(0, 3)) == 0,
            "earlier_upload": not stale and draw(st.integers(0, 4)) == 0}


def o_sched(case, T):
    run = run_scenario(case, case["choices"])
    if not check_run(case, run, T):
        return
    _classify(case, run, T)
    T.cls("mode_" + case["mode"])
    if case.get("stale"):
        T.cls("stale_shared_variable_from_abandoned_upload")
    if case.get("late_client") and case["mode"] != "local":
        T.cls("writer_built_before_the_client_existed")
    if case.get("earlier_upload"):
        T.cls("same_object_uploaded_earlier_in_this_process")
    T.cls("workers_%d" % len(case["share"]))
    T.cls("fin_none" if case["fin"] < 0 else ("fin_fresh" if case["fin"] >= len(case["share"]) else "fin_worker"))


# ------------------------------------------------------------------------------------------ sched_dfs2
DFS_PREFIX = 6
DFS_SETUPS = [  # measured size of the complete tree on the repaired code: 5180, 232, 159288 schedules
    {"mode": "local", "share": [0, 0], "writes": [1, 1], "fin": 2, "explicit_client": True},
    {"mode": "cluster", "share": [0, 1], "writes": [1, 1], "fin": 2, "explicit_client": True},
    {"mode": "cluster_shared", "share": [0, 0], "writes": [1, 1], "fin": 2, "explicit_client": False},
    {"mode": "cluster", "share": [0, 1], "writes": [1, 1], "fin": 2, "explicit_client": True, "late_client": True},
    {"mode": "local", "share": [0, 0], "writes": [1, 1], "fin": 2, "explicit_client": True, "earlier_upload": True},
]
DFS_SETUPS_THOROUGH = DFS_SETUPS + [  # 61050, 482, 964 schedules
    {"mode": "local", "share": [0, 0], "writes": [2, 1], "fin": 0, "explicit_client": True},
    {"mode": "cluster", "share": [0, 1], "writes": [2, 1], "fin": 1, "explicit_client": False},
    {"mode": "cluster", "share": [0, 1], "writes": [2, 2], "fin": 2, "explicit_client": True},
]
DFS_LIMIT = {"quick": 90, "thorough": 10**7}


def e_dfs(tier):
    setups = DFS_SETUPS if tier == "quick" else DFS_SETUPS_THOROUGH
    for prefix in itertools.product((0, 1), repeat=DFS_PREFIX):
        for su in setups:
            yield dict(su, prefix=list(prefix), limit=DFS_LIMIT[tier])


def o_dfs(case, T):
    """All schedules of the two-worker tree that start with ``prefix`` (at most ``limit`` of them)."""
    prefix, limit = list(case["prefix"]), case["limit"]
    cur = list(prefix)
    n = 0
    while True:
        run = run_scenario(case, cur)
        s = run.sched
        k = min(len(prefix), len(s.made))
        if s.made[:k] != prefix[:k] or any(prefix[k:]):
            # this prefix names no path of its own (it is realised by the sibling with smaller/zero entries)
            T.cls("prefix_not_a_path")
            return
        if check_run(case, run, T):
            _classify(case, run, T)
        n += 1
        if n > 1:
            T.evaluations += 1  # every schedule is one execution of the oracle (the runner counted the first)
        T.cls("schedules")
        made, br = s.made, s.branch
        i = len(made) - 1
        while i >= len(prefix) and made[i] + 1 >= br[i]:
            i -= 1
        if i < len(prefix):
            T.cls("subtree_complete")
            return
        if n >= limit:
            T.cls("subtree_truncated")
            return
        cur = made[:i] + [made[i] + 1]


# ===================================================================================================
# sinks
# ===================================================================================================
_SCRATCH: Optional[Path] = None
_COUNTER = itertools.count()


def _scratch() -> Path:
    global _SCRATCH
    if _SCRATCH is None:
        base = os.environ.get("VF_SCRATCH")
        if base:
            d = Path(base) / "c18"
            d.mkdir(parents=True, exist_ok=True)
        else:  # --replay runs without a runner-provided scratch dir
            d = Path(tempfile.mkdtemp(prefix="vf-c18-"))
            atexit.register(shutil.rmtree, str(d), True)
        _SCRATCH = d
    return _SCRATCH


def _blob(seed: int, size: int) -> bytes:
    if size == 0:
        return b""
    unit = hashlib.blake2b(b"c18-%d" % seed, digest_size=61).digest()
    return (unit * (size // len(unit) + 1))[:size]


def _tree(root: Path):
    files, dirs = set(), set()
    for dp, dn, fn in os.walk(root):
        rel = os.path.relpath(dp, root)
        for d in dn:
            dirs.add(os.path.normpath(os.path.join(rel, d)))
        for f in fn:
            files.add(os.path.normpath(os.path.join(rel, f)))
    return files, dirs


SIZES = [0, 0, 0, 1, 2, 63, 4095, 4096, 4097, 65535, 65536]
PART_NUMBERS = st.one_of(
    st.integers(1, 12),
    st.integers(0, 10000),
    st.sampled_from([9, 10, 99, 100, 999, 1000, 9999, 10000, 10001, 12345, 99999, 100000]),
)
DST_NAMES = ["out.tif", "noext", "with space.bin", ".hidden.tif", "a.b.c"]


@st.composite
def s_sink(draw):
    n = draw(st.one_of(*([st.integers(1, 8)] * 5), st.integers(9, 12)))
    nos = draw(st.lists(PART_NUMBERS, min_size=n, max_size=n, unique=True))
    order = draw(st.sampled_from(["numeric", "numeric", "as_drawn", "reverse"]))
    if order == "numeric":
        nos = sorted(nos)
    elif order == "reverse":
        nos = sorted(nos, reverse=True)
    parts = [[no, draw(st.one_of(st.sampled_from(SIZES), st.integers(0, 65536))), draw(st.integers(0, 255))] for no in nos]
    return {
        "parts": parts,  # [part number, size, content seed] in the order given to finalise
        "write_order": draw(st.permutations(list(range(n)))),
        "clone": [draw(st.booleans()) for _ in range(n)],
        "base": draw(st.sampled_from(["beside", "beside", "elsewhere", "elsewhere_missing", "same_dir_explicit"])),
        "ptype": draw(st.sampled_from(["str", "path"])),
        "keep": draw(st.sampled_from([False, False, False, True])),
        "dst_exists": draw(st.sampled_from([False, False, False, True])),
        "dtype": draw(st.sampled_from(["bytes", "bytearray"])),
        "dst_name": draw(st.sampled_from(DST_NAMES)),
        # a part uploaded twice before finalise (a retried task, an abandoned earlier run for the same destination):
        # first some other content of the *same length*, then the content whose record is handed to finalise
        "rewrite": [draw(st.sampled_from([False, False, False, True])) for _ in range(n)],
    }


def o_sink(case, T):
    from odc.geo.cog._mpu_fs import MPUFileSink

    root = _scratch() / f"s{os.getpid()}-{next(_COUNTER)}"
    root.mkdir()
    try:
        _o_sink(case, T, root, MPUFileSink)
    finally:
        shutil.rmtree(root, ignore_errors=True)


def _o_sink(case, T, root: Path, MPUFileSink):
    conv = str if case["ptype"] == "str" else Path
    (root / "out").mkdir()
    dst = root / "out" / case["dst_name"]
    base_kind = case["base"]
    if base_kind == "beside":
        base = None
    elif base_kind == "same_dir_explicit":
        base = dst.parent
    elif base_kind == "elsewhere":
        base = root / "tmp-parts"
        base.mkdir()
    else:
        base = root / "not" / "yet" / "there"
    if case["dst_exists"]:
        dst.write_bytes(b"previous content of the destination " * 50)
    before_files, before_dirs = _tree(root)
    allowed_dirs = set(before_dirs)
    if base is not None:
        p = base
        while p != root:
            allowed_dirs.add(os.path.relpath(p, root))
            p = p.parent

    sink = MPUFileSink(conv(dst)) if base is None else MPUFileSink(conv(dst), conv(base))
    clone = pickle.loads(pickle.dumps(sink))  # another worker's copy
    parts = case["parts"]
    n = len(parts)
    datas = [_blob(seed, size) for _, size, seed in parts]
    recs: List[Any] = [None] * n
    for i in case["write_order"]:
        no = parts[i][0]
        data = datas[i] if case["dtype"] == "bytes" else bytearray(datas[i])
        if (case.get("rewrite") or [False] * n)[i] and len(datas[i]) > 0:
            stale = _blob(parts[i][2] + 101, parts[i][1])
            if stale != datas[i]:
                (sink if case["clone"][i] else clone)(no, stale)
                T.cls("part_uploaded_twice_same_length")
        recs[i] = (clone if case["clone"][i] else sink)(no, data)
    if not case["dst_exists"]:
        require(not dst.exists(), "destination exists before finalise")
    if base_kind in ("elsewhere", "elsewhere_missing"):
        f1, d1 = _tree(root)
        stray = sorted(x for x in (f1 - before_files) | (d1 - before_dirs)
                       if not (x + os.sep).startswith(os.path.relpath(base, root) + os.sep) and x not in allowed_dirs)
        require(not stray, "parts_base given, yet writing parts created %s outside of it", stray[:4])
    fin_by = clone if case["clone"][0] else sink
    if case["keep"]:
        out = fin_by.finalise(list(recs), keep_parts=True)
    else:
        out = fin_by.finalise(list(recs))

    want = b"".join(datas)
    require(dst.is_file(), "destination %s does not exist after finalise", case["dst_name"])
    got = dst.read_bytes()
    if got != want:
        # describe the difference briefly
        pos = next((i for i, (a, b) in enumerate(zip(got, want)) if a != b), min(len(got), len(want)))
        raise Violation(
            "destination (%d bytes) != concatenation of the %d parts in the order given (%d bytes); first difference at "
            "byte %d; part numbers %s sizes %s" % (len(got), n, len(want), pos, [p[0] for p in parts], [p[1] for p in parts])
        )
    require(out is not None and Path(out) == dst, "finalise returned %r, destination is %r", out, str(dst))
    files, dirs = _tree(root)
    rel_dst = os.path.relpath(dst, root)
    extra_files = sorted(files - {rel_dst})
    extra_dirs = sorted(dirs - allowed_dirs)
    if not case["keep"]:
        require(not extra_files, "part files left behind after finalise: %s", extra_files[:4])
        require(not extra_dirs, "parts directory left behind after finalise: %s", extra_dirs[:4])
    else:
        left = sorted((root / f).read_bytes() for f in extra_files)
        pool = list(datas)
        for b in left:
            require(b in pool, "keep_parts=True: a kept file (%d bytes) is not one of the parts", len(b))
            pool.remove(b)
        require(len(left) >= n - 1, "keep_parts=True: only %d of %d part files kept", len(left), n)
        require(n == 1 or extra_dirs, "keep_parts=True: parts directory is gone")
    # classes
    if n >= 2:
        T.nontrivial()
    T.cls("parts_1" if n == 1 else ("parts_2_3" if n <= 3 else ("parts_4_8" if n <= 8 else "parts_9_12")))
    if any(p[1] == 0 for p in parts[1:]):
        T.cls("zero_length_nonfirst")
    if parts[0][1] == 0:
        T.cls("zero_length_first")
    names = ["p%04d.bin" % p[0] for p in parts]
    if names != sorted(names):
        T.cls("order_differs_from_name_sort")
    if [p[0] for p in parts] != sorted(p[0] for p in parts):
        T.cls("order_not_numeric")
    T.cls("base_" + base_kind)
    if case["keep"]:
        T.cls("keep_parts")
    if case["dst_exists"]:
        T.cls("dst_exists")


# ------------------------------------------------------------------------------------------ sink limits
LIMIT_NAMES = ["min_write_sz", "max_write_sz", "min_part", "max_part"]
# Used by the *generator* only, to stay clear of self-contradictory configurations; the oracle compares with what an
# unconfigured sink reports and counts contradictions as excluded.
_ASSUMED_DEFAULTS = {"min_write_sz": 4096, "max_write_sz": 5 << 30, "min_part": 1, "max_part": 10_000}


@st.composite
def s_limits(draw):
    mask = draw(st.integers(0, 15))
    lim: Dict[str, int] = {}
    has = [bool(mask & (1 << i)) for i in range(4)]
    D = _ASSUMED_DEFAULTS
    # write sizes
    if has[0] and has[1]:
        lo = draw(st.one_of(st.sampled_from([0, 1, 4096, 5 << 20, 5 << 30]), st.integers(0, 1 << 34)))
        lim["min_write_sz"] = lo
        lim["max_write_sz"] = lo + draw(st.one_of(st.sampled_from([1, 2, 4096]), st.integers(1, 1 << 36)))
    elif has[0]:
        lim["min_write_sz"] = draw(st.one_of(st.sampled_from([0, 1, 4095, 4097, 5 << 20, D["max_write_sz"] - 1]),
                                             st.integers(0, D["max_write_sz"] - 1)))
    elif has[1]:
        lim["max_write_sz"] = draw(st.one_of(st.sampled_from([4097, 8192, 1 << 20, (5 << 30) - 1, (5 << 30) + 1, 1 << 40]),
                                             st.integers(D["min_write_sz"] + 1, 1 << 40)))
    # part numbers
    if has[2] and has[3]:
        lo = draw(st.one_of(st.sampled_from([0, 1, 2, 10_000]), st.integers(0, 20_000)))
        lim["min_part"] = lo
        lim["max_part"] = lo + draw(st.one_of(st.just(1), st.integers(1, 10**6)))
    elif has[2]:
        lim["min_part"] = draw(st.one_of(st.sampled_from([0, 2, 9_999]), st.integers(0, D["max_part"] - 1)))
    elif has[3]:
        lim["max_part"] = draw(st.one_of(st.sampled_from([2, 3, 9_999, 10_001]), st.integers(D["min_part"] + 1, 10**6)))
    return {
        "limits": lim,
        "base": draw(st.sampled_from(["beside", "elsewhere"])),
        "pickled": draw(st.booleans()),
    }


def o_limits(case, T):
    from odc.geo.cog._mpu_fs import MPUFileSink

    lim = case["limits"]
    root = _scratch()  # nothing is written; only paths are formed
    dst = root / "limits-never-written.bin"
    ref = MPUFileSink(dst)
    sink = MPUFileSink(dst, **lim) if case["base"] == "beside" else MPUFileSink(dst, root / "elsewhere", **lim)
    if case["pickled"]:
        sink = pickle.loads(pickle.dumps(sink))
    got = {k: getattr(sink, k) for k in LIMIT_NAMES}
    dflt = {k: getattr(ref, k) for k in LIMIT_NAMES}
    for k in LIMIT_NAMES:
        if k in lim:
            require(got[k] == lim[k], "configured %s=%r but the sink reports %r (limits=%r)", k, lim[k], got[k], lim)
        else:
            require(
                got[k] == dflt[k],
                "%s was not configured, an unconfigured sink reports %r, this one %r (limits=%r)", k, dflt[k], got[k], lim,
            )
    for lo, hi in (("min_write_sz", "max_write_sz"), ("min_part", "max_part")):
        if (lo in lim) != (hi in lim) and not lim.get(hi, dflt[hi]) > lim.get(lo, dflt[lo]):
            # one end configured beyond the other end's default: the user's configuration is contradictory
            T.exclude("configuration_contradicts_default_" + (hi if lo in lim else lo))
            continue
        require(got[hi] > got[lo], "%s %r <= %s %r (limits=%r)", hi, got[hi], lo, got[lo], lim)
    if lim:
        T.nontrivial()
    T.cls("configured_%d" % len(lim))
    for k in lim:
        T.cls("has_" + k)


# ------------------------------------------------------------------------------------------ S3 limits
S3_VARIANTS = [
    "S3Limits", "MultiPartUpload", "MultiPartUpload_started", "DelayedS3Writer", "writer_local", "writer_client",
    "writer_pickled", "writer_kw",
]
AWS = {"min_write_sz": 5 << 20, "max_write_sz": 5 << 30, "min_part": 1, "max_part": 10_000}


def e_s3_limits(tier):
    for v in S3_VARIANTS:
        yield {"variant": v}


def o_s3_limits(case, T):
    from odc.geo.cog import _s3 as S3

    v = case["variant"]
    ctx = _Ctx(with_client=(v == "writer_client"))
    with _installed(ctx):
        mpu = _mpu_cls()(BUCKET, KEY)
        if v == "S3Limits":
            objs = [S3.S3Limits()]
        elif v == "MultiPartUpload":
            objs = [S3.MultiPartUpload(BUCKET, KEY)]
        elif v == "MultiPartUpload_started":
            objs = [S3.MultiPartUpload(BUCKET, KEY, uploadId="abc")]
        elif v == "DelayedS3Writer":
            objs = [mpu, S3.DelayedS3Writer(mpu, {})]
        elif v == "writer_local":
            objs = [mpu, mpu.writer({})]
        elif v == "writer_client":
            objs = [mpu, mpu.writer({}, client=ctx.client)]
        elif v == "writer_kw":
            objs = [mpu, mpu.writer({"ContentType": "image/tiff", "ACL": "public-read"})]
        else:
            objs = [mpu, pickle.loads(pickle.dumps(mpu.writer({})))]
        vals = [{k: getattr(o, k) for k in LIMIT_NAMES} for o in objs]
    for o, g in zip(objs, vals):
        nm = type(o).__name__
        for k in LIMIT_NAMES:
            require(isinstance(g[k], int) and not isinstance(g[k], bool), "%s.%s is %r, not an int", nm, k, g[k])
        require(g["max_write_sz"] > g["min_write_sz"], "%s: max_write_sz %r <= min_write_sz %r", nm, g["max_write_sz"], g["min_write_sz"])
        require(g["max_part"] > g["min_part"], "%s: max_part %r <= min_part %r", nm, g["max_part"], g["min_part"])
        require(
            AWS["min_write_sz"] <= g["min_write_sz"] and g["max_write_sz"] <= AWS["max_write_sz"],
            "%s reports part sizes %r..%r outside S3's 5 MiB..5 GiB", nm, g["min_write_sz"], g["max_write_sz"],
        )
        require(
            AWS["min_part"] <= g["min_part"] and g["max_part"] <= AWS["max_part"],
            "%s reports part numbers %r..%r outside S3's 1..10000", nm, g["min_part"], g["max_part"],
        )
    require(all(g == vals[0] for g in vals), "an upload and its writer report different limits: %r", vals)
    T.nontrivial()
    T.cls(v)


# ===================================================================================================
# signature predicates of the defects observed on the pinned tree (consulted only if known_findings.json lists them)
def _known_d16(sub, case, msg) -> bool:
    """MPUFileSink.max_* read the min_* keys: every max accessor equals limits.get(min key, default max)."""
    if sub != "sink_limits":
        return False
    from odc.geo.cog._mpu_fs import MPUFileSink

    lim = case["limits"]
    ref, sink = MPUFileSink("x.bin"), MPUFileSink("x.bin", **lim)
    pairs = (("min_write_sz", "max_write_sz"), ("min_part", "max_part"))
    differs = any(lim.get(lo, getattr(ref, hi)) != lim.get(hi, getattr(ref, hi)) for lo, hi in pairs)
    return differs and all(
        getattr(sink, hi) == lim.get(lo, getattr(ref, hi)) and getattr(sink, lo) == lim.get(lo, getattr(ref, lo))
        for lo, hi in pairs
    )


def _known_d17(sub, case, msg) -> bool:
    return sub == "sink_finalise" and "cannot mmap an empty file" in msg and any(p[1] == 0 for p in case["parts"][1:])


def _known_d18(sub, case, msg) -> bool:
    """Loser of the local race initiates again: AssertionError in initiate, local set-up only."""
    return sub in ("sched_random", "sched_dfs2") and case["mode"] == "local" and "raised AssertionError" in msg and " initiate;" in msg


def _known_d23(sub, case, msg) -> bool:
    """distributed.Lock(name, client): the installed distributed takes scheduler_rpc there."""
    return sub in ("sched_random", "sched_dfs2") and case["mode"] != "local" and "semaphore_register" in msg


def build(chk: Check) -> None:
    chk.sub("sched_random", o_sched, strategy=s_sched(), n={"quick": 5000, "thorough": 300000},
            budget_s={"quick": 50, "thorough": 800})
    chk.sub("sched_dfs2", o_dfs, enum=e_dfs, exhaustive_tiers=("thorough",), budget_s={"quick": 60, "thorough": 850})
    chk.sub("sink_finalise", o_sink, strategy=s_sink(), n={"quick": 3000, "thorough": 80000},
            budget_s={"quick": 40, "thorough": 600})
    chk.sub("sink_limits", o_limits, cov={"quick": 1500, "thorough": 60000}, strategy=s_limits(), n={"quick": 3000, "thorough": 100000},
            budget_s={"quick": 20, "thorough": 300})
    chk.sub("s3_limits", o_s3_limits, enum=e_s3_limits, exhaustive_tiers=("quick", "thorough"),
            budget_s={"quick": 20, "thorough": 60})
    chk.known("D16", _known_d16)
    chk.known("D17", _known_d17)
    chk.known("D18", _known_d18)
    chk.known("D23", _known_d23)
