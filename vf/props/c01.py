"""C01 - operations never silently mix coordinate reference systems."""
from __future__ import annotations

import functools
import itertools

from hypothesis import strategies as st

from vf.common import Check, HarnessError, Violation, require
from vf.strategies import LOOKALIKES, SINU_SPELLINGS, SPELLINGS, mk_crs, mk_crs_spec, simple_tag

RULE = (
    "Full product, enumerated: combining operations (registry + introspection of Geometry methods taking a Geometry) "
    "x ordered pairs of CRS tags from {none, 4326, 4283, 3857, 3577, authority-less sinusoidal} incl. the same CRS in "
    "two spellings (EPSG int, mixed-case string, WKT2, PROJJSON, pyproj object, CRS object, pickled copy) x a gallery of "
    "geometry kinds (point, line, ring, polygon with/without holes, multi-*, collection); n-ary operations with 2-4 "
    "operands and the odd one out at every position; plus Hypothesis-drawn small-integer shapes. Oracle: labels differ "
    "=> ValueError, labels equal => identical to shapely on the raw shapes (or to the min/max / integer-rectangle "
    "model) and tagged with the operands' CRS. Non-trivial: tags differ, or are equal through different spellings; "
    "distinct = (operation, kinds, tags)."
)
ASSUMPTIONS = [
    "two tags denote the same CRS iff their labels are equal (ground truth is the label, not odc's equality)",
    "GeoBox.enclosing/project/__getitem__(Geometry) and GeoboxTiles.tiles convert a foreign operand (documented) and are not 'mixing'",
]
SHARDS = {"quick": 4, "thorough": 16}

LABELS = [None, "4326", "4283", "3857", "3577", "sinu"]
SPELL_PAIRS = [("int", "wkt2"), ("str_mixed", "pyproj"), ("projjson", "odc"), ("pickle", "str_upper"), ("str_lower", "int"), ("wkt2", "projjson")]
SINU_PAIRS = [("proj", "wkt2"), ("projjson", "odc"), ("pickle", "pyproj")]

# --------------------------------------------------------------------- geometry gallery (small integers, interacting)
GALLERY_A = {
    "point": ("Point", [1, 1]),
    "line": ("LineString", [[0, 0], [2, 2], [3, 0]]),
    "ring": ("LinearRing", [[0, 0], [2, 0], [2, 2], [0, 2], [0, 0]]),
    "polygon": ("Polygon", [[[0, 0], [3, 0], [3, 3], [0, 3], [0, 0]]]),
    "polygon_hole": ("Polygon", [[[0, 0], [4, 0], [4, 4], [0, 4], [0, 0]], [[1, 1], [2, 1], [2, 2], [1, 2], [1, 1]]]),
    "multipoint": ("MultiPoint", [[0, 0], [1, 1], [5, 5]]),
    "multiline": ("MultiLineString", [[[0, 0], [1, 1]], [[2, 0], [2, 3]]]),
    "multipolygon": ("MultiPolygon", [[[[0, 0], [1, 0], [1, 1], [0, 1], [0, 0]]], [[[2, 2], [3, 2], [3, 3], [2, 3], [2, 2]]]]),
    "collection": ("GeometryCollection", [("Point", [1, 1]), ("LineString", [[0, 0], [3, 3]])]),
}
GALLERY_B = {
    "point": ("Point", [2, 2]),
    "line": ("LineString", [[0, 2], [3, 1]]),
    "ring": ("LinearRing", [[1, 1], [3, 1], [3, 3], [1, 3], [1, 1]]),
    "polygon": ("Polygon", [[[1, 1], [5, 1], [5, 5], [1, 5], [1, 1]]]),
    "polygon_hole": ("Polygon", [[[2, -1], [6, -1], [6, 3], [2, 3], [2, -1]], [[3, 0], [4, 0], [4, 1], [3, 1], [3, 0]]]),
    "multipoint": ("MultiPoint", [[1, 1], [3, 0]]),
    "multiline": ("MultiLineString", [[[0, 3], [3, 0]], [[1, 0], [1, 4]]]),
    "multipolygon": ("MultiPolygon", [[[[0, 0], [2, 0], [2, 2], [0, 2], [0, 0]]], [[[4, 4], [5, 4], [5, 5], [4, 5], [4, 4]]]]),
    "collection": ("GeometryCollection", [("Polygon", [[[0, 0], [2, 0], [2, 2], [0, 2], [0, 0]]]), ("Point", [7, 7])]),
}
KINDS = list(GALLERY_A)

# pairs in *boundary* relations, where the predicates disagree with one another (contains vs covers, within vs
# covered-by, touches vs intersects, crosses vs overlaps) and set operations return lower-dimensional pieces: any
# shortcut that answers one predicate with another's rule (bounding boxes, "covers" semantics) shows up here
_R = [[0, 0], [4, 0], [4, 3], [0, 3], [0, 0]]
RELATION_PAIRS = [
    ("rect/pt_on_edge", ("Polygon", [_R]), ("Point", [2, 0])),
    ("rect/pt_on_corner", ("Polygon", [_R]), ("Point", [4, 3])),
    ("rect/line_along_edge", ("Polygon", [_R]), ("LineString", [[1, 3], [3, 3]])),
    ("rect/own_ring", ("Polygon", [_R]), ("LinearRing", _R)),
    ("rect/corner_multipoint", ("Polygon", [_R]), ("MultiPoint", [[0, 0], [4, 0], [4, 3]])),
    ("rect/pt_inside_and_on_edge", ("Polygon", [_R]), ("MultiPoint", [[2, 1], [4, 1]])),
    ("rect/line_inside_touching_edge", ("Polygon", [_R]), ("LineString", [[2, 1], [2, 3]])),
    ("rect/rect_sharing_edge", ("Polygon", [_R]), ("Polygon", [[[4, 0], [6, 0], [6, 3], [4, 3], [4, 0]]])),
    ("rect/rect_sharing_corner", ("Polygon", [_R]), ("Polygon", [[[4, 3], [6, 3], [6, 5], [4, 5], [4, 3]]])),
    ("rect/inner_rect_on_edge", ("Polygon", [_R]), ("Polygon", [[[0, 0], [2, 0], [2, 3], [0, 3], [0, 0]]])),
    ("rect/equal_rect_other_start", ("Polygon", [_R]), ("Polygon", [[[4, 0], [4, 3], [0, 3], [0, 0], [4, 0]]])),
    ("rect/line_crossing", ("Polygon", [_R]), ("LineString", [[-1, 1], [5, 2]])),
    ("tri/pt_on_hypotenuse", ("Polygon", [[[0, 0], [4, 0], [0, 4], [0, 0]]]), ("Point", [2, 2])),
    ("tri/pt_in_bbox_outside", ("Polygon", [[[0, 0], [4, 0], [0, 4], [0, 0]]]), ("Point", [3, 3])),
    ("hole/pt_in_hole", GALLERY_A["polygon_hole"], ("Point", [1.5, 1.5])),
    ("hole/pt_on_hole_edge", GALLERY_A["polygon_hole"], ("Point", [1, 1.5])),
    ("line/own_endpoint", ("LineString", [[0, 0], [2, 2]]), ("Point", [2, 2])),
    ("line/own_midpoint", ("LineString", [[0, 0], [2, 2]]), ("Point", [1, 1])),
    ("line/line_overlapping", ("LineString", [[0, 0], [4, 0]]), ("LineString", [[2, 0], [6, 0]])),
    ("line/line_crossing", ("LineString", [[0, 0], [4, 4]]), ("LineString", [[0, 4], [4, 0]])),
    ("line/line_touching_end", ("LineString", [[0, 0], [2, 2]]), ("LineString", [[2, 2], [4, 0]])),
    ("mpoly/pt_on_part_edge", GALLERY_A["multipolygon"], ("Point", [1, 0.5])),
]


def mk_shape(spec):
    from shapely import geometry as G

    typ, coords = spec
    if typ == "Empty":
        return getattr(G, coords)()
    if typ == "GeometryCollection":
        return G.GeometryCollection([mk_shape(tuple(s)) for s in coords])
    if typ == "Polygon":
        return G.Polygon(coords[0], coords[1:])
    if typ == "MultiPolygon":
        return G.MultiPolygon([G.Polygon(p[0], p[1:]) for p in coords])
    return getattr(G, typ)(coords)


def _binary_methods():
    """Introspection: Geometry methods whose (wrapped) signature takes another Geometry."""
    from odc.geo.geom import Geometry

    out = []
    for name, f in vars(Geometry).items():
        g = getattr(f, "__wrapped__", f)
        ann = getattr(g, "__annotations__", None) or {}
        if any(v in ("Geometry", Geometry) for k, v in ann.items() if k != "return"):
            out.append(name)
    return sorted(out)


KNOWN_BINARY = ["__and__", "__or__", "__sub__", "__xor__", "contains", "covers", "crosses", "difference", "disjoint", "intersection", "intersects",
                "overlaps", "split", "symmetric_difference", "touches", "union", "within"]
NARY = ["multigeom", "common_crs", "unary_union", "unary_intersection", "fn_intersects"]
BBOX_OPS = ["bbox_union", "bbox_intersection", "bbox_and", "bbox_or"]
GBOX_OPS = ["gbox_or", "gbox_and", "overlap_roi", "snap_to", "geobox_union_conservative", "geobox_intersection_conservative", "pixel_translation", "bounding_box_in_pixel_domain"]


def _labels_equal(tags):
    labs = {None if t is None else t["label"] for t in tags}
    return len(labs) == 1


def _spellings_differ(tags):
    return len({None if t is None else t["spell"] for t in tags}) > 1


def _run(fn):
    """-> ('ok', value) | ('err', exception)"""
    try:
        return "ok", fn()
    except Exception as e:  # noqa: BLE001 - classified by the caller
        return "err", e


def _same_geom(a, b):
    if a.geom_type != b.geom_type:
        return False
    if a.is_empty and b.is_empty:
        return True
    return a.equals_exact(b, 0) or a == b


def _raw_fn(op, shapes):
    """The same operation on the raw shapely shapes (no CRS involved)."""
    import shapely

    return {
        "split": lambda: list(shapely.ops.split(shapes[0], shapes[1]).geoms),
        "unary_union": lambda: shapely.ops.unary_union(shapes),
        "unary_intersection": lambda: functools.reduce(lambda a, b: a.intersection(b), shapes),
        "fn_intersects": lambda: shapes[0].intersects(shapes[1]) and not shapes[0].touches(shapes[1]),
        "multigeom": lambda: None,
        "common_crs": lambda: None,
    }.get(op, (lambda: getattr(shapes[0], op)(shapes[1])) if op not in NARY else None)


def o_geom(case, T):
    import shapely
    from odc.geo import geom as OG
    from odc.geo.crs import CRSMismatchError

    op = case["op"]
    tags = case["tags"]
    shapes = [mk_shape(tuple(s)) for s in case["shapes"]]
    same = _labels_equal(tags)
    geoms = [OG.Geometry(s, mk_crs_spec(t)) for s, t in zip(shapes, tags)]
    ref_crs = mk_crs(tags[0])

    if "empty_member" in case:
        T.cls("empty_member_first" if case["empty_member"] == 0 else "empty_member_later")
    if op in NARY:
        fns = {
            "multigeom": lambda: OG.multigeom(geoms),
            "common_crs": lambda: OG.common_crs(geoms),
            "unary_union": lambda: OG.unary_union(geoms),
            "unary_intersection": lambda: OG.unary_intersection(geoms),
            "fn_intersects": lambda: OG.intersects(geoms[0], geoms[1]),
        }
        st_, val = _run(fns[op])
        if op != "fn_intersects":
            # the collection may be any Iterable: a tuple, a generator, an iterator, a map object - one-shot
            # iterables must give the same verdict and the same value as the list
            fn1 = {"multigeom": OG.multigeom, "common_crs": OG.common_crs, "unary_union": OG.unary_union, "unary_intersection": OG.unary_intersection}[op]
            for cname, mk in (("tuple", lambda: tuple(geoms)), ("generator", lambda: (g for g in geoms)), ("iterator", lambda: iter(geoms)), ("map", lambda: map(lambda g: g, geoms))):
                st2, val2 = _run(lambda: fn1(mk()))
                require(st2 == st_, "%s(%s of the operands) %s, %s(list of the same operands) %s", op, cname, "returned %s" % str(val2)[:60] if st2 == "ok" else "raised %s" % type(val2).__name__, op, "returned" if st_ == "ok" else "raised %s" % type(val).__name__)
                if st_ == "ok":
                    same_val = (val2 == val) if not isinstance(val, OG.Geometry) else (isinstance(val2, OG.Geometry) and _same_geom(val2.geom, val.geom) and val2.crs == val.crs and (val2.crs is None) == (val.crs is None))
                    require(bool(same_val), "%s(%s) = %s differs from %s(list) = %s", op, cname, str(val2)[:60], op, str(val)[:60])
                else:
                    require(type(val2) is type(val), "%s(%s) raised %s, %s(list) raised %s", op, cname, type(val2).__name__, op, type(val).__name__)
            T.cls("iterable_forms_agree")
    elif op == "split":
        st_, val = _run(lambda: list(geoms[0].split(geoms[1])))
    else:
        st_, val = _run(lambda: getattr(geoms[0], op)(geoms[1]))

    if not same:
        if st_ == "ok":
            raise Violation(f"{op} on operands with CRS labels {[None if t is None else t['label'] for t in tags]} returned {str(val)[:120]} instead of raising")
        if not isinstance(val, ValueError):
            # where shapely on the raw shapes itself raises (before the mismatching operand is reached), only
            # "raises" is required: nothing was computed from mixed coordinates
            est, _ = _run(_raw_fn(op, shapes))
            require(est == "err", "%s with mismatched CRS raised %s (%s), expected a ValueError/CRSMismatchError", op, type(val).__name__, str(val)[:100])
            T.cls("shapely_raises_first")
            return
        T.nontrivial((op, tuple(case["kinds"]), tuple(None if t is None else (t["label"], t["spell"]) for t in tags)))
        T.cls("mismatch_rejected")
        if any(t is None for t in tags):
            T.cls("one_side_none")
        return

    # labels equal: differential against shapely on the raw shapes
    est, exp = _run(_raw_fn(op, shapes))
    if est == "err":
        require(st_ == "err", "%s: shapely raises %s on the raw shapes but odc returned %s", op, type(exp).__name__, str(val)[:100])
        require(not isinstance(val, CRSMismatchError), "%s raised CRSMismatchError for equal CRSs (%r)", op, [t and (t["label"], t["spell"]) for t in tags])
        require(type(val) is type(exp), "%s: shapely raises %s, odc raised %s", op, type(exp).__name__, type(val).__name__)
        T.cls("shapely_raises")
        return
    if st_ == "err":
        raise Violation(f"{op} raised {type(val).__name__}: {str(val)[:150]} for operands with equal CRS {[t and (t['label'], t['spell']) for t in tags]}")
    if op == "common_crs":
        require((val is None and ref_crs is None) or val == ref_crs, "common_crs returned %r", str(val)[:60])
    elif op == "multigeom":
        require(isinstance(val, OG.Geometry) and val.crs == ref_crs, "multigeom crs %r", str(val.crs)[:60])
        parts = list(val.geom.geoms)
        ins = [s for s in shapes if not s.is_empty]
        require(len(parts) == len(ins) and all(_same_geom(a, b) for a, b in zip(parts, ins)), "multigeom parts differ from the inputs")
        if len({s.geom_type for s in shapes}) == 1 and shapes[0].geom_type in ("Polygon", "Point", "LineString"):
            require(val.geom_type == "Multi" + shapes[0].geom_type, "multigeom of %s gave %s", shapes[0].geom_type, val.geom_type)
    elif op == "split":
        require(len(val) == len(exp) and all(isinstance(v, OG.Geometry) and _same_geom(v.geom, e) for v, e in zip(val, exp)), "split differs from shapely.ops.split")
        for v in val:
            require(v.crs == ref_crs and (v.crs is None) == (ref_crs is None), "split part has crs %r", str(v.crs)[:60])
    elif isinstance(exp, shapely.geometry.base.BaseGeometry):
        require(isinstance(val, OG.Geometry), "%s returned %r, expected Geometry", op, type(val))
        require(_same_geom(val.geom, exp), "%s: result %s differs from shapely's %s", op, val.geom.wkt[:100], exp.wkt[:100])
        require(val.crs == ref_crs and (val.crs is None) == (ref_crs is None), "%s: result tagged %r, operands' CRS is %r", op, str(val.crs)[:50], str(ref_crs)[:50])
    else:
        require(type(val) is type(exp) and val == exp, "%s returned %r, shapely returns %r", op, val, exp)
    if _spellings_differ(tags):
        T.nontrivial((op, tuple(case["kinds"]), tuple(None if t is None else (t["label"], t["spell"]) for t in tags)))
        T.cls("equal_via_spellings")
    else:
        T.cls("equal_same_spelling")


def _tag_pairs():
    """ordered pairs of tags: all label pairs (simple spelling) + same label, different spellings."""
    out = []
    for a, b in itertools.product(LABELS, LABELS):
        out.append([simple_tag(a), simple_tag(b)])
    for lab in LABELS:
        if lab is None:
            continue
        for sa, sb in (SINU_PAIRS if lab == "sinu" else SPELL_PAIRS):
            out.append([{"label": lab, "spell": sa}, {"label": lab, "spell": sb}])
            out.append([{"label": lab, "spell": sb}, {"label": lab, "spell": sa}])
    # different labels in exotic spellings
    out.append([{"label": "4326", "spell": "wkt2"}, {"label": "4283", "spell": "wkt2"}])
    out.append([{"label": "3857", "spell": "pyproj"}, {"label": "3577", "spell": "projjson"}])
    out.append([{"label": "sinu", "spell": "wkt2"}, {"label": "6933", "spell": "int"}])
    out.append([None, {"label": "4326", "spell": "pickle"}])
    # look-alikes: same parameters as a registered CRS, axes reversed - different CRSs, whatever a fuzzy EPSG match says
    for like, spell in (("like:utm33wsu", "proj"), ("like:utm33wsu", "wkt2"), ("like:utm55s_wsu", "proj")):
        real = LOOKALIKES[like][0]
        for rs in ("int", "wkt2"):
            out.append([{"label": like, "spell": spell}, {"label": real, "spell": rs}])
            out.append([{"label": real, "spell": rs}, {"label": like, "spell": spell}])
    out.append([{"label": "like:utm33wsu", "spell": "proj"}, {"label": "like:utm33wsu", "spell": "wkt2"}])
    return out


def e_binary(tier):
    ops = sorted(set(KNOWN_BINARY) | set(_binary_methods()))
    pairs = _tag_pairs()
    if tier == "quick":
        kind_pairs = [(KINDS[i], KINDS[(i * 2 + j) % len(KINDS)]) for i in range(len(KINDS)) for j in (0, 3)]
    else:
        kind_pairs = list(itertools.product(KINDS, KINDS))
    for op in ops:
        for tp in pairs:
            for ka, kb in kind_pairs:
                yield {"op": op, "tags": tp, "kinds": [ka, kb], "shapes": [list(GALLERY_A[ka]), list(GALLERY_B[kb])]}


def e_relations(tier):
    """Every binary operation, both operand orders, on pairs in boundary relations (RELATION_PAIRS); tags: every
    same-label pair of _tag_pairs (the result clause) plus a few mismatching ones (the rejection clause)."""
    ops = sorted(set(KNOWN_BINARY) | set(_binary_methods())) + ["fn_intersects"]
    pairs = [tp for tp in _tag_pairs() if _labels_equal(tp)]
    pairs += [tp for tp in _tag_pairs() if not _labels_equal(tp)][:: 7 if tier == "quick" else 1]
    if tier == "quick":
        pairs = pairs[::3] + pairs[1:2]
    for op in ops:
        for tp in pairs:
            for name, a, b in RELATION_PAIRS:
                for x, y in ((a, b), (b, a)):
                    yield {"op": op, "tags": tp, "kinds": [name, "fwd" if x is a else "rev"], "shapes": [list(x), list(y)]}


# members that are not "union-normalised": a union of ONE such member is not the member itself
NOT_NORMALISED = {
    "overlapping_multipolygon": ("MultiPolygon", [[[[0, 0], [3, 0], [3, 3], [0, 3], [0, 0]]], [[[2, 2], [5, 2], [5, 5], [2, 5], [2, 2]]]]),
    "edge_adjacent_multipolygon": ("MultiPolygon", [[[[0, 0], [2, 0], [2, 2], [0, 2], [0, 0]]], [[[2, 0], [4, 0], [4, 2], [2, 2], [2, 0]]]]),
    "self_crossing_line": ("LineString", [[0, 0], [4, 4], [4, 0], [0, 4]]),
    "repeated_multipoint": ("MultiPoint", [[1, 1], [1, 1], [2, 3]]),
    "overlapping_multiline": ("MultiLineString", [[[0, 0], [4, 0]], [[2, 0], [6, 0]]]),
    "collection_of_overlapping": ("GeometryCollection", [("Polygon", [[[0, 0], [3, 0], [3, 3], [0, 3], [0, 0]]]), ("Polygon", [[[1, 1], [4, 1], [4, 4], [1, 4], [1, 1]]])]),
}


def e_nary(tier):
    pairs = _tag_pairs()
    # collections of a single member
    for op in ("unary_union", "unary_intersection", "common_crs"):
        for tag in [simple_tag(lab) for lab in LABELS] + [{"label": "4326", "spell": "wkt2"}]:
            for name, spec in list(NOT_NORMALISED.items()) + [("polygon", GALLERY_A["polygon"]), ("polygon_hole", GALLERY_A["polygon_hole"])]:
                yield {"op": op, "tags": [tag], "kinds": [name], "shapes": [list(spec)]}
    for op in NARY:
        for n in ((2,) if op == "fn_intersects" else (2, 3, 4)):
            for tp in pairs:
                base, odd = tp
                for pos in range(n):
                    tags = [base] * n
                    tags[pos] = odd
                    for k0 in (0, 3, 4, 7):
                        kinds = [KINDS[(k0 + j) % len(KINDS)] if op not in ("unary_union", "unary_intersection") else ["polygon", "polygon_hole", "multipolygon"][(k0 + j) % 3] for j in range(n)]
                        if op == "multigeom" and k0 in (3, 4):
                            kinds = [["polygon", "polygon_hole"][(j + k0) % 2] for j in range(n)]
                        shapes = [list((GALLERY_A if j % 2 == 0 else GALLERY_B)[k]) for j, k in enumerate(kinds)]
                        yield {"op": op, "tags": tags, "kinds": kinds, "shapes": shapes}


    # legal empty members (a disjoint intersection, a filtered selection) anywhere in the collection, first place
    # included: an empty geometry still carries its CRS and still takes part in the CRS check
    for op in ("multigeom", "common_crs", "unary_union", "unary_intersection"):
        for n in (2, 3):
            for tp in pairs:
                base, odd = tp
                for pos in range(n):
                    tags = [base] * n
                    tags[pos] = odd
                    for epos in range(n):
                        for ek in ("Polygon",) if op != "common_crs" else ("Polygon", "LineString", "Point"):
                            kinds = ["polygon", "polygon_hole", "polygon"][:n]
                            shapes = [list((GALLERY_A if j % 2 == 0 else GALLERY_B)[k]) for j, k in enumerate(kinds)]
                            shapes[epos] = ["Empty", ek]
                            kinds[epos] = "empty_" + ek
                            yield {"op": op, "tags": tags, "kinds": kinds, "shapes": shapes, "empty_member": epos}


# --------------------------------------------------------------------- Hypothesis shapes
@st.composite
def s_shape(draw):
    c = st.integers(-3, 6)
    pt = st.tuples(c, c).map(list)
    kind = draw(st.sampled_from(KINDS))

    def rect():
        x0, y0 = draw(c), draw(c)
        w, h = draw(st.integers(1, 5)), draw(st.integers(1, 5))
        return [[x0, y0], [x0 + w, y0], [x0 + w, y0 + h], [x0, y0 + h], [x0, y0]]

    def tri():
        x0, y0 = draw(c), draw(c)
        w, h = draw(st.integers(1, 5)), draw(st.integers(1, 5))
        return [[x0, y0], [x0 + w, y0], [x0, y0 + h], [x0, y0]]

    if kind == "point":
        return kind, ["Point", draw(pt)]
    if kind == "line":
        return kind, ["LineString", draw(st.lists(pt, min_size=2, max_size=4))]
    if kind == "ring":
        return kind, ["LinearRing", draw(st.sampled_from([rect, tri]))()]
    if kind == "polygon":
        return kind, ["Polygon", [draw(st.sampled_from([rect, tri]))()]]
    if kind == "polygon_hole":
        x0, y0 = draw(c), draw(c)
        w, h = draw(st.integers(3, 6)), draw(st.integers(3, 6))
        outer = [[x0, y0], [x0 + w, y0], [x0 + w, y0 + h], [x0, y0 + h], [x0, y0]]
        hole = [[x0 + 1, y0 + 1], [x0 + 2, y0 + 1], [x0 + 2, y0 + 2], [x0 + 1, y0 + 2], [x0 + 1, y0 + 1]]
        return kind, ["Polygon", [outer, hole]]
    if kind == "multipoint":
        return kind, ["MultiPoint", draw(st.lists(pt, min_size=1, max_size=4))]
    if kind == "multiline":
        return kind, ["MultiLineString", draw(st.lists(st.lists(pt, min_size=2, max_size=3), min_size=1, max_size=3))]
    if kind == "multipolygon":
        r1 = rect()
        r2 = [[p[0] + 10, p[1]] for p in rect()]
        return kind, ["MultiPolygon", [[r1], [r2]]]
    return kind, ["GeometryCollection", [["Point", draw(pt)], ["Polygon", [rect()]]]]


@st.composite
def s_generated(draw):
    pairs = _tag_pairs()
    tp = draw(st.sampled_from(pairs))
    op = draw(st.sampled_from(KNOWN_BINARY + NARY))
    n = 2 if op not in ("multigeom", "common_crs", "unary_union", "unary_intersection") else draw(st.integers(2, 4))
    pos = draw(st.integers(0, n - 1))
    tags = [tp[0]] * n
    tags[pos] = tp[1]
    ks = [draw(s_shape()) for _ in range(n)]
    return {"op": op, "tags": tags, "kinds": [k for k, _ in ks], "shapes": [s for _, s in ks]}


# --------------------------------------------------------------------- bounding boxes
def o_bbox(case, T):
    from odc.geo.geom import BoundingBox, bbox_intersection, bbox_union

    tags = case["tags"]
    boxes = [BoundingBox(*b, crs=mk_crs_spec(t)) for b, t in zip(case["boxes"], tags)]
    op = case["op"]
    fn = {
        "bbox_union": lambda: bbox_union(boxes), "bbox_intersection": lambda: bbox_intersection(iter(boxes)),
        "bbox_and": lambda: functools.reduce(lambda a, b: a & b, boxes), "bbox_or": lambda: functools.reduce(lambda a, b: a | b, boxes),
    }[op]
    st_, val = _run(fn)
    same = _labels_equal(tags)
    if not same:
        if st_ == "ok":
            raise Violation(f"{op} on boxes with CRS labels {[t and t['label'] for t in tags]} returned {val} instead of raising")
        require(isinstance(val, ValueError), "%s raised %s, expected ValueError", op, type(val).__name__)
        T.nontrivial((op, len(boxes), tuple(None if t is None else (t["label"], t["spell"]) for t in tags)))
        T.cls("mismatch_rejected")
        return
    if st_ == "err":
        raise Violation(f"{op} raised {type(val).__name__}: {str(val)[:100]} for boxes with equal CRS {[t and (t['label'], t['spell']) for t in tags]}")
    bs = case["boxes"]
    if op in ("bbox_union", "bbox_or"):
        exp = (min(b[0] for b in bs), min(b[1] for b in bs), max(b[2] for b in bs), max(b[3] for b in bs))
    else:
        exp = (max(b[0] for b in bs), max(b[1] for b in bs), min(b[2] for b in bs), min(b[3] for b in bs))
    ref = mk_crs(tags[0])
    require(tuple(val) == exp, "%s = %r, expected %r", op, tuple(val), exp)
    require(val.crs == ref and (val.crs is None) == (ref is None), "%s result tagged %r", op, str(val.crs)[:50])
    if _spellings_differ(tags):
        T.nontrivial((op, len(boxes), tuple(None if t is None else (t["label"], t["spell"]) for t in tags)))
        T.cls("equal_via_spellings")


def e_bbox(tier):
    pairs = _tag_pairs()
    boxes = [[0, 0, 2, 2], [1, 1, 3, 4], [-1, 0.5, 0.5, 5], [10, 10, 11, 11]]
    for op in BBOX_OPS:
        for tp in pairs:
            for n in (2, 3, 4):
                for pos in range(n):
                    tags = [tp[0]] * n
                    tags[pos] = tp[1]
                    yield {"op": op, "tags": tags, "boxes": boxes[:n]}


# --------------------------------------------------------------------- GeoBoxes
def o_gbox(case, T):
    from affine import Affine
    from odc.geo import geobox as G

    tags = case["tags"]
    A = Affine(*case["affine"])
    rects = case["rects"]
    boxes = [G.GeoBox((r[3], r[2]), A * Affine.translation(r[0], r[1]), mk_crs_spec(t)) for r, t in zip(rects, tags)]
    op = case["op"]
    a, b = boxes[0], boxes[1]
    fn = {
        "gbox_or": lambda: a | b, "gbox_and": lambda: a & b, "overlap_roi": lambda: a.overlap_roi(b), "snap_to": lambda: a.snap_to(b),
        "geobox_union_conservative": lambda: G.geobox_union_conservative(boxes), "geobox_intersection_conservative": lambda: G.geobox_intersection_conservative(boxes),
        "pixel_translation": lambda: G.pixel_translation(a, b), "bounding_box_in_pixel_domain": lambda: G.bounding_box_in_pixel_domain(a, b),
    }[op]
    st_, val = _run(fn)
    same = _labels_equal(tags)
    if not same:
        if st_ == "ok":
            raise Violation(f"{op} on GeoBoxes with CRS labels {[t and t['label'] for t in tags]} returned {str(val)[:100]} instead of raising")
        require(isinstance(val, ValueError), "%s raised %s, expected ValueError", op, type(val).__name__)
        T.nontrivial((op, len(boxes), tuple(None if t is None else (t["label"], t["spell"]) for t in tags)))
        T.cls("mismatch_rejected")
        if "empty_operand" in case:
            T.cls("mismatch_with_an_empty_operand")
        return
    if st_ == "err":
        raise Violation(f"{op} raised {type(val).__name__}: {str(val)[:100]} for GeoBoxes on one grid with equal CRS {[t and (t['label'], t['spell']) for t in tags]}")
    ref = mk_crs(tags[0])
    rs = [(r[0], r[1], r[0] + r[2], r[1] + r[3]) for r in rects]
    if op in ("gbox_or", "geobox_union_conservative"):
        use = rs if op != "gbox_or" else rs[:2]
        u = (min(r[0] for r in use), min(r[1] for r in use), max(r[2] for r in use), max(r[3] for r in use))
        require(tuple(val.shape) == (u[3] - u[1], u[2] - u[0]), "%s shape %r", op, tuple(val.shape))
        require(tuple(val.affine)[:6] == tuple(A * Affine.translation(u[0], u[1]))[:6], "%s affine", op)
    if isinstance(val, G.GeoBox):
        require(val.crs == ref and (val.crs is None) == (ref is None), "%s result tagged %r, expected %r", op, str(val.crs)[:50], str(ref)[:50])
    if op == "pixel_translation":
        require(tuple(val.xy) == (rects[0][0] - rects[1][0], rects[0][1] - rects[1][1]), "pixel_translation %r", tuple(val.xy))
    if _spellings_differ(tags):
        T.nontrivial((op, len(boxes), tuple(None if t is None else (t["label"], t["spell"]) for t in tags)))
        T.cls("equal_via_spellings")


def e_gbox(tier):
    pairs = _tag_pairs()
    affs = [[10.0, 0.0, 100.0, 0.0, -10.0, 500.0], [0.0, 2.0, 0.0, 2.0, 0.0, 8.0]]
    rects = [[0, 0, 4, 3], [2, 1, 5, 5], [-3, -2, 2, 2], [6, 6, 1, 1]]
    for op in GBOX_OPS:
        nary = op in ("geobox_union_conservative", "geobox_intersection_conservative")
        for tp in pairs:
            for n in ((2, 3, 4) if nary else (2,)):
                for pos in range(n):
                    tags = [tp[0]] * n
                    tags[pos] = tp[1]
                    for af in affs:
                        yield {"op": op, "tags": tags, "affine": af, "rects": rects[:n]}
                    if not _labels_equal(tp):
                        # the differently tagged operand is an EMPTY GeoBox (what `a & b` of disjoint boxes, or
                        # gbox[:0, :0], gives): covering no pixel does not make its CRS compatible
                        for wh in ((0, 0), (0, 3), (2, 0)):
                            rr = [list(r) for r in rects[:n]]
                            rr[pos][2], rr[pos][3] = wh
                            yield {"op": op, "tags": tags, "affine": affs[0], "rects": rr, "empty_operand": pos}
                            if pos != 0:
                                # ... or it is the *matching* first operand that is empty
                                rr2 = [list(r) for r in rects[:n]]
                                rr2[0][2], rr2[0][3] = wh
                                yield {"op": op, "tags": tags, "affine": affs[0], "rects": rr2, "empty_operand": 0}


def o_introspect(case, T):
    """Every Geometry method that takes a Geometry must be known to the registry or obey the generic rule."""
    found = _binary_methods()
    require(len(found) >= 17, "introspection found only %d binary Geometry methods: %r", len(found), found)
    missing = [m for m in KNOWN_BINARY if m not in found]
    require(not missing, "registry methods no longer found by introspection: %r", missing)
    T.nontrivial(tuple(found))
    T.nontrivial("registry")


# --------------------------------------------------------------------- CRSs without an authority code, and their history
AUTHLESS = {
    "sinu": "+proj=sinu +lon_0=0 +x_0=0 +y_0=0 +R=6371007.181 +units=m +no_defs +type=crs",
    "sinu_r6371000": "+proj=sinu +lon_0=0 +x_0=0 +y_0=0 +R=6371000 +units=m +no_defs +type=crs",
    "moll": "ESRI:54009",
    "laea_custom": "+proj=laea +lat_0=50 +lon_0=10 +x_0=0 +y_0=0 +ellps=GRS80 +units=m +no_defs +type=crs",
    "omerc_custom": "+proj=omerc +lat_0=4 +lonc=115 +alpha=53 +gamma=53 +k=0.99984 +x_0=0 +y_0=0 +ellps=GRS80 +units=m +no_defs +type=crs",
}
PRE_STEPS = ["none", "epsg_both", "epsg_first", "epsg_second", "xr_coords_both", "str_and_hash_both"]


def o_authless(case, T):
    """Whether somebody already asked a CRS object for its EPSG code (logging, metadata; building xarray coordinates
    does it implicitly) must not change the verdict: different CRSs -> every combining operation raises; the same
    CRS given twice -> none raises."""
    import pyproj
    from affine import Affine
    from odc.geo import geobox as GB
    from odc.geo import geom as OG
    from odc.geo.crs import CRS
    from odc.geo.geobox import GeoBox
    from odc.geo.xr import xr_coords

    la, lb, pre = case["a"], case["b"], case["pre"]
    pa, pb = pyproj.CRS.from_user_input(AUTHLESS[la]), pyproj.CRS.from_user_input(AUTHLESS[lb])
    differ = pa != pb
    if differ != (la != lb):
        raise HarnessError("pyproj verdict on %s vs %s" % (la, lb))
    if pa.to_epsg() is not None and pb.to_epsg() is not None:
        T.exclude("both_match_an_epsg_code_approximately")  # C19's subject (D36)
        return
    ca, cb = CRS(AUTHLESS[la]), CRS(pb.to_wkt(version="WKT2_2019") if case["b_as_wkt"] else AUTHLESS[lb])
    ga = GeoBox((4, 5), Affine(1000.0, 0, 0.0, 0, -1000.0, 9000.0), ca)
    gb = GeoBox((4, 5), Affine(1000.0, 0, 2000.0, 0, -1000.0, 8000.0), cb)
    if pre == "epsg_both":
        _ = ca.epsg, cb.epsg
    elif pre == "epsg_first":
        _ = ca.epsg
    elif pre == "epsg_second":
        _ = cb.to_epsg()
    elif pre == "xr_coords_both":
        xr_coords(ga), xr_coords(gb)
    elif pre == "str_and_hash_both":
        _ = str(ca), hash(ca), str(cb), hash(cb), ca.to_wkt(), cb.to_wkt()
    a = OG.box(0, 0, 2_000_000, 2_000_000, ca)
    b = OG.box(1_000_000, 1_000_000, 3_000_000, 3_000_000, cb)
    cut = OG.line([(-10, 1_500_000), (5_000_000, 1_500_000)], cb)
    ba, bb = OG.BoundingBox(0, 0, 2, 2, ca), OG.BoundingBox(1, 1, 3, 3, cb)
    ops = [(m, (lambda m=m: getattr(a, m)(b))) for m in _binary_methods() if m != "split"]  # split is lazy: listed below
    ops += [("split", lambda: list(a.split(cut))), ("fn_intersects", lambda: OG.intersects(a, b)), ("multigeom", lambda: OG.multigeom([a, b])),
            ("common_crs", lambda: OG.common_crs([a, b])), ("unary_union", lambda: OG.unary_union([a, b])), ("unary_intersection", lambda: OG.unary_intersection([a, b])),
            ("bbox_or", lambda: ba | bb), ("bbox_and", lambda: ba & bb), ("bbox_union", lambda: OG.bbox_union([ba, bb])), ("bbox_intersection", lambda: OG.bbox_intersection([ba, bb])),
            ("gbox_or", lambda: ga | gb), ("gbox_and", lambda: ga & gb), ("overlap_roi", lambda: ga.overlap_roi(gb)), ("snap_to", lambda: ga.snap_to(gb)),
            ("geobox_union_conservative", lambda: GB.geobox_union_conservative([ga, gb])), ("geobox_intersection_conservative", lambda: GB.geobox_intersection_conservative([ga, gb]))]
    for name, fn in ops:
        st_, val = _run(fn)
        if differ:
            require(st_ == "err", "%s on operands tagged %s and %s (no authority codes; before: %s) returned %s instead of raising", name, la, lb, pre, str(val)[:80])
            require(isinstance(val, ValueError), "%s on %s vs %s (before: %s) raised %s, expected a ValueError", name, la, lb, pre, type(val).__name__)
        else:
            require(st_ == "ok", "%s on two objects of the same CRS %s (before: %s) raised %s: %s", name, la, pre, type(val).__name__, str(val)[:80])
    require((ca != cb) == differ and (ca == cb) == (not differ), "CRS %s == CRS %s is %r (before: %s)", la, lb, ca == cb, pre)
    T.cls("pre:" + pre)
    T.cls("differ" if differ else "same")
    if pre != "none":
        T.nontrivial((la, lb, pre, case["b_as_wkt"]))


def e_authless(tier):
    for a in AUTHLESS:
        for b in AUTHLESS:
            for pre in PRE_STEPS:
                for w in (False, True):
                    yield {"a": a, "b": b, "pre": pre, "b_as_wkt": w}


def build(chk: Check) -> None:
    chk.sub("introspection", o_introspect, enum=lambda tier: [{}], exhaustive_tiers=("quick", "thorough"))
    chk.sub("binary_enum", o_geom, enum=e_binary, exhaustive_tiers=("thorough",), budget_s={"quick": 80, "thorough": 900})
    chk.sub("nary_enum", o_geom, enum=e_nary, exhaustive_tiers=("quick", "thorough"), budget_s={"quick": 80, "thorough": 900})
    chk.sub("relations_enum", o_geom, enum=e_relations, exhaustive_tiers=("quick", "thorough"))
    chk.sub("generated", o_geom, cov={"quick": 1500, "thorough": 120000}, strategy=s_generated(), n={"quick": 3000, "thorough": 200000})
    chk.sub("bbox_enum", o_bbox, enum=e_bbox, exhaustive_tiers=("quick", "thorough"))
    chk.sub("gbox_enum", o_gbox, enum=e_gbox, exhaustive_tiers=("quick", "thorough"))
    chk.sub("authorityless_after_lookup", o_authless, enum=e_authless, exhaustive_tiers=("quick", "thorough"))
