"""C02 - GeoBox views agree with the pixel-to-world mapping."""
from __future__ import annotations

import math
from fractions import Fraction as Fr

import numpy as np
from hypothesis import strategies as st

from vf.common import Check, Violation, require
from vf.strategies import FA, affines, coeff_close, crs_tags, geoboxes, mk_affine, mk_crs_spec, mk_geobox

RULE = (
    "GeoBoxes from the shared strategy (shapes incl. 1xN/Nx1, affine = translation*rotation*shear*scale, exact dyadic "
    "and general float families, all sign combinations, CRS incl. none) x operation x parameters (regions with open "
    "ends / in-range negatives / int row, pads, alignments, shapes, integer and fractional translations, flips, "
    "angles, zoom factors, target shapes and resolutions, integer scalers, buffers); GCP boxes from control points on "
    "regular grids (incl. odd x odd) and scatters of 3, 4-8, >=9 points, world = exact affine image or affine+small "
    "quadratic. Oracle: exact rational model of (shape, affine) per operation, corner/centre images for the views. "
    "Non-trivial: affine mirrored/rotated/sheared/non-square, a unit side, or a GCP box; distinct = (operation, affine "
    "class, shape class, parameter class)."
)
ASSUMPTIONS = [
    "float results are compared coefficient-wise with the exact rational model within 64 ulp of the accumulated terms",
    "buffered() is only checked on axis-aligned boxes (contract stated in CRS units along axes)",
    "GCP boxes: relations demanded tightly for affinely related control points, within 4x the max control point residual otherwise",
]
SHARDS = {"quick": 4, "thorough": 16}

EPS = 2.220446049250313e-16


def _klass_nt(klass, shape):
    return klass != "north_up" or 1 in shape


def _shape_class(shape):
    return "unit" if 1 in shape else "small" if max(shape) <= 24 else "medium"


def _ev(A: FA, x, y):
    return A * (Fr(x), Fr(y))


def _pt_tol(A: FA, x, y):
    a, b, c, d, e, f = (abs(float(v)) for v in A.m)
    return (16 * EPS * (a * abs(x) + b * abs(y) + c) + 1e-300, 16 * EPS * (d * abs(x) + e * abs(y) + f) + 1e-300)


# --------------------------------------------------------------------- views
def o_views(case, T):
    gb = mk_geobox(case)
    A = FA.of(case["affine"])
    ny, nx = case["shape"]
    require(tuple(gb.shape) == (ny, nx) and gb.width == nx and gb.height == ny, "shape accessors")
    corners = [(0, 0), (0, ny), (nx, ny), (nx, 0)]
    img = [_ev(A, *c) for c in corners]
    # pix2wld agrees with the exact map
    for (x, y), (wx, wy) in zip(corners + [(nx / 2, ny / 2), (0.5, 0.5)], img + [_ev(A, nx / 2, ny / 2), _ev(A, 0.5, 0.5)]):
        gx, gy = gb.pix2wld(x, y)
        tx, ty = _pt_tol(A, x, y)
        require(abs(gx - float(wx)) <= tx and abs(gy - float(wy)) <= ty, "pix2wld(%r,%r)=%r expected %r", x, y, (gx, gy), (float(wx), float(wy)))
    # mutual inverses
    m = np.array([[case["affine"][0], case["affine"][1]], [case["affine"][3], case["affine"][4]]])
    cond = float(np.linalg.cond(m))
    lin_min = min(math.hypot(m[0, 0], m[1, 0]), math.hypot(m[0, 1], m[1, 1]))
    tmag = max(abs(case["affine"][2]), abs(case["affine"][5])) / lin_min
    for p in [(0.0, 0.0), (nx + 0.0, ny + 0.0), (0.5, ny - 0.5), (nx / 3.0, ny / 7.0), (-3.25, 1000.5)]:
        w = gb.pix2wld(*p)
        q = gb.wld2pix(*w)
        bound = 256 * EPS * cond * (tmag + abs(p[0]) + abs(p[1]) + 1)
        require(abs(q[0] - p[0]) <= bound and abs(q[1] - p[1]) <= bound, "wld2pix(pix2wld(%r)) = %r (bound %.3g, cond %.3g)", p, q, bound, cond)
    # footprint polygon = image of the pixel rectangle
    ext = gb.extent
    require(ext.crs == gb.crs, "extent crs")
    pts = ext.exterior.points
    require(len(pts) == 5 and pts[0] == pts[-1], "extent is not a closed 4-corner ring: %r", pts)
    got = {(round_key(x), round_key(y)) for x, y in pts[:4]}
    for (cx, cy), (wx, wy) in zip(corners, img):
        tx, ty = _pt_tol(A, cx, cy)
        ok = any(abs(x - float(wx)) <= tx and abs(y - float(wy)) <= ty for x, y in pts[:4])
        require(ok, "corner pixel %r -> world %r missing from extent %r", (cx, cy), (float(wx), float(wy)), pts)
    # bounding box = min/max of the four corner images
    bb = gb.boundingbox
    wxs = [float(w[0]) for w in img]
    wys = [float(w[1]) for w in img]
    tx = max(_pt_tol(A, *c)[0] for c in corners)
    ty = max(_pt_tol(A, *c)[1] for c in corners)
    require(abs(bb.left - min(wxs)) <= tx and abs(bb.right - max(wxs)) <= tx and abs(bb.bottom - min(wys)) <= ty and abs(bb.top - max(wys)) <= ty,
            "boundingbox %r, min/max of corner images is (%r,%r,%r,%r)", tuple(bb), min(wxs), min(wys), max(wxs), max(wys))
    require(bb.crs == gb.crs, "boundingbox crs")
    a, b, c, d, e, f = case["affine"]
    aligned = abs(b) < 1e-10 and abs(d) < 1e-10
    res = gb.resolution
    if aligned:
        require(res.x == a and res.y == e, "resolution %r, expected (%r,%r)", res, a, e)
        co = gb.coordinates
        ydim, xdim = gb.dimensions
        xs = co[xdim].values
        ys = co[ydim].values
        require(len(xs) == nx and len(ys) == ny, "coordinate lengths")
        for i in {0, nx - 1, nx // 2}:
            w = _ev(A, i + 0.5, 0)[0]
            require(abs(xs[i] - float(w)) <= 32 * EPS * (abs(a) * (i + 1) + abs(c)) + 1e-300, "x label %d = %r, image of pixel centre is %r", i, xs[i], float(w))
        for j in {0, ny - 1, ny // 2}:
            w = _ev(A, 0, j + 0.5)[1]
            require(abs(ys[j] - float(w)) <= 32 * EPS * (abs(e) * (j + 1) + abs(f)) + 1e-300, "y label %d = %r, image of pixel centre is %r", j, ys[j], float(w))
        require(co[xdim].resolution == a and co[ydim].resolution == e, "coordinate resolution attributes")
    else:
        try:
            gb.coordinates
            raise Violation("coordinates on a non axis-aligned GeoBox did not raise ValueError")
        except ValueError:
            pass
        det = a * e - b * d
        require(abs(abs(res.x) - math.hypot(a, d)) <= 1e-9 * cond * math.hypot(a, d), "|res.x|=%r, |column 0|=%r", abs(res.x), math.hypot(a, d))
        require(abs(res.x * res.y - det) <= 1e-9 * cond * abs(det), "res.x*res.y=%r, det=%r", res.x * res.y, det)
    if _klass_nt(case["klass"], case["shape"]):
        T.nontrivial(("views", case["klass"], _shape_class(case["shape"]), case["family"]))
    T.cls("klass:" + case["klass"].split("+")[-1])
    T.cls("shape:" + _shape_class(case["shape"]))


def round_key(v):
    return float(v)


# --------------------------------------------------------------------- operations
OPS = ["getitem", "getitem_bbox", "getitem_int", "getitem_rows", "pad", "pad_wh", "expand", "translate_pix", "neighbours", "flipx", "flipy", "rotate",
       "zoom_out", "zoom_to_shape", "zoom_to_int", "zoom_to_res", "scaled_down", "buffered", "center_pixel", "rmul", "mul", "step_rejected"]


@st.composite
def s_ops(draw):
    gb = draw(geoboxes(max_side=120))
    ny, nx = gb["shape"]
    op = draw(st.sampled_from(OPS))
    P = {}

    def sl(n):
        a = draw(st.integers(0, n - 1))
        b = draw(st.integers(a + 1, n))
        form = draw(st.integers(0, 4))
        if form == 0:
            return [None, None]
        if form == 1:
            return [a, None]
        if form == 2:
            return [None, b]
        if form == 3:
            return [a - n, b - n if b < n else None]
        return [a, b]

    if op in ("getitem", "step_rejected"):
        P = {"y": sl(ny), "x": sl(nx)}
        if op == "step_rejected":
            P["step"] = draw(st.sampled_from([2, 3, -1]))
    elif op == "getitem_bbox":
        ya, xa = draw(st.integers(0, ny - 1)), draw(st.integers(0, nx - 1))
        P = {"y": [ya, draw(st.integers(ya + 1, ny))], "x": [xa, draw(st.integers(xa + 1, nx))], "m": draw(st.sampled_from([0.25, 0.05, 0.45]))}
    elif op == "getitem_int":
        P = {"i": draw(st.integers(-ny, ny - 1))}
    elif op == "getitem_rows":
        P = {"y": sl(ny)}
    elif op == "pad":
        P = {"px": draw(st.integers(0, 20)), "py": draw(st.one_of(st.none(), st.integers(0, 20)))}
    elif op == "pad_wh":
        P = {"ax": draw(st.sampled_from([1, 2, 16, 7, 64])), "ay": draw(st.one_of(st.none(), st.sampled_from([1, 4, 16, 5])))}
    elif op == "expand":
        P = {"shape": [draw(st.integers(1, 300)), draw(st.integers(1, 300))]}
    elif op == "translate_pix":
        v = st.one_of(st.integers(-200, 200), st.integers(-800, 800).map(lambda k: k / 8))
        P = {"tx": draw(v), "ty": draw(v)}
    elif op == "rotate":
        P = {"deg": draw(st.one_of(st.sampled_from([0.0, 90.0, 180.0, 270.0, -90.0, 45.0, 10.0]), st.floats(-360, 360)))}
    elif op == "zoom_out":
        P = {"f": draw(st.one_of(st.sampled_from([2.0, 0.5, 1.0, 3.0, 1.5, 0.25, 1.3, 10.0]), st.floats(0.1, 20)))}
    elif op == "zoom_to_shape":
        P = {"shape": [draw(st.integers(1, 200)), draw(st.integers(1, 200))]}
    elif op == "zoom_to_int":
        P = {"n": draw(st.integers(1, 400))}
    elif op == "zoom_to_res":
        P = {"k": draw(st.sampled_from([0.5, 2.0, 3.0, 1.0, 0.3, 7.5]))}
    elif op == "scaled_down":
        P = {"k": draw(st.integers(2, 9))}
    elif op == "buffered":
        P = {"bx": draw(st.sampled_from([0.0, 0.5, 1.0, 2.5, 10.0, 0.09, 0.11, 1.1])), "by": draw(st.one_of(st.none(), st.sampled_from([0.0, 1.0, 3.7])))}
    elif op in ("rmul", "mul"):
        c, _, _ = draw(affines(family=gb["family"]))
        if op == "mul":
            c[2] = float(draw(st.integers(-50, 50)))
            c[5] = float(draw(st.integers(-50, 50)))
        P = {"T": c}
    # read the lazily cached views of the source first in half of the cases: derived boxes must not inherit them
    return {"gbox": gb, "op": op, "P": P, "warm": draw(st.booleans())}


def _cmp(out, shape, want: FA, gb_case, hint, what):
    require(tuple(out.shape) == tuple(shape), "%s: shape %r, expected %r", what, tuple(out.shape), tuple(shape))
    if gb_case["family"] == "exact" and hint is not None and hint != "float":
        ok = tuple(float(v) for v in out.affine[:6]) == want.floats()
        require(ok, "%s: affine %r, expected exactly %r", what, tuple(out.affine)[:6], want.floats())
    else:
        err = coeff_close(out.affine, want, scale_hint=[h for h in (hint if isinstance(hint, (list, tuple)) else [256.0])])
        if err is not None and isinstance(hint, (list, tuple)) and len(hint) > 1:
            # absolute term-size bound for translations that result from cancelling products
            g6 = [float(v) for v in tuple(out.affine)[:6]]
            w6 = want.floats()
            if all(abs(a - b) <= 64 * EPS * (abs(b) + hint[-1]) for a, b in zip(g6, w6)):
                err = None
        require(err is None, "%s: %s", what, err)


def _covers(out, gb_case, tol=1e-9):
    """Original pixel rectangle, mapped into the derived pixel plane, lies inside the derived image."""
    Ao = FA.of(out.affine)
    A = FA.of(gb_case["affine"])
    ny, nx = gb_case["shape"]
    P = Ao.inv() * A
    oy, ox = out.shape
    a, b, c0, d, e, f0 = (float(v) for v in Ao.m)
    lin_min = min(math.hypot(a, d), math.hypot(b, e))
    cond = float(np.linalg.cond(np.array([[a, b], [d, e]])))
    # float error of the derived coefficients, seen through the inverse (amplified by the condition number)
    tol = tol + 64 * EPS * max(abs(c0), abs(f0), abs(gb_case["affine"][2]), abs(gb_case["affine"][5])) / lin_min + 64 * EPS * cond * (nx + ny + ox + oy)
    for c in ((0, 0), (nx, 0), (nx, ny), (0, ny)):
        x, y = P * c
        require(-tol <= x <= ox + tol and -tol <= y <= oy + tol, "derived box %r does not cover original corner %r (maps to pixel %.9g, %.9g)", tuple(out.shape), c, float(x), float(y))


def _check_views_of(out, what):
    """The derived box's own footprint and bounding box are the images of ITS pixel rectangle under ITS mapping
    (whatever the source had cached)."""
    Ao = FA.of(out.affine)
    oy, ox = out.shape
    corners = [(0, 0), (0, oy), (ox, oy), (ox, 0)]
    img = [_ev(Ao, *c) for c in corners]
    pts = out.extent.exterior.points
    require(len(pts) == 5, "%s: extent of the result is not a 4-corner ring", what)
    for (cx, cy), (wx, wy) in zip(corners, img):
        tx, ty = _pt_tol(Ao, cx, cy)
        ok = any(abs(x - float(wx)) <= tx and abs(y - float(wy)) <= ty for x, y in pts[:4])
        require(ok, "%s: corner pixel %r of the result maps to %r but its extent is %r", what, (cx, cy), (float(wx), float(wy)), pts[:4])
    bb = out.boundingbox
    wxs = [float(w[0]) for w in img]
    wys = [float(w[1]) for w in img]
    tx = max(_pt_tol(Ao, *c)[0] for c in corners)
    ty = max(_pt_tol(Ao, *c)[1] for c in corners)
    require(abs(bb.left - min(wxs)) <= tx and abs(bb.right - max(wxs)) <= tx and abs(bb.bottom - min(wys)) <= ty and abs(bb.top - max(wys)) <= ty,
            "%s: boundingbox of the result %r is not the min/max of its corner images", what, tuple(bb))


def o_ops(case, T):
    from affine import Affine
    from odc.geo.geobox import GeoBox, scaled_down_geobox

    g = case["gbox"]
    gb = mk_geobox(g)
    if case.get("warm"):
        gb.extent, gb.boundingbox, gb.resolution  # noqa: B018 - fills whatever the source caches lazily
    A = FA.of(g["affine"])
    ny, nx = g["shape"]
    op, P = case["op"], case["P"]
    pclass = ""

    def S(v):
        return slice(v[0], v[1])

    if op == "getitem":
        out = gb[S(P["y"]), S(P["x"])]
        y0, y1, _ = S(P["y"]).indices(ny)
        x0, x1, _ = S(P["x"]).indices(nx)
        _cmp(out, (y1 - y0, x1 - x0), A * FA.translation(x0, y0), g, [nx + ny], "gbox[%r,%r]" % (P["y"], P["x"]))
        pclass = "neg" if any(v is not None and v < 0 for v in P["y"] + P["x"]) else "open" if None in P["y"] + P["x"] else "plain"
    elif op == "step_rejected":
        try:
            out = gb[slice(P["y"][0], P["y"][1], P["step"]), S(P["x"])]
        except (NotImplementedError, ValueError):
            out = None
        require(out is None, "slice with step %r accepted: %r", P["step"], out)
        T.cls("op:" + op)
        return
    elif op == "getitem_bbox":
        # crop by a bounding box in the box's own CRS (round 8, C02-20): the world envelope of a pixel window, pulled in
        # by a fraction of a pixel.  North-up or flipped, an axis-parallel grid returns exactly that window; a rotated /
        # sheared one returns a window of the same grid that holds it.
        from odc.geo import BoundingBox

        (y0, y1), (x0, x1), m = P["y"], P["x"], P["m"]
        pts = [gb.affine * (x, y) for x in (x0 + m, x1 - m) for y in (y0 + m, y1 - m)]
        bb = BoundingBox(min(p[0] for p in pts), min(p[1] for p in pts), max(p[0] for p in pts), max(p[1] for p in pts), crs=gb.crs)
        if gb.crs is None:
            # a region without CRS is read as pixel coordinates of the box itself (compute_crop): the window, whatever the
            # orientation of the grid
            bb = BoundingBox(x0 + m, y0 + m, x1 - m, y1 - m, crs=None)
        out = gb[bb]
        a6 = g["affine"]
        if gb.crs is None:
            _cmp(out, (y1 - y0, x1 - x0), A * FA.translation(x0, y0), g, [nx + ny], "gbox[pixel-space bbox of window y=%r x=%r pulled in %r px]" % (P["y"], P["x"], m))
            pclass = "pixel_space"
        elif a6[1] == 0 and a6[3] == 0:
            _cmp(out, (y1 - y0, x1 - x0), A * FA.translation(x0, y0), g, [nx + ny], "gbox[bbox of window y=%r x=%r pulled in %r px]" % (P["y"], P["x"], m))
            pclass = "axis_parallel:" + ("north_up" if a6[0] > 0 and a6[4] < 0 else "flipped")
        else:
            Pm = FA.of(g["affine"]).inv() * FA.of(out.affine)
            pa, pb, pc, pd, pe, pf = (float(v) for v in Pm.m)
            ix, iy = round(pc), round(pf)
            require(abs(pa - 1) < 1e-9 and abs(pe - 1) < 1e-9 and abs(pb) < 1e-9 and abs(pd) < 1e-9 and abs(pc - ix) < 1e-6 and abs(pf - iy) < 1e-6,
                    "gbox[bbox]: result is not a window of the same pixel grid (source<-result %r)", (pa, pb, pc, pd, pe, pf))
            oy, ox = out.shape
            require(0 <= ix <= x0 and 0 <= iy <= y0 and x1 <= ix + ox <= nx and y1 <= iy + oy <= ny,
                    "gbox[bbox]: window x=%d:%d y=%d:%d does not hold the requested pixels x=%r y=%r inside %r", ix, ix + ox, iy, iy + oy, P["x"], P["y"], (ny, nx))
            pclass = "rotated"
    elif op == "getitem_int":
        i = P["i"]
        out = gb[i]
        r = i if i >= 0 else ny + i
        _cmp(out, (1, nx), A * FA.translation(0, r), g, [ny], "gbox[%d]" % i)
        pclass = "neg" if i < 0 else "pos"
    elif op == "getitem_rows":
        out = gb[S(P["y"])]
        y0, y1, _ = S(P["y"]).indices(ny)
        _cmp(out, (y1 - y0, nx), A * FA.translation(0, y0), g, [ny], "gbox[%r]" % (P["y"],))
    elif op == "pad":
        px, py = P["px"], P["py"]
        out = gb.pad(px) if py is None else gb.pad(px, py)
        py_ = px if py is None else py
        _cmp(out, (ny + 2 * py_, nx + 2 * px), A * FA.translation(-px, -py_), g, [px + py_ + 1], "pad(%r,%r)" % (px, py))
        _covers(out, g)
        pclass = "asym" if py is not None and py != px else "sym"
    elif op == "pad_wh":
        ax, ay = P["ax"], P["ay"]
        out = gb.pad_wh(ax) if ay is None else gb.pad_wh(ax, ay)
        ay_ = ax if ay is None else ay
        _cmp(out, (-(-ny // ay_) * ay_, -(-nx // ax) * ax), A, g, [1], "pad_wh(%r,%r)" % (ax, ay))
        _covers(out, g)
    elif op == "expand":
        out = gb.expand(tuple(P["shape"]))
        _cmp(out, P["shape"], A, g, [1], "expand")
        out2 = gb.crop(tuple(P["shape"]))
        _cmp(out2, P["shape"], A, g, [1], "crop(shape)")
    elif op == "translate_pix":
        out = gb.translate_pix(P["tx"], P["ty"])
        _cmp(out, (ny, nx), A * FA.translation(Fr(P["tx"]), Fr(P["ty"])), g, [abs(P["tx"]) + abs(P["ty"]) + 1], "translate_pix")
        pclass = "frac" if P["tx"] != int(P["tx"]) or P["ty"] != int(P["ty"]) else "int"
    elif op == "neighbours":
        for name, (tx, ty) in {"left": (-nx, 0), "right": (nx, 0), "top": (0, -ny), "bottom": (0, ny)}.items():
            out = getattr(gb, name)
            _cmp(out, (ny, nx), A * FA.translation(tx, ty), g, [nx + ny], name)
            require(out.crs == gb.crs, "%s changed crs", name)
    elif op == "flipx":
        out = gb.flipx()
        _cmp(out, (ny, nx), A * FA.translation(nx, 0) * FA.scale(-1, 1), g, [nx], "flipx")
    elif op == "flipy":
        out = gb.flipy()
        _cmp(out, (ny, nx), A * FA.translation(0, ny) * FA.scale(1, -1), g, [ny], "flipy")
    elif op == "rotate":
        deg = P["deg"]
        out = gb.rotate(deg)
        require(tuple(out.shape) == (ny, nx), "rotate changed shape")
        # centre pixel stays put
        c0 = _ev(A, Fr(nx) / 2, Fr(ny) / 2)
        got = out.pix2wld(nx / 2, ny / 2)
        a, b, c, d, e, f = (abs(float(v)) for v in A.m)
        tol = 64 * EPS * ((a + b + d + e) * (nx + ny) + c + f) + 1e-300
        require(abs(got[0] - float(c0[0])) <= tol and abs(got[1] - float(c0[1])) <= tol, "rotate(%r): centre moved from %r to %r", deg, (float(c0[0]), float(c0[1])), got)
        co, si = math.cos(math.radians(deg)), math.sin(math.radians(deg))
        a0, b0, _, d0, e0, _ = g["affine"]
        want = (co * a0 - si * d0, co * b0 - si * e0, si * a0 + co * d0, si * b0 + co * e0)
        gotl = (out.affine.a, out.affine.b, out.affine.d, out.affine.e)
        scale = max(abs(v) for v in (a0, b0, d0, e0))
        require(all(abs(x - y) <= 1e-12 * scale for x, y in zip(gotl, want)), "rotate(%r): linear part %r, expected %r (counter-clockwise about the centre)", deg, gotl, want)
        pclass = "mult90" if deg % 90 == 0 else "arbitrary"
    elif op == "zoom_out":
        fz = P["f"]
        out = gb.zoom_out(fz)
        want_shape = (max(1, math.ceil(Fr(ny) / Fr(fz))), max(1, math.ceil(Fr(nx) / Fr(fz))))
        # ceil of a float quotient may differ from the exact one at integer boundaries by rounding: allow both
        alt = (max(1, math.ceil(ny / fz)), max(1, math.ceil(nx / fz)))
        require(tuple(out.shape) in (want_shape, alt), "zoom_out(%r): shape %r expected %r", fz, tuple(out.shape), want_shape)
        _cmp(out, tuple(out.shape), A * FA.scale(Fr(fz)), g, "float", "zoom_out(%r)" % fz)
        _covers(out, g, tol=1e-6)
        pclass = "lt1" if fz < 1 else "int" if fz == int(fz) else "frac"
    elif op == "zoom_to_shape":
        sh = P["shape"]
        out = gb.zoom_to(tuple(sh))
        _cmp(out, sh, A * FA.scale(Fr(nx, sh[1]), Fr(ny, sh[0])), g, "float", "zoom_to(%r)" % (sh,))
        _covers(out, g, tol=1e-6)
    elif op == "zoom_to_int":
        n = P["n"]
        out = gb.zoom_to(n)
        fz = Fr(max(nx, ny), n)
        require(max(out.shape) in (n, n + 1) or max(out.shape) == max(1, math.ceil(max(nx, ny) / (max(nx, ny) / n))), "zoom_to(%d): longest side %d", n, max(out.shape))
        _cmp(out, tuple(out.shape), A * FA.scale(fz), g, "float", "zoom_to(%d)" % n)
        _covers(out, g, tol=1e-6)
    elif op == "zoom_to_res":
        b, d = g["affine"][1], g["affine"][3]
        if abs(b) > 1e-10 or abs(d) > 1e-10:
            T.exclude("zoom_to_res_rotated")
            return
        k = P["k"]
        rx, ry = g["affine"][0] * k, g["affine"][4] * k
        from odc.geo.types import resxy_

        out = gb.zoom_to(resolution=resxy_(rx, ry))
        require(out.affine.a == rx and out.affine.e == ry and out.affine.b == 0 and out.affine.d == 0, "zoom_to(resolution=) pixel size %r, requested (%r,%r)", (out.affine.a, out.affine.e), rx, ry)
        _covers(out, g, tol=0.011 * max(1.0, 1 / k))
        oy, ox = out.shape
        # not larger than needed by a pixel
        Pm = FA.of(out.affine).inv() * A
        xs = [float((Pm * c)[0]) for c in ((0, 0), (nx, ny))]
        ys = [float((Pm * c)[1]) for c in ((0, 0), (nx, ny))]
        require(ox - (max(xs) - min(xs)) < 1.02 or ox == 1, "zoom_to(resolution=) is %.4g px wider than the original", ox - (max(xs) - min(xs)))
        require(oy - (max(ys) - min(ys)) < 1.02 or oy == 1, "zoom_to(resolution=) is %.4g px taller than the original", oy - (max(ys) - min(ys)))
    elif op == "scaled_down":
        k = P["k"]
        out = scaled_down_geobox(gb, k)
        _cmp(out, (-(-ny // k), -(-nx // k)), A * FA.scale(k), g, [1], "scaled_down_geobox(%d)" % k)
        _covers(out, g)
    elif op == "buffered":
        b, d = g["affine"][1], g["affine"][3]
        if abs(b) > 1e-10 or abs(d) > 1e-10:
            T.exclude("buffered_rotated")
            return
        rx, ry = abs(g["affine"][0]), abs(g["affine"][4])
        bx = P["bx"] * rx
        by = None if P["by"] is None else P["by"] * ry
        out = gb.buffered(bx) if by is None else gb.buffered(bx, by)
        by_ = bx if by is None else by
        Pm = FA.of(gb.affine).inv() * FA.of(out.affine)
        a_, b_, c_, d_, e_, f_ = Pm.m
        require((a_, b_, d_, e_) == (1, 0, 0, 1) or (abs(a_ - 1) < 1e-12 and abs(e_ - 1) < 1e-12), "buffered changed the grid")
        gtol = 1e-9 + 16 * EPS * max(abs(g["affine"][2]) / rx, abs(g["affine"][5]) / ry)
        require(abs(c_ - round(c_)) < gtol and abs(f_ - round(f_)) < gtol, "buffered result is off-grid")
        px, py = -round(c_), -round(f_)
        require(tuple(out.shape) == (ny + 2 * py, nx + 2 * px), "buffered shape %r with pads %r", tuple(out.shape), (px, py))
        for pad, buf, res in ((px, bx, rx), (py, by_, ry)):
            need = buf / res
            require(pad >= need - 0.1 - 1e-9 and pad < need + 1 - 0.1 + 1e-9 and pad >= 0, "buffered: pad %d px for buffer of %.4g px", pad, need)
    elif op == "center_pixel":
        out = gb.center_pixel
        _cmp(out, (1, 1), A * FA.translation(nx // 2, ny // 2), g, [nx + ny], "center_pixel")
    elif op in ("rmul", "mul"):
        Tm = mk_affine(P["T"])
        # the product's translation is a sum of terms that may cancel: tolerance from the size of the terms
        tmag = max(abs(v) for v in (P["T"][2], P["T"][5], g["affine"][2], g["affine"][5]))
        lmag = max(abs(v) for v in (P["T"][0], P["T"][1], P["T"][3], P["T"][4], g["affine"][0], g["affine"][1], g["affine"][3], g["affine"][4]))
        hint = [256.0, tmag * (1 + lmag)]
        if op == "rmul":
            out = Tm * gb
            _cmp(out, (ny, nx), FA.of(P["T"]) * A, g, hint if g["family"] != "exact" else "float", "A*gbox")
        else:
            out = gb * Tm
            _cmp(out, (ny, nx), A * FA.of(P["T"]), g, hint if g["family"] != "exact" else "float", "gbox*A")
    require(out.crs == gb.crs, "%s changed the CRS: %r -> %r", op, gb.crs, out.crs)
    require(isinstance(out, GeoBox), "%s returned %r", op, type(out))
    _check_views_of(out, op)
    if _klass_nt(g["klass"], g["shape"]):
        T.nontrivial((op, g["klass"], _shape_class(g["shape"]), pclass, g["family"]))
    T.cls("op:" + op)


# --------------------------------------------------------------------- GCP boxes
@st.composite
def s_gcp(draw):
    W = draw(st.sampled_from([16, 64, 100, 512]))
    H = draw(st.sampled_from([16, 64, 100, 512]))
    kind = draw(st.sampled_from(["grid", "grid", "scatter3", "scatter4_8", "scatter9+"]))
    if kind == "grid":
        gx, gy = draw(st.integers(2, 5)), draw(st.integers(2, 5))
        pts = [[W * i / (gx - 1), H * j / (gy - 1)] for j in range(gy) for i in range(gx)]
    else:
        n = {"scatter3": 3, "scatter4_8": draw(st.integers(4, 8)), "scatter9+": draw(st.integers(9, 14))}[kind]
        side = math.ceil(math.sqrt(n)) + 1
        cells = draw(st.permutations([(i, j) for i in range(side) for j in range(side)]))[:n]
        pts = [[W * (i + draw(st.integers(1, 15)) / 16) / side, H * (j + draw(st.integers(1, 15)) / 16) / side] for i, j in cells]
    coeffs, fam, klass = draw(affines(family="exact"))
    bend = draw(st.sampled_from([0.0, 0.0, 1e-3, 1e-2]))
    op = draw(st.sampled_from(["none", "getitem", "pad", "pad_wh", "zoom_out", "zoom_to", "center_pixel"]))
    P = {}
    if op == "getitem":
        y0 = draw(st.integers(0, H - 1)); y1 = draw(st.integers(y0 + 1, H))
        x0 = draw(st.integers(0, W - 1)); x1 = draw(st.integers(x0 + 1, W))
        P = {"roi": [y0, y1, x0, x1]}
    elif op == "pad":
        P = {"px": draw(st.integers(0, 8)), "py": draw(st.integers(0, 8))}
    elif op == "pad_wh":
        P = {"ax": draw(st.sampled_from([16, 7, 64]))}
    elif op == "zoom_out":
        P = {"f": draw(st.sampled_from([2.0, 0.5, 4.0, 3.0, 1.5]))}
    elif op == "zoom_to":
        P = {"shape": [draw(st.integers(1, 64)), draw(st.integers(1, 64))]}
    probes = [[draw(st.integers(0, 16)) / 16, draw(st.integers(0, 16)) / 16] for _ in range(3)]
    # a second view-changing step on top of the first (crop/pad of a zoomed box, zoom of a cropped box, ...): the
    # derived box then carries both a non-unit scale and a non-zero offset relative to the control points' frame
    op2 = draw(st.sampled_from(["none", "none", "getitem", "pad", "zoom_out", "pad_wh", "zoom_to", "center_pixel"]))
    P2 = {}
    if op2 == "getitem":
        P2 = {"f": sorted([draw(st.integers(0, 7)) / 8, draw(st.integers(1, 8)) / 8]) + sorted([draw(st.integers(0, 7)) / 8, draw(st.integers(1, 8)) / 8])}
    elif op2 == "pad":
        P2 = {"px": draw(st.integers(0, 5)), "py": draw(st.integers(0, 5))}
    elif op2 == "zoom_out":
        P2 = {"f": draw(st.sampled_from([2, 3, 1.5, 4]))}
    elif op2 == "pad_wh":
        P2 = {"ax": draw(st.sampled_from([2, 4, 16, 7]))}
    elif op2 == "zoom_to":
        P2 = {"shape": [draw(st.integers(1, 40)), draw(st.integers(1, 40))]}
    return {"WH": [W, H], "kind": kind, "pts": pts, "A": coeffs, "klass": klass, "bend": bend, "op": op, "P": P, "op2": op2, "P2": P2, "probes": probes, "crs": draw(crs_tags())}


def o_gcp(case, T):
    from odc.geo.gcp import GCPGeoBox, GCPMapping

    W, H = case["WH"]
    pts = np.asarray(case["pts"], dtype="float64")
    n = len(pts)
    # general position check (independent of code under test), as in C20
    u = (pts - pts.mean(axis=0)) / (np.abs(pts - pts.mean(axis=0)).max() + 1e-300)
    nterms = 9 if n >= 9 else 4 if n >= 4 else 3
    cols = {3: [(0, 0), (1, 0), (0, 1)], 4: [(0, 0), (1, 0), (0, 1), (1, 1)], 9: [(i, j) for i in range(3) for j in range(3)]}[nterms]
    D = np.stack([u[:, 0] ** i * u[:, 1] ** j for i, j in cols], axis=1)
    if not np.linalg.cond(D) < 1e4:
        T.exclude("points_not_in_general_position")
        return
    A = mk_affine(case["A"])
    s = max(abs(A.a), abs(A.b), abs(A.d), abs(A.e))
    bend = case["bend"]

    if n < 4:
        bend = 0.0  # 3 points: affine fit only

    sb = min(math.hypot(A.a, A.d), math.hypot(A.b, A.e))  # bend relative to the SHORTEST pixel edge: keeps the map regular

    def truth(x, y):
        # the bend stays inside the polynomial family that will be fitted (bilinear for 4-8 points, biquadratic
        # for >= 9), so the control points determine the map and "fit error" is rounding only
        wx, wy = A * (x, y)
        if bend:
            uu, vv = x / W, y / H
            wx += sb * min(W, H) * bend * uu * vv
            wy += sb * min(W, H) * bend * ((uu * uu - vv) if n >= 9 else -uu * vv)
        return wx, wy

    wld = np.asarray([truth(x, y) for x, y in pts])
    crs = mk_crs_spec(case["crs"])
    mapping = GCPMapping(pts.copy(), wld.copy(), crs)
    gb = GCPGeoBox((H, W), mapping)
    require(gb.crs == mapping.crs and tuple(gb.shape) == (H, W) and gb.linear is False, "GCPGeoBox basics")
    # residual of the fit at the control points (in pixels)
    def dist_px(p, q):
        return math.hypot(p[0] - q[0], p[1] - q[1]) / s

    resid = 0.0
    for (x, y), w in zip(pts.tolist(), wld.tolist()):
        g = gb.pix2wld(x, y)
        resid = max(resid, dist_px((float(g[0]), float(g[1])), w))
    wmag = float(np.abs(wld).max()) / s
    tight = 1e-6 + 1e-10 * wmag
    require(resid <= tight, "control points not reproduced by the fit: residual %.3g px (%s, %d pts, bend %r)", resid, case["kind"], n, bend)
    tol = max(4 * resid, tight)
    s_min = min(math.hypot(A.a, A.d), math.hypot(A.b, A.e))
    # derived box
    op, P = case["op"], case["P"]
    if op == "none":
        out, off, sc = gb, (0.0, 0.0), (1.0, 1.0)
        shape = (H, W)
    elif op == "getitem":
        y0, y1, x0, x1 = P["roi"]
        out = gb[y0:y1, x0:x1]
        off, sc, shape = (x0, y0), (1.0, 1.0), (y1 - y0, x1 - x0)
    elif op == "pad":
        out = gb.pad(P["px"], P["py"])
        off, sc, shape = (-P["px"], -P["py"]), (1.0, 1.0), (H + 2 * P["py"], W + 2 * P["px"])
    elif op == "pad_wh":
        a = P["ax"]
        out = gb.pad_wh(a)
        off, sc, shape = (0, 0), (1.0, 1.0), (-(-H // a) * a, -(-W // a) * a)
    elif op == "zoom_out":
        f = P["f"]
        out = gb.zoom_out(f)
        off, sc, shape = (0, 0), (f, f), (max(1, math.ceil(H / f)), max(1, math.ceil(W / f)))
    elif op == "zoom_to":
        sh = P["shape"]
        out = gb.zoom_to(tuple(sh))
        off, sc, shape = (0, 0), (W / sh[1], H / sh[0]), tuple(sh)
    else:
        out = gb.center_pixel
        off, sc, shape = (W // 2, H // 2), (1.0, 1.0), (1, 1)
    require(isinstance(out, GCPGeoBox), "%s returned %r", op, type(out))
    require(tuple(out.shape) == tuple(shape), "%s: shape %r expected %r", op, tuple(out.shape), shape)
    require(out.crs == gb.crs, "%s changed crs", op)
    op2, P2 = case.get("op2", "none"), case.get("P2") or {}
    if op2 != "none":
        h1, w1 = (int(v) for v in out.shape)
        if op2 == "getitem":
            fy0, fy1, fx0, fx1 = P2["f"]
            y0, x0 = int(fy0 * h1), int(fx0 * w1)
            y1, x1 = max(y0 + 1, int(round(fy1 * h1))), max(x0 + 1, int(round(fx1 * w1)))
            out2 = out[y0:y1, x0:x1]
            off2, sc2, shape2 = (x0, y0), (1.0, 1.0), (y1 - y0, x1 - x0)
        elif op2 == "pad":
            out2 = out.pad(P2["px"], P2["py"])
            off2, sc2, shape2 = (-P2["px"], -P2["py"]), (1.0, 1.0), (h1 + 2 * P2["py"], w1 + 2 * P2["px"])
        elif op2 == "pad_wh":
            a2 = P2["ax"]
            out2 = out.pad_wh(a2)
            off2, sc2, shape2 = (0, 0), (1.0, 1.0), (-(-h1 // a2) * a2, -(-w1 // a2) * a2)
        elif op2 == "center_pixel":
            out2 = out.center_pixel
            off2, sc2, shape2 = (w1 // 2, h1 // 2), (1.0, 1.0), (1, 1)
        elif op2 == "zoom_to":
            sh2 = P2["shape"]
            out2 = out.zoom_to(tuple(sh2))
            off2, sc2, shape2 = (0, 0), (w1 / sh2[1], h1 / sh2[0]), tuple(sh2)
        else:
            f2 = P2["f"]
            out2 = out.zoom_out(f2)
            off2, sc2, shape2 = (0, 0), (f2, f2), (max(1, math.ceil(h1 / f2)), max(1, math.ceil(w1 / f2)))
        require(isinstance(out2, GCPGeoBox), "%s then %s returned %r", op, op2, type(out2))
        require(tuple(out2.shape) == tuple(shape2), "%s then %s: shape %r expected %r", op, op2, tuple(out2.shape), shape2)
        require(out2.crs == gb.crs, "%s then %s changed crs", op, op2)
        # contract of the composition: parent pixel = off + sc * (off2 + sc2 * i)
        off = (off[0] + sc[0] * off2[0], off[1] + sc[1] * off2[1])
        sc = (sc[0] * sc2[0], sc[1] * sc2[1])
        out = out2
        op = op + "+" + op2
        T.cls("two_step_view")
        if (sc[0] != 1 or sc[1] != 1) and (off[0] != 0 or off[1] != 0):
            T.cls("view_with_scale_and_offset")
    oh, ow = out.shape
    for fu, fv in case["probes"]:
        i, j = fu * ow, fv * oh
        pi, pj = off[0] + sc[0] * i, off[1] + sc[1] * j  # parent pixel the contract prescribes
        g1 = out.pix2wld(i, j)
        g0 = gb.pix2wld(pi, pj)
        d = dist_px((float(g1[0]), float(g1[1])), (float(g0[0]), float(g0[1])))
        require(d <= tight, "%s: derived pix2wld(%r,%r) differs from parent pix2wld(%r,%r) by %.3g px", op, i, j, pi, pj, d)
        inside = 0 <= pi <= W and 0 <= pj <= H and min(p[0] for p in case["pts"]) <= pi <= max(p[0] for p in case["pts"]) and min(p[1] for p in case["pts"]) <= pj <= max(p[1] for p in case["pts"])
        if not inside:
            continue
        # agreement with the generating map and inverse consistency (inside the support of the control points)
        w = truth(pi, pj)
        d = dist_px((float(g1[0]), float(g1[1])), w)
        require(d <= tol, "%s: pix2wld at parent pixel (%r,%r) off the generating map by %.3g px (tol %.3g, resid %.3g, %s %d pts, bend %r)", op, pi, pj, d, tol, resid, case["kind"], n, bend)
        back = out.wld2pix(float(g1[0]), float(g1[1]))
        # world error -> pixel error: divide by the shortest pixel edge (anisotropic pixels)
        lim = 4 * tight * (s / s_min) / min(sc) + 1e-6
        if bend == 0:
            require(abs(float(back[0]) - i) <= lim and abs(float(back[1]) - j) <= lim, "%s: wld2pix(pix2wld(%r,%r)) = %r (limit %.3g)", op, i, j, (float(back[0]), float(back[1])), lim)
        else:
            # the inverse polynomial is a separate fit: demand only that the derived box inverts like its parent
            pb = gb.wld2pix(float(g1[0]), float(g1[1]))
            ex = ((float(pb[0]) - off[0]) / sc[0], (float(pb[1]) - off[1]) / sc[1])
            require(abs(float(back[0]) - ex[0]) <= lim and abs(float(back[1]) - ex[1]) <= lim, "%s: derived wld2pix=%r, parent's wld2pix mapped through the contract=%r", op, (float(back[0]), float(back[1])), ex)
    ext = out.extent
    require(ext.crs == out.crs and ext.geom_type == "Polygon", "GCP extent type/crs")
    # resolution of the (derived) box = size of its pixel under its own pix2wld (same relation as for linear boxes:
    # |res.x| = length of the pixel's x edge, |res.x*res.y| = pixel area), measured at the centre of the support
    cx = (min(p[0] for p in case["pts"]) + max(p[0] for p in case["pts"])) / 2
    cy = (min(p[1] for p in case["pts"]) + max(p[1] for p in case["pts"])) / 2
    ci, cj = (cx - off[0]) / sc[0], (cy - off[1]) / sc[1]
    h = 0.5
    p0, p1 = out.pix2wld(ci - h, cj), out.pix2wld(ci + h, cj)
    q0, q1 = out.pix2wld(ci, cj - h), out.pix2wld(ci, cj + h)
    ex = (float(p1[0]) - float(p0[0]), float(p1[1]) - float(p0[1]))
    ey = (float(q1[0]) - float(q0[0]), float(q1[1]) - float(q0[1]))
    lx = math.hypot(*ex)
    area = abs(ex[0] * ey[1] - ex[1] * ey[0])
    res = out.resolution
    # GCP resolution is that of the best affine fit: exact for affinely related points; for bent maps it is only
    # "up to the (affine) fit error" and not decided here
    rtol = 1e-6
    if bend != 0:
        lx = abs(res.x)
        area = abs(res.x * res.y)  # not decided for bent maps (anisotropic pixels make any bound meaningless)
    require(abs(abs(res.x) - lx) <= rtol * lx, "%s: GCP box resolution.x=%r but its pixel x-edge is %r world units long", op, res.x, lx)
    require(abs(abs(res.x * res.y) - area) <= 2 * rtol * area, "%s: GCP box |res.x*res.y|=%r but its pixel area is %r", op, abs(res.x * res.y), area)
    T.nontrivial((op, case["kind"], n >= 9, bend > 0, case["klass"]))
    T.cls("op:" + op)
    T.cls("pts:" + case["kind"])
    T.cls("affine_related" if bend == 0 else "bent")
    if case["kind"] == "grid" and len({p[0] for p in case["pts"]}) % 2 == 1 and len({p[1] for p in case["pts"]}) % 2 == 1:
        T.cls("grid_contains_centroid")


def build(chk: Check) -> None:
    chk.sub("views", o_views, cov={"quick": 1500, "thorough": 120000}, strategy=geoboxes(max_side=300), n={"quick": 6000, "thorough": 400000})
    chk.sub("ops", o_ops, cov={"quick": 3000, "thorough": 300000}, strategy=s_ops(), n={"quick": 14000, "thorough": 900000})
    chk.sub("gcp", o_gcp, strategy=s_gcp(), n={"quick": 2500, "thorough": 150000})
