"""C03 - reprojection planning never drops a needed pixel."""
from __future__ import annotations

import math
from fractions import Fraction as Fr

import numpy as np
from hypothesis import strategies as st

from vf.common import Check, HarnessError, Violation, require
from vf.strategies import CRS_POOL, FA, affines, mk_affine, mk_crs_spec

RULE = (
    "Same CRS: source box (sides 1..40, exact or general affine, any orientation) and destination = source o T with T "
    "drawn per class (whole-pixel shift, sub-pixel shift incl. residues around ttol, integer scale k and 1/k, near-"
    "integer scale around stol, fractional scale, mirror x/y/both, rotation by multiples of 90 and arbitrary angles); "
    "per-axis placement drawn relative to the shapes (contained / partial low / partial high / touching / disjoint by "
    "1..100 px); options padding {None,0,1,2,5}, align {None,2,4,16}, ttol, stol. Different CRS: pool pairs centred at a "
    "point inside both valid areas, resolutions 10 m..5 km or degrees, sides <= 48. Oracle: brute force over every "
    "destination pixel with the exact rational dst->src map (fresh pyproj transformer when CRSs differ). Non-trivial: "
    "some destination centre maps inside the source and some does not, or T is not a pure whole-pixel shift; "
    "distinct = distinct case."
)
ASSUMPTIONS = [
    "a destination pixel is 'needed' when its centre maps strictly inside the source image with margin 1e-6 px",
    "'separated' is measured on the axis-aligned envelope of the mapped destination footprint in source pixel space",
    "different CRS: cases where a 65-point-per-side envelope of the oracle map differs from the 5-point one by > 0.25 px are outside what the sampling mechanism promises and are excluded (filter depends only on the transform)",
]
SHARDS = {"quick": 4, "thorough": 16}

TTOL, STOL = 0.05, 1e-3


@st.composite
def s_axis_map(draw, Ns, Nd, klass, ttol, stol):
    """x_s = s*x_d + t for one axis -> (s, t, placement)"""
    if klass in ("shift_int", "shift_sub"):
        s = 1.0
    elif klass == "scale_int":
        k = draw(st.sampled_from([2, 3, 4]))
        s = float(k) if draw(st.booleans()) else 1.0 / k
    elif klass == "scale_near":
        k = draw(st.sampled_from([1, 2, 3]))
        # (k=2,3: +0.75 / +0.6 put the scale between k+stol and k+k*stol - outside the tolerance on the scale itself,
        # inside a tolerance applied after dividing by the read-shrink)
        s = k * (1 + draw(st.sampled_from([0.5, -0.5, 2.0, -2.0, -0.25, 0.25, -0.9, 0.75, 0.6])) * stol)
    else:  # scale_frac
        s = draw(st.sampled_from([1.5, 0.7, 2.5, 1.25, 0.4]))
    length = s * Nd
    place = draw(st.sampled_from(["contained", "partial_lo", "partial_hi", "touch_lo", "touch_hi", "disjoint_lo", "disjoint_hi", "covering"]))
    if place == "contained":
        L = float(draw(st.integers(0, max(0, int(Ns - length))))) if length <= Ns else -float(draw(st.integers(0, 3)))
    elif place == "partial_lo":
        L = -float(draw(st.integers(1, max(1, int(length) - 1 if length > 1 else 1)))) if length > 1 else -0.5
    elif place == "partial_hi":
        L = float(Ns - draw(st.integers(1, max(1, int(min(length, Ns)) - 1 if min(length, Ns) > 1 else 1)))) if length > 1 else Ns - 0.5
    elif place == "touch_lo":
        L = -length
    elif place == "touch_hi":
        L = float(Ns)
    elif place == "disjoint_lo":
        L = -length - draw(st.sampled_from([1, 2, 3, 10, 100]))
    elif place == "disjoint_hi":
        L = float(Ns + draw(st.sampled_from([1, 2, 3, 10, 100])))
    else:  # covering
        L = -float(draw(st.integers(1, 5)))
    if klass == "shift_sub" or draw(st.integers(0, 5)) == 0:
        # +-ttol itself: exactly on the tolerance (an exact binary fraction for ttol = 0.25, 0.125): whichever way the
        # code decides there, its eligibility test and its snapping must agree
        L += draw(st.sampled_from([0.0, 0.2 * ttol, -0.2 * ttol, 0.9 * ttol, -0.9 * ttol, 1.1 * ttol, -1.1 * ttol, 0.3, -0.3, 0.5, ttol, -ttol]))
    mirror = draw(st.sampled_from([False, False, True]))
    if mirror:
        return -s, L + length, place, True
    return s, L, place, False


@st.composite
def s_same(draw):
    coeffs, fam, aklass = draw(affines())
    # keep pixel coordinates of the world origin below 1e6 so that float rounding of the pixel-to-pixel matrix
    # (~1e-10 px) stays far below the 1e-6 px margins used by the oracle
    lin = min(math.hypot(coeffs[0], coeffs[3]), math.hypot(coeffs[1], coeffs[4]))
    coeffs[2] = max(-1e6 * lin, min(1e6 * lin, coeffs[2]))
    coeffs[5] = max(-1e6 * lin, min(1e6 * lin, coeffs[5]))
    Hs, Ws = draw(st.integers(1, 40)), draw(st.integers(1, 40))
    Hd, Wd = draw(st.integers(1, 40)), draw(st.integers(1, 40))
    ttol = draw(st.sampled_from([TTOL, TTOL, 0.01, 0.2]))
    stol = draw(st.sampled_from([STOL, STOL, 1e-2, 1e-5]))
    klass = draw(st.sampled_from(["shift_int", "shift_sub", "scale_int", "scale_near", "scale_frac", "rot90", "rot", "rot_tiny"]))
    if klass == "rot_tiny":
        # scene-sized rasters turned against each other by a fraction of a milliradian (two acquisitions registered
        # independently): invisible over 40 pixels, more than a pixel over a thousand
        Hs, Ws = draw(st.integers(800, 3000)), draw(st.integers(800, 3000))
        Hd, Wd = draw(st.integers(800, 3000)), draw(st.integers(800, 3000))
    if klass in ("rot90", "rot", "rot_tiny"):
        ang = draw(st.sampled_from([90.0, 180.0, 270.0])) if klass == "rot90" else draw(st.one_of(st.sampled_from([1.0, 10.0, 45.0, 30.0, -60.0]), st.floats(0.5, 359.5)))
        sc = draw(st.sampled_from([1.0, 1.0, 2.0, 0.5, 1.3]))
        if klass == "rot_tiny":
            ang = math.degrees(draw(st.sampled_from([3e-4, 6e-4, 9e-4, -5e-4, -8e-4, 2e-3, 5e-5])))
            sc = 1.0
        c, s_ = math.cos(math.radians(ang)), math.sin(math.radians(ang))
        if klass == "rot90":
            c, s_ = float(round(c)), float(round(s_))
        # place the destination centre somewhere around the source
        cx = draw(st.floats(-0.5 * Ws, 1.5 * Ws))
        cy = draw(st.floats(-0.5 * Hs, 1.5 * Hs))
        if draw(st.integers(0, 4)) == 0:
            cx += draw(st.sampled_from([-1, 1])) * (Ws + Wd * sc + 50)
        a, b, d, e = c * sc, -s_ * sc, s_ * sc, c * sc
        tx = cx - (a * Wd / 2 + b * Hd / 2)
        ty = cy - (d * Wd / 2 + e * Hd / 2)
        if klass == "rot_tiny":
            tx, ty = float(round(tx)), float(round(ty))  # a whole-pixel offset on top of the tiny rotation
        Tm = [a, b, tx, d, e, ty]
        places = ["rot", "rot"]
        mirrors = [False, False]
    else:
        kx = klass
        ky = draw(st.sampled_from([klass, klass, "shift_int"]))
        sx, tx, px, mx = draw(s_axis_map(Ws, Wd, kx, ttol, stol))
        if klass in ("scale_int", "scale_near") and draw(st.booleans()):
            # same magnitude on both axes (the paste-able situation)
            sy_, ty, py, my = draw(s_axis_map(Hs, Hd, "shift_int", ttol, stol))
            s_abs = abs(sx)
            length = s_abs * Hd
            # rescale placement of y axis
            L = ty if sy_ > 0 else ty - Hd
            sy = s_abs if sy_ > 0 else -s_abs
            ty = L if sy > 0 else L + length
        else:
            sy, ty, py, my = draw(s_axis_map(Hs, Hd, ky, ttol, stol))
        if klass == "scale_int" and abs(sx) == abs(sy) and abs(sx) >= 2 and draw(st.integers(0, 3)) > 0:
            # the paste-able integer-shrink situation needs the translation to be a whole number of overview
            # pixels: make that common (it is ~1/k^2 otherwise)
            k = abs(sx)
            tx = float(round(tx / k) * k)
            ty = float(round(ty / k) * k)
        Tm = [sx, 0.0, tx, 0.0, sy, ty]
        places = [px, py]
        mirrors = [mx, my]
    opts = {"padding": draw(st.sampled_from([None, None, None, 0, 1, 2, 5])), "align": draw(st.sampled_from([None, None, None, 2, 4, 16])), "ttol": ttol, "stol": stol}
    return {"src": {"shape": [Hs, Ws], "affine": coeffs, "family": fam, "klass": aklass}, "dshape": [Hd, Wd], "T": Tm, "opts": opts, "klass": klass, "places": places, "mirrors": mirrors}


def mk_pair(case):
    from odc.geo.geobox import GeoBox

    A = mk_affine(case["src"]["affine"])
    src = GeoBox(tuple(case["src"]["shape"]), A, "epsg:3857")
    dst = GeoBox(tuple(case["dshape"]), A * mk_affine(case["T"]), "epsg:3857")
    return src, dst


def exact_map(src, dst) -> FA:
    """dst pixel -> src pixel, exact rational from the float coefficients of both boxes."""
    return FA.of(src.affine).inv() * FA.of(dst.affine)


def _roi4(roi):
    (ry, rx) = roi
    return ry.start, ry.stop, rx.start, rx.stop


def check_plan(info, src, dst, srcmap, T, opts, linear, M=None):
    """Common containment / completeness checks.  ``srcmap(i, j)`` -> source location (floats) of the centre of
    destination pixel (row j, col i) or None when it does not map."""
    Hs, Ws = src.shape
    Hd, Wd = dst.shape
    sy0, sy1, sx0, sx1 = _roi4(info.roi_src)
    dy0, dy1, dx0, dx1 = _roi4(info.roi_dst)
    rs = info.read_shrink
    require(isinstance(rs, int) and rs >= 1, "read_shrink %r is not a positive int", rs)
    up = lambda n: -(-n // rs) * rs  # noqa: E731
    require(0 <= dy0 <= dy1 <= Hd and 0 <= dx0 <= dx1 <= Wd, "roi_dst %r outside destination image %r", info.roi_dst, (Hd, Wd))
    require(0 <= sy0 <= sy1 <= up(Hs) and 0 <= sx0 <= sx1 <= up(Ws), "roi_src %r outside source image %r (read_shrink %d)", info.roi_src, (Hs, Ws), rs)
    n_in = n_out = 0
    margin = 1e-6

    def _lattice(n):
        # every pixel for images up to 64 px a side; beyond that the first/last 3 rows plus 58 evenly spaced ones
        if n <= 64:
            return range(n)
        return sorted({0, 1, 2, n - 3, n - 2, n - 1, *(round(k * (n - 1) / 57) for k in range(58))})

    rows, cols = _lattice(Hd), _lattice(Wd)
    for j in rows:
        for i in cols:
            p = srcmap(i, j)
            if p is None:
                n_out += 1
                continue
            x, y = p
            if margin < x < Ws - margin and margin < y < Hs - margin:
                n_in += 1
                if not (dy0 <= j < dy1 and dx0 <= i < dx1):
                    raise Violation(f"destination pixel (row {j}, col {i}) maps to source ({float(x):.6g}, {float(y):.6g}) inside the {Hs}x{Ws} source, but roi_dst={info.roi_dst} excludes it (roi_src={info.roi_src}, paste_ok={info.paste_ok}, opts={opts})")
                fx, fy = math.floor(x), math.floor(y)
                if not (sy0 <= fy < sy1 and sx0 <= fx < sx1):
                    raise Violation(f"destination pixel (row {j}, col {i}) needs source pixel (row {fy}, col {fx}) but roi_src={info.roi_src} excludes it (roi_dst={info.roi_dst}, paste_ok={info.paste_ok}, opts={opts})")
            else:
                n_out += 1
    return n_in, n_out


def o_same(case, T):
    from odc.geo.overlap import compute_reproject_roi
    from odc.geo.roi import roi_is_empty

    src, dst = mk_pair(case)
    o = case["opts"]
    info = compute_reproject_roi(src, dst, ttol=o["ttol"], stol=o["stol"], padding=o["padding"], align=o["align"])
    M = exact_map(src, dst)
    Hs, Ws = src.shape
    Hd, Wd = dst.shape

    def srcmap(i, j):
        return M * (Fr(2 * i + 1, 2), Fr(2 * j + 1, 2))

    n_in, n_out = check_plan(info, src, dst, srcmap, T, o, True, M)
    a, b, c, d, e, f = (float(v) for v in M.m)
    aligned = abs(b) < 1e-10 and abs(d) < 1e-10
    # ---- scale
    if aligned:
        require(abs(info.scale2.x - abs(a)) <= 1e-9 * abs(a) and abs(info.scale2.y - abs(e)) <= 1e-9 * abs(e), "scale2 %r, exact per-axis ratios (%r, %r)", info.scale2, abs(a), abs(e))
    else:
        col0 = math.hypot(a, d)
        det = abs(a * e - b * d)
        require(abs(info.scale2.x - col0) <= 1e-6 * col0 and abs(info.scale2.x * info.scale2.y - det) <= 1e-6 * det, "scale2 %r inconsistent with the linear map (|col0|=%r, |det|=%r)", info.scale2, col0, det)
    require(info.scale == min(info.scale2.xy), "scale %r is not the smaller of scale2 %r", info.scale, info.scale2)
    sc = info.scale
    rs = info.read_shrink
    lo = max(1, math.floor(sc))
    near_switch = abs((sc + 1e-3) - round(sc + 1e-3)) < 1e-6 or abs(sc - round(sc)) < 1e-9
    if not near_switch:
        want = max(1, math.floor(sc + 1e-3))
        require(rs == want, "read_shrink %d for scale %r, expected %d (largest integer not exceeding scale by more than 1e-3)", rs, sc, want)
    else:
        require(rs in (lo, lo + 1, max(1, lo - 1)), "read_shrink %d for scale %r", rs, sc)
    require(rs == 1 or rs <= sc + 1e-3 + 1e-9, "read_shrink %d exceeds the scale %r by more than the tolerance", rs, sc)
    # ---- separation: envelope of the mapped destination footprint vs source rectangle
    corners = [M * c_ for c_ in ((0, 0), (Wd, 0), (Wd, Hd), (0, Hd))]
    ex0, ex1 = min(p[0] for p in corners), max(p[0] for p in corners)
    ey0, ey1 = min(p[1] for p in corners), max(p[1] for p in corners)
    pad = o["padding"] if o["padding"] is not None else (0 if info.paste_ok else 1)
    slack = pad + (o["align"] or 0) + Fr(1, 1000) + (1 if not info.paste_ok else Fr(o["ttol"]))
    gap = max(Fr(0) - ex1, ex0 - Ws, Fr(0) - ey1, ey0 - Hs)
    if gap > slack:
        require(roi_is_empty(info.roi_src) and roi_is_empty(info.roi_dst), "rasters separated by %.4g source px (padding %r, align %r) but regions are roi_src=%r roi_dst=%r", float(gap), o["padding"], o["align"], info.roi_src, info.roi_dst)
        T.cls("separated")
    # ---- transform agrees with the oracle map
    for (i, j) in ((0, 0), (Wd - 1, Hd - 1), (Wd // 2, 0)):
        p = srcmap(i, j)
        from odc.geo.types import xy_

        (q,) = info.transform.back([xy_(i + 0.5, j + 0.5)])
        tolp = 1e-7 * (1 + abs(float(p[0])) + abs(float(p[1])) + abs(c) + abs(f))
        require(abs(q.x - float(p[0])) <= tolp and abs(q.y - float(p[1])) <= tolp, "transform.back maps dst centre (%r,%r) to %r, exact map gives (%r,%r)", i + 0.5, j + 0.5, q, float(p[0]), float(p[1]))
        (r,) = info.transform([q])
        require(abs(r.x - (i + 0.5)) <= 1e-6 and abs(r.y - (j + 0.5)) <= 1e-6, "transform(transform.back(p)) != p")
    if info.paste_ok:
        T.cls("paste_ok")
    if (n_in and n_out) or case["klass"] != "shift_int":
        T.nontrivial()
    T.cls("klass:" + case["klass"])
    T.cls("overlap:" + ("none" if n_in == 0 else "full" if n_out == 0 else "partial"))
    for p in case["places"]:
        T.cls("place:" + p)
    if any(case["mirrors"]):
        T.cls("mirrored")
    if o["padding"] is not None or o["align"] is not None:
        T.cls("with_padding_or_align")


# --------------------------------------------------------------------- different CRS
PAIRS = [("4326", "3857"), ("3857", "4326"), ("4326", "6933"), ("6933", "3857"), ("3577", "4326"), ("4283", "3577"), ("32633", "3035"), ("3035", "32633"),
         ("32633", "4326"), ("4326", "32755"), ("32755", "3577"), ("3857", "3035"), ("sinu", "4326"), ("6933", "sinu"), ("4326", "3035"), ("3577", "32755")]


SEPARABLE = [("4326", "3857"), ("3857", "4326"), ("4326", "6933"), ("6933", "4326"), ("3857", "6933"), ("6933", "3857")]


# a *regional* geographic CRS (GDA94 lon/lat) used for rasters beyond its declared area of use (lat -60.6..-8.5,
# lon 93.4..173.3) - legal, the projection library converts such coordinates; partner CRSs are global
REGIONAL = [("4283", "3857"), ("3857", "4283"), ("4283", "6933"), ("6933", "4283"), ("4283", "4326"), ("4326", "4283"), ("4283", "sinu")]


# curved pairs for coarse "thumbnail" destinations: few destination pixels, each tens of km wide
THUMB = [("4326", "3035"), ("3035", "4326"), ("4326", "3577"), ("3577", "4326"), ("3857", "3035"), ("3035", "32633"), ("4283", "3577"), ("4326", "32755"), ("sinu", "4326")]


@st.composite
def s_diff(draw, wide=False, regional=False, thumb=False):
    a, b = draw(st.sampled_from(THUMB if thumb else REGIONAL if regional else SEPARABLE if wide else PAIRS))
    A0, B0 = CRS_POOL[a][1], CRS_POOL[b][1]
    lo = (max(A0[0], B0[0]) + 1, max(A0[1], B0[1]) + 1, min(A0[2], B0[2]) - 1, min(A0[3], B0[3]) - 1)
    if regional:
        lon = draw(st.one_of(st.floats(95.0, 172.0), st.floats(60.0, 92.0), st.floats(-170.0, -100.0)))
        lat = draw(st.one_of(st.floats(-8.0, 25.0), st.floats(-74.0, -61.0), st.floats(30.0, 70.0), st.floats(-9.5, -7.5)))
    else:
        lon = draw(st.floats(lo[0], lo[2]))
        lat = draw(st.floats(lo[1], lo[3]))
    # resolution in metres (converted to degrees for geographic CRSs)
    res_m = draw(st.sampled_from([20000.0, 50000.0, 100000.0] if wide else [10.0, 30.0, 100.0, 1000.0, 5000.0]))
    if wide:
        # cylindrical pairs map grid lines to grid lines (no curvature), but their scale varies strongly with
        # latitude: rasters thousands of km across make "measured at the centre of the overlap" observable
        lat = max(-55.0, min(55.0, lat))
    Hs, Ws = draw(st.integers(2, 48)), draw(st.integers(2, 48))
    Hd, Wd = draw(st.integers(2, 48)), draw(st.integers(2, 48))
    zoom = draw(st.sampled_from([1.0, 1.0, 2.0, 0.5, 3.3]))
    if thumb:
        # the destination is a thumbnail (4..19 px a side) 600-2500 km across of a source with 5-20 km pixels: the sag
        # of a destination side is several SOURCE pixels, and the boundary sampling has only a few pixels to work with
        res_m = draw(st.sampled_from([10000.0, 10000.0, 20000.0]))
        Hs, Ws = draw(st.integers(80, 400)), draw(st.integers(80, 400))
        Hd, Wd = draw(st.integers(4, 19)), draw(st.integers(4, 19))
        if draw(st.booleans()):
            Hd, Wd = min(Hd, 11), min(Wd, 11)
        zoom = draw(st.sampled_from([1000e3, 1500e3, 2000e3, 2500e3, 3500e3])) / (max(Hd, Wd) * res_m)
    off = [draw(st.floats(-1.2, 1.2)), draw(st.floats(-1.2, 1.2))]  # dst centre offset in units of source half-extent
    if draw(st.integers(0, 5)) == 0:
        off[0] += draw(st.sampled_from([-4.0, 4.0]))
    return {"a": a, "b": b, "lonlat": [lon, lat], "res_m": res_m, "sshape": [Hs, Ws], "dshape": [Hd, Wd], "zoom": zoom, "off": off,
            "opts": {"padding": draw(st.sampled_from([None, None, 1, 2])), "align": draw(st.sampled_from([None, None, 4]))},
            "flip": draw(st.sampled_from([[1, -1], [1, -1], [1, 1], [-1, -1]]))}


def _mk_centered(label, cx, cy, res, shape, flip):
    from affine import Affine
    from odc.geo.geobox import GeoBox

    H, W = shape
    sx, sy = flip[0] * res, flip[1] * res
    A = Affine(sx, 0, cx - sx * W / 2, 0, sy, cy - sy * H / 2)
    return GeoBox((H, W), A, mk_crs_spec({"label": label, "spell": "proj" if label == "sinu" else "int"}))


def o_diff(case, T):
    from odc.geo.overlap import compute_reproject_roi
    from odc.geo.roi import roi_is_empty
    from pyproj import Transformer

    from vf.strategies import _pyproj

    a, b = case["a"], case["b"]
    pa, pb = _pyproj(a), _pyproj(b)
    lon, lat = case["lonlat"]
    deg = 1.0 / 111320.0

    def res_of(label):
        return case["res_m"] * deg if CRS_POOL[label][0] == "geographic" else case["res_m"]

    ax, ay = Transformer.from_crs(4326, pa, always_xy=True).transform(lon, lat)
    Hs, Ws = case["sshape"]
    ra = res_of(a)
    src = _mk_centered(a, ax, ay, ra, (Hs, Ws), case["flip"])
    # destination centre: offset from source centre in source units, then into CRS b
    ox = ax + case["off"][0] * ra * Ws / 2
    oy = ay + case["off"][1] * ra * Hs / 2
    bx, by = Transformer.from_crs(pa, pb, always_xy=True).transform(ox, oy)
    if not (math.isfinite(bx) and math.isfinite(by)):
        T.exclude("centre_does_not_project")
        return
    rb = res_of(b) * case["zoom"]
    Hd, Wd = case["dshape"]
    dst = _mk_centered(b, bx, by, rb, (Hd, Wd), [1, -1])
    tr = Transformer.from_crs(pb, pa, always_xy=True)
    fwd = Transformer.from_crs(pa, pb, always_xy=True)
    Ad, As = dst.affine, src.affine
    iAs, iAd = ~As, ~Ad

    def d2s(px, py):
        wx, wy = Ad * (px, py)
        x, y = tr.transform(wx, wy)
        if not (math.isfinite(x) and math.isfinite(y)):
            return None
        return iAs * (x, y)

    def s2d(px, py):
        wx, wy = As * (px, py)
        x, y = fwd.transform(wx, wy)
        if not (math.isfinite(x) and math.isfinite(y)):
            return None
        return iAd * (x, y)

    # curvature filter (depends on the transform only)
    def envelope(fn, W, H, n):
        pts = []
        for k in range(n):
            u = k / (n - 1)
            pts += [fn(u * W, 0), fn(u * W, H), fn(0, u * H), fn(W, u * H)]
        if any(p is None for p in pts):
            return None
        xs = [p[0] for p in pts]
        ys = [p[1] for p in pts]
        return min(xs), max(xs), min(ys), max(ys)

    static_ok = True
    for fn, W, H in ((d2s, Wd, Hd), (s2d, Ws, Hs)):
        e5, e65 = envelope(fn, W, H, 5), envelope(fn, W, H, 65)
        if e5 is None or e65 is None:
            T.exclude("boundary_does_not_project")
            return
        if max(abs(u - v) for u, v in zip(e5, e65)) > 0.25:
            static_ok = False
    o = case["opts"]
    if not static_ok:
        # Strong curvature.  The documented mechanism (5 samples per side of the destination boundary, enveloped, padded,
        # then 5 samples per side of that source region mapped back) can still promise every needed pixel when the
        # destination pixels are coarse: simulate it with the oracle's own map; the case is decided iff that reference
        # covers every needed pixel with a quarter-pixel margin (depends on the inputs only, never on odc-geo's answer)
        pad_ = o["padding"] if o["padding"] is not None else 1
        e5 = envelope(d2s, Wd, Hd, 5)
        rs = [max(0, math.floor(e5[0]) - pad_), min(Ws, math.ceil(e5[1]) + pad_), max(0, math.floor(e5[2]) - pad_), min(Hs, math.ceil(e5[3]) + pad_)]
        ok = rs[0] < rs[1] and rs[2] < rs[3]
        if ok:
            pts = []
            for k in range(5):
                u = k / 4
                x_, y_ = rs[0] + u * (rs[1] - rs[0]), rs[2] + u * (rs[3] - rs[2])
                pts += [s2d(x_, rs[2]), s2d(x_, rs[3]), s2d(rs[0], y_), s2d(rs[1], y_)]
            ok = all(p is not None for p in pts)
        if ok:
            rd = [max(0, math.floor(min(p[0] for p in pts))), min(Wd, math.ceil(max(p[0] for p in pts))), max(0, math.floor(min(p[1] for p in pts))), min(Hd, math.ceil(max(p[1] for p in pts)))]
            m_ = 0.25
            for j in range(Hd):
                for i in range(Wd):
                    p = d2s(i + 0.5, j + 0.5)
                    if p is None:
                        ok = False
                        break
                    if -1e-6 < p[0] < Ws + 1e-6 and -1e-6 < p[1] < Hs + 1e-6:  # (possibly) needed
                        if not (rs[0] + m_ <= p[0] <= rs[1] - m_ and rs[2] + m_ <= p[1] <= rs[3] - m_ and rd[0] + m_ <= i + 0.5 <= rd[1] - m_ and rd[2] + m_ <= j + 0.5 <= rd[3] - m_):
                            ok = False
                            break
                if not ok:
                    break
        if not ok:
            T.exclude("curvature_beyond_sampling")
            return
        T.cls("decided_by_reference_sampling")
    info = compute_reproject_roi(src, dst, padding=o["padding"], align=o["align"])
    require(info.paste_ok is False, "paste_ok for different CRSs")
    require(info.transform.linear is None, "linear transform reported for different CRSs")

    def srcmap(i, j):
        return d2s(i + 0.5, j + 0.5)

    n_in, n_out = check_plan(info, src, dst, srcmap, T, o, False)
    # scale: central differences of the oracle map at the centre of roi_dst
    if not roi_is_empty(info.roi_dst):
        dy0, dy1, dx0, dx1 = _roi4(info.roi_dst)
        cx, cy = (dx0 + dx1) / 2, (dy0 + dy1) / 2
        p0, p1, p2, p3 = d2s(cx - 1, cy), d2s(cx + 1, cy), d2s(cx, cy - 1), d2s(cx, cy + 1)
        if None not in (p0, p1, p2, p3):
            sx = math.hypot(p1[0] - p0[0], p1[1] - p0[1]) / 2
            sy = math.hypot(p3[0] - p2[0], p3[1] - p2[1]) / 2
            # decompose_rws convention: scale2.x = |first column|, scale2.x*scale2.y = |det|
            det = abs((p1[0] - p0[0]) * (p3[1] - p2[1]) - (p3[0] - p2[0]) * (p1[1] - p0[1])) / 4
            require(abs(info.scale2.x - sx) <= 0.01 * sx + 1e-9 and abs(info.scale2.x * info.scale2.y - det) <= 0.02 * det + 1e-9, "scale2 %r differs from central differences of the map (%.6g, det %.6g) by more than 1%%", info.scale2, sx, det)
            require(info.scale == min(info.scale2.xy), "scale is not min(scale2)")
            sc = info.scale
            if abs((sc + 1e-3) - round(sc + 1e-3)) > 1e-6:
                require(info.read_shrink == max(1, math.floor(sc + 1e-3)), "read_shrink %d for scale %r", info.read_shrink, sc)
    else:
        require(info.read_shrink == 1, "read_shrink for empty overlap")
    # separation
    e = envelope(d2s, Wd, Hd, 65)
    pad = o["padding"] if o["padding"] is not None else 1
    gap = max(0 - e[1], e[0] - Ws, 0 - e[3], e[2] - Hs)
    if static_ok and gap > pad + (o["align"] or 0) + 1.5:
        require(roi_is_empty(info.roi_src) and roi_is_empty(info.roi_dst), "rasters separated by %.4g source px but regions are roi_src=%r roi_dst=%r", gap, info.roi_src, info.roi_dst)
        T.cls("separated")
    # transform agrees with oracle
    from odc.geo.types import xy_

    (q,) = info.transform.back([xy_(Wd / 2, Hd / 2)])
    p = d2s(Wd / 2, Hd / 2)
    require(p is not None and abs(q.x - p[0]) <= 1e-6 * (1 + abs(p[0])) and abs(q.y - p[1]) <= 1e-6 * (1 + abs(p[1])), "transform.back at the destination centre = %r, oracle %r", q, p)
    T.nontrivial()
    T.cls("pair:%s->%s" % (a, b))
    T.cls("overlap:" + ("none" if n_in == 0 else "full" if n_out == 0 else "partial"))


# ----------------------------------------------------------------------------- global lon/lat source reaching past +-180
def e_overhang(tier):
    """Whole-world EPSG:4326 mosaics whose pixel edges reach a hair past +-180 (rounding when the file was made),
    read into map tiles of cylindrical projections - including the tiles that touch the antimeridian."""
    for r in (1.0, 0.5) if tier == "quick" else (1.0, 0.5, 0.25, 0.1):
        for delta in (1e-6, 1e-5, 1e-9):
            for dcrs in ("3857", "6933"):
                for z in (1, 2, 3):
                    n = 2**z
                    for tx in sorted({0, n - 1, n // 2}):
                        for ty in sorted({n // 2 - 1, n // 2}):
                            for opts in ({"padding": None, "align": None}, {"padding": 0, "align": None}, {"padding": 2, "align": 4}):
                                yield {"r": r, "delta": delta, "dcrs": dcrs, "z": z, "tx": tx, "ty": ty, "opts": opts, "tile_px": 24 if (tx + ty) % 2 else 17}


def o_overhang(case, T):
    from affine import Affine
    from odc.geo.geobox import GeoBox
    from odc.geo.overlap import compute_reproject_roi
    from pyproj import Transformer

    r, delta = case["r"], case["delta"]
    W, H = round(360 / r), round(180 / r)
    k = 1 + delta
    src = GeoBox((H, W), Affine(r * k, 0, -180.0 * k, 0, -r, 90.0), "EPSG:4326")
    n = 2 ** case["z"]
    if case["dcrs"] == "3857":
        half = math.pi * 6378137.0
        x0, x1, y0, y1 = -half, half, -half, half
    else:
        x0, x1, y0, y1 = -17367530.445161, 17367530.445161, -7314540.83064, 7314540.83064
    tw, th = (x1 - x0) / n, (y1 - y0) / n
    npx = case["tile_px"]
    dst = GeoBox((npx, npx), Affine(tw / npx, 0, x0 + case["tx"] * tw, 0, -th / npx, y1 - case["ty"] * th), "EPSG:" + case["dcrs"])
    tr = Transformer.from_crs(int(case["dcrs"]), 4326, always_xy=True)
    Ad, iAs = dst.affine, ~src.affine

    def srcmap(i, j):
        wx, wy = Ad * (i + 0.5, j + 0.5)
        lon, lat = tr.transform(wx, wy)
        if not (math.isfinite(lon) and math.isfinite(lat)):
            return None
        return iAs * (lon, lat)

    o = case["opts"]
    info = compute_reproject_roi(src, dst, padding=o["padding"], align=o["align"])
    n_in, n_out = check_plan(info, src, dst, srcmap, T, o, False)
    if n_in == 0:
        raise HarnessError("overhang case without a single needed pixel")
    T.cls("tile_touches_antimeridian" if case["tx"] in (0, n - 1) else "tile_mid_longitude")
    T.cls("dst:" + case["dcrs"])
    if case["tx"] in (0, n - 1):
        T.nontrivial()


def build(chk: Check) -> None:
    chk.sub("same_crs", o_same, cov={"quick": 1500, "thorough": 100000}, strategy=s_same(), n={"quick": 5000, "thorough": 300000})
    chk.sub("diff_crs", o_diff, strategy=s_diff(), n={"quick": 700, "thorough": 40000}, shrink=False)
    chk.sub("diff_crs_regional", o_diff, strategy=s_diff(regional=True), n={"quick": 250, "thorough": 12000}, shrink=False)
    chk.sub("diff_crs_thumbnail", o_diff, strategy=s_diff(thumb=True), n={"quick": 500, "thorough": 20000}, shrink=False)
    chk.sub("diff_crs_wide", o_diff, strategy=s_diff(wide=True), n={"quick": 300, "thorough": 15000}, shrink=False)
    chk.sub("global_source_overhang", o_overhang, enum=e_overhang, exhaustive_tiers=("quick", "thorough"))
