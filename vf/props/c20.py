"""C20 - numeric helpers meet their documented contracts (odc.geo.math)."""
from __future__ import annotations

import math
from fractions import Fraction as Fr

import numpy as np
from hypothesis import strategies as st

from vf.common import Check, Violation, require
from vf.strategies import FA, affines, mk_affine

RULE = (
    "Hypothesis floats k+-delta (k integer up to 1e12, delta in {0, tol/2, tol(1+-1e-3), 2tol, 0.5+-ulp, random}) "
    "for split_float/maybe_int/is_almost_int/snap_scale/snap_affine/snap_grid, exhaustive x in [-300,2000] x "
    "align in [1,64] (+ powers of two +-1 up to 2^40) for align_*, generated affines (cond<=1e6) for decompose_rws, "
    "point sets (3, 4-8, >=9 points, scattered and regular grids incl. odd x odd grids containing their centroid) for "
    "affine_from_pts/Poly2d, axis labels for affine_from_axis, bins for Bin1D. Oracle: exact rational arithmetic on "
    "the float inputs. Non-trivial: input within 10x of a tolerance boundary, negative scale/direction/resolution, "
    "or a grid containing its centroid; distinct = distinct case."
)
ASSUMPTIONS = [
    "align_*_pow2 claimed for 1 <= x <= 2^40 (log2 rounds beyond ~2^48)",
    "polynomial fits are evaluated only inside the bounding box of the control points",
    "affines for decompose_rws have condition number <= 1e6",
]
SHARDS = {"quick": 4, "thorough": 16}

TOLS = [1e-3, 1e-6, 1e-8, 1e-9, 0.01, 0.1]


@st.composite
def near_int(draw, kmax=10**12, tols=TOLS):
    tol = draw(st.sampled_from(tols))
    k = draw(st.one_of(st.integers(-100, 100), st.integers(-(10**6), 10**6), st.integers(-kmax, kmax),
                       # floats whose spacing is 1 or 0.5: every value is (half-)integral, x - 0.5 is not representable
                       st.integers(2**51, 2**53).map(lambda v: v | 1), st.integers(-(2**53), -(2**51)).map(lambda v: -((-v) | 1))))
    which = draw(st.integers(0, 11))
    ulp = math.ulp(max(abs(float(k)), 1.0))
    d = [0.0, tol / 2, tol * (1 - 1e-3), tol * (1 + 1e-3), 2 * tol, tol, 0.5 - ulp, 0.5, 0.5 + ulp, 0.25, ulp, None][which]
    if d is None:
        d = draw(st.floats(0, 0.5))
    sgn = draw(st.sampled_from([1.0, -1.0]))
    x = float(k) + sgn * d
    return {"x": x, "tol": tol, "near": which not in (9, 11)}


# --------------------------------------------------------------------- split / maybe_int
def o_split(case, T):
    from odc.geo import math as M

    x, tol = case["x"], case["tol"]
    w, f = M.split_float(x)
    require(float(w).is_integer(), "split_float(%r): whole part %r is not integral", x, w)
    require(abs(f) <= 0.5, "split_float(%r): fraction %r outside [-0.5,0.5]", x, f)
    require(w + f == x, "split_float(%r): %r + %r != x", x, w, f)
    require(Fr(w) + Fr(f) == Fr(x), "split_float(%r): parts do not sum exactly", x)
    fx = Fr(x)
    dist = abs(fx - round(fx))  # exact distance to the nearest integer
    require(abs(Fr(f)) == dist, "split_float(%r): |frac| %r is not the distance to nearest integer %r", x, f, float(dist))
    exact = dist < Fr(tol)
    a = M.is_almost_int(x, tol)
    require(a == exact, "is_almost_int(%r,%r)=%r but |x-round(x)|=%r", x, tol, a, float(dist))
    m = M.maybe_int(x, tol)
    if exact:
        require(isinstance(m, int) and m == round(fx), "maybe_int(%r,%r)=%r expected int %r", x, tol, m, round(fx))
    else:
        require(m is x or (isinstance(m, float) and m == x), "maybe_int(%r,%r)=%r should pass x through", x, tol, m)
    # maybe_zero
    z = M.maybe_zero(x, tol)
    require((z == 0) == (abs(x) < tol) and (z == 0 or z == x), "maybe_zero(%r,%r)=%r", x, tol, z)
    if case["near"]:
        T.nontrivial()
    T.cls("almost_int" if exact else "not_int")


def o_split_nonfinite(case, T):
    from odc.geo import math as M

    x = {"nan": math.nan, "inf": math.inf, "-inf": -math.inf}[case["x"]]
    w, f = M.split_float(x)
    require((math.isnan(w) if math.isnan(x) else w == x) and f == 0, "split_float(%r) = %r", x, (w, f))
    require(M.is_almost_int(x, 1e-3) is False, "is_almost_int(non-finite) should be False")
    m = M.maybe_int(x, 1e-3)
    require(math.isnan(m) if math.isnan(x) else m == x, "maybe_int(non-finite) should pass through")
    T.nontrivial()


# --------------------------------------------------------------------- snap_scale / snap_affine
@st.composite
def s_scale(draw):
    tol = draw(st.sampled_from([1e-6, 1e-3, 1e-9]))
    n = draw(st.integers(1, 64))
    inv = draw(st.booleans())
    which = draw(st.integers(0, 7))
    d = [0.0, tol / 2, tol * 0.999, tol * 1.001, 2 * tol, 0.3, 10 * tol, None][which]
    if d is None:
        d = draw(st.floats(0, 0.5))
    sgn = draw(st.sampled_from([1.0, -1.0]))
    neg = draw(st.sampled_from([1.0, 1.0, -1.0]))
    base = (n + sgn * d)
    s = neg * (1.0 / base if inv else base)
    if draw(st.integers(0, 9)) == 0:
        s = draw(st.sampled_from([0.0, 1e-12, -1e-7, 1.0 - tol / 2, 1.0 - 2 * tol, 0.9999999, -0.9999995]))
    return {"s": s, "tol": tol, "near": which not in (5, 7)}


def _is_int_or_inv(v):
    if v == 0:
        return False
    if float(v).is_integer():
        return True
    return abs(1.0 / v - round(1.0 / v)) < 1e-9


def o_snap_scale(case, T):
    from odc.geo import math as M

    s, tol = case["s"], case["tol"]
    r = M.snap_scale(s, tol)
    require(abs(Fr(float(r)) - Fr(s)) <= Fr(tol), "snap_scale(%r,%r)=%r moved by more than tol", s, tol, r)
    r2 = M.snap_scale(r, tol)
    require(r2 == r, "snap_scale not idempotent: %r -> %r -> %r", s, r, r2)
    if r != s:
        require(_is_int_or_inv(r), "snap_scale(%r,%r)=%r is neither integer nor 1/integer", s, tol, r)
        require((r > 0) == (s > 0), "snap_scale changed sign %r -> %r", s, r)
        T.cls("snapped")
    else:
        T.cls("unchanged")
    # completeness: within tol/2 of an integer (|s|>=1) or of 1/n must snap
    fs = Fr(s)
    if abs(s) >= 1 and abs(fs - round(fs)) < Fr(tol) / 2:
        require(isinstance(r, int) or float(r).is_integer(), "snap_scale(%r,%r)=%r should have snapped to integer", s, tol, r)
    if case["near"]:
        T.nontrivial()
    if s < 0:
        T.cls("negative")


@st.composite
def s_snap_affine(draw):
    sx = draw(s_scale())
    sy = draw(s_scale())
    ttol = draw(st.sampled_from([1e-3, 1e-2, 1e-6]))
    tx = draw(near_int(kmax=10**6, tols=[ttol]))["x"]
    ty = draw(near_int(kmax=10**6, tols=[ttol]))["x"]
    rot = draw(st.sampled_from([0.0, 0.0, 0.0, 1e-12, 5e-9, 2e-8, 1e-3, 0.5]))
    rot2 = draw(st.sampled_from([0.0, 0.0, rot, -rot]))
    return {"A": [sx["s"], rot, tx, rot2, sy["s"], ty], "ttol": ttol, "stol": sx["tol"]}


def o_snap_affine(case, T):
    from odc.geo import math as M

    A = mk_affine(case["A"])
    ttol, stol = case["ttol"], case["stol"]
    tol = 1e-8
    B = M.snap_affine(A, ttol=ttol, stol=stol, tol=tol)
    rotated = abs(A.b) > tol or abs(A.d) > tol
    if rotated:
        require(B is A or tuple(B) == tuple(A), "snap_affine changed a rotated transform: %r -> %r", A, B)
        T.cls("rotated_untouched")
        T.nontrivial()
        return
    lims = [stol, tol, ttol, tol, stol, ttol]
    for i, (x, y, lim) in enumerate(zip(tuple(A)[:6], tuple(B)[:6], lims)):
        require(abs(Fr(float(x)) - Fr(float(y))) <= Fr(lim), "snap_affine moved coefficient %d by more than %r: %r -> %r", i, lim, x, y)
    require(B.b == 0 and B.d == 0, "snap_affine result keeps rotation terms: %r", B)
    C = M.snap_affine(B, ttol=ttol, stol=stol, tol=tol)
    require(tuple(C) == tuple(B), "snap_affine not idempotent: %r -> %r -> %r", A, B, C)
    for v, src, lim in ((B.c, A.c, ttol), (B.xoff, A.xoff, ttol)):
        pass
    for v, src in ((B.c, A.c), (B.f, A.f)):
        fs = Fr(float(src))
        if abs(fs - round(fs)) < Fr(ttol):
            require(float(v).is_integer(), "translation %r within ttol of integer not snapped (%r)", src, v)
        else:
            require(v == src, "translation %r not near integer but changed to %r", src, v)
    require(M.is_affine_st(B), "is_affine_st false on snapped affine")
    T.nontrivial()


# --------------------------------------------------------------------- align helpers
def o_align(case, T):
    from odc.geo import math as M

    x, a = case["x"], case["a"]
    d = M.align_down(x, a)
    u = M.align_up(x, a)
    require(d % a == 0 and d <= x and x - d < a, "align_down(%d,%d)=%d", x, a, d)
    require(u % a == 0 and u >= x and u - x < a, "align_up(%d,%d)=%d", x, a, u)
    if x % a:
        T.nontrivial()
    if (x + a) % 7 == 0:
        # the library itself passes integer arrays (roi_from_points): same contract element by element
        xs = np.asarray([x, -x, x + 1, -x - 1, 0], dtype="int64" if x % 2 or abs(x) >= 2**30 else "int32")
        ds, us = M.align_down(xs, a), M.align_up(xs, a)
        for xi, di, ui in zip(xs.tolist(), np.asarray(ds).tolist(), np.asarray(us).tolist()):
            require(di % a == 0 and di <= xi and xi - di < a, "align_down(array %r,%d) gives %d for element %d", xs.tolist(), a, di, xi)
            require(ui % a == 0 and ui >= xi and ui - xi < a, "align_up(array %r,%d) gives %d for element %d", xs.tolist(), a, ui, xi)
        T.cls("array_argument")


def e_align(tier):
    hi = 600 if tier == "quick" else 2000
    for x in range(-300, hi + 1):
        for a in range(1, 65):
            yield {"x": x, "a": a}
    for p in range(1, 41):
        for dx in (-1, 0, 1):
            for a in (1, 2, 3, 16, 2**p, 2**p - 1):
                if a >= 1:
                    yield {"x": 2**p + dx, "a": a}


def o_pow2(case, T):
    from odc.geo import math as M

    x = case["x"]
    u = M.align_up_pow2(x)
    require(u >= x and u & (u - 1) == 0 and u >= 1 and (u == 1 or u // 2 < x), "align_up_pow2(%d)=%d", x, u)
    if x >= 1:
        d = M.align_down_pow2(x)
        require(d <= x and d & (d - 1) == 0 and d >= 1 and d * 2 > x, "align_down_pow2(%d)=%d", x, d)
    if x & (x - 1):
        T.nontrivial()


def e_pow2(tier):
    for x in range(-5, 5000):
        yield {"x": x}
    # every power of two a 64-bit size can hold, and its neighbours: beyond 2**48 a float log2 of x can no longer tell
    # 2**p from 2**p +- 1 (round 8, C20-21; D46 was found here on the unchanged tree)
    for p in range(1, 63):
        for dx in (-3, -1, 0, 1, 3):
            if 2**p + dx >= 1:
                yield {"x": 2**p + dx}
    for x in (10**15 - 1, 10**15, 10**15 + 1, 10**18 - 1, 10**18 + 1, 3 * 2**50, 3 * 2**50 + 1, 2**62 - 2**9, 2**62 + 2**9):
        yield {"x": x}


# --------------------------------------------------------------------- snap_grid
@st.composite
def s_snap_grid(draw):
    tol = draw(st.sampled_from([1e-6, 0.01, 0.1, 1e-3]))
    res = draw(st.one_of(st.sampled_from([1.0, 10.0, 30.0, 0.25, 0.1, 1e-4, 7.3]), st.floats(1e-3, 1e3)))
    sgn = draw(st.sampled_from([1.0, -1.0]))
    off = draw(st.sampled_from([0, 0.5, None, 0.25, 0.1, 0.999]))
    x0 = draw(st.one_of(st.just(0.0), st.integers(-1000, 1000).map(lambda k: k * res), st.floats(-1e7, 1e7)))
    kind = draw(st.integers(0, 9))
    k = [0.01, 0.5, 1.0, 1.0 + 1e-7, 1.0 - 1e-7, 3.0, 7.5, 100.0, 1e4 + 0.3, None][kind]
    if k is None:
        k = draw(st.floats(0, 5000))
    if draw(st.booleans()):
        k = k + draw(st.sampled_from([tol / 2, -tol / 2, tol * 1.5, -tol * 1.5, 0.0]))
        k = max(k, 0.0)
    x1 = x0 + k * res
    if x1 < x0:
        x1 = x0
    return {"x0": x0, "x1": x1, "res": res * sgn, "off": off, "tol": tol}


def check_snap_axis(x0, x1, res, off, tol, tx, nx):
    """Shared with C08: exact check of one axis.  Raises Violation."""
    require(isinstance(nx, int) and nx >= 1, "pixel count %r not a positive int", nx)
    R = Fr(abs(res))
    X0, X1, TX = Fr(x0), Fr(x1), Fr(float(tx))
    lo = TX if res > 0 else TX - nx * R
    hi = lo + nx * R
    TOL = Fr(tol)
    # slack for float rounding in tx (~ few ulp of coordinate), expressed in pixels
    ulp = Fr(math.ulp(max(abs(x0), abs(x1), abs(float(tx)), abs(res)))) * 4 / R
    deficit_lo = (lo - X0) / R
    deficit_hi = (X1 - hi) / R
    require(deficit_lo <= TOL + ulp, "low side uncovered by %.6g px (> tol %r): x0=%r x1=%r res=%r off=%r -> tx=%r nx=%r", float(deficit_lo), tol, x0, x1, res, off, tx, nx)
    require(deficit_hi <= TOL + ulp, "high side uncovered by %.6g px (> tol %r): x0=%r x1=%r res=%r off=%r -> tx=%r nx=%r", float(deficit_hi), tol, x0, x1, res, off, tx, nx)
    if off is None:
        want = x0 if res > 0 else x1
        require(tx == want, "floating anchor must start exactly at the region edge: tx=%r expected %r", tx, want)
        span = (X1 - X0) / R
        if nx > 1:
            require(nx - span < 1 + TOL + ulp, "unsnapped grid larger than needed: span=%.9g px, nx=%d", float(span), nx)
    else:
        ex_lo = (X0 - lo) / R
        ex_hi = (hi - X1) / R
        require(ex_lo < 1 + TOL + ulp, "low side exceeds region by %.6g px (>= 1+tol): x0=%r x1=%r res=%r off=%r -> tx=%r nx=%r", float(ex_lo), x0, x1, res, off, tx, nx)
        if nx > 1:
            require(ex_hi < 1 + TOL + ulp, "high side exceeds region by %.6g px (>= 1+tol): x0=%r x1=%r res=%r off=%r -> tx=%r nx=%r", float(ex_hi), x0, x1, res, off, tx, nx)
        # alignment of pixel edges to the anchor fraction
        q = TX / R - Fr(off)
        dev = abs(q - round(q))
        lim = Fr(1, 10**9) * max(1, abs(round(q)))
        require(dev <= lim, "pixel edge not aligned to anchor %r: edge/res-anchor = %.12g", off, float(q))


def minimal_count(x0, x1, res, off, tol):
    """Smallest pixel count that covers [x0, x1] up to tol on the requested alignment, exact arithmetic.
    Returns (nx_min, ambiguous) - ambiguous when an edge sits within rounding of the tolerance boundary."""
    R = Fr(abs(res))
    X0, X1, TOL = Fr(x0), Fr(x1), Fr(tol)
    if off is None:
        q = (X1 - X0) / R - TOL
        amb = abs(q - round(q)) <= Fr(1, 10**9) * max(1, abs(q)) or abs((X1 - X0) / R + TOL - round((X1 - X0) / R + TOL)) <= Fr(1, 10**9) * max(1, abs(q))
        return max(1, math.ceil(q)), amb
    q0 = X0 / R - Fr(off) + TOL
    q1 = X1 / R - Fr(off) - TOL
    band = Fr(1, 10**9) * max(1, abs(q0), abs(q1))
    amb = any(abs(v - round(v)) <= band for v in (q0, q1, q0 - 2 * TOL, q1 + 2 * TOL))
    return max(1, math.ceil(q1) - math.floor(q0)), amb


def o_snap_grid(case, T):
    from odc.geo import math as M

    x0, x1, res, off, tol = case["x0"], case["x1"], case["res"], case["off"], case["tol"]
    tx, nx = M.snap_grid(x0, x1, res, off, tol=tol)
    check_snap_axis(x0, x1, res, off, tol, tx, nx)
    # "... and is minimal": no grid on this alignment with fewer pixels covers the interval up to the tolerance
    nmin, amb = minimal_count(x0, x1, res, off, tol)
    if amb:
        T.exclude("edge_on_tolerance_boundary")
    else:
        require(nx == nmin, "snap_grid(%r, %r, %r, %r, tol=%r) uses %d pixels, %d suffice to cover the interval up to the tolerance", x0, x1, res, off, tol, nx, nmin)
    ratio = (x1 - x0) / abs(res)
    if res < 0 or off not in (0, None) or abs(ratio - round(ratio)) < 10 * tol:
        T.nontrivial()
    T.cls("neg_res" if res < 0 else "pos_res")
    T.cls("anchor_%s" % off)


# --------------------------------------------------------------------- decompose_rws
@st.composite
def s_rws(draw):
    if draw(st.integers(0, 4)) == 0:
        # small integer matrices (pythagorean rotations, shears, mirrors): exactly representable, and usable as an
        # integer-typed 2x2 array (decompose_rws takes Affine or ndarray)
        e = st.integers(-9, 9)
        a, b, d, ee = draw(e), draw(e), draw(e), draw(e)
        if draw(st.booleans()):
            p, q = draw(st.sampled_from([(3, 4), (4, 3), (5, 12), (8, 15), (0, 1), (1, 1)]))
            k = draw(st.sampled_from([1, 1, -1, 2]))
            a, b, d, ee = p, -q * k, q, p * k
        if a * ee - b * d == 0:
            a, b, d, ee = 3, -4, 4, 3
        return {"A": [float(a), float(b), float(draw(st.integers(-100, 100))), float(d), float(ee), float(draw(st.integers(-100, 100)))], "klass": "integer_matrix", "int_dtype": draw(st.sampled_from(["int64", "int32", "float32", "float64"]))}
    coeffs, fam, klass = draw(affines(family="general"))
    return {"A": coeffs, "klass": klass}


def o_rws(case, T):
    from odc.geo import math as M

    A = mk_affine(case["A"])
    m = np.array([[A.a, A.b], [A.d, A.e]])
    cond = np.linalg.cond(m)
    if not cond <= 1e6:
        T.exclude("ill_conditioned")
        return
    R, W, S = M.decompose_rws(A)
    r = np.array([[R.a, R.b], [R.d, R.e]])
    w = np.array([[W.a, W.b], [W.d, W.e]])
    s = np.array([[S.a, S.b], [S.d, S.e]])
    scale = np.abs(m).max()
    err = np.abs(r @ w @ s - m).max() / scale
    require(err < 1e-9 * cond, "R*W*S differs from A by %.3g relative (cond %.3g): A=%r", err, cond, A)
    require(np.abs(r.T @ r - np.eye(2)).max() < 1e-9 * cond, "R is not orthonormal: %r", r.tolist())
    require(abs(np.linalg.det(r) - 1) < 1e-9 * cond, "det R = %r, expected +1", float(np.linalg.det(r)))
    require(w[0, 0] == 1 and w[1, 1] == 1 and w[1, 0] == 0 or (abs(w[0, 0] - 1) < 1e-12 and abs(w[1, 1] - 1) < 1e-12 and abs(w[1, 0]) < 1e-12 * max(1, cond)), "W not upper unit-triangular: %r", w.tolist())
    require(s[0, 1] == 0 and s[1, 0] == 0, "S not diagonal: %r", s.tolist())
    require((R.c, R.f) == (A.c, A.f), "translation not carried on R")
    # the ndarray form of the same matrix (float64 always; the generated dtype for integer matrices)
    for dt in ["float64"] + ([case["int_dtype"]] if case.get("int_dtype") else []):
        m_in = m.astype(dt)
        keep = m_in.copy()
        r2, w2, s2 = M.decompose_rws(m_in)
        require(np.array_equal(m_in, keep), "decompose_rws modified its %s input array", dt)
        tol2 = (1e-9 if dt != "float32" else 1e-5) * cond
        err2 = np.abs(np.asarray(r2, dtype="float64") @ np.asarray(w2, dtype="float64") @ np.asarray(s2, dtype="float64") - m).max() / scale
        require(err2 < tol2, "ndarray[%s] input: R*W*S differs from A by %.3g relative: A=%r R=%r", dt, err2, m.tolist(), np.asarray(r2).tolist())
        require(np.abs(np.asarray(r2, dtype="float64").T @ np.asarray(r2, dtype="float64") - np.eye(2)).max() < tol2, "ndarray[%s] input: R is not orthonormal: %r", dt, np.asarray(r2).tolist())
        require(abs(np.linalg.det(np.asarray(r2, dtype="float64")) - 1) < tol2, "ndarray[%s] input: det R != +1", dt)
        if dt != "float64":
            T.cls("ndarray_input:" + dt)
    res = M.resolution_from_affine(A)
    if M.is_affine_st(A):
        require(res.x == A.a and res.y == A.e, "resolution_from_affine axis aligned: %r", res)
    else:
        require(res.x == S.a and res.y == S.e, "resolution_from_affine != S diag")
        # |res.x| is the length of pixel column vector 0, |res.x*res.y| = |det|
        require(abs(abs(res.x) - math.hypot(A.a, A.d)) <= 1e-9 * cond * math.hypot(A.a, A.d), "|res.x| != |first column|")
        det = A.a * A.e - A.b * A.d
        require(abs(res.x * res.y - det) <= 1e-9 * cond * abs(det), "res.x*res.y=%r != det %r", res.x * res.y, det)
        T.nontrivial()
    T.cls(case["klass"] or "north_up")


# --------------------------------------------------------------------- fits
@st.composite
def s_fit(draw):
    kind = draw(st.sampled_from(["scatter3", "scatter4_8", "scatter9+", "grid"]))
    W = draw(st.sampled_from([16, 100, 1000, 5000]))
    H = draw(st.sampled_from([16, 100, 1000, 5000]))
    if kind == "grid":
        gx = draw(st.integers(2, 5))
        gy = draw(st.integers(2, 5))
        pts = [[W * i / (gx - 1), H * j / (gy - 1)] for j in range(gy) for i in range(gx)]
        centroid = gx % 2 == 1 and gy % 2 == 1
    else:
        n = {"scatter3": 3, "scatter4_8": draw(st.integers(4, 8)), "scatter9+": draw(st.integers(9, 16))}[kind]
        # well spread points: jittered lattice to keep general position
        side = math.ceil(math.sqrt(n)) + 1
        cells = draw(st.permutations([(i, j) for i in range(side) for j in range(side)]))[:n]
        pts = []
        for (i, j) in cells:
            jx = draw(st.integers(1, 15)) / 16
            jy = draw(st.integers(1, 15)) / 16
            pts.append([W * (i + jx) / side, H * (j + jy) / side])
        centroid = False
    coeffs, fam, klass = draw(affines(family="exact"))
    tweak = draw(st.sampled_from(["none", "none", "shift", "scale", "both"]))
    if tweak in ("shift", "both"):
        # exactly representable, but a hair off a whole number (a fit that "cleans up" its answer is no longer exact)
        coeffs[2] = float(round(coeffs[2])) + 2.0**-12
        coeffs[5] = float(round(coeffs[5])) - 2.0**-12
    if tweak in ("scale", "both"):
        coeffs[0] *= 1 + 2.0**-21
        coeffs[4] *= 1 - 2.0**-21
    degree = draw(st.sampled_from(["affine", "affine", "bilinear", "biquadratic"]))
    q = [draw(st.sampled_from([0.0, 0.5, -0.25, 1.0])) for _ in range(6)]
    probes = [[draw(st.integers(0, 16)) / 16, draw(st.integers(0, 16)) / 16] for _ in range(4)]
    B = [draw(st.sampled_from([1.0, 2.0, 0.5, -1.0])), 0.0, draw(st.sampled_from([0.0, 3.0, -8.0])),
         0.0, draw(st.sampled_from([1.0, 2.0, 0.5, -1.0])), draw(st.sampled_from([0.0, 5.0, -2.0]))]
    return {"kind": kind, "pts": pts, "A": coeffs, "degree": degree, "q": q, "probes": probes, "centroid": centroid, "WH": [W, H], "B": B}


def _truth(case):
    A = mk_affine(case["A"])
    W, H = case["WH"]
    q = case["q"]
    deg = case["degree"]
    s = max(abs(A.a), abs(A.b), abs(A.d), abs(A.e))

    def f(x, y):
        wx, wy = A * (x, y)
        u, v = x / W, y / H
        if deg in ("bilinear", "biquadratic"):
            wx += s * W * q[0] * u * v
            wy += s * H * q[1] * u * v
        if deg == "biquadratic":
            wx += s * W * (q[2] * u * u * v + q[3] * u * u * v * v)
            wy += s * H * (q[4] * u * v * v + q[5] * u * u)
        return wx, wy

    return f, s


def o_fit(case, T):
    from odc.geo import math as M
    from odc.geo.types import xy_

    pts = np.asarray(case["pts"], dtype="float64")
    n = len(pts)
    deg = case["degree"]
    if deg == "bilinear" and n < 4 or deg == "biquadratic" and n < 9:
        deg = case["degree"] = "affine"
    if case["kind"] == "grid" and deg == "biquadratic":
        # a biquadratic needs a 3x3 lattice at least in each direction
        gx = len({p[0] for p in case["pts"]})
        gy = len({p[1] for p in case["pts"]})
        if gx < 3 or gy < 3:
            deg = case["degree"] = "bilinear"
    # "point sets in general position": the monomial design matrix of the fit that will be used must be
    # well conditioned (computed here, independently of the code under test)
    u = (pts - pts.mean(axis=0)) / (np.abs(pts - pts.mean(axis=0)).max() + 1e-300)
    nterms = 9 if n >= 9 else 4 if n >= 4 else 3
    cols = {3: [(0, 0), (1, 0), (0, 1)], 4: [(0, 0), (1, 0), (0, 1), (1, 1)],
            9: [(i, j) for i in range(3) for j in range(3)]}[nterms]
    D = np.stack([u[:, 0] ** i * u[:, 1] ** j for i, j in cols], axis=1)
    if not np.linalg.cond(D) < 1e4:
        T.exclude("points_not_in_general_position")
        return
    f, s = _truth(case)
    wld = np.asarray([f(x, y) for x, y in pts])
    A = mk_affine(case["A"])
    x0, y0 = pts.min(axis=0)
    x1, y1 = pts.max(axis=0)
    probes = [(x0 + (x1 - x0) * u, y0 + (y1 - y0) * v) for u, v in case["probes"]]
    # tolerance: 1e-6 px plus float rounding at the magnitude of the world coordinates
    tol_px = 1e-6 + 1e-11 * float(np.abs(wld).max()) / s
    # affine_from_pts solves an un-normalised least squares on [x, y, 1]: its rounding error scales with the condition
    # number of that raw design matrix (input-only quantity) times the magnitude of the world coordinates
    tol_aff = tol_px + 32 * 2.3e-16 * float(np.linalg.cond(np.c_[pts, np.ones(n)])) * float(np.abs(wld).max()) / s
    if deg == "affine":
        A2 = M.affine_from_pts([xy_(*p) for p in pts.tolist()], [xy_(*p) for p in wld.tolist()])
        for p in probes:
            g = A2 * p
            w = A * p
            err = math.hypot(g[0] - w[0], g[1] - w[1]) / s
            require(err < tol_aff, "affine_from_pts off by %.3g px at %r (n=%d, tolerance %.3g)", err, p, n, tol_aff)
    with np.errstate(all="ignore"):
        P = M.Poly2d.fit(pts.copy(), wld.copy())
    for p in probes:
        g = P(np.asarray([p[0]]), np.asarray([p[1]]))
        gx, gy = float(np.ravel(g[0])[0]), float(np.ravel(g[1])[0])
        w = f(*p)
        err = math.hypot(gx - w[0], gy - w[1]) / s
        require(err < tol_px, "Poly2d.fit (%s, %d pts, %s) off by %.3g px at %r", deg, n, case["kind"], err, p)
    # composition with an input transform
    B = mk_affine(case["B"])
    PB = P.with_input_transform(B)
    for p in probes:
        q = (~B) * p
        g1 = PB(np.asarray([q[0]]), np.asarray([q[1]]))
        g2 = P(np.asarray([p[0]]), np.asarray([p[1]]))
        d = max(abs(float(np.ravel(g1[0])[0]) - float(np.ravel(g2[0])[0])), abs(float(np.ravel(g1[1])[0]) - float(np.ravel(g2[1])[0]))) / s
        require(d < tol_px, "with_input_transform: P(B q) and (P o B)(q) differ by %.3g px", d)
    # ... and a transform of a transform (a crop of a crop): the second call chains onto the first
    PBB = PB.with_input_transform(B)
    for p in probes:
        q = (~B) * ((~B) * p)
        g1 = PBB(np.asarray([q[0]]), np.asarray([q[1]]))
        g2 = P(np.asarray([p[0]]), np.asarray([p[1]]))
        d = max(abs(float(np.ravel(g1[0])[0]) - float(np.ravel(g2[0])[0])), abs(float(np.ravel(g1[1])[0]) - float(np.ravel(g2[1])[0]))) / s
        require(d < 2 * tol_px, "with_input_transform twice: P(B B q) and ((P o B) o B)(q) differ by %.3g px", d)
    # Nx2 calling convention
    pp = np.asarray(probes)
    g = P(pp)
    g3 = P(pp[:, 0], pp[:, 1])
    require(np.allclose(np.asarray(g).T, np.asarray(g3), rtol=0, atol=1e-9 * s * max(case["WH"])), "Poly2d Nx2 call differs from x,y call")
    if case["centroid"]:
        T.nontrivial()
        T.cls("grid_with_centroid")
    if n >= 9:
        T.nontrivial()
    T.cls(f"{case['kind']}/{deg}")


# --------------------------------------------------------------------- axis labels
@st.composite
def s_axis(draw):
    n = draw(st.one_of(st.integers(1, 5), st.integers(6, 400)))
    fam = draw(st.sampled_from(["exact", "general"]))
    if fam == "exact":
        step = draw(st.sampled_from([1.0, -1.0, 10.0, -30.0, 0.25, -0.5]))
        start = draw(st.integers(-(2**20), 2**20).map(lambda k: k / 4))
    else:
        step = draw(st.one_of(st.sampled_from([0.1, -0.1, 1e-4, -7.3]), st.floats(1e-3, 1e3), st.floats(-1e3, -1e-3)))
        start = draw(st.floats(-1e7, 1e7))
    n2 = draw(st.integers(1, 50))
    step2 = draw(st.sampled_from([1.0, -1.0, 0.5, -30.0, 0.1]))
    return {"n": n, "start": start, "step": step, "fam": fam, "n2": n2, "step2": step2}


def o_axis(case, T):
    from odc.geo import math as M
    from odc.geo.types import resxy_

    n, start, step = case["n"], case["start"], case["step"]
    n2, step2 = case["n2"], case["step2"]
    xx = start + step * (np.arange(n) + 0.5)
    yy = -start + step2 * (np.arange(n2) + 0.5)
    fb = resxy_(step, step2)
    if n == 1 or n2 == 1:
        try:
            M.affine_from_axis(xx, yy)
            raise Violation("affine_from_axis with single-element axis and no fallback did not raise")
        except ValueError:
            pass
        A = M.affine_from_axis(xx, yy, fb)
        T.nontrivial()
        T.cls("single_with_fallback")
    else:
        A = M.affine_from_axis(xx, yy)
        A2 = M.affine_from_axis(xx, yy, resxy_(123.0, -321.0))
        require(tuple(A) == tuple(A2), "fallback resolution used although axis has >=2 labels")
    require(A.b == 0 and A.d == 0, "affine_from_axis returned rotation")
    # reproduces labels (centre convention)
    i = np.arange(n) + 0.5
    j = np.arange(n2) + 0.5
    gx = A.a * i + A.c
    gy = A.e * j + A.f
    tolx = 8 * np.finfo(float).eps * (abs(start) + abs(step) * n + 1e-300) if case["fam"] == "general" else 0.0
    toly = 8 * np.finfo(float).eps * (abs(start) + abs(step2) * n2)
    if case["fam"] == "exact" and step2 != 0.1:
        toly = 0.0
    require(np.abs(gx - xx).max() <= tolx, "x labels not reproduced: max err %r (tol %r) n=%d start=%r step=%r", float(np.abs(gx - xx).max()), tolx, n, start, step)
    require(np.abs(gy - yy).max() <= toly, "y labels not reproduced: max err %r", float(np.abs(gy - yy).max()))
    r, off = M.data_resolution_and_offset(xx, step)
    require(abs(r - step) <= 4 * np.finfo(float).eps * (abs(step) + abs(start) / max(1, n - 1)), "data_resolution_and_offset res %r != %r", r, step)
    try:
        M.affine_from_axis(np.asarray([]), yy, fb)
        raise Violation("affine_from_axis accepted an empty axis")
    except ValueError:
        pass
    if step < 0:
        T.nontrivial()
        T.cls("negative_step")


# --------------------------------------------------------------------- Bin1D
@st.composite
def s_bin(draw):
    fam = draw(st.sampled_from(["exact", "general"]))
    if fam == "exact":
        # incl. sizes whose reciprocal rounds down (49, 103, ...): x/sz is exact on bin edges, x*(1/sz) is not
        sz = draw(st.sampled_from([1.0, 0.25, 10.0, 100.0, 4096.0, 3.0, 7.0, 49.0, 98.0, 103.0, 107.0, 161.0, 187.0, 12.5]))
        origin = draw(st.integers(-4000, 4000).map(lambda k: k / 4))
    else:
        sz = draw(st.one_of(st.sampled_from([0.1, 7.3, 1e-3, 96000.0]), st.floats(1e-3, 1e6)))
        origin = draw(st.one_of(st.just(0.0), st.floats(-1e7, 1e7)))
    direction = draw(st.sampled_from([1, -1]))
    idx = draw(st.integers(-1000, 1000))
    frac = draw(st.sampled_from([0.0, 0.5, 0.25, 1e-6, 1 - 1e-6, 0.999]))
    sample_idx = draw(st.integers(-50, 50))
    return {"sz": sz, "origin": origin, "dir": direction, "idx": idx, "frac": frac, "fam": fam, "sample_idx": sample_idx}


def o_bin(case, T):
    from odc.geo.math import Bin1D

    b = Bin1D(case["sz"], case["origin"], case["dir"])
    idx = case["idx"]
    x0, x1 = b[idx]
    exact = case["fam"] == "exact"
    slack = 0.0 if exact else 4 * math.ulp(max(abs(x0), abs(x1), case["sz"], abs(case["origin"]), abs(idx * case["sz"])))
    require(abs((x1 - x0) - case["sz"]) <= slack, "bin %d has size %r, expected %r", idx, x1 - x0, case["sz"])
    # expected interval from exact arithmetic
    X0 = Fr(case["origin"]) + Fr(case["sz"]) * idx * case["dir"]
    require(abs(Fr(x0) - X0) <= Fr(slack), "bin %d starts at %r expected %r", idx, x0, float(X0))
    x = x0 + case["frac"] * (x1 - x0)
    if not exact and (x - x0 < slack or x1 - x < slack):
        T.exclude("edge_ulps")
    else:
        got = b.bin(x)
        require(got == idx, "bin(%r)=%d but point lies in bin %d = [%r,%r) (sz=%r origin=%r dir=%d)", x, got, idx, x0, x1, case["sz"], case["origin"], case["dir"])
        lo, hi = b[got]
        require(lo - slack <= x < hi + slack, "x=%r not inside self[bin(x)]=[%r,%r)", x, lo, hi)
    # neighbouring bins share edges
    n0, n1 = b[idx + case["dir"]]
    require(abs(n0 - x1) <= slack, "bins %d and next do not share an edge: %r vs %r", idx, x1, n0)
    # reconstruction from a sample bin
    si = case["sample_idx"]
    b2 = Bin1D.from_sample_bin(si, b[si], case["dir"])
    for k in (idx, -idx, 0, si):
        a0, a1 = b[k]
        c0, c1 = b2[k]
        # the sample interval's width is x1-x0 (cancellation: error ~ ulp of the edges), which is then
        # multiplied by the index distance
        s0, s1 = b[si]
        tol = 0.0 if exact else (
            4 * math.ulp(max(abs(s0), abs(s1))) * (abs(k - si) + abs(si) + 2)
            + 8 * math.ulp(max(abs(a0), abs(a1), abs(case["origin"])))
        )
        require(abs(a0 - c0) <= tol and abs(a1 - c1) <= tol, "from_sample_bin(%d) gives bin %d=[%r,%r) expected [%r,%r)", si, k, c0, c1, a0, a1)
    if exact:
        require(b2 == b, "from_sample_bin does not compare equal on exact family")
    if case["dir"] < 0 or idx < 0:
        T.nontrivial()
    T.cls("dir%+d" % case["dir"])


def build(chk: Check) -> None:
    chk.sub("split_int", o_split, strategy=near_int(), n={"quick": 20000, "thorough": 1500000})
    chk.sub("split_nonfinite", o_split_nonfinite, enum=lambda tier: [{"x": "nan"}, {"x": "inf"}, {"x": "-inf"}], exhaustive_tiers=("quick", "thorough"))
    chk.sub("snap_scale", o_snap_scale, strategy=s_scale(), n={"quick": 10000, "thorough": 800000})
    chk.sub("snap_affine", o_snap_affine, cov={"quick": 1500, "thorough": 150000}, strategy=s_snap_affine(), n={"quick": 4000, "thorough": 300000})
    chk.sub("align_enum", o_align, enum=e_align, exhaustive_tiers=("thorough",))
    chk.sub("pow2_enum", o_pow2, enum=e_pow2, exhaustive_tiers=("quick", "thorough"))
    chk.sub("snap_grid", o_snap_grid, cov={"quick": 3000, "thorough": 400000}, strategy=s_snap_grid(), n={"quick": 12000, "thorough": 1000000})
    chk.sub("decompose_rws", o_rws, strategy=s_rws(), n={"quick": 3000, "thorough": 200000})
    chk.sub("fit", o_fit, strategy=s_fit(), n={"quick": 1500, "thorough": 100000})
    chk.sub("axis", o_axis, strategy=s_axis(), n={"quick": 3000, "thorough": 200000})
    chk.sub("bin1d", o_bin, cov={"quick": 2000, "thorough": 300000}, strategy=s_bin(), n={"quick": 6000, "thorough": 500000})
