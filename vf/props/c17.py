"""C17 - ROI (slice) helpers agree with array slicing semantics."""
from __future__ import annotations

import itertools
import math

import numpy as np
from hypothesis import strategies as st

from vf.common import Check, Violation, require

RULE = (
    "Exhaustive enumeration of slices/int indices for array lengths n<=7 (quick n<=5), all ordered pairs of "
    "normalised slices with bounds in [0,9], pads 0..4, scales 1..5, N-d tuples by product; Hypothesis for larger n "
    "and for roi_from_points point sets (inside/border/outside/NaN/inf/outliers up to 1e300). Oracle: numpy indexing "
    "of arange(n) and an exact big-integer model of the point envelope. Non-trivial: open-ended or negative slice, "
    "touching/disjoint pair, clamped pad, non-dividing scale, or a point set with an outlier/non-finite row; "
    "distinct = distinct case."
)
ASSUMPTIONS = [
    "negative slice bounds are drawn from [-n,-1] (roi_normalise documents 'offsets from the end' and does not clamp)",
    "shape/emptiness/fullness are compared with numpy only for regions that lie within the array (stop<=n)",
    "numpy basic indexing is the reference semantics",
]
SHARDS = {"quick": 4, "thorough": 16}


def _sl(x):
    """case -> slice | int.  ['s', start, stop] or ['i', idx]."""
    if x[0] == "i":
        return x[1]
    return slice(x[1], x[2])


def _idx(s, n):
    X = np.arange(n)
    r = X[s]
    if np.ndim(r) == 0:
        return [int(r)]
    return r.tolist()


def _all_slices(n, extra=2):
    bounds = [None] + list(range(-n, n + extra + 1))
    for a in bounds:
        for b in bounds:
            yield ["s", a, b]
    for i in range(-n, n):
        yield ["i", i]


# --------------------------------------------------------------------- normalise
def o_norm(case, T):
    from odc.geo import roi as R

    n, s_ = case["n"], case["s"]
    s = _sl(s_)
    want = _idx(s, n)
    ns = R.roi_normalise(s, n)
    require(isinstance(ns, slice), "roi_normalise did not return a slice: %r", ns)
    require(
        isinstance(ns.start, int) and isinstance(ns.stop, int) and ns.start >= 0 and ns.stop >= 0,
        "normalised slice %r of %r (n=%d) has open or negative bounds", ns, s, n,
    )
    got = _idx(ns, n)
    require(got == want, "X[norm(%r)] = %r but X[%r] = %r (n=%d)", s, got, s, want, n)
    # same through 1-tuple shapes and N-d
    ns2 = R.roi_normalise((s,), (n,))
    require(isinstance(ns2, tuple) and ns2[0] == ns, "tuple form differs: %r vs %r", ns2, ns)
    ns3 = R.roi_normalise(s, (n,))
    require(ns3 == ns, "shape-as-tuple form differs: %r vs %r", ns3, ns)
    if not isinstance(s, int) and (s.start is None or s.stop is None or s.start < 0 or s.stop < 0):
        T.nontrivial()
        T.cls("open_or_negative")
    elif isinstance(s, int):
        T.cls("int_index")
        if s < 0:
            T.nontrivial()
    else:
        T.cls("plain")
    # a reversed region (start > stop, both inside the array) describes the empty index set
    if ns.start <= n and ns.stop <= n:
        require(R.roi_is_empty(ns) == (len(want) == 0), "roi_is_empty(%r) is %r but X[%r] has %d elements (n=%d)", ns, R.roi_is_empty(ns), ns, len(want), n)
        if ns.start > ns.stop:
            T.cls("reversed")
    # queries on regions inside the array
    if ns.start <= ns.stop <= n:
        require(R.roi_shape(ns) == (len(want),), "roi_shape(%r)=%r, numpy %d", ns, R.roi_shape(ns), len(want))
        require(R.roi_shape((ns,)) == (len(want),), "roi_shape tuple form")
        require(R.roi_is_empty(ns) == (len(want) == 0), "roi_is_empty(%r) wrong (numpy len %d)", ns, len(want))
        full = want == list(range(n))
        require(R.roi_is_full(ns, n) == full, "roi_is_full(%r,%d)=%r expected %r", ns, n, R.roi_is_full(ns, n), full)
        require(R.roi_is_full((ns,), (n,)) == full, "roi_is_full tuple form")
        if len(want) > 0:
            c = R.roi_center(ns)
            require(c == (want[0] + want[-1] + 1) / 2, "roi_center(%r)=%r", ns, c)
    if isinstance(s, int):
        require(R.roi_shape(s) == (1,), "roi_shape(int)")
        require(R.roi_is_full(s, n) == (n == 1), "roi_is_full(int)")
        if s >= 0:
            # index k is the index set {k}: its centre is k + 1/2, alone and as a component of an N-d region
            require(R.roi_center(s) == s + 0.5, "roi_center(%r)=%r, the centre of index set {%d} is %r", s, R.roi_center(s), s, s + 0.5)
            c2 = R.roi_center((s, slice(0, 4)))
            require(tuple(c2) == (s + 0.5, 2.0), "roi_center((%r, 0:4))=%r expected %r", s, c2, (s + 0.5, 2.0))
            c3 = R.roi_center((slice(1, 2), s))
            require(tuple(c3) == (1.5, s + 0.5), "roi_center((1:2, %r))=%r expected %r", s, c3, (1.5, s + 0.5))
    elif (s.start is None or s.start >= 0) and (s.stop is None or 0 <= s.stop <= n):
        # un-normalised but non-negative forms accepted by the query helpers
        if s.stop is not None and (s.start or 0) <= s.stop:
            require(R.roi_shape(s) == (len(want),), "roi_shape(%r)=%r numpy %d", s, R.roi_shape(s), len(want))
            require(R.roi_is_empty(s) == (len(want) == 0), "roi_is_empty(%r)", s)
        if (s.start or 0) <= (n if s.stop is None else s.stop):
            full = want == list(range(n))
            require(R.roi_is_full(s, n) == full, "roi_is_full(%r,%d) expected %r", s, n, full)


def e_norm(tier):
    nmax = 5 if tier == "quick" else 7
    for n in range(0, nmax + 1):
        for s in _all_slices(n):
            yield {"n": n, "s": s}


def o_norm_nd(case, T):
    from odc.geo import roi as R

    shape = tuple(case["shape"])
    ss = tuple(_sl(s) for s in case["ss"])
    X = np.arange(int(np.prod(shape))).reshape(shape) if shape else np.arange(1)
    ns = R.roi_normalise(ss, shape)
    require(isinstance(ns, tuple) and len(ns) == len(ss), "N-d normalise returned %r", ns)
    want = X[ss]
    # int indices drop axes in numpy; normalised form keeps them as length-1
    got = X[ns]
    require(got.size == want.size and (got.ravel() == want.ravel()).all(), "X[norm(%r)] != X[%r] for shape %r", ss, ss, shape)
    for a in ns:
        require(a.start >= 0 and a.stop >= 0, "negative bound after normalise %r", ns)
    if all(a.start <= n and a.stop <= n for a, n in zip(ns, shape)):
        # reversed axes (start > stop) describe an empty index set, whatever their number
        require(R.roi_is_empty(ns) == (got.size == 0), "roi_is_empty(%r) is %r but X[...] has %d elements (shape %r)", ns, R.roi_is_empty(ns), got.size, shape)
        nrev = sum(1 for a in ns if a.start > a.stop)
        if nrev:
            T.cls("reversed_axes_%d" % min(nrev, 3))
    if all(a.start <= a.stop <= n for a, n in zip(ns, shape)):
        require(R.roi_shape(ns) == got.shape, "roi_shape N-d %r vs %r", R.roi_shape(ns), got.shape)
        require(R.roi_is_empty(ns) == (got.size == 0), "roi_is_empty N-d")
        require(R.roi_is_full(ns, shape) == (got.size == X.size and X.size > 0 or got.shape == X.shape), "roi_is_full N-d %r %r", ns, shape)
    T.nontrivial()


def e_norm_nd(tier):
    """Every explicit non-negative region (forward, zero-width, reversed) of small 2-D / 3-D arrays."""
    import itertools

    for shape in ((3, 2), (2, 2, 2)) if tier == "quick" else ((3, 2), (3, 4), (2, 2, 2), (2, 3, 2), (2, 2, 2, 2)):
        per_axis = [[["s", a, b] for a in range(n + 1) for b in range(n + 1)] for n in shape]
        for ss in itertools.product(*per_axis):
            yield {"shape": list(shape), "ss": [list(x) for x in ss]}


def _st_slice_for(n):
    b = st.one_of(st.none(), st.integers(-n, n + 2)) if n > 0 else st.one_of(st.none(), st.integers(0, 2))
    sl = st.tuples(st.just("s"), b, b).map(list)
    if n > 0:
        return st.one_of(sl, st.tuples(st.just("i"), st.integers(-n, n - 1)).map(list))
    return sl


@st.composite
def s_norm_nd(draw):
    nd = draw(st.integers(2, 4))
    shape = [draw(st.integers(1, 6)) for _ in range(nd)]
    ss = [draw(_st_slice_for(n)) for n in shape]
    return {"shape": shape, "ss": ss}


@st.composite
def s_norm_big(draw):
    n = draw(st.one_of(st.integers(8, 300), st.sampled_from([2**15, 2**31 - 1, 2**31, 2**40])))
    near = st.sampled_from([0, 1, n // 2, n - 1, n, n + 1])
    b = st.one_of(st.none(), near, near.map(lambda v: -v if 0 < v <= n else v), st.integers(-n, n + 2))
    which = draw(st.integers(0, 4))
    if which == 0:
        return {"n": n, "s": ["i", draw(st.integers(-n, n - 1))]}
    return {"n": n, "s": ["s", draw(b), draw(b)]}


def o_norm_big(case, T):
    """Large n: compare against python's slice.indices (numpy would allocate)."""
    from odc.geo import roi as R

    n, s = case["n"], _sl(case["s"])
    ns = R.roi_normalise(s, n)
    if isinstance(s, int):
        i = s if s >= 0 else n + s
        require((ns.start, ns.stop) == (i, i + 1), "int index %d of %d -> %r", s, n, ns)
    else:
        a, b, _ = s.indices(n)
        a2, b2, _ = slice(ns.start, ns.stop).indices(n)
        require(ns.start >= 0 and ns.stop >= 0, "negative bound %r", ns)
        require(max(0, b - a) == max(0, b2 - a2) and (b - a <= 0 or a == a2), "norm(%r, %d) -> %r selects differently", s, n, ns)
    T.nontrivial()


# --------------------------------------------------------------------- intersections
def o_isect(case, T):
    from odc.geo import roi as R

    a, b = _sl(case["a"]), _sl(case["b"])
    N = 14
    X = np.arange(N)
    Xa, Xb = X[a], X[b]
    Xa = np.atleast_1d(Xa)
    Xb = np.atleast_1d(Xb)
    common = sorted(set(Xa.tolist()) & set(Xb.tolist()))
    a_, b_, ab_ = R.slice_intersect3(a, b)
    ga, gb, gab = Xa[a_].tolist(), Xb[b_].tolist(), X[ab_].tolist()
    require(ga == gb == gab, "X[a][a']=%r X[b][b']=%r X[ab']=%r for a=%r b=%r", ga, gb, gab, a, b)
    require(gab == common, "ab' selects %r, common index set is %r (a=%r b=%r)", gab, common, a, b)
    if not case.get("reversed"):
        for s in (a_, b_, ab_):
            require(0 <= s.start <= s.stop, "intersect3 returned non-normalised slice %r", s)
        require(a_.stop <= len(Xa) and b_.stop <= len(Xb), "a'/b' stick out of a/b: %r %r", a_, b_)
    else:
        T.cls("reversed_operand")
    r = R.roi_intersect(a, b)
    require(X[r].tolist() == common, "roi_intersect(%r,%r)=%r selects %r, expected %r", a, b, r, X[r].tolist(), common)
    require(R.roi_is_empty(r) == (not common), "roi_is_empty(roi_intersect) wrong for %r %r", a, b)
    # symmetric in the selected set
    r2 = R.roi_intersect(b, a)
    require(X[r2].tolist() == common, "roi_intersect not symmetric as index sets: %r vs %r", r, r2)
    # tuple forms
    t3 = R.roi_intersect3((a, b), (b, a))
    require(t3[0] == (a_, R.slice_intersect3(b, a)[0]), "roi_intersect3 tuple form inconsistent")
    rt = R.roi_intersect((a, b), (b, a))
    require(rt == (r, r2), "roi_intersect tuple form inconsistent")
    la = (a, a + 1) if isinstance(a, int) else (a.start, a.stop)
    lb = (b, b + 1) if isinstance(b, int) else (b.start, b.stop)
    if not common:
        T.nontrivial()
        if la[1] == lb[0] or lb[1] == la[0]:
            T.cls("touching")
        else:
            T.cls("disjoint_or_empty")
    else:
        T.cls("overlap")
        if la[0] != lb[0] and la[1] != lb[1]:
            T.nontrivial()


def e_isect(tier):
    hi = 7 if tier == "quick" else 9
    sl = [["s", a, b] for a in range(hi + 1) for b in range(a, hi + 1)]
    sl += [["i", i] for i in range(0, hi)]
    sl += [["s", None, b] for b in range(0, hi + 1, 2)]
    # reversed slices (stop < start) are legal numpy slices selecting nothing
    rev = [["s", a, b] for a in range(1, hi + 1) for b in range(0, a) if (a + b) % 2 == 0 or a - b == 1 or tier != "quick"]
    for a in sl:
        for b in sl:
            yield {"a": a, "b": b}
    for a in rev:
        for b in sl + rev[::3]:
            yield {"a": a, "b": b, "reversed": True}
            yield {"a": b, "b": a, "reversed": True}


# --------------------------------------------------------------------- pad / scale
def o_padscale(case, T):
    from odc.geo import roi as R

    n, s, pad, k = case["n"], _sl(case["s"]), case["pad"], case["k"]
    want = _idx(s, n)
    p = R.roi_pad(s, pad, n)
    if want:
        exp = list(range(max(0, want[0] - pad), min(n, want[-1] + 1 + pad)))
        require(_idx(p, n) == exp and 0 <= p.start <= p.stop <= n, "roi_pad(%r,%d,%d)=%r selects %r expected %r", s, pad, n, p, _idx(p, n), exp)
        if exp and (exp[0] == 0 and want[0] - pad < 0 or exp[-1] == n - 1 and want[-1] + pad > n - 1):
            T.nontrivial()
            T.cls("pad_clamped")
        if isinstance(s, slice) and isinstance(s.stop, int) and s.stop > n:
            T.cls("pad_region_past_axis_end")
    else:
        require(0 <= p.start and p.stop <= n, "roi_pad of empty region leaves array: %r", p)
        if isinstance(s.start, int) and s.start == s.stop and 0 <= s.start <= n:
            # a zero-width region at position k is still a region with a position: "pad on each side, with clamping"
            k0 = s.start
            require((p.start, p.stop) == (max(0, k0 - pad), min(n, k0 + pad)), "roi_pad(%r,%d,%d)=%r: a zero-width region at %d grown by %d on each side and clamped is %d:%d", s, pad, n, p, k0, pad, max(0, k0 - pad), min(n, k0 + pad))
            if pad > 0:
                T.nontrivial()
                T.cls("pad_zero_width")
    pt = R.roi_pad((s, s), pad, (n, n))
    require(pt == (p, p), "roi_pad tuple form differs")
    ns = R.roi_normalise(s, n)
    if ns.start <= ns.stop:
        # 2-D helper; use same slice on both axes plus an asymmetric partner
        other = slice(0, n)
        roi = (ns, other)
        d = R.scaled_down_roi(roi, k)
        u = R.scaled_up_roi(d, k)
        for o, dd, uu in zip(roi, d, u):
            require(uu.start <= o.start and uu.stop >= o.stop, "scaled_up(scaled_down(%r,%d),%d)=%r does not contain it", o, k, k, uu)
            require(o.start - uu.start < k and uu.stop - o.stop < k, "scale round trip exceeds by >= factor: %r -> %r (k=%d)", o, uu, k)
            require(uu.start == dd.start * k and uu.stop == dd.stop * k, "scaled_up mismatch")
        # clamp variant
        shape = (max(n, 1), max(n, 1))
        uc = R.scaled_up_roi(d, k, shape)
        for uu, c, dim in zip(u, uc, shape):
            require((c.start, c.stop) == (min(dim, uu.start), min(dim, uu.stop)), "scaled_up_roi clamp wrong %r %r", uu, c)
        sd = R.scaled_down_shape((n, ns.stop), k)
        require(sd == (-(-n // k), -(-ns.stop // k)), "scaled_down_shape(%r,%d)=%r", (n, ns.stop), k, sd)
        if k > 1 and (ns.start % k or ns.stop % k):
            T.nontrivial()
            T.cls("non_dividing_scale")


def e_padscale(tier):
    nmax = 5 if tier == "quick" else 7
    for n in range(0, nmax + 1):
        for s in _all_slices(n, extra=2):  # bounds past the end of the axis are legal numpy (X[3:n+2] == X[3:])
            for pad in range(0, 5):
                for k in range(1, 6):
                    if tier == "quick" and (pad + k) % 2:
                        continue
                    yield {"n": n, "s": s, "pad": pad, "k": k}


# --------------------------------------------------------------------- boundary
@st.composite
def s_boundary(draw):
    y0 = draw(st.integers(0, 3000))
    x0 = draw(st.integers(0, 3000))
    h = draw(st.integers(0, 500))
    w = draw(st.integers(0, 500))
    pps = draw(st.integers(2, 9))
    return {"roi": [y0, y0 + h, x0, x0 + w], "pps": pps}


def o_boundary(case, T):
    from odc.geo import roi as R

    y0, y1, x0, x1 = case["roi"]
    pps = case["pps"]
    roi = (slice(y0, y1), slice(x0, x1))
    pts = R.roi_boundary(roi, pps)
    require(pts.ndim == 2 and pts.shape[1] == 2, "roi_boundary shape %r", pts.shape)
    corners = {(x0, y0), (x1, y0), (x1, y1), (x0, y1)}
    seen = set()
    for x, y in pts.tolist():
        onx = x in (x0, x1) and y0 <= y <= y1
        ony = y in (y0, y1) and x0 <= x <= x1
        require(onx or ony, "boundary point (%r,%r) not on perimeter of %r", x, y, roi)
        seen.add((x, y))
    require(corners <= seen, "corners %r missing from boundary %r", corners - seen, roi)
    c = R.roi_center(roi)
    require(c == ((y0 + y1) / 2, (x0 + x1) / 2), "roi_center %r", c)
    if pps > 2:
        T.nontrivial()


# --------------------------------------------------------------------- points
def _model_from_points(pts, ny, nx, padding, align):
    F = [(x, y) for x, y in pts if math.isfinite(x) and math.isfinite(y)]
    if not F:
        return None
    out = []
    for ax, n in ((1, ny), (0, nx)):
        lo = math.floor(min(p[ax] for p in F)) - padding
        hi = math.ceil(max(p[ax] for p in F)) + padding
        if align is not None:
            lo = lo - (lo % align)
            hi = hi + (-hi % align)
        lo = min(max(lo, 0), n)
        hi = min(max(hi, 0), n)
        out.append((lo, hi))
    return out


@st.composite
def s_points(draw):
    ny = draw(st.one_of(st.integers(1, 64), st.integers(65, 5000), st.sampled_from([2**16, 2**20])))
    nx = draw(st.one_of(st.integers(1, 64), st.integers(65, 5000), st.sampled_from([2**16, 2**20])))
    padding = draw(st.integers(0, 5))
    align = draw(st.sampled_from([None, None, 2, 4, 16]))

    def coord(n, kind):
        if kind == "in":
            return st.one_of(st.floats(0, n), st.integers(0, n).map(float))
        if kind == "near":
            return st.one_of(st.floats(-n - 10, 0), st.floats(n, 2 * n + 10))
        if kind == "far":
            mag = st.sampled_from([1e3, 1e6, 2.0**31 - 1, 2.0**31, 2.0**31 + 1, 3e9, 1e10, 1e12, 2.0**63, 1e19, 1e30, 1e300])
            return st.tuples(mag, st.sampled_from([-1.0, 1.0]), st.floats(1, 2)).map(lambda t: t[0] * t[1] * t[2])
        return st.sampled_from([float("nan"), float("inf"), float("-inf")])

    npts = draw(st.integers(0, 8))
    pts = []
    kinds = []
    for _ in range(npts):
        kx = draw(st.sampled_from(["in", "in", "in", "near", "far", "nonfinite"]))
        ky = draw(st.sampled_from(["in", "in", "in", "near", kx, kx]))
        pts.append([draw(coord(nx, kx)), draw(coord(ny, ky))])
        kinds.append(kx + "/" + ky)
    return {"shape": [ny, nx], "padding": padding, "align": align, "pts": pts, "kinds": kinds}


def o_points(case, T):
    from odc.geo import roi as R

    ny, nx = case["shape"]
    pts = [tuple(p) for p in case["pts"]]
    padding, align = case["padding"], case["align"]
    xy = np.asarray(pts, dtype="float64").reshape(-1, 2)
    with np.errstate(all="ignore"):
        roi = R.roi_from_points(xy, (ny, nx), padding=padding, align=align)
    require(isinstance(roi, tuple) and len(roi) == 2, "roi_from_points returned %r", roi)
    ry, rx = roi
    for s, n in ((ry, ny), (rx, nx)):
        require(0 <= s.start <= n and 0 <= s.stop <= n, "region %r leaves the image %r", roi, (ny, nx))
    model = _model_from_points(pts, ny, nx, padding, align)
    if model is None:
        require(R.roi_is_empty(roi), "no finite points but region %r not empty", roi)
        T.cls("no_finite_points")
        return
    (y0, y1), (x0, x1) = model
    # every finite point inside the image is contained
    for x, y in pts:
        if math.isfinite(x) and math.isfinite(y) and 0 <= x <= nx and 0 <= y <= ny:
            ok = rx.start <= math.floor(x) and math.ceil(x) <= rx.stop and ry.start <= math.floor(y) and math.ceil(y) <= ry.stop
            require(ok, "point (%r,%r) inside image %r not contained in %r", x, y, (ny, nx), roi)
    if y1 <= y0 or x1 <= x0:
        require(R.roi_is_empty(roi), "expected empty region, got %r (model %r)", roi, model)
    else:
        require(
            (ry.start, ry.stop, rx.start, rx.stop) == (y0, y1, x0, x1),
            "region %r differs from exact envelope model y=%r x=%r (padding=%r align=%r shape=%r)", roi, (y0, y1), (x0, x1), padding, align, (ny, nx),
        )
    ks = set(case["kinds"])
    if any("far" in k or "nonfinite" in k for k in ks):
        T.nontrivial()
    if any("far" in k for k in ks):
        T.cls("has_outlier")
        if any(abs(v) >= 2**31 for p in pts for v in p if math.isfinite(v)):
            T.cls("outlier_beyond_int32")
    if any("nonfinite" in k for k in ks):
        T.cls("has_nonfinite")
    if align is not None:
        T.cls("aligned")
    T.cls("points_%d" % min(len(pts), 3))


def build(chk: Check) -> None:
    chk.sub("norm_enum", o_norm, enum=e_norm, exhaustive_tiers=("thorough",), budget_s={"quick": 60, "thorough": 600})
    chk.sub("norm_nd_enum", o_norm_nd, enum=e_norm_nd, exhaustive_tiers=("quick", "thorough"))
    chk.sub("norm_nd", o_norm_nd, cov={"quick": 1000, "thorough": 100000}, strategy=s_norm_nd(), n={"quick": 1500, "thorough": 100000})
    chk.sub("norm_big", o_norm_big, strategy=s_norm_big(), n={"quick": 1500, "thorough": 100000})
    chk.sub("isect_enum", o_isect, enum=e_isect, exhaustive_tiers=("thorough",), budget_s={"quick": 60, "thorough": 600})
    chk.sub("padscale_enum", o_padscale, enum=e_padscale, exhaustive_tiers=("thorough",), budget_s={"quick": 60, "thorough": 600})
    chk.sub("boundary", o_boundary, strategy=s_boundary(), n={"quick": 800, "thorough": 50000})
    chk.sub("from_points", o_points, cov={"quick": 2500, "thorough": 300000}, strategy=s_points(), n={"quick": 6000, "thorough": 600000})
