"""C13 - chunked (dask) reprojection equals whole-array reprojection."""
from __future__ import annotations

import hashlib
import math
from fractions import Fraction as Fr

import numpy as np
from hypothesis import strategies as st

from vf.common import Check, Violation, _in_repo_frames, require
from vf.strategies import CRS_POOL, FA, SINU_PROJ

RULE = (
    "Hypothesis: source raster (sides 1..40, axis-aligned, all four sign combinations of the resolution, distinct "
    "pixel values) x destination = source grid composed with a transform per class (whole-pixel shift, sub-pixel "
    "shift, integer scale k and 1/k, fractional/anisotropic scale, mirror x/y/both, rotation by 90/270/arbitrary "
    "degrees) with the offset drawn relative to both shapes so that contained / covering / partial / touching / "
    "disjoint (gap 1 px .. 100 x raster) placements all occur; different-CRS pairs from the vf.strategies pool "
    "centred inside both valid areas (and far-apart pairs for the disjoint clause); source chunks (regular, "
    "irregular, 1-px, single, oversize) and destination chunks (1-px, non-dividing, single, oversize, default) drawn "
    "independently; dtypes u1,i1,u2,i2,i4,f4,f8; nodata none / source attr / dst_nodata= / both (values that do and "
    "do not occur in the data, NaN); optional leading time axis with its own chunking; nearest (+ bilinear for the "
    "fill clause); schedule = single-threaded dask get with a random task priority derived from the case, or the "
    "threaded scheduler. Oracle: xr_reproject(dask-backed).compute() against xr_reproject(numpy-backed) with the "
    "same arguments. Non-trivial: >= 2 destination chunks of which at least one is partially covered (holds pixel "
    "centres inside and outside the source image); distinct = distinct case."
)
ASSUMPTIONS = [
    "nearest-neighbour identity is demanded only at destination pixels whose exact-rational source coordinate is "
    "farther than 1e-6 px from every source pixel edge (GDAL adds 1e-10 px before flooring; tile-local origins "
    "change float rounding)",
    "'no source pixel reaches' is decided only for pixel centres >= 1.5 px (same CRS, exact rational map) or >= 2.5 px "
    "(different CRS, fresh pyproj transformer) outside the source image; pixels in between are not judged by the "
    "fill clause",
    "different CRS + nearest: 'same result' is read with the back end's approximation tolerance: a chunked pixel "
    "whose centre maps >= 3 px inside the source must hold a source value found within 2 px of the pyproj location "
    "(checked only where the whole-array result satisfies the same test)",
    "GDAL/rasterio treat a geotransform (1,0,0,0,-1,0) as 'not georeferenced': grids with linear part (1,0,0,-1) "
    "are never generated (guarded and counted as excluded)",
    "execution orders: random single-threaded topological orders and the threaded scheduler are sampled; thread "
    "interleavings inside dask are not enumerated",
]
SHARDS = {"quick": 4, "thorough": 16}

DTYPES = ["u1", "i1", "u2", "i2", "i4", "f4", "f8"]
AMBIG = 1e-6  # px: nearest neighbour is oracle-ambiguous this close to a source pixel edge
PROJECTED = [k for k, v in CRS_POOL.items() if v[0] == "projected"]
GEOGRAPHIC = [k for k, v in CRS_POOL.items() if v[0] == "geographic"]


# ----------------------------------------------------------------------------- building blocks
def _crs_str(label):
    return SINU_PROJ if label == "sinu" else f"EPSG:{label}"


def _mk_gbox(g):
    from affine import Affine
    from odc.geo.geobox import GeoBox

    return GeoBox(tuple(g["shape"]), Affine(*[float(v) for v in g["affine"]]), _crs_str(g["crs"]))


def _np_dtype(code):
    return np.dtype({"u1": "uint8", "i1": "int8", "u2": "uint16", "i2": "int16", "i4": "int32", "f4": "float32", "f8": "float64"}[code])


def _mk_data(code, shape):
    """Deterministic pixel values: distinct (mod 251/241 for the 8-bit types)."""
    n = int(np.prod(shape))
    idx = np.arange(n, dtype="int64")
    if code == "u1":
        v = 1 + (idx * 7) % 251
    elif code == "i1":
        v = -120 + (idx * 7) % 241
    elif code == "u2":
        v = idx + 1
    elif code in ("i2", "i4"):
        v = idx - 700
    else:
        v = idx * 0.5 - 300.25
    return np.asarray(v).astype(_np_dtype(code)).reshape(shape)


def _expand_chunks(spec, n):
    """['r', c] -> regular chunks of c over n; ['x', [...]] explicit."""
    if spec[0] == "x":
        assert sum(spec[1]) == n
        return tuple(int(v) for v in spec[1])
    c = int(spec[1])
    out = [c] * (n // c)
    if n % c:
        out.append(n % c)
    return tuple(out)


def _rank(seed, i):
    h = hashlib.blake2b(f"{seed}:{i}".encode(), digest_size=8).digest()
    return int.from_bytes(h, "big")


def _random_order_get(seed):
    """Single-threaded dask ``get`` whose task priorities are a pseudo-random function of (seed, task position)."""
    import dask.local

    def get(dsk, keys, **kw):
        def rorder(g, *a, **k):
            return {key: _rank(seed, i) for i, key in enumerate(g)}

        orig = dask.local.order
        dask.local.order = rorder
        try:
            return dask.local.get_sync(dsk, keys, **kw)
        finally:
            dask.local.order = orig

    return get


def _compute(lazy, sched):
    import dask

    if sched[0] == "threads":
        with dask.config.set({"optimization.fuse.active": False}):
            return lazy.compute(scheduler="threads", num_workers=int(sched[1]))
    with dask.config.set({"optimization.fuse.active": False}):
        return lazy.compute(scheduler=_random_order_get(int(sched[1])))


def _fill_value(case):
    """Fill value prescribed by the statement: dst nodata, else src nodata, else NaN for floats, else 0."""
    nd = case["nodata"]
    if nd["dst"] is not None:
        return float(nd["dst"])
    if nd["src"] is not None:
        return float(nd["src"])
    if case["dtype"] in ("f4", "f8"):
        return math.nan
    return 0.0


def _is_fill(a, fill):
    if math.isnan(fill):
        return np.isnan(a) if a.dtype.kind == "f" else np.zeros(a.shape, dtype=bool)
    return a == a.dtype.type(fill)


def _same(a, b):
    if a.dtype.kind == "f":
        return (a == b) | (np.isnan(a) & np.isnan(b))
    return a == b


def _attrs_equal(a, b):
    if set(a) != set(b):
        return False
    for k in a:
        x, y = a[k], b[k]
        if isinstance(x, float) and isinstance(y, float) and math.isnan(x) and math.isnan(y):
            continue
        if type(x) is not type(y) or x != y:
            return False
    return True


def _backend_identity(g):
    a, b, _, d, e, _ = [float(v) for v in g["affine"]]
    return abs(a - 1) < 1e-5 and abs(e + 1) < 1e-5 and abs(b) < 1e-5 and abs(d) < 1e-5


def _src_coords_same_crs(case):
    """Exact dst-pixel-centre -> source pixel coordinates (float64 arrays, error << 1e-9 px)."""
    S = FA(*[Fr(float(v)) for v in case["src"]["affine"]])
    D = FA(*[Fr(float(v)) for v in case["dst"]["affine"]])
    M = S.inv() * D
    m = M.floats()
    ny, nx = case["dst"]["shape"]
    jj, ii = np.meshgrid(np.arange(nx) + 0.5, np.arange(ny) + 0.5)
    xs = m[0] * jj + m[1] * ii + m[2]
    ys = m[3] * jj + m[4] * ii + m[5]
    return xs, ys, M


_TR_CACHE: dict = {}


def _src_coords_cross_crs(case):
    from pyproj import CRS as P
    from pyproj import Transformer

    key = (case["dst"]["crs"], case["src"]["crs"])
    tr = _TR_CACHE.get(key)
    if tr is None:
        mk = lambda lb: P.from_user_input(SINU_PROJ) if lb == "sinu" else P.from_epsg(int(lb))  # noqa: E731
        tr = Transformer.from_crs(mk(key[0]), mk(key[1]), always_xy=True)
        _TR_CACHE[key] = tr
    ny, nx = case["dst"]["shape"]
    a, b, c, d, e, f = [float(v) for v in case["dst"]["affine"]]
    jj, ii = np.meshgrid(np.arange(nx) + 0.5, np.arange(ny) + 0.5)
    wx = a * jj + b * ii + c
    wy = d * jj + e * ii + f
    sx, sy = tr.transform(wx.ravel(), wy.ravel())
    sx = np.asarray(sx, dtype="float64").reshape(ny, nx)
    sy = np.asarray(sy, dtype="float64").reshape(ny, nx)
    A, B, C, D_, E, F = [float(v) for v in case["src"]["affine"]]
    det = A * E - B * D_
    with np.errstate(all="ignore"):
        xs = (E * (sx - C) - B * (sy - F)) / det
        ys = (-D_ * (sx - C) + A * (sy - F)) / det
    return xs, ys


def _outside_by(xs, ys, W, H):
    """Distance (px, Chebyshev) by which a source coordinate lies outside [0,W]x[0,H]; <=0 inside (= -depth)."""
    dx = np.maximum(-xs, xs - W)
    dy = np.maximum(-ys, ys - H)
    return np.maximum(dx, dy)


def _dst_chunk_grid(case):
    """Effective destination chunking (rows, cols) as tuples of sizes."""
    ny, nx = case["dst"]["shape"]
    if case["dst_chunks"] is None:
        sy, sx = case["src"]["shape"]
        cy = max(_expand_chunks(case["src_chunks"][0], sy))
        cx = max(_expand_chunks(case["src_chunks"][1], sx))
    else:
        cy, cx = case["dst_chunks"]
    return _expand_chunks(["r", cy], ny), _expand_chunks(["r", cx], nx)


def _partial_chunks(case, out):
    """(#dst chunks, #chunks with pixel centres inside AND outside the source image, #without any inside)."""
    rows, cols = _dst_chunk_grid(case)
    inside = out < -AMBIG
    outside = out > AMBIG
    n = npart = nempty = 0
    y0 = 0
    for h in rows:
        x0 = 0
        for w in cols:
            blk_in = inside[y0 : y0 + h, x0 : x0 + w]
            blk_out = outside[y0 : y0 + h, x0 : x0 + w]
            n += 1
            if blk_in.any() and blk_out.any():
                npart += 1
            if not blk_in.any():
                nempty += 1
            x0 += w
        y0 += h
    return n, npart, nempty


def _run_both(case):
    """Build the source, run the whole-array and the chunked reprojection.  Returns (src ndarray, whole, lazy, chunked)."""
    import dask.array as da
    from odc.geo.xr import wrap_xr, xr_reproject

    sg = _mk_gbox(case["src"])
    dg = _mk_gbox(case["dst"])
    nt = case["nt"]
    ny, nx = case["src"]["shape"]
    shape = (nt, ny, nx) if nt else (ny, nx)
    data = _mk_data(case["dtype"], shape)
    nanb = int(case.get("nan_blocks") or 0)
    if nanb and data.dtype.kind == "f":
        # whole source chunks without a single valid pixel (cloud-masked scenes, sparse mosaics): mode 1 = the first
        # chunk in every plane, 2 = every other chunk of the first plane only, 3 = everything but the last chunk
        yc = _expand_chunks(case["src_chunks"][0], ny)
        xc = _expand_chunks(case["src_chunks"][1], nx)
        ye = np.concatenate([[0], np.cumsum(yc)])
        xe = np.concatenate([[0], np.cumsum(xc)])
        cells = [(i, j) for i in range(len(yc)) for j in range(len(xc))]
        pick = cells[:1] if nanb == 1 else cells[::2] if nanb == 2 else cells[:-1]
        for i, j in pick:
            sl = (slice(int(ye[i]), int(ye[i + 1])), slice(int(xe[j]), int(xe[j + 1])))
            if nt and nanb == 2:
                data[(0, *sl)] = np.nan
            else:
                data[(..., *sl)] = np.nan
    kw_wrap = {}
    if nt:
        kw_wrap["time"] = [f"2020-01-{i + 1:02d}" for i in range(nt)]
    src_kw = case["nodata"].get("src_via") == "kwarg" and case["nodata"]["src"] is not None
    if case["nodata"]["src"] is not None and not src_kw:
        kw_wrap["nodata"] = case["nodata"]["src"]
    ychunks = _expand_chunks(case["src_chunks"][0], ny)
    xchunks = _expand_chunks(case["src_chunks"][1], nx)
    chunks = (ychunks, xchunks)
    if nt:
        chunks = (_expand_chunks(["r", case["tchunk"]], nt), *chunks)
    xx_np = wrap_xr(data, sg, **kw_wrap)
    xx_da = wrap_xr(da.from_array(data.copy(), chunks=chunks), sg, **kw_wrap)
    kw = {"resampling": case["resampling"]}
    if case["nodata"]["dst"] is not None:
        kw["dst_nodata"] = case["nodata"]["dst"]
    if src_kw:
        kw["src_nodata"] = case["nodata"]["src"]
    kw_da = dict(kw)
    if case["dst_chunks"] is not None:
        kw_da["chunks"] = tuple(case["dst_chunks"])
    whole = xr_reproject(xx_np, dg, **kw)
    lazy = xr_reproject(xx_da, dg, **kw_da)
    try:
        chunked = _compute(lazy, case["sched"])
    except Exception as e:  # noqa: BLE001
        if _in_repo_frames(e.__traceback__) is not None:
            raise  # reported by the framework with the odc frame
        # e.g. blocks whose shape contradicts the chunks the graph declares: fails in dask/xarray assembly
        raise Violation(
            "computing the chunked result failed outside odc code (blocks inconsistent with the declared graph?): %s: %s "
            "(src chunks %r, dst chunks %r, nt %d)" % (type(e).__name__, str(e)[:200], case["src_chunks"], case["dst_chunks"], case["nt"])
        ) from e
    return data, sg, dg, whole, lazy, chunked


def _check_meta(case, dg, whole, lazy, chunked):
    from odc.geo._interop import is_dask_collection

    nt = case["nt"]
    exp_shape = ((nt,) if nt else ()) + tuple(case["dst"]["shape"])
    dt = _np_dtype(case["dtype"])
    require(not is_dask_collection(whole.data), "whole-array result is not in memory")
    for name, r in (("whole", whole), ("chunked", chunked), ("lazy", lazy)):
        require(tuple(r.shape) == exp_shape, "%s result has shape %r, expected %r", name, tuple(r.shape), exp_shape)
        require(r.dtype == dt, "%s result has dtype %s, source is %s", name, r.dtype, dt)
        gb = r.odc.geobox
        require(gb is not None and gb.crs == dg.crs and r.odc.crs == dg.crs, "%s result reports a different CRS than requested", name)
        require(tuple(gb.shape) == tuple(dg.shape), "%s result reports geobox shape %r, requested %r", name, tuple(gb.shape), tuple(dg.shape))
        if dg.axis_aligned or min(dg.shape) >= 2:
            # the geobox is re-derived from coordinate labels (not bit-exact, C09's subject): compare to the request
            # within 1e-6 px.  (Rotated grids with a 1-pixel side do not survive that round trip at all - not C13's subject.)
            ga, da_ = tuple(gb.transform)[:6], tuple(dg.transform)[:6]
            px = max(abs(da_[0]), abs(da_[1]), abs(da_[3]), abs(da_[4]))
            n = max(exp_shape[-2:])
            ok = all(abs(ga[i] - da_[i]) <= 1e-6 * px / n for i in (0, 1, 3, 4)) and all(abs(ga[i] - da_[i]) <= 1e-6 * px for i in (2, 5))
            require(ok, "%s result reports transform %r, requested %r", name, ga, da_)
    require(chunked.odc.geobox == whole.odc.geobox, "geobox of chunked result (transform %r) differs from whole-array result (%r)",
            tuple(chunked.odc.geobox.transform)[:6], tuple(whole.odc.geobox.transform)[:6])
    require(lazy.odc.geobox == whole.odc.geobox, "geobox of lazy result differs from whole-array result")
    require(chunked.dims == whole.dims, "dims differ: chunked %r whole %r", chunked.dims, whole.dims)
    require(_attrs_equal(dict(chunked.attrs), dict(whole.attrs)), "attrs differ: chunked %r whole %r", dict(chunked.attrs), dict(whole.attrs))
    require(set(chunked.coords) == set(whole.coords), "coords differ: %r vs %r", sorted(map(str, chunked.coords)), sorted(map(str, whole.coords)))
    for k in whole.coords:
        a, b = whole.coords[k], chunked.coords[k]
        require(a.dims == b.dims and a.shape == b.shape and bool(np.all(a.values == b.values)), "coordinate %r differs between chunked and whole result", str(k))
    if nt:
        require("time" in whole.coords and whole.coords["time"].shape == (nt,), "time coordinate lost")


def _where(mask, limit=3):
    idx = np.argwhere(mask)
    return [tuple(int(v) for v in r) for r in idx[:limit]]


def _check_fill(case, name, arr, out_mask, fill):
    """Every pixel flagged in out_mask (2-d) must hold the fill value in every time plane."""
    if not out_mask.any():
        return
    planes = arr if arr.ndim == 3 else arr[None]
    for t, pl in enumerate(planes):
        bad = out_mask & ~_is_fill(pl, fill)
        if bad.any():
            i, j = _where(bad, 1)[0]
            raise Violation(
                "%s result: %d destination pixel(s) that no source pixel reaches do not hold the fill value %r, e.g. [%s%d,%d]=%r "
                "(dtype %s, nodata %r, dst chunks %r, %s)"
                % (name, int(bad.sum()), fill, f"t={t}," if arr.ndim == 3 else "", i, j, pl[i, j].item(), case["dtype"], case["nodata"],
                   case["dst_chunks"], case["resampling"])
            )


def _classify(case, T, out, n_chunks, npart, nempty, nt_rule="partial"):
    inside = out < -AMBIG
    if inside.all():
        T.cls("place:all_inside")
    elif not inside.any():
        far = float(out.min())
        T.cls("place:touching" if far <= 1.0 else "place:disjoint")
    else:
        T.cls("place:partial")
    T.cls("klass:" + case["klass"])
    T.cls("dtype:" + case["dtype"])
    nd = case["nodata"]
    T.cls("nodata:" + ("both" if nd["src"] is not None and nd["dst"] is not None else "src" if nd["src"] is not None else "dst" if nd["dst"] is not None else "none"))
    T.cls("time:%d" % case["nt"])
    T.cls("sched:" + case["sched"][0])
    T.cls("resampling:" + case["resampling"])
    T.cls("dst_chunks:" + ("default" if case["dst_chunks"] is None else "1px" if min(case["dst_chunks"]) == 1 else "single" if n_chunks == 1 else "multi"))
    sc = case["src_chunks"]
    T.cls("src_chunks:" + ("irregular" if "x" in (sc[0][0], sc[1][0]) else "regular"))
    if nempty and nempty < n_chunks:
        T.cls("has_uncovered_and_covered_chunks")
    if nt_rule == "partial" and n_chunks >= 2 and npart >= 1:
        T.nontrivial()
        T.cls("nontrivial")
    if nt_rule == "disjoint" and n_chunks >= 2 and not inside.any():
        T.nontrivial()
        T.cls("nontrivial")


# ----------------------------------------------------------------------------- oracles
def o_same_crs(case, T, nt_rule="partial"):
    """Same CRS: identity for nearest at unambiguous pixels, fill clause, metadata."""
    if _backend_identity(case["src"]) or _backend_identity(case["dst"]):
        T.exclude("backend_identity_transform")
        return
    data, sg, dg, whole, lazy, chunked = _run_both(case)
    _check_meta(case, dg, whole, lazy, chunked)
    H, W = case["src"]["shape"]
    xs, ys, _ = _src_coords_same_crs(case)
    out = _outside_by(xs, ys, W, H)
    fill = _fill_value(case)
    w, c = whole.values, chunked.values
    n_chunks, npart, nempty = _partial_chunks(case, out)
    _classify(case, T, out, n_chunks, npart, nempty, nt_rule)
    # fill clause, both results
    far = out >= 1.5
    _check_fill(case, "chunked", c, far, fill)
    _check_fill(case, "whole-array", w, far, fill)
    if not (out < -AMBIG).any():
        # destination does not overlap the source by so much as one pixel centre
        if far.all():
            T.cls("all_fill_demanded")
    if case["resampling"] != "nearest":
        return
    # identical pixels wherever nearest neighbour is not ambiguous
    amb = (np.abs(xs - np.round(xs)) <= AMBIG) | (np.abs(ys - np.round(ys)) <= AMBIG)
    namb = int(amb.sum())
    if namb:
        T.exclude("ambiguous_pixels", namb)
    T.cls("compared_pixels", int((~amb).sum()))
    if amb.all():
        T.exclude("all_pixels_ambiguous")
        return
    planes_w = w if w.ndim == 3 else w[None]
    planes_c = c if c.ndim == 3 else c[None]
    for t, (pw, pc) in enumerate(zip(planes_w, planes_c)):
        bad = ~amb & ~_same(pw, pc)
        if bad.any():
            i, j = _where(bad, 1)[0]
            raise Violation(
                "chunked != whole at %d unambiguous pixel(s), e.g. [%s%d,%d] (source px x=%.4f y=%.4f): chunked %r whole %r "
                "(klass %s, dtype %s, nodata %r, src chunks %r, dst chunks %r, sched %s)"
                % (int(bad.sum()), f"t={t}," if w.ndim == 3 else "", i, j, xs[i, j], ys[i, j], pc[i, j].item(), pw[i, j].item(),
                   case["klass"], case["dtype"], case["nodata"], case["src_chunks"], case["dst_chunks"], case["sched"][0])
            )


def o_cross_crs(case, T, nt_rule="partial"):
    """Different CRS: fill clause in both results, metadata, no exception; nearest: tolerant value check."""
    data, sg, dg, whole, lazy, chunked = _run_both(case)
    _check_meta(case, dg, whole, lazy, chunked)
    H, W = case["src"]["shape"]
    xs, ys = _src_coords_cross_crs(case)
    finite = np.isfinite(xs) & np.isfinite(ys)
    if not finite.all():
        T.exclude("pixels_not_transformable", int((~finite).sum()))
    out = np.where(finite, _outside_by(xs, ys, W, H), 0.0)  # 0.0 = undecided
    fill = _fill_value(case)
    w, c = whole.values, chunked.values
    n_chunks, npart, nempty = _partial_chunks(case, out)
    _classify(case, T, out, n_chunks, npart, nempty, nt_rule)
    T.cls("pair:%s->%s" % (case["src"]["crs"], case["dst"]["crs"]))
    if case.get("far_apart"):
        # rasters are on different parts of the globe by construction: everything is fill
        far = np.ones(out.shape, dtype=bool)
        T.cls("all_fill_demanded")
    else:
        far = finite & (out >= 2.5)
    _check_fill(case, "chunked", c, far, fill)
    _check_fill(case, "whole-array", w, far, fill)
    if case["resampling"] != "nearest" or case.get("far_apart"):
        return
    # tolerant "same result": deep inside the source the chunked value is a nearby source value
    deep = finite & (out <= -3.0)
    if not deep.any():
        return
    ix = np.floor(np.where(deep, xs, 0)).astype(int)
    iy = np.floor(np.where(deep, ys, 0)).astype(int)
    src_nd = case["nodata"]["src"]
    planes_s = data if data.ndim == 3 else data[None]
    planes_w = w if w.ndim == 3 else w[None]
    planes_c = c if c.ndim == 3 else c[None]
    for t, (ps, pw, pc) in enumerate(zip(planes_s, planes_w, planes_c)):
        ok_w = np.zeros(deep.shape, dtype=bool)
        ok_c = np.zeros(deep.shape, dtype=bool)
        for dy in range(-2, 3):
            for dx in range(-2, 3):
                yy = np.clip(iy + dy, 0, H - 1)
                xx = np.clip(ix + dx, 0, W - 1)
                sv = ps[yy, xx]
                ok_w |= pw == sv
                ok_c |= pc == sv
                if src_nd is not None:
                    isnd = _is_fill(sv, float(src_nd))
                    ok_w |= isnd & _is_fill(pw, fill)
                    ok_c |= isnd & _is_fill(pc, fill)
        judged = deep & ok_w
        nbad_w = int((deep & ~ok_w).sum())
        if nbad_w:
            # seen in practice: GDAL nudges a valid source value that equals dst_nodata by one (0 -> -1), in both paths
            T.exclude("whole_array_value_not_a_nearby_source_value_pixels", nbad_w)
        T.cls("compared_pixels", int(judged.sum()))
        bad = judged & ~ok_c
        if bad.any():
            i, j = _where(bad, 1)[0]
            raise Violation(
                "chunked result holds %r at [%s%d,%d] whose centre maps to source px (x=%.2f, y=%.2f), %d pixel(s) like this; no source "
                "pixel within 2 px has that value (whole-array result: %r) (%s->%s, dtype %s, src chunks %r, dst chunks %r)"
                % (pc[i, j].item(), f"t={t}," if w.ndim == 3 else "", i, j, xs[i, j], ys[i, j], int(bad.sum()), pw[i, j].item(),
                   case["src"]["crs"], case["dst"]["crs"], case["dtype"], case["src_chunks"], case["dst_chunks"])
            )


# ----------------------------------------------------------------------------- generators
def _side():
    return st.one_of(st.integers(2, 12), st.integers(2, 12), st.integers(13, 40), st.just(1))


@st.composite
def _chunk_axis_src(draw, n, cap=8):
    kind = draw(st.sampled_from(["small", "small", "small", "irregular", "irregular", "irregular", "1px", "1px", "one", "over"]))
    lo = max(1, -(-n // cap))
    if kind == "one":
        return ["r", n]
    if kind == "over":
        return ["r", n + draw(st.integers(1, 5))]
    if kind == "1px":
        return ["r", lo]
    if kind == "small":
        return ["r", max(lo, min(draw(st.integers(2, 7)), max(1, -(-n // 2))))]  # at least two chunks when n >= 2
    # irregular composition of n into <= cap parts
    parts = []
    left = n
    while left > 0 and len(parts) < cap - 1:
        p = draw(st.integers(1, max(1, min(left, max(lo, 9)))))
        parts.append(p)
        left -= p
    if left > 0:
        parts.append(left)
    return ["x", parts]


@st.composite
def _chunk_axis_dst(draw, n, cap=8):
    kind = draw(st.sampled_from(["small", "small", "small", "small", "small", "small", "1px", "1px", "one", "over"]))
    lo = max(1, -(-n // cap))
    if kind == "one":
        return n
    if kind == "over":
        return n + draw(st.integers(1, 5))
    if kind == "1px":
        return lo
    return max(lo, min(draw(st.integers(2, 9)), max(1, -(-n // 2))))  # at least two chunks when n >= 2


def _pick(mix, salt, options):
    """Uniform choice as a function of one drawn integer (Hypothesis' own choices are skewed at a few hundred examples)."""
    return options[_rank(f"{mix}/{salt}", 0) % len(options)]


def _nodata_for(mix, code, data_shape):
    """(src nodata | None, dst nodata | None)"""
    mode = _pick(mix, "ndmode", ["none", "none", "src", "dst", "both"])
    if mode == "none":
        return None, None
    n = int(np.prod(data_shape))
    in_data = float(_mk_data(code, (n,))[_rank(f"{mix}/ndidx", 0) % n])
    if code in ("f4", "f8"):
        pool = [-9999.0, math.nan, 0.0, in_data, 1e30, -1.0]
    else:
        info = np.iinfo(_np_dtype(code))
        pool = [float(info.max), float(info.min), 0.0, in_data, float(info.max - 1), 1.0]
    i = _rank(f"{mix}/nd_i", 0) % len(pool)
    j = 1 + _rank(f"{mix}/nd_j", 0) % (len(pool) - 1)
    s = pool[i] if mode in ("src", "both") else None
    d = None
    if mode == "dst":
        d = pool[j]
    elif mode == "both":
        d = pool[(i + j) % len(pool)]  # always a different pool entry than the source nodata
    return s, d


def _common(draw, src_shape, dst_shape, resampling="nearest", big_ok=True):
    mix = "%d/%r/%r" % (draw(st.integers(0, 2**48)), src_shape, dst_shape)
    code = _pick(mix, "dtype", DTYPES)
    nt = _pick(mix, "nt", [0, 0, 0, 1, 2, 3])
    tchunk = _pick(mix, "tchunk", [1, 2, 3]) if nt else 1
    data_shape = ((nt,) if nt else ()) + tuple(src_shape)
    s_nd, d_nd = _nodata_for(mix, code, data_shape)
    # chunk-count caps keep a case cheap: one axis may be cut into up to 40 (true 1-px chunks on a long axis),
    # the other one is then limited so that the product stays <= total
    total = (64 if big_ok else 25) // (2 if nt >= 2 else 1)

    def two_axes(strategy, shape, swap):
        a, b = (1, 0) if swap else (0, 1)
        out = [None, None]
        out[a] = draw(strategy(shape[a], 40))
        if isinstance(out[a], int):
            n_first = -(-shape[a] // min(out[a], shape[a]))
        else:
            n_first = len(_expand_chunks(out[a], shape[a]))
        out[b] = draw(strategy(shape[b], max(1, total // n_first)))
        return out

    src_chunks = two_axes(_chunk_axis_src, src_shape, _pick(mix, "swap_s", [False, True]))
    dflt = _pick(mix, "dflt", list(range(8))) == 0
    if dflt:
        # default = largest source chunk; only when that does not explode the number of destination chunks
        cy = max(_expand_chunks(src_chunks[0], src_shape[0]))
        cx = max(_expand_chunks(src_chunks[1], src_shape[1]))
        dflt = -(-dst_shape[0] // cy) * -(-dst_shape[1] // cx) <= 2 * total
    if dflt:
        dst_chunks = None
    else:
        dst_chunks = two_axes(_chunk_axis_dst, dst_shape, _pick(mix, "swap_d", [False, True]))
    if _pick(mix, "sched", [0, 1, 2, 3]) == 0:
        sched = ["threads", _pick(mix, "nw", [2, 4])]
    else:
        sched = ["random", _rank(f"{mix}/seed", 0) % 2**31]
    return {
        "nan_blocks": _pick(mix, "nanb", [0, 0, 0, 1, 2, 3]) if code in ("f4", "f8") else 0,
        "dtype": code,
        "nt": nt,
        "tchunk": tchunk,
        # the source nodata is recorded on the array (attribute) or only handed over as src_nodata=
        "nodata": {"src": s_nd, "dst": d_nd, "src_via": _pick(mix, "ndvia", ["attr", "attr", "kwarg"]) if s_nd is not None else "attr"},
        "src_chunks": src_chunks,
        "dst_chunks": dst_chunks,
        "sched": sched,
        "resampling": resampling,
    }


SRC_MAGS = [10.0, 30.0, 2.5, 100.0, 0.75, 0.375]
GEO_MAGS = [0.01, 0.03, 0.0075]
FRACS = [Fr(0), Fr(1, 4), Fr(1, 2), Fr(1, 10), Fr(1, 3), Fr(3, 4), Fr(999, 1000), Fr(1, 1000), Fr(4999995, 10**7), Fr(1, 8)]


@st.composite
def _src_box(draw):
    ny, nx = draw(_side()), draw(_side())
    label = draw(st.sampled_from(PROJECTED + PROJECTED + GEOGRAPHIC))
    geo = label in GEOGRAPHIC
    mags = GEO_MAGS if geo else SRC_MAGS
    mx = draw(st.sampled_from(mags))
    my = draw(st.one_of(st.just(mx), st.just(mx), st.sampled_from(mags)))
    sgnx = draw(st.sampled_from([1, 1, -1]))
    sgny = draw(st.sampled_from([-1, -1, 1]))
    if geo:
        lon0, lat0, lon1, lat1 = CRS_POOL[label][1]
        cx = draw(st.integers(int(lon0) + 5, int(lon1) - 5))
        cy = draw(st.integers(int(lat0) + 5, int(lat1) - 5))
        tx = Fr(cx) - Fr(mx) * sgnx * nx / 2
        ty = Fr(cy) - Fr(my) * sgny * ny / 2
    else:
        tx = Fr(mx) * (draw(st.integers(-2000, 2000)) + draw(st.sampled_from([Fr(0), Fr(0), Fr(1, 2), Fr(1, 16), Fr(1, 3)])))
        ty = Fr(my) * (draw(st.integers(-2000, 2000)) + draw(st.sampled_from([Fr(0), Fr(0), Fr(1, 2), Fr(1, 16), Fr(1, 3)])))
    S = FA(Fr(mx) * sgnx, 0, tx, 0, Fr(my) * sgny, ty)
    return [ny, nx], S, label


def _draw_lo(draw, place, L, W, fracs):
    """Low end of the destination interval (length L) in source pixel units for a placement on one axis."""
    L = Fr(L)
    W = Fr(W)

    def integer_in(a, b):
        a, b = math.ceil(a), math.floor(b)
        if a > b:
            return None
        return Fr(draw(st.integers(a, b)))

    fr = draw(st.sampled_from(fracs))
    if place == "contained":
        v = integer_in(0, W - L - fr)
        if v is not None:
            return v + fr, "contained"
        place = "covers"
    if place == "covers":
        v = integer_in(W - L - fr, -fr)
        if v is not None:
            return v + fr, "covers"
        place = "partial"
    if place == "partial":
        lowside = draw(st.booleans())
        if lowside:
            v = integer_in(-L + 1, -1)
            if v is not None:
                return v + fr, "partial"
        v = integer_in(W - L + 1, W - 1)
        if v is not None:
            return v - fr, "partial"
        v = integer_in(-L + Fr(1, 2), W - Fr(1, 2))
        if v is not None:
            return v, "partial"
        return Fr(-1, 2) * L + W / 2, "partial"
    if place == "touching":
        if draw(st.booleans()):
            return -L, "touching"
        return W, "touching"
    assert place == "disjoint"
    gap = draw(st.sampled_from([Fr(1), Fr(2), Fr(7, 2), Fr(10), W, 3 * W + Fr(1, 2), 100 * W]))
    if draw(st.booleans()):
        return -L - gap, "disjoint"
    return W + gap, "disjoint"


KLASSES = ["shift_int", "shift_int", "shift_sub", "shift_sub", "scale_k", "scale_inv_k", "scale_frac", "mirror_x", "mirror_y", "mirror_xy"]
PLACES = ["contained", "covers", "partial", "partial", "partial", "touching", "disjoint"]


def _scales_for(draw, klass):
    """(|sx|, |sy|, signx, signy, pool of fractional offsets).  Pools avoid offsets that make *every* pixel centre
    sit on a source pixel edge (those cases are all-ambiguous for nearest neighbour), but keep a few of them."""
    half, zero = Fr(1, 2), Fr(0)
    rare = [Fr(4999995, 10**7)]  # within 1e-6 of a half: exercised, then excluded as ambiguous
    if klass == "shift_int":
        return Fr(1), Fr(1), 1, 1, [zero]
    if klass == "shift_sub":
        return Fr(1), Fr(1), 1, 1, [f for f in FRACS if f not in (zero, half)] * 3 + [half] + rare
    if klass == "scale_k":
        k = draw(st.sampled_from([2, 3, 4, 5]))
        bad = zero if k % 2 == 0 else half
        return Fr(k), Fr(k), 1, 1, [f for f in FRACS if f != bad] * 3 + [bad]
    if klass == "scale_inv_k":
        k = Fr(1, draw(st.sampled_from([2, 3, 4, 5, 8])))
        return k, k, 1, 1, FRACS
    fr = [Fr(3, 2), Fr(7, 10), Fr(23, 10), Fr(2, 3), Fr(9, 10), Fr(11, 10), Fr(5, 4), Fr(1, 3), Fr(17, 7)]
    if klass == "scale_frac":
        sx = draw(st.sampled_from(fr))
        sy = draw(st.one_of(st.just(sx), st.sampled_from(fr + [Fr(1), Fr(2)])))
        return sx, sy, 1, 1, FRACS
    mags = [Fr(1), Fr(1), Fr(2), Fr(1, 2), Fr(3, 2), Fr(1, 3)]
    m = draw(st.sampled_from(mags))
    sgx = -1 if klass in ("mirror_x", "mirror_xy") else 1
    sgy = -1 if klass in ("mirror_y", "mirror_xy") else 1
    if m == 1:
        pool = [zero] * 4 + [f for f in FRACS if f not in (zero, half)]
    elif m == 2:
        pool = [f for f in FRACS if f != zero]
    else:
        pool = FRACS
    return m, m, sgx, sgy, pool


@st.composite
def s_same_linear(draw, resampling="nearest", places=None, klasses=None):
    src_shape, S, label = draw(_src_box())
    dst_shape = [draw(_side()), draw(_side())]
    klass = draw(st.sampled_from(klasses or KLASSES))
    ax, ay, sgx, sgy, fracs = _scales_for(draw, klass)
    place = draw(st.sampled_from(places or PLACES))
    H, W = src_shape
    h, w = dst_shape
    Lx, Ly = ax * w, ay * h
    # per-axis placement: the named placement on one axis, a compatible one on the other
    first_x = draw(st.booleans())
    other = {
        "contained": ["contained"],
        "covers": ["covers"],
        "partial": ["contained", "covers", "partial"],
        "touching": ["contained", "partial", "covers"],
        "disjoint": ["contained", "partial", "covers", "touching", "disjoint"],
    }[place]
    p_other = draw(st.sampled_from(other))
    px, py = (place, p_other) if first_x else (p_other, place)
    lox, gotx = _draw_lo(draw, px, Lx, W, fracs)
    loy, goty = _draw_lo(draw, py, Ly, H, fracs)
    ox = lox if sgx > 0 else lox + Lx
    oy = loy if sgy > 0 else loy + Ly
    M = FA(ax * sgx, 0, ox, 0, ay * sgy, oy)
    D = S * M
    case = {
        "src": {"shape": src_shape, "affine": list(S.floats()), "crs": label},
        "dst": {"shape": dst_shape, "affine": list(D.floats()), "crs": label},
        "klass": klass,
        "place": place,
    }
    case.update(_common(draw, src_shape, dst_shape, resampling=resampling))
    return case


@st.composite
def s_same_rotated(draw):
    src_shape, S, label = draw(_src_box())
    dst_shape = [draw(_side()), draw(_side())]
    H, W = src_shape
    h, w = dst_shape
    kind = draw(st.sampled_from(["r90", "r270", "r90", "rot", "rot", "rot+scale"]))
    if kind == "r90":
        R = (Fr(0), Fr(-1), Fr(1), Fr(0))
    elif kind == "r270":
        R = (Fr(0), Fr(1), Fr(-1), Fr(0))
    else:
        ang = draw(st.one_of(st.sampled_from([45.0, 10.0, 1.0, 135.0, 200.0]), st.floats(0.5, 359.5)))
        if min(abs(ang % 90.0), 90.0 - abs(ang % 90.0)) < 0.01:
            ang += 7.0
        c, s = Fr(math.cos(math.radians(ang))), Fr(math.sin(math.radians(ang)))
        R = (c, -s, s, c)
    k = Fr(1)
    if kind == "rot+scale" or draw(st.integers(0, 3)) == 0:
        k = draw(st.sampled_from([Fr(1, 2), Fr(2), Fr(3, 2), Fr(2, 3), Fr(3)]))
    R = tuple(v * k for v in R)
    # image of the destination centre in source pixel space is placed relative to the source image
    place = draw(st.sampled_from(["centre", "centre", "edge", "edge", "corner", "outside", "far"]))
    fx = {"centre": Fr(draw(st.integers(3, 7)), 10), "edge": Fr(draw(st.sampled_from([0, 10])), 10),
          "corner": Fr(draw(st.sampled_from([0, 10])), 10), "outside": Fr(draw(st.sampled_from([-25, 35])), 10),
          "far": Fr(draw(st.sampled_from([-100, 100])))}[place]
    fy = {"centre": Fr(draw(st.integers(3, 7)), 10), "edge": Fr(draw(st.integers(2, 8)), 10),
          "corner": Fr(draw(st.sampled_from([0, 10])), 10), "outside": Fr(draw(st.integers(-30, 40)), 10),
          "far": Fr(draw(st.integers(-3, 3)))}[place]
    if draw(st.booleans()):
        fx, fy = fy, fx
    reach = (Fr(w) + Fr(h)) * k  # keeps 'outside' placements actually outside for large destinations
    cx = fx * W + (reach * (1 if fx > 1 else -1 if fx < 0 else 0) if place in ("outside", "far") else 0)
    cy = fy * H + (reach * (1 if fy > 1 else -1 if fy < 0 else 0) if place in ("outside", "far") else 0)
    fr = draw(st.sampled_from(FRACS))
    cx, cy = Fr(round(cx)) + fr, Fr(round(cy)) + fr
    # M maps dst pixel -> src pixel; dst centre (w/2,h/2) -> (cx,cy)
    tx = cx - (R[0] * Fr(w, 2) + R[1] * Fr(h, 2))
    ty = cy - (R[2] * Fr(w, 2) + R[3] * Fr(h, 2))
    M = FA(R[0], R[1], tx, R[2], R[3], ty)
    D = S * M
    case = {
        "src": {"shape": src_shape, "affine": list(S.floats()), "crs": label},
        "dst": {"shape": dst_shape, "affine": list(D.floats()), "crs": label},
        "klass": kind,
        "place": place,
    }
    case.update(_common(draw, src_shape, dst_shape, big_ok=False))
    return case


@st.composite
def s_same_wide(draw):
    """A strip thousands of pixels long whose pixel size differs from the source's by a fraction of a per cent (10 m
    against 10.004 m): whatever snapping the chunk planning applies, a drift of one source pixel per ~2500 pixels must
    not move a far-away destination chunk onto the wrong source chunks."""
    _, S0, label = draw(_src_box())
    # keep the strip inside the CRS's area: fine pixels (2^-10 degree ~ 100 m, or 16 m), origin as drawn
    p_ = Fr(1, 1024) if label in GEOGRAPHIC else Fr(16)
    m0 = S0.m
    S = FA(p_ * (1 if m0[0] > 0 else -1), 0, m0[2], 0, p_ * (1 if m0[4] > 0 else -1), m0[5])
    long_ = draw(st.sampled_from([3000, 4500, 6000, 8000]))
    short = draw(st.integers(2, 6))
    along_x = draw(st.booleans())
    k = draw(st.sampled_from([1, 1, 2]))
    a = Fr(k) * (1 + Fr(draw(st.sampled_from([4, -4, 2, -3, 7])), 10000))
    src_shape = [short * k, long_] if along_x else [long_, short * k]
    n_d = int(long_ / float(a)) - draw(st.integers(0, 40))
    dst_shape = [short, n_d] if along_x else [n_d, short]
    off = Fr(draw(st.integers(0, 20)))
    M = FA(a, 0, off, 0, Fr(k), 0) if along_x else FA(Fr(k), 0, 0, 0, a, off)
    D = S * M
    case = {
        "src": {"shape": src_shape, "affine": list(S.floats()), "crs": label},
        "dst": {"shape": dst_shape, "affine": list(D.floats()), "crs": label},
        "klass": "near_integer_scale_wide",
        "place": "contained",
    }
    case.update(_common(draw, src_shape, dst_shape, big_ok=True))
    case["nt"] = 0
    case["nan_blocks"] = 0
    return case


# ---- arrays with more than one extra axis
@st.composite
def s_layouts(draw):
    case = draw(s_same_linear(places=["contained", "partial", "partial", "covers"], klasses=["shift_int", "shift_int", "mirror_x", "mirror_y", "mirror_xy"]))
    case["layout"] = draw(st.sampled_from(["tyxb", "tyxb", "yxb", "tbyx", "btyx"]))
    case["nt4"] = draw(st.sampled_from([2, 3]))
    case["nb4"] = draw(st.sampled_from([2, 3, 4]))
    case["tchunk4"] = draw(st.sampled_from([1, 2, 3]))
    case["bchunk4"] = draw(st.sampled_from([1, 2, 4]))
    return case


def o_layouts(case, T):
    """'for every chunking of source and destination': the non-spatial axes are chunked too.  Time before, bands after
    (or before) the spatial axes, dask blocks that hold several time steps *and* several bands; the chunked result
    must equal the in-memory one bit for bit at every pixel whose nearest neighbour is defined."""
    import dask.array as da
    import xarray as xr

    from odc.geo.xr import xr_coords, xr_reproject

    if _backend_identity(case["src"]) or _backend_identity(case["dst"]):
        T.exclude("backend_identity_transform")
        return
    sg, dg = _mk_gbox(case["src"]), _mk_gbox(case["dst"])
    ny, nx = case["src"]["shape"]
    nt, nb, lay = case["nt4"], case["nb4"], case["layout"]
    dims_of = {"tyxb": ("time", "Y", "X", "band"), "yxb": ("Y", "X", "band"), "tbyx": ("time", "band", "Y", "X"), "btyx": ("band", "time", "Y", "X")}[lay]
    ydim, xdim = sg.dimensions
    dims = tuple({"Y": ydim, "X": xdim}.get(d, d) for d in dims_of)
    size = {"time": nt, "band": nb, ydim: ny, xdim: nx}
    shape = tuple(size[d] for d in dims)
    data = _mk_data(case["dtype"], shape)
    coords = dict(xr_coords(sg))
    attrs = {}
    if case["nodata"]["src"] is not None:
        attrs["nodata"] = case["nodata"]["src"]
    ych = _expand_chunks(case["src_chunks"][0], ny)
    xch = _expand_chunks(case["src_chunks"][1], nx)
    chunk_of = {"time": _expand_chunks(["r", case["tchunk4"]], nt), "band": _expand_chunks(["r", case["bchunk4"]], nb), ydim: ych, xdim: xch}
    xx_np = xr.DataArray(data, dims=dims, coords=coords, attrs=attrs)
    xx_da = xr.DataArray(da.from_array(data.copy(), chunks=tuple(chunk_of[d] for d in dims)), dims=dims, coords=coords, attrs=attrs)
    kw = {"resampling": "nearest"}
    if case["nodata"]["dst"] is not None:
        kw["dst_nodata"] = case["nodata"]["dst"]
    kw_da = dict(kw)
    if case["dst_chunks"] is not None:
        kw_da["chunks"] = tuple(case["dst_chunks"])
    whole = xr_reproject(xx_np, dg, **kw)
    chunked = _compute(xr_reproject(xx_da, dg, **kw_da), case["sched"])
    require(whole.dims == chunked.dims and whole.shape == chunked.shape, "layout %s: in-memory result has dims %r shape %r, chunked %r %r", lay, whole.dims, whole.shape, chunked.dims, chunked.shape)
    w, c = whole.values, chunked.values
    # mirrored grids are drawn with scales 1/2, 1/3, 3/2 too: a destination pixel centre that sits on a source pixel
    # edge has no defined nearest neighbour (same rule as in o_same_crs), everything else is compared bit for bit
    xs, ys, _ = _src_coords_same_crs(case)
    amb2 = (np.abs(xs - np.round(xs)) <= AMBIG) | (np.abs(ys - np.round(ys)) <= AMBIG)
    if amb2.any():
        T.exclude("ambiguous_pixels", int(amb2.sum()))
    amb = np.broadcast_to(amb2.reshape(tuple(amb2.shape[(ydim, xdim).index(d)] if d in (ydim, xdim) else 1 for d in whole.dims)), w.shape)
    same = _same(w, c) | amb
    if not same.all():
        idx = _where(~same, 1)[0]
        raise Violation("layout %s (%r, chunks time %r band %r): %d value(s) differ between the chunked and the in-memory result, e.g. at %r: chunked %r, in memory %r (dtype %s, src chunks %r, dst chunks %r)"
                        % (lay, shape, chunk_of["time"], chunk_of["band"], int((~same).sum()), idx, c[idx].item(), w[idx].item(), case["dtype"], case["src_chunks"], case["dst_chunks"]))
    T.cls("layout:" + lay)
    if max(chunk_of["time"]) > 1 and max(chunk_of["band"]) > 1 and lay != "yxb":
        T.cls("block_with_several_times_and_bands")
    T.nontrivial((lay, nt, nb, case["tchunk4"], case["bchunk4"], case["klass"]))


# ---- different CRS
def _ll_box(label):
    lon0, lat0, lon1, lat1 = CRS_POOL[label][1]
    lon0, lon1 = max(lon0, -150.0), min(lon1, 150.0)
    lat0, lat1 = max(lat0, -60.0), min(lat1, 60.0)
    mx = min(3.0, (lon1 - lon0) / 5)
    my = min(3.0, (lat1 - lat0) / 5)
    return lon0 + mx, lat0 + my, lon1 - mx, lat1 - my


def _pairs():
    ov, far = [], []
    labels = list(CRS_POOL)
    for a in labels:
        for b in labels:
            if a == b:
                continue
            A, B = _ll_box(a), _ll_box(b)
            box = (max(A[0], B[0]), max(A[1], B[1]), min(A[2], B[2]), min(A[3], B[3]))
            if box[2] - box[0] >= 1.0 and box[3] - box[1] >= 1.0:
                ov.append((a, b, box))
            far.append((a, b))
    return ov, far


XPAIRS, XPAIRS_ANY = _pairs()


def _separated(lon, lat, lon_a, lat_a):
    """Centres this far apart cannot have overlapping footprints: a footprint spans < 5 deg of latitude and
    (sinusoidal shear at |lat| <= 60, |lon| <= 150 included) < 20 deg of longitude."""
    return abs(lat - lat_a) >= 12.0 or abs(lon - lon_a) >= 40.0
M_PER_DEG = 111320.0


@st.composite
def s_cross(draw, resampling="nearest", far_apart=False):
    """Case carries lon/lat centres; grids are derived in `_cross_grids` (pyproj, deterministic)."""
    if far_apart:
        a, b = draw(st.sampled_from(XPAIRS_ANY))
        A, B = _ll_box(a), _ll_box(b)
        lon_a = draw(st.floats(A[0], A[2]))
        lat_a = draw(st.floats(A[1], A[3]))
        # second centre far away (inside B's valid box)
        cands = []
        for lon, lat in [(B[0], B[1]), (B[2], B[3]), (B[0], B[3]), (B[2], B[1]), ((B[0] + B[2]) / 2, (B[1] + B[3]) / 2)]:
            if _separated(lon, lat, lon_a, lat_a):
                cands.append((lon, lat))
        if not cands:
            # boxes too small to separate: move source to the opposite corner of its own box
            lon_a, lat_a = (A[0], A[1])
            cands = [(lon, lat) for lon, lat in [(B[2], B[3]), (B[0], B[3]), (B[2], B[1]), (B[0], B[1])]
                     if _separated(lon, lat, lon_a, lat_a)]
        lon_b, lat_b = draw(st.sampled_from(cands)) if cands else (None, None)
    else:
        a, b, box = draw(st.sampled_from(XPAIRS))
        lon_a = draw(st.floats(box[0], box[2]))
        lat_a = draw(st.floats(box[1], box[3]))
        lon_b = lat_b = None
    xside = st.one_of(st.integers(6, 40), st.integers(6, 24), st.integers(1, 5))
    src_shape = [draw(xside), draw(xside)]
    dst_shape = [draw(xside), draw(xside)]
    res_m = draw(st.sampled_from([10.0, 30.0, 100.0, 250.0, 1000.0, 2500.0]))
    scale = draw(st.sampled_from([1.0, 1.0, 0.5, 2.0, 0.7, 3.0, 1.3]))
    sg = [draw(st.sampled_from([1, 1, -1])), draw(st.sampled_from([-1, -1, 1]))]
    dgn = [draw(st.sampled_from([1, 1, 1, -1])), draw(st.sampled_from([-1, -1, -1, 1]))]
    # offset of destination centre from source centre, in units of half the combined extents
    off = [draw(st.sampled_from([0.0, 0.0, 0.2, -0.2, 0.5, -0.5, 0.8, -0.8, 1.0, -1.3, 3.0])),
           draw(st.sampled_from([0.0, 0.0, 0.2, -0.2, 0.5, -0.5, 0.8, -0.8, 1.0]))]
    case = {
        "xsrc": {"crs": a, "shape": src_shape, "res_m": res_m, "sign": sg, "center_ll": [lon_a, lat_a]},
        "xdst": {"crs": b, "shape": dst_shape, "res_m": res_m * scale, "sign": dgn, "center_ll": [lon_b, lat_b], "off": off},
        "klass": "xcrs_far" if far_apart else "xcrs",
        "place": "far" if far_apart else "near",
        "far_apart": bool(far_apart),
    }
    if far_apart and lon_b is None:
        case["far_apart"] = False
    case.update(_common(draw, src_shape, dst_shape, resampling=resampling, big_ok=False))
    return case


@st.composite
def s_cross_corner(draw):
    """Different CRSs, a small source in the empty corner of a rotated destination's bounding box: the rasters do not
    overlap although their bounding boxes (in either CRS and in lon/lat) do."""
    case = draw(s_cross())
    xs, xd = case["xsrc"], case["xdst"]
    xs["shape"] = [draw(st.integers(1, 6)), draw(st.integers(1, 6))]
    xd["shape"] = [draw(st.integers(16, 40)), draw(st.integers(16, 40))]
    xd["res_m"] = xs["res_m"] * draw(st.sampled_from([1.0, 1.0, 2.0, 0.5]))
    xd["rot"] = draw(st.sampled_from([45.0, 45.0, 30.0, 60.0, 135.0, 40.0, 50.0]))
    xd["corner"] = [draw(st.sampled_from([1, -1])), draw(st.sampled_from([1, -1])), draw(st.sampled_from([0.8, 0.9, 0.95]))]
    case["klass"] = "xcrs_corner"
    case["place"] = "corner"
    case.update(_common(draw, xs["shape"], xd["shape"], resampling="nearest", big_ok=False))
    return case


_PP_CACHE: dict = {}


def _to_crs_xy(label, lon, lat):
    from pyproj import CRS as P
    from pyproj import Transformer

    tr = _PP_CACHE.get(label)
    if tr is None:
        crs = P.from_user_input(SINU_PROJ) if label == "sinu" else P.from_epsg(int(label))
        tr = Transformer.from_crs(P.from_epsg(4326), crs, always_xy=True)
        _PP_CACHE[label] = tr
    return tr.transform(lon, lat)


def _cross_grids(case):
    """Fill case['src'] / case['dst'] (shape, affine, crs) from the lon/lat description."""
    xs, xd = case["xsrc"], case["xdst"]

    def res_of(label, res_m, lat):
        if label in GEOGRAPHIC:
            return res_m / M_PER_DEG
        if label == "3857":
            return res_m / max(0.2, math.cos(math.radians(lat)))  # mercator metres are stretched
        return res_m

    def grid(label, shape, res_m, sign, lon, lat):
        cx, cy = _to_crs_xy(label, lon, lat)
        r = res_of(label, res_m, lat)
        ny, nx = shape
        a, e = r * sign[0], r * sign[1]
        # snap the origin to a multiple of the resolution (keeps coefficients tame)
        tx = round((cx - a * nx / 2) / r) * r
        ty = round((cy - e * ny / 2) / r) * r
        return {"shape": shape, "affine": [a, 0.0, tx, 0.0, e, ty], "crs": label}

    lon_a, lat_a = xs["center_ll"]
    case["src"] = grid(xs["crs"], xs["shape"], xs["res_m"], xs["sign"], lon_a, lat_a)
    if xd["center_ll"][0] is not None:
        lon_b, lat_b = xd["center_ll"]
    else:
        half_x = (xs["shape"][1] * xs["res_m"] + xd["shape"][1] * xd["res_m"]) / 2
        half_y = (xs["shape"][0] * xs["res_m"] + xd["shape"][0] * xd["res_m"]) / 2
        lon_b = lon_a + xd["off"][0] * half_x / (M_PER_DEG * math.cos(math.radians(lat_a)))
        lat_b = lat_a + xd["off"][1] * half_y / M_PER_DEG
    case["dst"] = grid(xd["crs"], xd["shape"], xd["res_m"], xd["sign"], lon_b, lat_b)
    if xd.get("corner"):
        # destination turned by xd["rot"] degrees and moved so that the source centre sits in a corner of the
        # destination's axis-aligned bounding box - the corner a rotated raster leaves empty
        from affine import Affine

        label = xd["crs"]
        ny, nx = xd["shape"]
        r = res_of(label, xd["res_m"], lat_a)
        sx, sy = _to_crs_xy(label, lon_a, lat_a)
        L = Affine.rotation(xd["rot"]) * Affine.scale(r * xd["sign"][0], r * xd["sign"][1])
        cs = [L * (px - nx / 2, py - ny / 2) for px, py in ((0, 0), (nx, 0), (nx, ny), (0, ny))]
        hx, hy = max(abs(c[0]) for c in cs), max(abs(c[1]) for c in cs)
        k1, k2, f = xd["corner"]
        cx, cy = sx - k1 * f * hx, sy - k2 * f * hy
        A = Affine.translation(cx, cy) * L * Affine.translation(-nx / 2, -ny / 2)
        case["dst"] = {"shape": xd["shape"], "affine": [A.a, A.b, A.c, A.d, A.e, A.f], "crs": label}
    return case


def o_cross(case, T, nt_rule="partial"):
    case = _cross_grids(dict(case))
    if _backend_identity(case["src"]) or _backend_identity(case["dst"]):
        T.exclude("backend_identity_transform")
        return
    o_cross_crs(case, T, nt_rule)


def o_disjoint(case, T):
    """Destination rasters that do not overlap the source: all fill, no exception (both CRS situations)."""
    if "xsrc" in case:
        o_cross(case, T, "disjoint")
    else:
        o_same_crs(case, T, "disjoint")


def o_fill_other(case, T):
    if "xsrc" in case:
        o_cross(case, T)
    else:
        o_same_crs(case, T)


def _multi_chunks(case):
    """Schedule sub-check: replace a single destination chunk by a 2..3 x 2..3 grid where the shape allows."""
    shape = case["xdst"]["shape"] if "xsrc" in case else case["dst"]["shape"]
    dc = case["dst_chunks"]
    if dc is None or (dc[0] >= shape[0] and dc[1] >= shape[1]):
        case = dict(case)
        case["dst_chunks"] = [max(1, -(-shape[0] // 2)), max(1, -(-shape[1] // 3))]
    return case


def o_schedules(case, T):
    """Every execution order gives the same chunked result - bit for bit, ambiguous pixels included (the comparison
    with the whole-array result is the business of the other sub-checks)."""
    if "xsrc" in case:
        case = _cross_grids(dict(case))
    if _backend_identity(case["src"]) or _backend_identity(case["dst"]):
        T.exclude("backend_identity_transform")
        return
    data, sg, dg, whole, lazy, first = _run_both(case)
    ref = first.values
    seed = int(case["sched"][1])
    others = [["random", seed + 1], ["random", seed + 2], ["threads", 4], ["threads", 2], ["random", seed]]
    for sched in others:
        got = _compute(lazy, sched).values
        same = _same(ref, got)
        if not same.all():
            idx = _where(~same, 1)[0]
            raise Violation(
                "chunked result depends on the execution order: %d pixel(s) differ between schedule %r and %r, e.g. %r: %r vs %r "
                "(dtype %s, src chunks %r, dst chunks %r)"
                % (int((~same).sum()), case["sched"], sched, idx, ref[idx].item(), got[idx].item(), case["dtype"], case["src_chunks"], case["dst_chunks"])
            )
    # a second, independently built graph (new task names) must agree as well
    _, _, _, _, _, again = _run_both(case)
    require(bool(_same(ref, again.values).all()), "two identical chunked reprojection calls gave different results (schedule %r)", case["sched"])
    rows, cols = _dst_chunk_grid(case)
    n_chunks = len(rows) * len(cols)
    T.cls("dst_chunks_%s" % ("1" if n_chunks == 1 else "2-9" if n_chunks < 10 else "10+"))
    T.cls("klass:" + case["klass"])
    T.cls("first_sched:" + case["sched"][0])
    if n_chunks >= 2:
        T.nontrivial()


def o_joint(case, T):
    """Several reprojections of the SAME dask source that differ only in one parameter (destination nodata,
    resampling, destination grid), evaluated together in one graph / one dask.compute call: each must still equal
    the in-memory result for its own parameters ('same result ... with the same parameters ... every execution
    order' - tasks of different calls must not be confused with each other)."""
    import dask
    import dask.array as da
    from odc.geo.xr import wrap_xr, xr_reproject

    if _backend_identity(case["src"]) or _backend_identity(case["dst"]):
        T.exclude("backend_identity_transform")
        return
    sg, dg = _mk_gbox(case["src"]), _mk_gbox(case["dst"])
    ny, nx = case["src"]["shape"]
    data = _mk_data(case["dtype"], (ny, nx))
    src_nd = case["nodata"]["src"]
    kw_wrap = {} if src_nd is None else {"nodata": src_nd}
    chunks = (_expand_chunks(case["src_chunks"][0], ny), _expand_chunks(case["src_chunks"][1], nx))
    xx_np = wrap_xr(data, sg, **kw_wrap)
    xx_da = wrap_xr(da.from_array(data.copy(), chunks=chunks), sg, **kw_wrap)
    isf = case["dtype"].startswith("f")
    variants = []
    for v in case["variants"]:
        kw = {"resampling": v.get("resampling", "nearest")}
        if v.get("dst_nodata") is not None:
            kw["dst_nodata"] = v["dst_nodata"]
        variants.append(kw)
    lazies, wholes = [], []
    for kw in variants:
        kw_da = dict(kw)
        if case["dst_chunks"] is not None:
            kw_da["chunks"] = tuple(case["dst_chunks"])
        lazies.append(xr_reproject(xx_da, dg, **kw_da))
        wholes.append(xr_reproject(xx_np, dg, **kw))
    with dask.config.set({"optimization.fuse.active": False}):
        if case["sched"][0] == "threads":
            got = dask.compute(*lazies, scheduler="threads", num_workers=int(case["sched"][1]))
        else:
            got = dask.compute(*lazies, scheduler=_random_order_get(int(case["sched"][1])))
    amb = None
    for kw, w, g in zip(variants, wholes, got):
        same = _same(w.values, g.values)
        if kw["resampling"] != "nearest":
            # values of other kernels are not claimed pixel for pixel: compare only where both are fill or both not
            fv = kw.get("dst_nodata", src_nd)
            fv = (float("nan") if isf else 0) if fv is None else fv
            same = _is_fill(w.values, fv) == _is_fill(g.values, fv)
        else:
            if amb is None:
                xs, ys, _ = _src_coords_same_crs(case)  # full 2-d arrays of source coordinates
                amb = (np.abs(xs - np.round(xs)) < 1e-6) | (np.abs(ys - np.round(ys)) < 1e-6)
            same = same | amb
        if not same.all():
            idx = _where(~same, 1)[0]
            raise Violation(
                "computed together with %d other reprojection(s) of the same source, the result for %r differs from the in-memory result at %r: %r vs %r (%d px; all variants %r)"
                % (len(variants) - 1, kw, idx, g.values[idx].item(), w.values[idx].item(), int((~same).sum()), variants)
            )
    T.nontrivial()
    T.cls("variants_%d" % len(variants))
    T.cls("first_sched:" + case["sched"][0])


@st.composite
def s_joint(draw):
    case = draw(s_same_linear(places=["contained", "partial", "partial", "covers", "disjoint"]))
    case["nt"] = 0
    code = case["dtype"]
    nds = {"u1": [0, 255, 7], "i1": [-128, 0, 5], "u2": [0, 65535, 9], "i2": [-999, -1, 0], "i4": [-999, -1, 0], "f4": [-999.0, -1.0, 0.0], "f8": [-999.0, -1.0, 0.0]}[code]
    k = draw(st.integers(2, 3))
    variants = [{"dst_nodata": nd} for nd in draw(st.permutations(nds))[:k]]
    if draw(st.booleans()):
        variants.append({"dst_nodata": variants[0]["dst_nodata"], "resampling": "bilinear"})
    case["variants"] = variants
    return case


def _is_d20(sub, case, msg):
    """D20: float data, no nodata anywhere, chunked result holds 0 instead of NaN where nothing reaches."""
    nd = case.get("nodata", {})
    if case.get("dtype") not in ("f4", "f8") or nd.get("src") is not None or nd.get("dst") is not None:
        return False
    if msg.startswith("chunked result:") and "do not hold the fill value nan" in msg and "]=0.0 " in msg:
        return True
    return msg.startswith("chunked != whole") and ": chunked 0.0 whole nan " in msg


def build(chk: Check) -> None:
    # ~25-40 ms per case on an idle core; budgets are generous caps for a loaded machine
    chk.sub("same_crs_nearest", o_same_crs, strategy=s_same_linear(), n={"quick": 800, "thorough": 16000},
            budget_s={"quick": 60, "thorough": 300}, shrink=False)
    chk.sub("same_crs_rotated", o_same_crs, strategy=s_same_rotated(), n={"quick": 220, "thorough": 5000},
            budget_s={"quick": 35, "thorough": 130}, shrink=False)
    chk.sub("cross_crs_nearest", o_cross, strategy=s_cross(), n={"quick": 340, "thorough": 7000},
            budget_s={"quick": 45, "thorough": 180}, shrink=False)
    chk.sub("same_crs_wide_strip", o_same_crs, strategy=s_same_wide(), n={"quick": 40, "thorough": 1200}, budget_s={"quick": 45, "thorough": 200}, shrink=False)
    chk.sub("extra_axes_layouts", o_layouts, strategy=s_layouts(), n={"quick": 160, "thorough": 4000}, budget_s={"quick": 40, "thorough": 150}, shrink=False)
    chk.sub("fill_bilinear", o_fill_other,
            strategy=st.one_of(s_same_linear(resampling="bilinear"), s_same_linear(resampling="bilinear"), s_cross(resampling="bilinear")),
            n={"quick": 220, "thorough": 4000}, budget_s={"quick": 35, "thorough": 100}, shrink=False)
    chk.sub("disjoint_all_fill", o_disjoint,
            strategy=st.one_of(s_same_linear(places=["disjoint"]),
                               s_same_linear(places=["disjoint", "touching"], klasses=["scale_k", "mirror_xy", "shift_int"]),
                               s_cross(far_apart=True), s_cross_corner()),
            n={"quick": 200, "thorough": 4000}, budget_s={"quick": 30, "thorough": 90}, shrink=False)
    chk.sub("joint_compute", o_joint, strategy=s_joint(), n={"quick": 150, "thorough": 4000}, budget_s={"quick": 40, "thorough": 200}, shrink=False)
    chk.sub("schedules", o_schedules,
            strategy=st.one_of(s_same_linear(places=["partial", "covers", "contained"]), s_same_rotated(), s_cross()).map(_multi_chunks),
            n={"quick": 80, "thorough": 2000}, budget_s={"quick": 30, "thorough": 100}, shrink=False)
    chk.known("D20", _is_d20)
