"""C08 - GeoBox built from a region covers it and is snapped as requested."""
from __future__ import annotations

import math
from fractions import Fraction as Fr

from hypothesis import strategies as st

from vf.common import Check, Violation, require
from vf.props.c20 import check_snap_axis
from vf.strategies import CRS_POOL, crs_tags, mk_crs_spec

RULE = (
    "Regions with left/bottom of magnitude 0..1e7 (integers and arbitrary floats), spans = pixel x k for k in "
    "{0.01,0.5,1,1+-1e-7,3,7.5,100,1e4+0.3,1e6,random}(+- half/1.5 tolerance), resolutions square/non-square with "
    "either sign per axis, anchors {edge,centre,default,float fraction,per-axis XY,floating}, tight on/off, tol in "
    "{1e-6,0.01,0.1}; entry points from_bbox, from_geopolygon (same CRS and crs=other), zoom_to(resolution=); "
    "shape-driven requests with tuple and int shapes. Oracle: exact rational arithmetic on the returned (shape, "
    "affine). Non-trivial: span/res within 1e-3 of an integer, a negative x or positive y resolution, or a "
    "non-default anchor; distinct = (entry, anchor, tight, tol, sign class, ratio class, k class)."
)
ASSUMPTIONS = [
    "coverage deficit/excess are evaluated exactly on the returned float coefficients with a slack of 4 ulp of the coordinates",
    "int shape with snapping may need N+1 pixels (the '<1 px displacement' clause is followed)",
    "from_geopolygon(crs=other) is compared with the bounding box of the vertex-wise projected polygon",
]
SHARDS = {"quick": 4, "thorough": 16}

ANCHORS = ["default", "edge", "center", "centre", "floating", 0.25, 0.1, 0.75, 0, 0.5, ["xy", 0.25, 0.5], ["xy", 0.0, 0.9]]
KS = [0.01, 0.5, 1.0, 1.0 + 1e-7, 1.0 - 1e-7, 3.0, 7.5, 100.0, 1e4 + 0.3, 1e6]


@st.composite
def s_region(draw):
    tol = draw(st.sampled_from([0.01, 0.01, 1e-6, 0.1]))
    mag = st.one_of(st.sampled_from([1.0, 10.0, 30.0, 0.25, 0.1, 1e-4, 7.3, 1000.0]), st.floats(1e-3, 1e3))
    rx = draw(mag)
    ry = draw(st.one_of(st.just(rx), mag))
    sx = draw(st.sampled_from([1, 1, -1]))
    sy = draw(st.sampled_from([-1, -1, 1]))

    def start(r):
        return draw(st.one_of(st.just(0.0), st.integers(-1000, 1000).map(lambda k: k * r), st.integers(-(10**7), 10**7).map(float), st.floats(-1e7, 1e7)))

    def span(r):
        which = draw(st.integers(0, len(KS)))
        k = KS[which] if which < len(KS) else draw(st.floats(0.01, 3000))
        kc = "k%d" % which
        if draw(st.booleans()):
            k = max(0.0, k + draw(st.sampled_from([tol / 2, -tol / 2, tol * 1.5, -tol * 1.5])))
            kc += "~tol"
        return k * r, kc

    left, bottom = start(rx), start(ry)
    wx, kcx = span(rx)
    wy, kcy = span(ry)
    right, top = left + wx, bottom + wy
    if not right > left:
        right = left + rx * 0.5
    if not top > bottom:
        top = bottom + ry * 0.5
    return {"bbox": [left, bottom, right, top], "res": [sx * rx, sy * ry], "tol": tol, "kc": [kcx, kcy]}


@st.composite
def s_res_driven(draw):
    c = draw(s_region())
    c["entry"] = draw(st.sampled_from(["from_bbox", "from_bbox", "from_bbox_tuple", "from_geopolygon", "zoom_to_res"]))
    c["anchor"] = draw(st.sampled_from(ANCHORS))
    c["tight"] = draw(st.sampled_from([False, False, True]))
    c["crs"] = draw(crs_tags(allow_none=False))
    c["res_form"] = draw(st.sampled_from(["xy", "xy", "scalar"]))
    # the deprecated spelling of an anchor: align=xy_(...) "basically anchor but in CRS units"
    c["legacy_align"] = c["entry"] == "from_geopolygon" and isinstance(c["anchor"], (list, float)) and not c["tight"] and draw(st.booleans())
    if c["entry"] == "zoom_to_res":
        # the box that is re-gridded: any orientation (zoom_to(resolution=) re-grids rotated boxes too, _map.py relies
        # on it), any small shape; the request is sometimes the box's *own* resolution
        c["zsrc"] = {"rot": draw(st.sampled_from([0, 0, 0, 10, 30, 45, 90, 137, 180])), "flip": draw(st.sampled_from([[1, -1], [1, -1], [1, 1], [-1, -1], [-1, 1]])),
                     "shape": [draw(st.integers(1, 9)), draw(st.integers(1, 9))], "same_res": draw(st.sampled_from([False, False, True]))}
    return c


def _anchor_arg(a):
    from odc.geo.types import xy_

    if isinstance(a, list):
        return xy_(a[1], a[2])
    return a


def _offs(anchor, tight):
    """per axis anchor fraction (None = floating)."""
    if tight or anchor == "floating":
        return None, None
    if anchor in ("default", "edge", 0):
        return 0, 0
    if anchor in ("center", "centre", 0.5):
        return 0.5, 0.5
    if isinstance(anchor, list):
        return anchor[1], anchor[2]
    return anchor, anchor


def _check_resolution_result(gb, bbox, rx, ry, ox, oy, tol, what):
    A = gb.affine
    require(A.b == 0 and A.d == 0, "%s: result is not axis aligned: %r", what, A)
    require(A.a == rx and A.e == ry, "%s: pixel size %r, requested (%r, %r)", what, (A.a, A.e), rx, ry)
    ny, nx = gb.shape
    left, bottom, right, top = bbox
    try:
        check_snap_axis(left, right, rx, ox, tol, A.c, int(nx))
    except Violation as v:
        raise Violation(f"{what} x axis: {v}") from None
    try:
        check_snap_axis(bottom, top, ry, oy, tol, A.f, int(ny))
    except Violation as v:
        raise Violation(f"{what} y axis: {v}") from None


def o_res(case, T):
    from odc.geo import geom
    from odc.geo.geobox import GeoBox
    from odc.geo.types import resxy_

    bbox = case["bbox"]
    rx, ry = case["res"]
    tol = case["tol"]
    crs = mk_crs_spec(case["crs"])
    anchor = _anchor_arg(case["anchor"])
    ox, oy = _offs(case["anchor"], case["tight"])
    entry = case["entry"]
    if case["res_form"] == "scalar":
        # scalar resolution means (r, -r)
        r = abs(rx)
        rx, ry = r, -r
        res = r
    else:
        res = resxy_(rx, ry)
    kw = dict(resolution=res, anchor=anchor, tight=case["tight"], tol=tol)
    if entry == "from_bbox":
        gb = GeoBox.from_bbox(geom.BoundingBox(*bbox, crs=crs), **kw)
    elif entry == "from_bbox_tuple":
        gb = GeoBox.from_bbox(tuple(bbox), crs, **kw)
    elif entry == "from_geopolygon":
        l, b, r_, t = bbox
        poly = geom.polygon([(l, b), (l + (r_ - l) / 3, t), (r_, b + (t - b) / 2), (r_ - (r_ - l) / 4, b), (l, b)], crs)
        bb = poly.boundingbox
        bbox = [bb.left, bb.bottom, bb.right, bb.top]
        if case.get("legacy_align"):
            from odc.geo.types import xy_

            kw2 = dict(kw)
            kw2.pop("anchor")
            fx, fy = (case["anchor"][1], case["anchor"][2]) if isinstance(case["anchor"], list) else (case["anchor"], case["anchor"])
            gb = GeoBox.from_geopolygon(poly, align=xy_(fx * abs(rx), fy * abs(ry)), **kw2)
            T.cls("legacy_align_argument")
        else:
            gb = GeoBox.from_geopolygon(poly, **kw)
    else:  # zoom_to(resolution=): tight cover of the bounding box of an existing box
        from affine import Affine

        l, b, r_, t = bbox
        z = case.get("zsrc") or {"rot": 0, "flip": [1, -1], "shape": [5, 7], "same_res": False}
        n0y, n0x = z["shape"]
        px, py = z["flip"][0] * (r_ - l) / n0x, z["flip"][1] * (t - b) / n0y
        A0 = Affine.translation((l + r_) / 2, (b + t) / 2) * Affine.rotation(z["rot"]) * Affine.scale(px, py) * Affine.translation(-n0x / 2, -n0y / 2)
        src = GeoBox((n0y, n0x), A0, crs)
        if z["same_res"]:
            # ask for the resolution the box itself reports
            sr = src.resolution
            rx, ry = float(sr.x), float(sr.y)
            res = resxy_(rx, ry)
            T.cls("zoom_to:own_resolution")
        T.cls("zoom_to:rot%s" % ("0" if z["rot"] % 180 == 0 else "90" if z["rot"] % 90 == 0 else "ated"))
        corners = [A0 * (0, 0), A0 * (n0x, 0), A0 * (n0x, n0y), A0 * (0, n0y)]
        sb = src.boundingbox
        bbox = [sb.left, sb.bottom, sb.right, sb.top]
        # the bounding box is the envelope of the four corner images (C02 decides that; here it only has to be sane)
        ext = [min(c[0] for c in corners), min(c[1] for c in corners), max(c[0] for c in corners), max(c[1] for c in corners)]
        slack = 1e-9 * max(1.0, *(abs(v) for v in ext))
        require(all(abs(u - v) <= slack for u, v in zip(bbox, ext)), "zoom_to source bounding box %r, corner envelope %r", bbox, ext)
        gb = src.zoom_to(resolution=res)
        ox, oy = None, None
        tol = 0.01
    require(gb.crs is not None and gb.crs == crs, "%s: CRS not carried over", entry)
    _check_resolution_result(gb, bbox, rx, ry, ox, oy, tol, entry)
    ratio_x = (bbox[2] - bbox[0]) / abs(rx)
    ratio_y = (bbox[3] - bbox[1]) / abs(ry)
    near = abs(ratio_x - round(ratio_x)) < 1e-3 or abs(ratio_y - round(ratio_y)) < 1e-3
    sign = ("-" if rx < 0 else "+") + ("-" if ry < 0 else "+")
    if near or sign != "+-" or case["anchor"] not in ("default", "edge", 0):
        T.nontrivial((entry, str(case["anchor"]), case["tight"], tol, sign, near, tuple(case["kc"]), case["res_form"]))
    T.cls("entry:" + entry)
    T.cls("sign:" + sign)
    T.cls("anchor:" + ("floating" if ox is None else str(case["anchor"])))
    if near:
        T.cls("ratio_near_integer")


# --------------------------------------------------------------------- other-CRS polygon
@st.composite
def s_poly_other(draw):
    label = draw(st.sampled_from(["3857", "3577", "32633", "32755", "3035", "6933", "4283"]))
    lon0, lat0, lon1, lat1 = CRS_POOL[label][1]
    clon = draw(st.floats(lon0 + 2, lon1 - 2))
    clat = draw(st.floats(lat0 + 2, lat1 - 2))
    span = draw(st.sampled_from([0.01, 0.1, 1.0]))
    n = draw(st.integers(3, 6))
    pts = [[clon + span * draw(st.floats(-1, 1)), clat + span * draw(st.floats(-1, 1))] for _ in range(n)]
    geographic = CRS_POOL[label][0] == "geographic"
    res = draw(st.sampled_from([1e-4, 1e-3, 0.01] if geographic else [10.0, 30.0, 100.0, 1000.0]))
    return {"label": label, "pts": pts, "res": res, "anchor": draw(st.sampled_from(["default", "center", 0.25, "floating"])),
            "tight": draw(st.sampled_from([False, False, True])), "tol": draw(st.sampled_from([0.01, 1e-6, 0.1])), "spell": draw(st.sampled_from(["int", "str_lower", "odc"]))}


def o_poly_other(case, T):
    from odc.geo import geom
    from odc.geo.geobox import GeoBox
    from pyproj import Transformer

    label = case["label"]
    pts = [tuple(p) for p in case["pts"]]
    poly = geom.polygon([*pts, pts[0]], "epsg:4326")
    crs = mk_crs_spec({"label": label, "spell": case["spell"]})
    gb = GeoBox.from_geopolygon(poly, case["res"], crs=crs, anchor=case["anchor"], tight=case["tight"], tol=case["tol"])
    tr = Transformer.from_crs(4326, int(label), always_xy=True)
    xs, ys = tr.transform([p[0] for p in pts], [p[1] for p in pts])
    bbox = [min(xs), min(ys), max(xs), max(ys)]
    require(gb.crs == crs, "from_geopolygon(crs=%s): result crs %r", label, str(gb.crs)[:40])
    ox, oy = _offs(case["anchor"], case["tight"])
    r = case["res"]
    if ox is None:
        # floating origin equals the projected corner: compare with a relative tolerance (two pyproj calls)
        A = gb.affine
        require(A.a == r and A.e == -r, "pixel size %r", (A.a, A.e))
        require(abs(A.c - bbox[0]) <= 1e-9 * max(1, abs(bbox[0])) and abs(A.f - bbox[3]) <= 1e-9 * max(1, abs(bbox[3])), "floating origin %r, projected corner %r", (A.c, A.f), (bbox[0], bbox[3]))
        ny, nx = gb.shape
        require(nx >= (bbox[2] - bbox[0]) / r - case["tol"] - 1e-6 and nx < (bbox[2] - bbox[0]) / r + 1 + case["tol"] + 1e-6 or nx == 1, "nx=%d for span %.6g px", nx, (bbox[2] - bbox[0]) / r)
        require(ny >= (bbox[3] - bbox[1]) / r - case["tol"] - 1e-6 and ny < (bbox[3] - bbox[1]) / r + 1 + case["tol"] + 1e-6 or ny == 1, "ny=%d for span %.6g px", ny, (bbox[3] - bbox[1]) / r)
    else:
        # pad the tolerance by the (tiny) disagreement between two projections of the same vertex
        _check_resolution_result(gb, bbox, r, -r, ox, oy, case["tol"] + 1e-6, "from_geopolygon(crs=%s)" % label)
    T.nontrivial((label, str(case["anchor"]), case["tight"], case["tol"], case["res"]))
    T.cls("label:" + label)


# --------------------------------------------------------------------- shape driven
@st.composite
def s_shape_driven(draw):
    c = draw(s_region())
    l, b, r, t = c["bbox"]
    # make span reasonable relative to shape
    kind = draw(st.sampled_from(["tuple", "tuple", "int"]))
    if kind == "tuple":
        shape = [draw(st.one_of(st.integers(1, 20), st.integers(21, 2000))), draw(st.one_of(st.integers(1, 20), st.integers(21, 2000)))]
    else:
        shape = draw(st.one_of(st.integers(1, 20), st.integers(21, 2000)))
    return {"bbox": c["bbox"], "shape": shape, "kind": kind, "anchor": draw(st.sampled_from(ANCHORS)), "tight": draw(st.sampled_from([False, True])),
            "tol": c["tol"], "crs": draw(crs_tags(allow_none=False)), "entry": draw(st.sampled_from(["from_bbox", "from_geopolygon"]))}


def o_shape(case, T):
    from odc.geo import geom
    from odc.geo.geobox import GeoBox

    l, b, r, t = case["bbox"]
    crs = mk_crs_spec(case["crs"])
    anchor = _anchor_arg(case["anchor"])
    ox, oy = _offs(case["anchor"], case["tight"])
    shape = case["shape"]
    sh = tuple(shape) if case["kind"] == "tuple" else shape
    kw = dict(shape=sh, anchor=anchor, tight=case["tight"], tol=case["tol"])
    if case["entry"] == "from_bbox":
        gb = GeoBox.from_bbox(geom.BoundingBox(l, b, r, t, crs), **kw)
    else:
        gb = GeoBox.from_geopolygon(geom.box(l, b, r, t, crs), **kw)
    A = gb.affine
    ny, nx = gb.shape
    require(A.b == 0 and A.d == 0 and gb.crs == crs, "shape-driven result rotated or CRS lost")
    sx, sy = Fr(r) - Fr(l), Fr(t) - Fr(b)
    ulp = 4 * math.ulp(max(abs(l), abs(r), abs(b), abs(t)))
    if case["kind"] == "tuple":
        require((ny, nx) == tuple(shape), "requested shape %r, got %r", tuple(shape), (ny, nx))
        # pixel size = span / shape (float division of float span)
        ex, ey = (r - l) / shape[1], -(t - b) / shape[0]
        require(A.a == ex and A.e == ey, "pixel size %r, span/shape = %r", (A.a, A.e), (ex, ey))
        dx = abs(Fr(A.c) - Fr(l)) / abs(Fr(A.a))
        dy = abs(Fr(A.f) - Fr(t)) / abs(Fr(A.e))
        if ox is None:
            require(A.c == l and A.f == t, "unsnapped shape-driven box must start at the region corner: %r vs %r", (A.c, A.f), (l, t))
        else:
            slack = 1 + Fr(case["tol"]) + Fr(ulp) / abs(Fr(A.a))
            slacky = 1 + Fr(case["tol"]) + Fr(ulp) / abs(Fr(A.e))
            require(dx < slack and dy < slacky, "shape-driven box displaced by (%.6g, %.6g) px from the region", float(dx), float(dy))
            for v, res, off in ((A.c, A.a, ox), (A.f, A.e, oy)):
                q = Fr(v) / abs(Fr(res)) - Fr(off)
                dev = abs(q - round(q))
                require(dev <= Fr(1, 10**9) * max(1, abs(round(q))), "pixel edge not aligned to anchor %r: edge/res-anchor=%.12g", off, float(q))
    else:
        N = shape
        aspect_gt1 = (r - l) / (t - b) > 1
        res = (r - l) / N if aspect_gt1 else (t - b) / N
        require(A.a == res and A.e == -res, "int shape: pixel size %r, expected +-%r", (A.a, A.e), res)
        longest = nx if aspect_gt1 else ny
        if ox is None:
            require(longest == N, "int shape %d, unsnapped: longest side %d", N, longest)
            require(A.c == l and A.f == t, "int shape unsnapped: origin %r vs corner %r", (A.c, A.f), (l, t))
        else:
            require(longest in (N, N + 1), "int shape %d, snapped: longest side %d", N, longest)
        try:
            check_snap_axis(l, r, res, ox, case["tol"], A.c, int(nx))
            check_snap_axis(b, t, -res, oy, case["tol"], A.f, int(ny))
        except Violation as v:
            raise Violation(f"int shape {N}: {v}") from None
    T.nontrivial((case["kind"], str(case["anchor"]), case["tight"], case["entry"], min(shape) if isinstance(shape, list) else shape))
    T.cls("kind:" + case["kind"])
    T.cls("snapped" if ox is not None else "floating")


def build(chk: Check) -> None:
    chk.sub("resolution_driven", o_res, cov={"quick": 3000, "thorough": 300000}, strategy=s_res_driven(), n={"quick": 16000, "thorough": 2000000})
    chk.sub("polygon_other_crs", o_poly_other, strategy=s_poly_other(), n={"quick": 2500, "thorough": 150000})
    chk.sub("shape_driven", o_shape, cov={"quick": 1500, "thorough": 150000}, strategy=s_shape_driven(), n={"quick": 8000, "thorough": 800000})
