"""C16 - GeoBox and bounding-box set operations respect the common pixel grid."""
from __future__ import annotations

import math
from fractions import Fraction as Fr

import numpy as np
from hypothesis import strategies as st

from vf.common import Check, Violation, require
from vf.strategies import CRS_POOL, FA, affines, coeff_close, crs_tags, mk_affine, mk_crs_spec, simple_tag

RULE = (
    "A base grid (exact dyadic or general float affine; north-up, mirrored, rotated/sheared) and 2-4 member GeoBoxes "
    "shifted by integer pixel offsets in [-30,30] with sides 1..20, modelled as integer rectangles; regions "
    "(polygons/boxes, same or other CRS) for enclosing; sub-pixel offsets {1e-10..0.5}, scale 1+-{1e-3,0.1}, 1 degree "
    "rotation and mirrored partners for snapping/rejection; arbitrary float bounding boxes (touching, nested, "
    "disjoint) for the lattice laws. Oracle: integer-rectangle model + exact rational affine algebra. Non-trivial: "
    "some pair with empty intersection, a rotated/mirrored base, a perturbation within 10x of the tolerance, or a "
    "disjoint/touching bbox pair; distinct = (sub-check specific key)."
)
ASSUMPTIONS = [
    "pixel coordinates of the members stay below 1e6 (|translation/resolution|): beyond that the 1e-8 px compatibility "
    "tolerance of the code is below float rounding of the pixel-to-pixel transform",
    "enclosing() with a region in another CRS is compared with the vertex-wise projected region (no densification)",
]
SHARDS = {"quick": 4, "thorough": 16}


@st.composite
def s_base(draw, rotated=None):
    coeffs, fam, klass = draw(affines(rotated=rotated))
    # keep pixel coordinates moderate (see ASSUMPTIONS)
    lin = min(math.hypot(coeffs[0], coeffs[3]), math.hypot(coeffs[1], coeffs[4]))
    lim = 1e5 * lin
    coeffs[2] = max(-lim, min(lim, coeffs[2]))
    coeffs[5] = max(-lim, min(lim, coeffs[5]))
    return {"affine": coeffs, "family": fam, "klass": klass}


@st.composite
def s_members(draw, nmin=2, nmax=4):
    n = draw(st.integers(nmin, nmax))
    out = []
    for _ in range(n):
        out.append([draw(st.integers(-30, 30)), draw(st.integers(-30, 30)), draw(st.integers(1, 20)), draw(st.integers(1, 20))])
    return out  # [x0, y0, nx, ny]


def _member(base_aff, crs, m):
    from affine import Affine
    from odc.geo.geobox import GeoBox

    x0, y0, nx, ny = m
    return GeoBox((ny, nx), base_aff * Affine.translation(x0, y0), crs)


def _expect_affine(base_coeffs, x0, y0) -> FA:
    return FA.of(base_coeffs) * FA.translation(x0, y0)


def _check_box(gb, base, rect, exact, crs, what):
    """gb must be the GeoBox of integer rectangle rect=(x0,y0,x1,y1) on the base grid."""
    x0, y0, x1, y1 = rect
    require(tuple(gb.shape) == (y1 - y0, x1 - x0), "%s: shape %r, expected %r (rect %r)", what, tuple(gb.shape), (y1 - y0, x1 - x0), rect)
    require(gb.crs == crs, "%s: crs changed", what)
    # compare with the base affine as it is in floats: member = base * T(x0,y0) computed once by the model
    want = _expect_affine(base["affine"], x0, y0)
    if exact:
        require(tuple(float(v) for v in gb.affine[:6]) == want.floats(), "%s: affine %r, expected exactly %r", what, tuple(gb.affine)[:6], want.floats())
    else:
        err = coeff_close(gb.affine, want, scale_hint=[64.0])
        require(err is None, "%s: affine differs from model beyond rounding: %s", what, err)


def o_setops(case, T):
    from odc.geo import geobox as G
    from odc.geo.roi import roi_is_empty

    base = case["base"]
    exact = base["family"] == "exact"
    A = mk_affine(base["affine"])
    crs = mk_crs_spec(case["crs"])
    ms = case["members"]
    boxes = [_member(A, crs, m) for m in ms]
    crs_o = boxes[0].crs
    rects = [(m[0], m[1], m[0] + m[2], m[1] + m[3]) for m in ms]

    def union(rs):
        return (min(r[0] for r in rs), min(r[1] for r in rs), max(r[2] for r in rs), max(r[3] for r in rs))

    def isect(rs):
        r = (max(r[0] for r in rs), max(r[1] for r in rs), min(r[2] for r in rs), min(r[3] for r in rs))
        return r if r[0] < r[2] and r[1] < r[3] else None

    # n-ary
    u = G.geobox_union_conservative(boxes)
    _check_box(u, base, union(rects), exact, crs_o, "union of %d" % len(boxes))
    i = G.geobox_intersection_conservative(boxes)
    ri = isect(rects)
    if ri is None:
        require(i.is_empty() and all(s >= 0 for s in i.shape), "intersection of disjoint members is not empty: %r (rects %r)", i, rects)
    else:
        _check_box(i, base, ri, exact, crs_o, "intersection of %d" % len(boxes))
    some_empty = ri is None
    # pairwise
    for a in range(len(boxes)):
        for b in range(len(boxes)):
            if a == b and a > 0:
                continue
            ga, gb = boxes[a], boxes[b]
            ra, rb = rects[a], rects[b]
            _check_box(ga | gb, base, union([ra, rb]), exact, crs_o, "a|b")
            rr = isect([ra, rb])
            ii = ga & gb
            if rr is None:
                some_empty = True
                require(ii.is_empty() and all(s >= 0 for s in ii.shape), "a&b of disjoint boxes not empty: %r (rects %r %r)", ii, ra, rb)
            else:
                _check_box(ii, base, rr, exact, crs_o, "a&b")
            roi = ga.overlap_roi(gb)
            if rr is None:
                require(roi_is_empty(roi), "overlap_roi of disjoint boxes = %r, expected empty (rects %r %r)", roi, ra, rb)
                ny, nx = ga.shape
                require(0 <= roi[0].start and roi[0].stop <= ny and 0 <= roi[1].start and roi[1].stop <= nx or roi_is_empty(roi), "overlap_roi outside first operand")
            else:
                want = (rr[1] - ra[1], rr[3] - ra[1], rr[0] - ra[0], rr[2] - ra[0])
                got = (roi[0].start, roi[0].stop, roi[1].start, roi[1].stop)
                require(got == want, "overlap_roi=%r, shared pixels in first operand are rows %d:%d cols %d:%d (rects %r %r)", roi, *want, ra, rb)
                # indexing the first operand with it gives the intersection geobox
                sub = ga[roi]
                _check_box(sub, base, rr, exact, crs_o, "a[overlap_roi(a,b)]")
    # commutativity / associativity as GeoBox equality (pixel sets)
    if len(boxes) >= 3:
        a, b, c = boxes[:3]
        l = (a | b) | c
        r = a | (b | c)
        _check_box(l, base, union(rects[:3]), exact, crs_o, "(a|b)|c")
        _check_box(r, base, union(rects[:3]), exact, crs_o, "a|(b|c)")
        r3 = isect(rects[:3])
        if r3 is not None:
            _check_box((a & b) & c, base, r3, exact, crs_o, "(a&b)&c")
            _check_box(a & (b & c), base, r3, exact, crs_o, "a&(b&c)")
            if exact:
                require(((a & b) & c) == (a & (b & c)), "intersection not associative")
        elif isect(rects[:2]) is not None and isect(rects[1:3]) is not None:
            require(((a & b) & c).is_empty() and (a & (b & c)).is_empty(), "3-way empty intersection not empty")
        if exact:
            require(l == r, "union not associative: %r vs %r", l, r)
    if exact:
        a, b = boxes[:2]
        require((a | b) == (b | a), "union not commutative")
        if isect(rects[:2]) is not None:
            require((a & b) == (b & a), "intersection not commutative")
    rot = any(k in base["klass"] for k in ("rot", "shear", "r90", "r180", "r270", "pyth", "mirror"))
    if some_empty or rot:
        T.nontrivial((base["klass"], base["family"], tuple(map(tuple, ms))))
    T.cls("some_empty_intersection" if some_empty else "all_overlap")
    T.cls("base:" + (base["klass"] or "north_up").split("+")[-1])
    T.cls("family:" + base["family"])


@st.composite
def s_setops(draw):
    return {"base": draw(s_base()), "crs": draw(crs_tags()), "members": draw(s_members())}


# --------------------------------------------------------------------- rejection of incompatible grids
PERTURB = [
    ("offset", 1e-10, True), ("offset", 1e-9, True), ("offset", 1e-7, False), ("offset", 1e-3, False), ("offset", 0.3, False), ("offset", 0.5, False),
    ("scale", 1e-3, False), ("scale", 0.1, False), ("scale", -1e-3, False), ("rot", 1.0, False), ("mirror_x", 0, False), ("mirror_y", 0, False),
    ("offset", 5e-9, None), ("offset", 2e-8, None),
    # appended (indices above are referenced by saved replays): relations whose matrix still has unit determinant or
    # zero off-diagonals - both axes mirrored (= 180 degree turn), quarter turns, reciprocal per-axis scales, whole
    # multiples of the pixel size
    ("mirror_xy", 0, False), ("rot", 180.0, False), ("rot", 90.0, False), ("aniso", 2.0, False), ("aniso", 0.25, False), ("zoom", 2.0, False), ("zoom", 0.5, False),
]


@st.composite
def s_reject(draw):
    base = draw(s_base())
    m = draw(s_members(2, 2))
    k = draw(st.integers(0, len(PERTURB) - 1))
    axis = draw(st.sampled_from(["x", "y", "xy"]))
    sign = draw(st.sampled_from([1, -1]))
    # the same grids in much finer units (sub-metre pixels in degrees, ~1e-6): every coefficient times 2^-q, exact in
    # binary floating point, so the relation between the two grids - and the verdict - is unchanged
    fine_q = 0
    if draw(st.integers(0, 3)) == 0:
        lin = min(math.hypot(base["affine"][0], base["affine"][3]), math.hypot(base["affine"][1], base["affine"][4]))
        fine_q = max(0, round(math.log2(lin / draw(st.sampled_from([1e-5, 1e-6, 3e-7])))))
    # a legal empty (zero-width / zero-height) second operand: holds no pixel, is still on a grid of its own, and the
    # operations have to look at that grid (round 8, C16-21)
    empty_b = draw(st.sampled_from([None, None, None, "x", "y", "xy"]))
    return {"base": base, "crs": draw(crs_tags()), "members": m, "perturb": k, "axis": axis, "sign": sign, "fine_q": fine_q, "empty_b": empty_b}


def o_reject(case, T):
    from affine import Affine
    from odc.geo.geobox import GeoBox

    base = case["base"]
    A = mk_affine(base["affine"])
    if case.get("fine_q"):
        A = Affine(*[v * 2.0 ** -case["fine_q"] for v in tuple(A)[:6]])
        T.cls("fine_units")
    crs = mk_crs_spec(case["crs"])
    ma, mb = case["members"]
    a = _member(A, crs, ma)
    kind, amount, accept = PERTURB[case["perturb"]]
    amount = amount * case["sign"] if kind in ("offset",) else amount
    x0, y0, nx, ny = mb
    empty_b = case.get("empty_b")
    if empty_b:
        nx, ny = (0 if "x" in empty_b else nx), (0 if "y" in empty_b else ny)
        T.cls("empty_operand")
    if kind == "offset":
        dx = amount if "x" in case["axis"] else 0.0
        dy = amount if "y" in case["axis"] else 0.0
        Bf = A * Affine.translation(x0 + dx, y0 + dy)
    elif kind == "scale":
        sx = 1 + amount if "x" in case["axis"] else 1.0
        sy = 1 + amount if "y" in case["axis"] else 1.0
        Bf = A * Affine.translation(x0, y0) * Affine.scale(sx, sy)
    elif kind == "rot":
        Bf = A * Affine.translation(x0, y0) * Affine.rotation(amount)
    elif kind == "mirror_xy":
        Bf = A * Affine.translation(x0 + nx, y0 + ny) * Affine.scale(-1, -1)
    elif kind == "aniso":
        Bf = A * Affine.translation(x0, y0) * Affine.scale(amount, 1 / amount)
    elif kind == "zoom":
        Bf = A * Affine.translation(x0, y0) * Affine.scale(amount, amount)
    elif kind == "mirror_x":
        Bf = A * Affine.translation(x0 + nx, y0) * Affine.scale(-1, 1)
    else:
        Bf = A * Affine.translation(x0, y0 + ny) * Affine.scale(1, -1)
    b = GeoBox((ny, nx), Bf, crs)
    if accept is None:
        T.exclude("ambiguous_band_around_tolerance")
        return
    ops = {
        "a|b": lambda: a | b, "b|a": lambda: b | a, "a&b": lambda: a & b, "b&a": lambda: b & a,
        "a.overlap_roi(b)": lambda: a.overlap_roi(b), "b.overlap_roi(a)": lambda: b.overlap_roi(a),
    }
    for name, op in ops.items():
        try:
            r = op()
        except ValueError:
            require(not accept, "%s rejected grids that differ by a %s of %r px only (below tolerance)", name, kind, amount)
            continue
        require(accept, "%s accepted grids related by %s=%r (axis %s): returned %r", name, kind, amount, case["axis"], r)
    if accept and not empty_b:
        # tiny offsets are treated as the same grid: result must be the integer-rectangle answer
        ra = (ma[0], ma[1], ma[0] + ma[2], ma[1] + ma[3])
        rb = (mb[0], mb[1], mb[0] + mb[2], mb[1] + mb[3])
        u = a | b
        require(tuple(u.shape) == (max(ra[3], rb[3]) - min(ra[1], rb[1]), max(ra[2], rb[2]) - min(ra[0], rb[0])), "union shape with sub-tolerance offset wrong: %r", tuple(u.shape))
    if kind == "offset" and abs(amount) in (1e-9, 1e-7):
        T.nontrivial((kind, amount, case["axis"], base["klass"]))
    elif kind != "offset":
        T.nontrivial((kind, amount, case["axis"], base["klass"]))
    T.cls(f"{kind}:{abs(amount)}")


# --------------------------------------------------------------------- snap_to
@st.composite
def s_snap(draw):
    base = draw(s_base())
    m = draw(s_members(2, 2))
    fr = [0.0, 1e-10, 1e-3, 0.25, 0.3, 0.49, 0.5, -0.3, -0.49, 0.75, -0.999, 1e-7, -4e-7, 3e-6, 2e-5]
    fx = draw(st.sampled_from(fr))
    fy = draw(st.sampled_from(fr))
    return {"base": base, "crs": draw(crs_tags()), "members": m, "frac": [fx, fy]}


def o_snap(case, T):
    from affine import Affine
    from odc.geo.geobox import GeoBox

    base = case["base"]
    A = mk_affine(base["affine"])
    crs = mk_crs_spec(case["crs"])
    ma, mb = case["members"]
    other = _member(A, crs, ma)
    x0, y0, nx, ny = mb
    fx, fy = case["frac"]
    src = GeoBox((ny, nx), A * Affine.translation(x0 + fx, y0 + fy), crs)
    out = src.snap_to(other)
    require(tuple(out.shape) == (ny, nx) and out.crs == src.crs, "snap_to changed shape/crs")
    # exact relation of the result to both grids
    Fo, Fs, Fout = FA.of(other.affine), FA.of(src.affine), FA.of(out.affine)
    P = Fo.inv() * Fout  # other-pixel <- out-pixel
    tol = Fr(1, 10**6)
    a_, b_, c_, d_, e_, f_ = P.m
    require(abs(a_ - 1) < tol and abs(e_ - 1) < tol and abs(b_) < tol and abs(d_) < tol, "snap_to changed scale/orientation")
    # "onto that grid": closer than the offsets the set operations are required to reject (>= 1e-7 px, see reject) ...
    on_grid = Fr(1, 10**8) * 2
    require(abs(c_ - round(c_)) < on_grid and abs(f_ - round(f_)) < on_grid, "after snap_to grids are offset by (%.9g, %.9g) px - not a whole-pixel shift", float(c_ - round(c_)), float(f_ - round(f_)))
    # ... and by the library's own standard: the snapped box combines with the other grid
    try:
        _ = out | other
        _ = out.overlap_roi(other)
    except ValueError as e:
        raise Violation("snap_to result is still not on the other grid: %s" % str(e)[:120])
    Q = Fs.inv() * Fout  # how far the box moved, in its own pixels
    mx, my = Q.m[2], Q.m[5]
    require(abs(mx) <= Fr(1, 2) + tol and abs(my) <= Fr(1, 2) + tol, "snap_to moved the box by (%.9g, %.9g) px (> 0.5)", float(mx), float(my))
    if any(abs(f) not in (0.0,) for f in (fx, fy)):
        T.nontrivial((fx, fy, base["klass"], base["family"]))
    T.cls("frac:%s" % max(abs(fx), abs(fy)))


# --------------------------------------------------------------------- enclosing
@st.composite
def s_enclosing(draw):
    other_crs = draw(st.booleans())
    if other_crs:
        # region given in lon/lat (4326), source grid in a projected CRS around the same place
        label = draw(st.sampled_from(["3857", "3577", "32633", "32755", "3035", "6933"]))
        lon0, lat0, lon1, lat1 = CRS_POOL[label][1]
        clon = draw(st.floats(lon0 + 1, lon1 - 1))
        clat = draw(st.floats(lat0 + 1, lat1 - 1))
        res = draw(st.sampled_from([10.0, 100.0, 1000.0, 250.0]))
        rot = draw(st.sampled_from([0.0, 0.0, 30.0]))
        sgn = draw(st.sampled_from([[1, -1], [1, 1], [-1, -1]]))
        # region: small polygon in degrees around the centre
        n = draw(st.integers(3, 6))
        span = draw(st.sampled_from([0.001, 0.01, 0.05, 1.0, 4.0, 10.0]))
        if span >= 1.0:
            # regions hundreds of km across: the sides of a lon/lat box are visibly curved on the projected grid
            res = draw(st.sampled_from([1000.0, 2500.0, 10000.0]))
        pts = [[clon + span * draw(st.floats(-1, 1)), clat + span * draw(st.floats(-1, 1))] for _ in range(n)]
        pts = [[max(lon0, min(lon1, x)), max(lat0, min(lat1, y))] for x, y in pts]
        return {"mode": "other", "label": label, "centre": [clon, clat], "res": res, "rot": rot, "sgn": sgn, "pts": pts,
                "as_bbox": draw(st.booleans()) or span >= 1.0 and draw(st.booleans())}
    base = draw(s_base())
    # region in pixel coordinates of the base grid, mapped to the world by the oracle
    n = draw(st.integers(3, 6))
    frac = st.sampled_from([0.0, 0.0, 0.5, 0.25, 1e-9, -1e-9, 0.999, 0.3])
    pts = [[draw(st.integers(-40, 40)) + draw(frac), draw(st.integers(-40, 40)) + draw(frac)] for _ in range(n)]
    return {"mode": "same", "base": base, "crs": draw(crs_tags(allow_none=False)), "pts": pts, "as_bbox": draw(st.booleans())}


def o_enclosing(case, T):
    from affine import Affine
    from odc.geo import geom
    from odc.geo.geobox import GeoBox
    from pyproj import Transformer

    if case["mode"] == "same":
        base = case["base"]
        A = mk_affine(base["affine"])
        crs = mk_crs_spec(case["crs"])
        src = GeoBox((7, 9), A, crs)
        wpts = [A * tuple(p) for p in case["pts"]]
        region_crs = src.crs
        fam_exact = base["family"] == "exact"
    else:
        label = case["label"]
        tr = Transformer.from_crs(4326, int(label), always_xy=True)
        cx, cy = tr.transform(*case["centre"])
        res = case["res"]
        sx, sy = case["sgn"]
        A = Affine.translation(round(cx / res) * res, round(cy / res) * res) * Affine.rotation(case["rot"]) * Affine.scale(sx * res, sy * res)
        src = GeoBox((50, 60), A, int(label))
        wpts = [tuple(p) for p in case["pts"]]
        region_crs = "epsg:4326"
        fam_exact = False
    xs = [p[0] for p in wpts]
    ys = [p[1] for p in wpts]
    if case["as_bbox"]:
        region = geom.BoundingBox(min(xs), min(ys), max(xs), max(ys), region_crs)
        ring = [(min(xs), min(ys)), (min(xs), max(ys)), (max(xs), max(ys)), (max(xs), min(ys))]
    else:
        ring = wpts
        region = geom.polygon([*wpts, wpts[0]], region_crs)
    out = src.enclosing(region)
    require(out.crs == src.crs, "enclosing changed CRS")
    # on the source grid: integer pixel translation
    P = FA.of(src.affine).inv() * FA.of(out.affine)
    a_, b_, c_, d_, e_, f_ = P.m
    tol = Fr(1, 10**6)
    require(abs(a_ - 1) < tol and abs(e_ - 1) < tol and abs(b_) < tol and abs(d_) < tol, "enclosing changed pixel size/orientation")
    require(abs(c_ - round(c_)) < tol and abs(f_ - round(f_)) < tol, "enclosing result is off the source grid by (%.9g, %.9g) px", float(c_), float(f_))
    # region vertices in the pixel plane of the result (oracle projection for the other-CRS case)
    sag = 0.0
    if case["mode"] == "other":
        if case["as_bbox"]:
            # a BoundingBox is the rectangle [x0,x1] x [y0,y1] of ITS crs: its sides are curves on this grid.  Truth =
            # 64 points per side; anything within the sag of a 16-segments-per-side outline is not judged
            import numpy as np

            R = np.asarray(ring, dtype="float64")
            nxt = np.roll(R, -1, axis=0)
            t = (np.arange(64) / 64)[None, :, None]
            dense = (R[:, None, :] * (1 - t) + nxt[:, None, :] * t).reshape(-1, 2)
            dx, dy = tr.transform(dense[:, 0], dense[:, 1])
            ring = [tuple(p) for p in dense]
            rx, ry = list(dx), list(dy)
            iS = ~src.affine
            P64 = np.array([iS * (float(x), float(y)) for x, y in zip(dx, dy)])
            for k in range(0, len(P64), 4):  # chords of the 16-segment outline
                p0, p1 = P64[k], P64[(k + 4) % len(P64)]
                v = p1 - p0
                L = float(np.hypot(*v)) or 1.0
                for q in P64[k + 1: k + 4]:
                    sag = max(sag, abs(float(v[0] * (q[1] - p0[1]) - v[1] * (q[0] - p0[0]))) / L)
            if sag > 0.01:
                T.cls("bbox_sides_curved>0.01px")
        else:
            rx, ry = tr.transform([p[0] for p in ring], [p[1] for p in ring])
        ring_w = list(zip(rx, ry))
    else:
        ring_w = ring
    inv = FA.of(out.affine).inv()
    pix = [inv * (Fr(float(x)), Fr(float(y))) for x, y in ring_w]
    px = [p[0] for p in pix]
    py = [p[1] for p in pix]
    ny, nx = out.shape
    slack = (Fr(1, 10**6) if not fam_exact else Fr(1, 10**9)) + Fr(1.1 * sag)
    require(min(px) >= -slack and max(px) <= nx + slack and min(py) >= -slack and max(py) <= ny + slack,
            "enclosing %r does not cover the region: region spans x[%.7g,%.7g] y[%.7g,%.7g] in its pixels, shape %r", out.shape, float(min(px)), float(max(px)), float(min(py)), float(max(py)), (ny, nx))
    # excess < 1 px per side (one pixel minimum)
    # "less than one pixel": strictly, where the arithmetic is exact (a region edge exactly on a pixel boundary needs
    # no extra pixel); with the stated slack otherwise
    import math as _m

    def _pow2(v):
        return v != 0 and _m.frexp(abs(v))[0] == 0.5

    # (exact = the pixel<->world maps are exact in floats: axis-aligned, power-of-two pixel size; otherwise the inverse
    # map carries rounding noise and a boundary value like 3.0000000000000004 legitimately rounds outwards)
    strict = fam_exact and case["mode"] == "same" and src.affine.b == 0 and src.affine.d == 0 and _pow2(src.affine.a) and _pow2(src.affine.e)
    for lo, hi, n, ax in ((min(px), max(px), nx, "x"), (min(py), max(py), ny, "y")):
        require(lo < 1 + (0 if strict and hi > lo else slack), "enclosing exceeds region by %.7g px on the low %s side", float(lo), ax)
        if n > 1 and (hi - lo) >= 1:
            require(n - hi < 1 + (0 if strict else slack), "enclosing exceeds region by %.7g px on the high %s side (n=%d)", float(n - hi), ax, n)
        elif n > 1:
            require(n - hi < 1 + slack, "enclosing exceeds region by %.7g px on the high %s side (n=%d)", float(n - hi), ax, n)
    if strict and any(v == int(v) for v in (max(px), max(py))):
        T.cls("region_edge_on_pixel_boundary")
    T.nontrivial()
    T.cls("mode:" + case["mode"])
    T.cls("bbox" if case["as_bbox"] else "polygon")


# --------------------------------------------------------------------- BoundingBox lattice
@st.composite
def s_bbox(draw):
    fam = draw(st.sampled_from(["int", "float"]))
    v = st.integers(-20, 20).map(float) if fam == "int" else st.one_of(st.floats(-1e7, 1e7), st.integers(-5, 5).map(float))

    def box():
        a, b = sorted([draw(v), draw(v)])
        c, d = sorted([draw(v), draw(v)])
        return [a, c, b, d]

    return {"boxes": [box(), box(), box()], "crs": draw(crs_tags()), "fam": fam}


def o_bbox(case, T):
    from odc.geo.geom import BoundingBox, bbox_intersection, bbox_union

    crs = mk_crs_spec(case["crs"])
    a, b, c = (BoundingBox(*bb, crs=crs) for bb in case["boxes"])

    def U(*bs):
        return (min(x[0] for x in bs), min(x[1] for x in bs), max(x[2] for x in bs), max(x[3] for x in bs))

    def I(*bs):
        return (max(x[0] for x in bs), max(x[1] for x in bs), min(x[2] for x in bs), min(x[3] for x in bs))

    A, B, C = (tuple(bb) for bb in case["boxes"])
    for r in (a | b, b | a, bbox_union([a, b]), bbox_union(iter([b, a]))):
        require(tuple(r) == U(A, B) and r.crs == a.crs, "union %r, expected %r", tuple(r), U(A, B))
    for r in (a & b, b & a, bbox_intersection([a, b])):
        require(tuple(r) == I(A, B) and r.crs == a.crs, "intersection %r, expected %r", tuple(r), I(A, B))
    require(tuple((a | b) | c) == tuple(a | (b | c)) == tuple(bbox_union([a, b, c])) == U(A, B, C), "union not associative")
    require(tuple((a & b) & c) == tuple(a & (b & c)) == tuple(bbox_intersection([a, b, c])) == I(A, B, C), "intersection not associative")
    require(tuple(a | a) == A and tuple(a & a) == A, "not idempotent")
    require(tuple(a | (a & b)) == A and tuple(a & (a | b)) == A, "absorption fails: a|(a&b)=%r a&(a|b)=%r a=%r", tuple(a | (a & b)), tuple(a & (a | b)), A)
    u = a | b
    for x in (A, B):
        require(u.left <= x[0] and u.bottom <= x[1] and u.right >= x[2] and u.top >= x[3], "union does not contain operand")
    i = a & b
    if i.left <= i.right and i.bottom <= i.top:
        for x in (A, B):
            require(i.left >= x[0] and i.bottom >= x[1] and i.right <= x[2] and i.top <= x[3], "intersection not contained in operand")
        T.cls("overlap")
        if i.left == i.right or i.bottom == i.top:
            T.cls("touching")
            T.nontrivial()
    else:
        T.cls("disjoint")
        T.nontrivial()
    require((a | b) == (b | a) and hash(a | b) == hash(b | a), "union results unequal as objects")


def build(chk: Check) -> None:
    chk.sub("setops", o_setops, cov={"quick": 1200, "thorough": 150000}, strategy=s_setops(), n={"quick": 2500, "thorough": 300000})
    chk.sub("reject", o_reject, cov={"quick": 1200, "thorough": 150000}, strategy=s_reject(), n={"quick": 2500, "thorough": 300000})
    chk.sub("snap_to", o_snap, cov={"quick": 1200, "thorough": 150000}, strategy=s_snap(), n={"quick": 3000, "thorough": 300000})
    chk.sub("enclosing", o_enclosing, strategy=s_enclosing(), n={"quick": 2500, "thorough": 200000})
    chk.sub("bbox_lattice", o_bbox, strategy=s_bbox(), n={"quick": 5000, "thorough": 500000})
