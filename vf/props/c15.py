"""C15 - GeoTIFF/COG written through GDAL reads back identical (odc.geo.cog._rio)."""
from __future__ import annotations

import io
import itertools
import math
import os
from pathlib import Path

import numpy as np
from hypothesis import strategies as st

from vf.common import Check, Violation, require
from vf.strategies import _pyproj, affines, crs_tags, mk_affine, mk_crs_spec

# CRSs without an authority code that resemble EPSG ones (an EPSG "best guess" exists at pyproj's default
# confidence, but datum/ellipsoid differ): the file must describe THIS CRS, not the look-alike
CUSTOM_CRS = {
    "utm33grs80": "+proj=utm +zone=33 +ellps=GRS80 +units=m +no_defs +type=crs",
    "aea_grs80": "+proj=aea +lat_0=0 +lon_0=132 +lat_1=-18 +lat_2=-36 +x_0=0 +y_0=0 +ellps=GRS80 +units=m +no_defs +type=crs",
    "laea_sphere": "+proj=laea +lat_0=52 +lon_0=10 +x_0=4321000 +y_0=3210000 +R=6371000 +units=m +no_defs +type=crs",
    "tmerc_wgs84": "+proj=tmerc +lat_0=0 +lon_0=15 +k=0.9996 +x_0=500000 +y_0=0 +ellps=WGS84 +units=m +no_defs +type=crs",
}


def _crs_spec(tag):
    if tag["label"].startswith("custom:"):
        ps = CUSTOM_CRS[tag["label"].split(":", 1)[1]]
        if tag["spell"] == "wkt2":
            from pyproj import CRS as P

            return P.from_user_input(ps).to_wkt()
        return ps
    return mk_crs_spec(tag)

RULE = (
    "Hypothesis cases: image shape 1..700 per side (tiny 1..24, small 25..300, 1-2 pixel strips up to 700, sides in "
    "{511,512,513} around the 512 default-overview rule, large 514..700), layout YX / band-first / band-last with "
    "1..5 bands, up to 24 on tiny images (band-last passed as a strided view or contiguous), dtypes u1,i1,u2,i2,u4,i4,f4,f8 with a "
    "position-and-band dependent pixel pattern (dtype extremes, NaN for floats), nodata absent / in attrs / as "
    "keyword / both, CRS tag pool (all spellings), north-up / mirrored / rotated / sheared affines (exact dyadic and "
    "general floats), blocksize (multiples of 16 and not, below and above the image size), ovr_blocksize, "
    "overview_levels None/[]/[2]/[2,4]/[2,4,8]/[3]/[4]/[2..32] cut to the prefix GDAL can represent, 8 resampling "
    "names, windowed writes, intermediate compression, extra lossless creation options, destination to_cog / "
    "write_cog(':mem:') / file (str or Path, overwrite omitted/False/True); supplied overviews through "
    "to_cog/write_cog(overviews=) and write_cog_layers; pre-existing destination (junk, empty, valid TIFF) with "
    "overwrite False then True. Oracle: rasterio (pixels, dtype, count, transform, CRS, nodata, overview pixels) "
    "and tifffile (IFD list, tile tags). Non-trivial: multi-band or band-last, or overviews present, or block size "
    "shrunk to a small image, or an existing destination; distinct = distinct case."
)
ASSUMPTIONS = [
    "rasterio (pixels/metadata) and tifffile (IFD and tile structure) are the independent readers",
    "GeoTIFF stores the six affine coefficients as IEEE doubles, so the transform is compared for exact equality "
    "with the transform the array carries (xx.odc.geobox); cases where that differs from the wrapped GeoBox by "
    "more than 1e-3 px are C09's domain and are excluded and counted",
    "'under 512 pixels' is read as: the smaller image side is < 512; the documented default list is [2,4,8,16,32]",
    "an overview of level k has each side in {floor(n/k), ceil(n/k)} (>=1); level lists are cut (by the generator) "
    "to the prefix whose overview sizes are pairwise distinct and differ from the image (GDAL merges equal sizes "
    "and refuses a second 1x1 level)",
    "block rule: block = ceil16(blocksize) when the side >= blocksize, else ceil16(side) (adjust_blocksize as "
    "documented in _shared.py); overview tiles equal ovr_blocksize (default blocksize) only when that is a power "
    "of two in [64,4096] (GDAL_TIFF_OVR_BLOCKSIZE contract), otherwise only 'multiple of 16' is demanded",
    "computed overviews: only their number, sizes, band count, dtype, tiling and (nearest resampling) that every "
    "overview pixel is a pixel value of the same band are checked, not GDAL's resampling arithmetic",
    "band-first arrays with bands == ny == nx cannot be told from band-last by a raw ndarray: excluded",
]
SHARDS = {"quick": 4, "thorough": 16}

DTYPES = ["uint8", "int8", "uint16", "int16", "uint32", "int32", "float32", "float64", "float16"]
RESAMPLING = [None, "nearest", "nearest", "average", "bilinear", "cubic", "mode", "gauss", "lanczos", "cubic_spline"]
DEFAULT_LEVELS = [2, 4, 8, 16, 32]

_counter = itertools.count()


# ----------------------------------------------------------------------------- pure helpers (oracle side)
def ceil16(n: int) -> int:
    return ((int(n) + 15) // 16) * 16


def expected_block(blocksize, dim: int) -> int:
    bs = 512 if blocksize is None else int(blocksize)
    return ceil16(dim) if dim < bs else ceil16(bs)


def level_sizes(ny: int, nx: int, k: int):
    """Acceptable (rows, cols) of an overview with shrink factor k."""
    ys = {max(1, ny // k), -(-ny // k)}
    xs = {max(1, nx // k), -(-nx // k)}
    return ys, xs


def representable_prefix(levels, ny: int, nx: int):
    """Longest prefix of ``levels`` whose GDAL overview sizes are pairwise distinct and differ from the image."""
    seen = {(ny, nx)}
    out = []
    for k in levels:
        s = (-(-ny // k), -(-nx // k))
        s2 = (max(1, ny // k), max(1, nx // k))
        if s in seen or s2 in seen:
            break
        seen.add(s)
        seen.add(s2)
        out.append(k)
    return out


def mk_pixels(nb: int, ny: int, nx: int, dtype: str, seed: int) -> np.ndarray:
    """(nb, ny, nx) pattern: asymmetric in y/x, band b only holds values == b (mod nb) (except 2 extreme pixels)."""
    dt = np.dtype(dtype)
    y = np.arange(ny, dtype=np.int64).reshape(1, ny, 1)
    x = np.arange(nx, dtype=np.int64).reshape(1, 1, nx)
    b = np.arange(nb, dtype=np.int64).reshape(nb, 1, 1)
    h = y * 7919 + x * 104729 + (y * x) * 31 + (y // 3) * 1299709 + seed * 15485863 + b * 613
    if dt.kind in "iu":
        info = np.iinfo(dt)
        span = int(info.max) - int(info.min) + 1
        slots = max(1, min(span // nb, 2**31))
        v = int(info.min) + (h % slots) * nb + b
        out = v.astype(dt)
        out[:, 0, 0] = info.max
        out[:, -1, -1] = info.min
    else:
        slots = 2**20 // nb
        k = (h % slots) * nb + b
        out = ((k - 2**19) * 0.25).astype(dt)
        fi = np.finfo(dt)
        out[:, 0, 0] = fi.max
        out[:, -1, -1] = -fi.tiny
        if seed % 2 and ny * nx > 2:
            out[:, ny // 2, nx // 2] = np.nan
        if seed % 3 == 0 and ny * nx > 4:
            out[:, (ny - 1) // 2, (nx - 1) // 2] = -np.inf
    return out


def same_pixels(a: np.ndarray, b: np.ndarray) -> bool:
    if a.shape != b.shape or a.dtype != b.dtype:
        return False
    if a.dtype.kind == "f":
        return bool(np.array_equal(a, b, equal_nan=True))
    return bool(np.array_equal(a, b))


def first_diff(a: np.ndarray, b: np.ndarray) -> str:
    if a.shape != b.shape:
        return f"shape {a.shape} vs {b.shape}"
    if a.dtype.kind == "f":
        bad = ~((a == b) | (np.isnan(a) & np.isnan(b)))
    else:
        bad = a != b
    idx = np.argwhere(bad)
    if len(idx) == 0:
        return "no difference"
    i = tuple(int(v) for v in idx[0])
    return f"{len(idx)} of {a.size} differ, first at [band,y,x]={list(i)}: got {a[i]!r} want {b[i]!r}"


def same_nodata(got, want) -> bool:
    if want is None or got is None:
        return got is None and want is None
    if isinstance(want, float) and math.isnan(want):
        return isinstance(got, float) and math.isnan(got)
    return float(got) == float(want)


# ----------------------------------------------------------------------------- building the input
def build_input(img: dict):
    """case['img'] -> (DataArray, canonical (nb,ny,nx) pixels, original Affine, GeoBox)."""
    from odc.geo.geobox import GeoBox

    ny, nx = img["shape"]
    nb = img["nb"]
    layout = img["layout"]
    A = mk_affine(img["affine"])
    gbox = GeoBox((ny, nx), A, _crs_spec(img["crs"]))
    syx = mk_pixels(nb, ny, nx, img["dtype"], img["seed"])
    attrs = {}
    nd = img["nodata"]
    if nd["mode"] in ("attr", "both"):
        attrs["nodata"] = nd["attr"]
    xx = wrap_layer(syx, gbox, layout, img.get("contig", True), img.get("bandname", "band"), attrs)
    return xx, syx, A, gbox


def wrap_layer(syx: np.ndarray, gbox, layout: str, contig: bool, bandname: str, attrs: dict):
    import xarray as xr
    from odc.geo.xr import wrap_xr, xr_coords

    if layout == "YX":
        return wrap_xr(syx[0], gbox, **attrs)
    if layout == "YXS":
        im = syx.transpose(1, 2, 0)
        if contig:
            im = np.ascontiguousarray(im)
        return wrap_xr(im, gbox, **attrs)
    assert layout == "SYX"
    return xr.DataArray(syx, dims=(bandname, *gbox.dimensions), coords=xr_coords(gbox), attrs=dict(attrs))


def expected_nodata(img: dict):
    nd = img["nodata"]
    if nd["mode"] in ("kwarg", "both"):
        return nd["kwarg"]
    if nd["mode"] == "attr":
        return nd["attr"]
    return None


def common_kwargs(case: dict) -> dict:
    o = case["opts"]
    kw = {}
    for k in ("blocksize", "ovr_blocksize"):
        if o.get(k) is not None:
            kw[k] = o[k]
    if o.get("windowed"):
        kw["use_windowed_writes"] = True
    if o.get("icomp") not in (None, False):
        kw["intermediate_compression"] = o["icomp"]
    if o.get("extra"):
        kw.update(o["extra"])
    nd = case["img"]["nodata"]
    if nd["mode"] in ("kwarg", "both"):
        kw["nodata"] = nd["kwarg"]
    return kw


def scratch_path(tag: str) -> str:
    d = os.environ.get("VF_SCRATCH")
    if not d:  # --replay runs in-process without a shard scratch dir: private temp dir, removed at exit
        import atexit
        import shutil
        import tempfile

        d = tempfile.mkdtemp(prefix="vf-c15-")
        os.environ["VF_SCRATCH"] = d
        atexit.register(shutil.rmtree, d, True)
    sub = os.path.join(d, "c15")
    os.makedirs(sub, exist_ok=True)
    return os.path.join(sub, f"{tag}-{os.getpid()}-{next(_counter)}.tif")


def result_bytes(ret, dest) -> bytes:
    """Documented return: bytes for ':mem:', Path of the written file otherwise."""
    if dest is None:
        require(isinstance(ret, bytes), "memory destination must return bytes, got %s", type(ret).__name__)
        return ret
    require(isinstance(ret, Path), "file destination must return a Path, got %s", type(ret).__name__)
    require(Path(ret) == Path(dest), "returned path %s is not the destination %s", ret, dest)
    require(os.path.isfile(dest), "destination file %s does not exist after the write", dest)
    with open(dest, "rb") as f:
        return f.read()


def cleanup(*paths) -> None:
    for p in paths:
        if p is None:
            continue
        d = os.path.dirname(p)
        base = os.path.basename(p)
        try:
            for name in os.listdir(d):
                if name.startswith(base):
                    os.unlink(os.path.join(d, name))
        except OSError:
            pass


# ----------------------------------------------------------------------------- reading back + verdict
def check_preconditions(case, xx, A, T) -> bool:
    """False (and counted) when the case is oracle-ambiguous."""
    img = case["img"]
    ny, nx = img["shape"]
    if img["layout"] != "YX" and img["nb"] == ny == nx:
        # bands == ny == nx: the *shape* no longer tells the axis order, the DataArray's dimension names still do
        T.cls("cube_bands==ny==nx:" + img["layout"])
    g = xx.odc.geobox
    if g is None:
        T.exclude("xr_geobox_missing(C09)")
        return False
    B = g.transform
    px = max(math.hypot(A.a, A.d), math.hypot(A.b, A.e))
    for (i, j) in ((0, 0), (nx, 0), (0, ny), (nx, ny)):
        p, q = A * (i, j), B * (i, j)
        if not math.hypot(p[0] - q[0], p[1] - q[1]) <= 1e-3 * px:
            T.exclude("xr_geobox_differs_from_wrapped(C09)")
            return False
    if img["family"] == "exact" and tuple(B)[:6] != tuple(A)[:6]:
        T.exclude("xr_geobox_inexact_on_exact_family(C09)")
        return False
    return True


def verify(data: bytes, *, syx, transform, label, nodata, blocksize, ovr_block, levels=None, layers=None,
           nearest=False, what="") -> None:
    """Decode ``data`` with rasterio + tifffile and compare with the expectation.

    levels: list of shrink factors of computed overviews; layers: list of (nb,ny,nx) arrays stored verbatim.
    """
    import tifffile
    from rasterio.io import MemoryFile

    nb, ny, nx = syx.shape
    n_ovr = len(layers) if layers is not None else len(levels)

    # ---- TIFF structure: independent reader
    with tifffile.TiffFile(io.BytesIO(data)) as tf:
        pages = list(tf.pages)
        struct = []
        for p in pages:
            tags = p.tags
            tw = tags.get(322)
            tl = tags.get(323)
            struct.append(
                (int(p.imagelength), int(p.imagewidth), None if tw is None else int(tw.value),
                 None if tl is None else int(tl.value), 324 in tags, 273 in tags)
            )
    require(len(struct) >= 1, "%sno image in the file", what)
    require(len(struct) == 1 + n_ovr, "%sfile holds %d overview image(s) %r, requested %d %s", what, len(struct) - 1,
            [s[:2] for s in struct[1:]], n_ovr, "levels %r" % (levels,) if layers is None else "supplied layers")
    for i, (h, w, tw, tl, has_tiles, has_strips) in enumerate(struct):
        nm = "full image" if i == 0 else f"overview {i}"
        require(tw is not None and tl is not None and has_tiles and not has_strips,
                "%s%s (%dx%d) is not internally tiled (TileWidth/TileLength/TileOffsets tags missing)", what, nm, h, w)
        require(tw % 16 == 0 and tl % 16 == 0 and tw > 0 and tl > 0,
                "%s%s has tile size %dx%d, not multiples of 16", what, nm, tl, tw)
    h0, w0, tw0, tl0 = struct[0][:4]
    require((h0, w0) == (ny, nx), "%sfull image is %dx%d, wrote %dx%d", what, h0, w0, ny, nx)
    eb = (expected_block(blocksize, ny), expected_block(blocksize, nx))
    require((tl0, tw0) == eb, "%sblock size (rows,cols)=%r, layout rule gives %r for blocksize=%r image %dx%d",
            what, (tl0, tw0), eb, blocksize, ny, nx)
    for i in range(n_ovr):
        h, w, tw, tl = struct[1 + i][:4]
        if layers is not None:
            want = layers[i].shape[1:]
            require((h, w) == tuple(want), "%ssupplied overview %d stored as %dx%d, supplied %r", what, i, h, w, want)
        else:
            ys, xs = level_sizes(ny, nx, levels[i])
            require(h in ys and w in xs, "%soverview %d is %dx%d; level %d of %dx%d should be %s x %s (levels %r)",
                    what, i, h, w, levels[i], ny, nx, sorted(ys), sorted(xs), levels)
        if ovr_block is not None:
            require((tl, tw) == (ovr_block, ovr_block), "%soverview %d tile size %dx%d, requested ovr block %d",
                    what, i, tl, tw, ovr_block)

    # ---- pixels and geo-metadata: rasterio
    with MemoryFile(data) as mem:
        with mem.open() as f:
            require(f.driver == "GTiff", "%snot a GeoTIFF: driver %s", what, f.driver)
            require(f.count == nb, "%sband count %d, wrote %d", what, f.count, nb)
            require((f.height, f.width) == (ny, nx), "%sraster size %dx%d, wrote %dx%d", what, f.height, f.width, ny, nx)
            require(all(d == syx.dtype.name for d in f.dtypes), "%sdtypes %r, wrote %s", what, f.dtypes, syx.dtype.name)
            got_t = tuple(float(v) for v in tuple(f.transform)[:6])
            require(got_t == tuple(transform), "%stransform read back %r, array has %r", what, got_t, tuple(transform))
            crs = f.crs
            require(crs is not None, "%sno CRS in file, expected %s", what, label)
            if label.startswith("custom:"):
                from pyproj import CRS as P

                want_crs = P.from_user_input(CUSTOM_CRS[label.split(":", 1)[1]])
                require(P.from_wkt(crs.to_wkt()).equals(want_crs, ignore_axis_order=True),
                        "%sCRS in the file (%s) is not the authority-less CRS that was written (%s)", what, (crs.to_string() or "")[:60], label)
            elif label != "sinu":
                require(crs.to_epsg() == int(label), "%sCRS reads back as EPSG:%r, expected EPSG:%s", what, crs.to_epsg(), label)
            else:
                from pyproj import CRS as P

                require(P.from_wkt(crs.to_wkt()).equals(_pyproj(label), ignore_axis_order=True),
                        "%sCRS differs from the sinusoidal CRS written", what)
            for v in f.nodatavals:
                require(same_nodata(v, nodata), "%snodata reads back %r (per band %r), expected %r", what, f.nodata, f.nodatavals, nodata)
            require(same_nodata(f.nodata, nodata), "%snodata reads back %r, expected %r", what, f.nodata, nodata)
            for bi in f.indexes:
                require(len(f.overviews(bi)) == n_ovr, "%sband %d reports %d overviews, expected %d", what, bi, len(f.overviews(bi)), n_ovr)
            bs = f.block_shapes
            require(all(tuple(s) == (tl0, tw0) for s in bs), "%srasterio block shapes %r disagree with TIFF tags %r", what, bs, (tl0, tw0))
            pix = f.read()
        require(same_pixels(pix, syx), "%spixels differ: %s", what, first_diff(pix, syx) if pix.dtype == syx.dtype else f"dtype {pix.dtype}")
        for i in range(n_ovr):
            with mem.open(overview_level=i) as g:
                require(g.count == nb, "%soverview %d has %d bands, expected %d", what, i, g.count, nb)
                require(all(d == syx.dtype.name for d in g.dtypes), "%soverview %d dtypes %r", what, i, g.dtypes)
                opix = g.read()
            if layers is not None:
                require(same_pixels(opix, layers[i]), "%ssupplied overview %d not stored verbatim: %s", what, i,
                        first_diff(opix, layers[i]) if opix.shape == layers[i].shape else f"shape {opix.shape}")
            elif nearest:
                for b in range(nb):
                    src = syx[b].ravel()
                    o = opix[b].ravel()
                    if src.dtype.kind == "f":
                        ok = np.isin(o[~np.isnan(o)], src[~np.isnan(src)]).all() and (not np.isnan(o).any() or np.isnan(src).any())
                    else:
                        ok = np.isin(o, src).all()
                    require(bool(ok), "%snearest-resampled overview %d band %d holds values that are not pixels of that band", what, i, b + 1)


def content_checkable(levels, ny: int, nx: int) -> bool:
    """GDAL leaves an overview unfilled (zeros / nodata) when it cannot recognise its factor from the sizes
    (level 3 on a width of 9 looks like level 4; a level above a side length).  That is GDAL's arithmetic, not
    the property: overview *content* is only looked at for power-of-two levels with every overview side >= 2."""
    return bool(levels) and all(k & (k - 1) == 0 and 2 * k <= min(ny, nx) for k in levels)


def effective_ovr_block(opts: dict):
    v = opts.get("ovr_blocksize")
    if v is None:
        v = opts.get("blocksize")
    if v is None:
        v = 512
    if 64 <= v <= 4096 and v & (v - 1) == 0:
        return int(v)
    return None


def classify(case, T, n_ovr: int, existing: bool = False) -> None:
    img, o = case["img"], case["opts"]
    ny, nx = img["shape"]
    bs = 512 if o.get("blocksize") is None else o["blocksize"]
    shrunk = ny < bs or nx < bs
    T.cls("layout=" + img["layout"])
    T.cls("dtype=" + img["dtype"])
    T.cls("size=" + img["kind"])
    T.cls("transform=" + ("rotated" if (img["affine"][1] != 0 or img["affine"][3] != 0) else
                          "mirrored" if (img["affine"][0] < 0 or img["affine"][4] > 0) else "north_up"))
    T.cls("family=" + img["family"])
    T.cls("nodata=" + img["nodata"]["mode"])
    T.cls("blocksize=" + ("default" if o.get("blocksize") is None else "mult16" if o["blocksize"] % 16 == 0 else "not_mult16"))
    T.cls("block_shrunk" if shrunk else "block_full")
    T.cls("overviews=%d" % n_ovr if n_ovr < 3 else "overviews>=3")
    if o.get("windowed"):
        T.cls("windowed")
    if o.get("icomp") not in (None, False):
        T.cls("intermediate_compression")
    if o.get("extra"):
        T.cls("extra_opts")
    if min(ny, nx) >= 512:
        T.cls("min_side>=512")
    elif max(ny, nx) >= 512:
        T.cls("one_side>=512")
    if 1 in (ny, nx):
        T.cls("one_pixel_side")
    if img["nb"] > 1 or img["layout"] == "YXS" or n_ovr > 0 or shrunk or existing:
        T.nontrivial()


# ----------------------------------------------------------------------------- strategies
@st.composite
def s_shape(draw, kinds):
    kind = draw(st.sampled_from(kinds))
    if kind == "tiny":
        side = st.one_of(st.just(1), st.integers(2, 24), st.integers(2, 24), st.integers(2, 24))
        ny, nx = draw(side), draw(side)
    elif kind == "small":
        ny, nx = draw(st.integers(15, 300)), draw(st.integers(15, 300))
    elif kind == "strip":
        a = draw(st.sampled_from([1, 1, 2]))
        b = draw(st.one_of(st.integers(1, 100), st.integers(100, 700), st.sampled_from([511, 512, 513, 700])))
        ny, nx = (a, b) if draw(st.booleans()) else (b, a)
    elif kind == "b512":
        a = draw(st.sampled_from([511, 512, 512, 513]))
        b = draw(st.sampled_from([511, 512, 513, 520, 600, 700, 30, 100, 256]))
        ny, nx = (a, b) if draw(st.booleans()) else (b, a)
    else:  # large
        ny, nx = draw(st.integers(514, 700)), draw(st.integers(514, 700))
    return kind, ny, nx


def _nodata_values(dtype: str):
    dt = np.dtype(dtype)
    if dt.kind == "f":
        return [float("nan"), -9999.0, 0.0, -1.0, 255.0, -32768.0, 0.5]
    info = np.iinfo(dt)
    vals = [0, 1, int(info.max), int(info.min), 100]
    if info.min < 0:
        vals.append(-1)
    return sorted(set(vals))


@st.composite
def s_nodata(draw, dtype):
    mode = draw(st.sampled_from(["none", "attr", "attr", "kwarg", "both"]))
    vals = _nodata_values(dtype)
    out = {"mode": mode}
    if mode in ("attr", "both"):
        out["attr"] = draw(st.sampled_from(vals))
    if mode in ("kwarg", "both"):
        others = [v for v in vals if not ("attr" in out and (v == out["attr"] or (v != v and out["attr"] != out["attr"])))]
        out["kwarg"] = draw(st.sampled_from(others))
    return out


@st.composite
def s_img(draw, kinds):
    kind, ny, nx = draw(s_shape(kinds))
    layout = draw(st.sampled_from(["YX", "YX", "SYX", "SYX", "YXS", "YXS", "YXS"]))
    big = kind in ("b512", "large") or max(ny, nx) > 300
    if layout == "YX":
        nb = 1
    elif big:
        nb = draw(st.sampled_from([1, 2, 3]))
        if nb == ny == nx:
            nb += 1
    else:
        opts = [1, 2, 3, 3, 4, 5]
        if kind == "tiny":
            opts += [ny, nx]
        nb = draw(st.sampled_from(opts))
        if nb == ny == nx:  # accidental cube: ambiguous layout, keep it out (the deliberate one follows)
            nb += 1
        if kind == "tiny" and draw(st.integers(0, 9)) == 0:  # the cube: the shape is ambiguous, the dimension names are not
            nb = ny = nx = draw(st.integers(1, 6))
    dtype = draw(st.sampled_from(DTYPES if not big else DTYPES + ["uint8", "int16", "uint8"]))
    # a rotated box with a one-pixel side does not survive wrap_xr -> .odc.geobox (C09's domain, excluded by the
    # oracle): generate it rarely so that cases are not wasted
    rot = False if (1 in (ny, nx) and draw(st.integers(0, 5)) > 0) else None
    coeffs, fam, klass = draw(affines(rotated=rot))
    crs = draw(crs_tags(allow_none=False))
    if draw(st.integers(0, 6)) == 0:
        crs = {"label": "custom:" + draw(st.sampled_from(sorted(CUSTOM_CRS))), "spell": draw(st.sampled_from(["proj", "wkt2"]))}
    return {
        "kind": kind,
        "shape": [ny, nx],
        "layout": layout,
        "nb": nb,
        "dtype": dtype,
        "seed": draw(st.integers(0, 999)),
        "contig": draw(st.booleans()),
        "bandname": draw(st.sampled_from(["band", "time", "z"])),
        "affine": coeffs,
        "family": fam,
        "klass": klass,
        "crs": crs,
        "nodata": draw(s_nodata(dtype)),
    }


@st.composite
def s_opts(draw):
    return {
        "blocksize": draw(st.sampled_from([None, None, None, 16, 32, 64, 128, 256, 512, 1024, 17, 100, 250, 500, 8, 48, 200])),
        "ovr_blocksize": draw(st.sampled_from([None, None, None, 64, 128, 256, 512, 48, 32, 100])),
        "windowed": draw(st.sampled_from([False, False, True])),
        "icomp": draw(st.sampled_from([False, False, False, True, "deflate", "zstd", "lzw", {"compress": "deflate", "zlevel": 1}])),
        "extra": draw(st.sampled_from([None] * 8 + [{"compress": "zstd"}, {"compress": "lzw"}, {"zlevel": 1}, {"predictor": 1}])),
    }


KINDS_MAIN = ["tiny"] * 6 + ["small"] * 3 + ["strip"] * 2 + ["b512"] * 2 + ["large"]
KINDS_LIGHT = ["tiny"] * 8 + ["small"] * 4 + ["strip"] * 2 + ["b512"]

LEVEL_CHOICES = [None, None, None, [], [2], [2], [2, 4, 8], [2, 4, 8], [2, 4], [4], [3], [2, 4, 8, 16, 32]]


@st.composite
def s_roundtrip(draw):
    img = draw(s_img(KINDS_MAIN))
    opts = draw(s_opts())
    ny, nx = img["shape"]
    lv = draw(st.sampled_from(LEVEL_CHOICES))
    if img["kind"] == "b512" and draw(st.booleans()):
        lv = None  # the default rule is what this class is for
    requested = lv
    if lv:
        lv = representable_prefix(lv, ny, nx)
    opts["levels"] = lv
    opts["levels_cut"] = bool(requested) and lv != requested
    opts["resampling"] = draw(st.sampled_from(RESAMPLING))
    dest = draw(st.sampled_from(["to_cog", "to_cog", "mem", "mem", "file_str", "file_path", "file_str"]))
    ow = draw(st.sampled_from(["omit", "omit", False, True]))
    return {"img": img, "opts": opts, "dest": dest, "overwrite": ow}


@st.composite
def s_layers(draw):
    img = draw(s_img(KINDS_LIGHT))
    opts = draw(s_opts())
    ny, nx = img["shape"]
    nmax = draw(st.sampled_from([1, 1, 2, 2, 3, 5]))
    shapes = []
    prev = (ny, nx)
    for i in range(1, nmax + 1):
        s = (-(-ny // 2**i), -(-nx // 2**i))
        if s == prev:
            break
        shapes.append(list(s))
        prev = s
    api = draw(st.sampled_from(["to_cog", "write_cog", "write_cog", "layers", "layers", "layers_default_dst"]))
    dest = "mem" if api in ("to_cog", "layers_default_dst") else draw(st.sampled_from(["mem", "file_str", "file_path"]))
    ow = draw(st.sampled_from(["omit", "omit", False, True]))
    return {"img": img, "opts": opts, "ovr_shapes": shapes, "ovr_mode": draw(st.sampled_from(["fresh", "fresh", "slice"])),
            "api": api, "dest": dest, "overwrite": ow,
            # GDAL configuration the caller's process happens to run under (the usual cloud settings)
            "gdal_env": draw(st.sampled_from([None, None, None, {"GDAL_DISABLE_READDIR_ON_OPEN": "EMPTY_DIR"}, {"GDAL_DISABLE_READDIR_ON_OPEN": "TRUE"},
                                              {"GDAL_DISABLE_READDIR_ON_OPEN": "EMPTY_DIR", "CPL_VSIL_CURL_ALLOWED_EXTENSIONS": ".tif"}]))}


@st.composite
def s_existing(draw):
    img = draw(s_img(["tiny"] * 6 + ["small"] * 3 + ["strip"]))
    opts = draw(s_opts())
    ny, nx = img["shape"]
    api = draw(st.sampled_from(["write_cog", "write_cog", "write_cog_overviews", "layers"]))
    lv = draw(st.sampled_from([None, [], [2], [2, 4]]))
    if lv:
        lv = representable_prefix(lv, ny, nx)
    opts["levels"] = lv
    opts["resampling"] = None
    s = (-(-ny // 2), -(-nx // 2))
    shapes = [list(s)] if (api != "write_cog" and s != (ny, nx) and draw(st.booleans())) else []
    return {"img": img, "opts": opts, "api": api, "ovr_shapes": shapes,
            "prior": draw(st.sampled_from(["junk", "junk", "empty", "tiff", "tiff"])),
            "refuse": draw(st.sampled_from(["omit", False])),
            "path_kind": draw(st.sampled_from(["str", "path"]))}


# ----------------------------------------------------------------------------- oracles
def _levels_expected(case) -> list:
    ny, nx = case["img"]["shape"]
    lv = case["opts"].get("levels")
    if lv is None:
        return [] if min(ny, nx) < 512 else list(DEFAULT_LEVELS)
    return list(lv)


def _levels_ok(case, T) -> bool:
    ny, nx = case["img"]["shape"]
    lv = case["opts"].get("levels")
    if lv and representable_prefix(lv, ny, nx) != list(lv):
        T.exclude("levels_not_representable_for_size")
        return False
    return True


def _mk_dest(kind: str):
    """-> (argument to pass, path string or None)"""
    if kind in ("to_cog", "mem"):
        return ":mem:", None
    p = scratch_path("rt")
    return (Path(p) if kind in ("file_path", "path") else p), p


def o_roundtrip(case, T):
    img, o = case["img"], case["opts"]
    xx, syx, A, gbox = build_input(img)
    if not check_preconditions(case, xx, A, T) or not _levels_ok(case, T):
        return
    transform = tuple(float(v) for v in tuple(xx.odc.geobox.transform)[:6])
    kw = common_kwargs(case)
    if o.get("levels") is not None:
        kw["overview_levels"] = list(o["levels"])
    if o.get("resampling") is not None:
        kw["overview_resampling"] = o["resampling"]
    arg, path = _mk_dest(case["dest"])
    try:
        if case["dest"] == "to_cog":
            ret = xx.odc.to_cog(**kw)
        else:
            if path is not None and case["overwrite"] != "omit":
                kw["overwrite"] = case["overwrite"]
            ret = xx.odc.write_cog(arg, **kw)
        data = result_bytes(ret, path)
    finally:
        cleanup(path)
    levels = _levels_expected(case)
    verify(data, syx=syx, transform=transform, label=img["crs"]["label"], nodata=expected_nodata(img),
           blocksize=o.get("blocksize"), ovr_block=effective_ovr_block(o), levels=levels,
           nearest=o.get("resampling") in (None, "nearest") and content_checkable(levels, *img["shape"]))
    # the input must not be modified by the write
    require(same_pixels(mk_pixels(img["nb"], *img["shape"], img["dtype"], img["seed"]), syx), "input array was modified by the write")
    classify(case, T, len(levels))
    T.cls("dest=" + case["dest"])
    T.cls("levels=" + ("default" if o.get("levels") is None else "empty" if not o["levels"] else "explicit"))
    if o.get("levels") is None and min(img["shape"]) >= 512:
        T.cls("default_levels_applied")
    if o.get("levels_cut"):
        T.cls("levels_cut_to_representable")
    if o.get("resampling"):
        T.cls("resampling=" + o["resampling"])


def _ovr_layers(case, xx, syx, gbox):
    """-> (list of DataArrays, list of canonical (nb,h,w) arrays)"""
    from affine import Affine
    from odc.geo.geobox import GeoBox

    img = case["img"]
    ny, nx = img["shape"]
    out_x, out_p = [], []
    for i, (h, w) in enumerate(case["ovr_shapes"], start=1):
        k = 2**i
        if case.get("ovr_mode") == "slice":
            sd = xx.odc.spatial_dims
            ox = xx.isel({sd[0]: slice(None, None, k), sd[1]: slice(None, None, k)})
            op = syx[:, ::k, ::k]
            assert op.shape[1:] == (h, w)
        else:
            og = GeoBox((h, w), gbox.transform * Affine.scale(k), gbox.crs)
            op = mk_pixels(img["nb"], h, w, img["dtype"], img["seed"] + 17 * i)
            attrs = {"nodata": img["nodata"]["attr"]} if img["nodata"]["mode"] in ("attr", "both") else {}
            ox = wrap_layer(op, og, img["layout"], img.get("contig", True), img.get("bandname", "band"), attrs)
        out_x.append(ox)
        out_p.append(np.array(op))
    return out_x, out_p


def _call_layers_api(api, xx, ovr_x, arg, kw):
    from odc.geo.cog import write_cog_layers

    if api == "to_cog":
        return xx.odc.to_cog(overviews=ovr_x, **kw)
    if api in ("write_cog", "write_cog_overviews"):
        return xx.odc.write_cog(arg, overviews=iter(ovr_x), **kw)
    if api == "layers_default_dst":
        return write_cog_layers(iter([xx, *ovr_x]), **kw)
    return write_cog_layers([xx, *ovr_x], arg, **kw)


def o_layers(case, T):
    img, o = case["img"], case["opts"]
    xx, syx, A, gbox = build_input(img)
    if not check_preconditions(case, xx, A, T):
        return
    if case.get("ovr_mode") == "slice" and not gbox.axis_aligned:
        case = dict(case, ovr_mode="fresh")  # slicing pixel-coordinate axes of a rotated array is C09's business
    transform = tuple(float(v) for v in tuple(xx.odc.geobox.transform)[:6])
    if img["layout"] != "YX" and any(h == w == img["nb"] for h, w in case["ovr_shapes"]):
        # e.g. the 3x3 level of a 3-band band-first pyramid: its dimension names say which axis is the band
        T.cls("overview_layer_cube_bands==h==w")
    ovr_x, ovr_p = _ovr_layers(case, xx, syx, gbox)
    for ox in ovr_x:
        if ox.odc.geobox is None:
            T.exclude("overview_layer_without_geobox(C09)")
            return
    kw = common_kwargs(case)
    arg, path = _mk_dest(case["dest"])
    try:
        if path is not None and case["overwrite"] != "omit":
            kw["overwrite"] = case["overwrite"]
        ret = _call_layers_api(case["api"], xx, ovr_x, arg, kw)
        data = result_bytes(ret, path)
    finally:
        cleanup(path)
    verify(data, syx=syx, transform=transform, label=img["crs"]["label"], nodata=expected_nodata(img),
           blocksize=o.get("blocksize"), ovr_block=effective_ovr_block(o), layers=ovr_p)
    classify(case, T, len(ovr_p))
    T.cls("api=" + case["api"])
    T.cls("dest=" + case["dest"])
    T.cls("ovr_mode=" + case.get("ovr_mode", "fresh"))


def _prior_bytes(kind: str) -> bytes:
    if kind == "empty":
        return b""
    if kind == "junk":
        return b"this is not a TIFF file\n" * 41
    import rasterio
    from rasterio.io import MemoryFile

    with MemoryFile() as m:
        with m.open(driver="GTiff", width=5, height=4, count=1, dtype="uint8") as dst:
            dst.write(np.full((1, 4, 5), 7, "uint8"))
        return bytes(m.getbuffer())


def o_existing(case, T):
    img, o = case["img"], case["opts"]
    xx, syx, A, gbox = build_input(img)
    if not check_preconditions(case, xx, A, T) or not _levels_ok(case, T):
        return
    transform = tuple(float(v) for v in tuple(xx.odc.geobox.transform)[:6])
    api = case["api"]
    if api != "write_cog" and img["layout"] != "YX" and any(h == w == img["nb"] for h, w in case["ovr_shapes"]):
        T.cls("overview_layer_cube_bands==h==w")
    case2 = dict(case, ovr_mode="fresh")
    ovr_x, ovr_p = _ovr_layers(case2, xx, syx, gbox) if api != "write_cog" else ([], [])
    kw = common_kwargs(case)
    if api == "write_cog" and o.get("levels") is not None:
        kw["overview_levels"] = list(o["levels"])
    path = scratch_path("ex")
    arg = Path(path) if case["path_kind"] == "path" else path
    prior = _prior_bytes(case["prior"])
    with open(path, "wb") as f:
        f.write(prior)
    before = sorted(os.listdir(os.path.dirname(path)))

    def call(extra):
        k = dict(kw, **extra)
        if api == "write_cog":
            return xx.odc.write_cog(arg, **k)
        return _call_layers_api(api, xx, ovr_x, arg, k)

    try:
        # 1. overwriting not requested: error, destination untouched
        try:
            call({} if case["refuse"] == "omit" else {"overwrite": False})
        except OSError:
            pass
        except Exception as e:  # noqa: BLE001
            raise Violation(f"existing destination without overwrite: expected IOError/OSError, got {type(e).__name__}: {str(e)[:200]}") from e
        else:
            raise Violation("existing destination without overwrite: no error raised (api=%s)" % api)
        require(os.path.isfile(path), "existing destination was removed although overwriting was not requested")
        with open(path, "rb") as f:
            now = f.read()
        require(now == prior, "existing destination changed (%d -> %d bytes) although overwriting was not requested", len(prior), len(now))
        after = sorted(os.listdir(os.path.dirname(path)))
        require(after == before, "refused write left extra files: %r", [n for n in after if n not in before][:3])
        # 2. overwriting requested: replaced by the new image
        ret = call({"overwrite": True})
        data = result_bytes(ret, path)
    finally:
        cleanup(path)
    require(data != prior, "destination still holds the old bytes after overwrite=True")
    if api == "write_cog":
        levels = _levels_expected(case)
        verify(data, syx=syx, transform=transform, label=img["crs"]["label"], nodata=expected_nodata(img),
               blocksize=o.get("blocksize"), ovr_block=effective_ovr_block(o), levels=levels,
               nearest=content_checkable(levels, *img["shape"]), what="after overwrite=True: ")
        n_ovr = len(levels)
    else:
        verify(data, syx=syx, transform=transform, label=img["crs"]["label"], nodata=expected_nodata(img),
               blocksize=o.get("blocksize"), ovr_block=effective_ovr_block(o), layers=ovr_p,
               what="after overwrite=True: ")
        n_ovr = len(ovr_p)
    classify(case, T, n_ovr, existing=True)
    T.cls("api=" + api)
    T.cls("prior=" + case["prior"])
    T.cls("refuse=" + str(case["refuse"]))


def _under_ambient_env(oracle):
    """Run the oracle inside the GDAL configuration named by case['gdal_env'] (none by default)."""

    def run(case, T):
        env = case.get("gdal_env")
        if not env:
            return oracle(case, T)
        import rasterio

        T.cls("ambient_gdal_env:" + "+".join("%s=%s" % kv for kv in sorted(env.items()))[:60])
        with rasterio.Env(**env):
            return oracle(case, T)

    run.__name__ = oracle.__name__
    run.__doc__ = oracle.__doc__
    return run


# ----------------------------------------------------------------------------- arrays sliced before the write
@st.composite
def s_sliced(draw):
    img = draw(s_img(["tiny"] * 4 + ["small"] * 4))
    ny, nx = img["shape"]
    oy, ox = draw(st.integers(0, max(0, min(3, ny - 2)))), draw(st.integers(0, max(0, min(3, nx - 2))))
    # keep at least two rows and columns where the image allows it (a step cannot be read off a single label)
    ky = draw(st.sampled_from([k for k in (1, 2, 2, 3, 4) if -(-(ny - oy) // k) >= 2] or [1]))
    kx = draw(st.sampled_from([k for k in (1, 2, 3, 3, 5) if -(-(nx - ox) // k) >= 2] or [1]))
    return {"img": img, "slice": [oy, ky, ox, kx], "dest": draw(st.sampled_from(["to_cog", "mem"]))}


def o_sliced(case, T):
    """'the same affine transform' for an array that was cropped / decimated with [oy::ky, ox::kx] before the write:
    the file must place the centre of each remaining pixel where the original grid had it, with pixels kx, ky times as
    large.  Expectation computed here from the original affine; compared at the raster's corners within 1e-6 px
    (coordinate labels are float arithmetic)."""
    from affine import Affine
    from rasterio.io import MemoryFile

    img = case["img"]
    oy, ky, ox, kx = case["slice"]
    xx, syx, A, gbox = build_input(img)
    sd = xx.odc.spatial_dims
    if sd is None:
        T.exclude("xr_spatial_dims_missing(C09)")
        return
    xs = xx.isel({sd[0]: slice(oy, None, ky), sd[1]: slice(ox, None, kx)})
    sub = syx[:, oy::ky, ox::kx]
    nb, ny, nx = sub.shape
    if ny < 2 or nx < 2:
        T.exclude("one_pixel_side_after_slicing(C09)")  # a step cannot be read off a single label
        return
    # remaining pixel (i, j) is original pixel (ox + kx*i, oy + ky*j): its *centre* keeps its place, its size grows
    E = A * Affine.translation(ox + 0.5 - kx / 2, oy + 0.5 - ky / 2) * Affine.scale(kx, ky)
    kw = common_kwargs({"opts": {}, "img": img})
    kw["overview_levels"] = []
    if case["dest"] == "to_cog":
        data = result_bytes(xs.odc.to_cog(**kw), None)
    else:
        data = result_bytes(xs.odc.write_cog(":mem:", **kw), None)
    with MemoryFile(data) as mem:
        with mem.open() as f:
            require((f.count, f.height, f.width) == (nb, ny, nx), "sliced input [%d::%d, %d::%d]: file is %dx%dx%d, array is %dx%dx%d", oy, ky, ox, kx, f.count, f.height, f.width, nb, ny, nx)
            B = f.transform
            pix = f.read()
    px = min(math.hypot(E.a, E.d), math.hypot(E.b, E.e))
    for (i, j) in ((0, 0), (nx, 0), (0, ny), (nx, ny)):
        p, q = E * (i, j), B * (i, j)
        d = math.hypot(p[0] - q[0], p[1] - q[1]) / px
        # the step is read off float64 coordinate labels: their rounding (ulp of the coordinate, in pixels) counts too
        mag = max(abs(v) for v in (*(E * (0, 0)), *(E * (nx, ny))))
        require(d <= 1e-6 * max(nx, ny) + 16 * 2.3e-16 * mag / px * max(nx, ny), "array sliced with [%d::%d, %d::%d] before the write: raster corner (%d,%d) is %.4g px from where the original grid's pixel centres put it "
                "(file transform %r, expected %r)", oy, ky, ox, kx, i, j, d, tuple(B)[:6], tuple(E)[:6])
    require(same_pixels(pix, sub), "sliced input: pixels differ: %s", first_diff(pix, sub) if pix.dtype == sub.dtype else f"dtype {pix.dtype}")
    rot = not gbox.axis_aligned
    T.cls("rotated" if rot else "axis_aligned")
    T.cls("strided" if (ky, kx) != (1, 1) else "crop_only")
    if (ky, kx) != (1, 1):
        T.nontrivial((rot, ky, kx, oy > 0, ox > 0, img["layout"]))


def build(chk: Check) -> None:
    chk.sub("roundtrip", o_roundtrip, strategy=s_roundtrip(), n={"quick": 560, "thorough": 12000},
            budget_s={"quick": 70, "thorough": 480}, shrink=False)
    chk.sub("supplied_overviews", _under_ambient_env(o_layers), strategy=s_layers(), n={"quick": 240, "thorough": 7000},
            budget_s={"quick": 40, "thorough": 240}, shrink=False)
    chk.sub("existing_destination", o_existing, strategy=s_existing(), n={"quick": 160, "thorough": 5000},
            budget_s={"quick": 40, "thorough": 160}, shrink=False)
    chk.sub("sliced_input", o_sliced, strategy=s_sliced(), n={"quick": 320, "thorough": 6000},
            budget_s={"quick": 30, "thorough": 160}, shrink=False)
