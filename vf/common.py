"""
Common machinery: sub-check registry, Hypothesis driver, enumeration driver,
counters for evidence, known-finding handling, replay files.

A property module defines ``build(chk: Check)`` and registers sub-checks.  Every
sub-check is a pair (case source, oracle).  A *case* is plain JSON data; the
oracle takes ``(case, T)`` where ``T`` is a :class:`Tracker` and raises
:class:`Violation` when the property does not hold for that case.  Because a
case is JSON, the shrunk failure written to ``replay/<ID>/...json`` re-runs
without Hypothesis.
"""
from __future__ import annotations

import hashlib
import json
import math
import os
import sys
import time
import traceback
from pathlib import Path
from typing import Any, Callable, Dict, Iterable, List, Optional

ROOT = Path(__file__).resolve().parent.parent  # /verif (checkout relative)
REPO = os.environ.get("VERIF_REPO", "/repo")


class Violation(Exception):
    """The property does not hold for this case."""


class HarnessError(Exception):
    """Something is wrong with the check itself (never a violation)."""


class _Budget(BaseException):
    """Wall-clock budget of a sub-check ran out (inconclusive, not a failure)."""


def require(cond: bool, msg: str, *args) -> None:
    if not cond:
        raise Violation(msg % args if args else msg)


def jsonable(x: Any) -> Any:
    """Best-effort conversion to JSON-able data (for samples/messages)."""
    import numpy as np

    if isinstance(x, (str, int, bool)) or x is None:
        return x
    if isinstance(x, float):
        return x
    if isinstance(x, (list, tuple)):
        return [jsonable(v) for v in x]
    if isinstance(x, dict):
        return {str(k): jsonable(v) for k, v in x.items()}
    if isinstance(x, np.generic):
        return x.item()
    if isinstance(x, np.ndarray):
        return x.tolist()
    return repr(x)


def key_hash(key: Any) -> int:
    h = hashlib.blake2b(repr(key).encode("utf8"), digest_size=8).digest()
    return int.from_bytes(h, "big")


class Tracker:
    """Per sub-check counters.  All numbers in evidence come from here."""

    MAX_SAMPLES = 4

    def __init__(self, name: str):
        self.name = name
        self.evaluations = 0
        self.nt: set = set()
        self.classes: Dict[str, int] = {}
        self.excluded: Dict[str, int] = {}
        self.samples: List[Any] = []
        self.known_hits: Dict[str, int] = {}
        self.known_examples: Dict[str, Any] = {}
        self.budget_exhausted = False
        self.exhaustive = False
        self.wall_s = 0.0
        self._cur_case: Any = None
        self._sampled_classes: set = set()

    # -- called by oracles
    def nontrivial(self, key: Any = None) -> None:
        """Mark current case non-trivial under the property's rule."""
        if key is None:
            key = self._cur_case
        h = key_hash(key)
        if h not in self.nt:
            self.nt.add(h)
            if len(self.samples) < self.MAX_SAMPLES:
                self.samples.append({"subcheck": self.name, "case": self._cur_case})

    def cls(self, label: str, n: int = 1) -> None:
        self.classes[label] = self.classes.get(label, 0) + n

    def exclude(self, label: str, n: int = 1) -> None:
        self.excluded[label] = self.excluded.get(label, 0) + n

    def known(self, fid: str, message: str = "") -> bool:
        """In-oracle known-finding handling: returns True (and counts the hit) when finding ``fid`` is listed as
        "known" for this property, so the oracle can skip exactly that deviation and keep checking the rest of the
        case; returns False otherwise (the oracle must then raise a Violation)."""
        if fid in getattr(self, "_known_active", ()):
            self.known_hits[fid] = self.known_hits.get(fid, 0) + 1
            self.known_examples.setdefault(fid, {"case": self._cur_case, "message": message[:500]})
            return True
        return False

    def to_json(self) -> dict:
        return {
            "name": self.name,
            "evaluations": self.evaluations,
            "nt": sorted(self.nt),
            "classes": self.classes,
            "excluded": self.excluded,
            "samples": self.samples,
            "known_hits": self.known_hits,
            "known_examples": self.known_examples,
            "budget_exhausted": self.budget_exhausted,
            "exhaustive": self.exhaustive,
            "wall_s": self.wall_s,
        }


class SubCheck:
    def __init__(
        self,
        name: str,
        oracle: Callable[[Any, Tracker], None],
        strategy=None,
        enum: Optional[Callable[[str], Iterable[Any]]] = None,
        n: Optional[Dict[str, int]] = None,
        budget_s: Optional[Dict[str, float]] = None,
        shrink: bool = True,
        exhaustive_tiers: Iterable[str] = (),
        stateful=None,
        cov: Optional[Dict[str, int]] = None,
    ):
        self.name = name
        self.oracle = oracle
        self.strategy = strategy
        self.enum = enum
        self.n = n or {"quick": 200, "thorough": 5000}
        self.budget_s = budget_s or {"quick": 60.0, "thorough": 900.0}
        self.shrink = shrink
        self.exhaustive_tiers = set(exhaustive_tiers)
        # coverage-guided tier: libFuzzer executions per tier (total, split over ``COV_PROCS`` processes); the same
        # strategy and oracle, driven by atheris through Hypothesis' ``fuzz_one_input`` with odc.* instrumented
        self.cov = cov or {}
        self.cov_budget_s = {"quick": 30.0, "thorough": 420.0}


def _in_repo_frames(tb) -> Optional[str]:
    """Innermost frame under REPO/odc in traceback, as 'file:line func'."""
    out = None
    root = os.path.join(os.path.realpath(REPO), "odc")
    for fr in traceback.extract_tb(tb):
        if os.path.realpath(fr.filename).startswith(root):
            out = f"{os.path.relpath(fr.filename, REPO)}:{fr.lineno} {fr.name}"
    return out


class Check:
    """All sub-checks of one property + runtime state of one (shard) run."""

    def __init__(self, pid: str, tier: str, seed: int, shard: int, nshards: int):
        self.pid = pid
        self.tier = tier
        self.seed = seed
        self.shard = shard
        self.nshards = nshards
        self.subs: Dict[str, SubCheck] = {}
        self.known_predicates: Dict[str, Callable[[str, Any, str], bool]] = {}
        self.known_active: Dict[str, dict] = {}
        self.rule = ""
        self.assumptions: List[str] = []
        self.trackers: Dict[str, Tracker] = {}
        self.failures: List[dict] = []
        self.harness_errors: List[str] = []
        self._load_known()

    # ------------------------------------------------------------ registry
    def sub(self, name: str, oracle, strategy=None, enum=None, **kw) -> None:
        assert name not in self.subs
        assert (strategy is None) != (enum is None)
        self.subs[name] = SubCheck(name, oracle, strategy=strategy, enum=enum, **kw)

    def known(self, fid: str, predicate: Callable[[str, Any, str], bool]) -> None:
        """Register signature predicate ``(subcheck, case, message) -> bool`` for
        a finding id; only consulted when known_findings.json lists ``fid`` with
        status "known" for this property."""
        self.known_predicates[fid] = predicate

    def _load_known(self) -> None:
        p = ROOT / "known_findings.json"
        if not p.exists():
            return
        doc = json.loads(p.read_text())
        for e in doc.get("findings", []):
            if e.get("status") == "known" and e.get("property") == self.pid:
                self.known_active[e["id"]] = e

    # ------------------------------------------------------------ execution
    def _known_match(self, sub: str, case: Any, msg: str) -> Optional[str]:
        for fid in self.known_active:
            pred = self.known_predicates.get(fid)
            if pred is None:
                continue
            try:
                if pred(sub, case, msg):
                    return fid
            except Exception:  # a broken predicate never hides anything
                continue
        return None

    def run_case(self, sc: SubCheck, T: Tracker, case: Any) -> None:
        """Run oracle on one case; raises Violation for unlisted violations."""
        case = json.loads(json.dumps(case))  # canonical JSON form
        T.evaluations += 1
        T._cur_case = case
        try:
            sc.oracle(case, T)
        except Violation as v:
            fid = self._known_match(sc.name, case, str(v))
            if fid is not None:
                T.known_hits[fid] = T.known_hits.get(fid, 0) + 1
                T.known_examples.setdefault(fid, {"case": case, "message": str(v)})
                return
            raise
        except (HarnessError, _Budget, KeyboardInterrupt):
            raise
        except Exception as e:  # noqa: BLE001
            where = _in_repo_frames(e.__traceback__)
            if where is None:
                raise HarnessError(
                    f"{sc.name}: harness exception {type(e).__name__}: {e}\n"
                    + "".join(traceback.format_exception(e))
                ) from e
            msg = f"unexpected {type(e).__name__} from code under test at {where}: {e}"
            fid = self._known_match(sc.name, case, msg)
            if fid is not None:
                T.known_hits[fid] = T.known_hits.get(fid, 0) + 1
                T.known_examples.setdefault(fid, {"case": case, "message": msg})
                return
            raise Violation(msg) from e

    def _record_failure(self, sc: SubCheck, case: Any, msg: str) -> None:
        self.failures.append({"subcheck": sc.name, "case": case, "message": msg[:2000]})

    def run_sub(self, sc: SubCheck) -> None:
        T = self.trackers.setdefault(sc.name, Tracker(sc.name))
        T._known_active = set(self.known_active)
        t0 = time.time()
        try:
            if sc.enum is not None:
                self._run_enum(sc, T)
            else:
                self._run_hyp(sc, T)
        except HarnessError as e:
            self.harness_errors.append(str(e))
        finally:
            T.wall_s += time.time() - t0

    def _run_enum(self, sc: SubCheck, T: Tracker) -> None:
        deadline = time.time() + sc.budget_s[self.tier]
        completed = True
        for i, case in enumerate(sc.enum(self.tier)):
            if i % self.nshards != self.shard:
                continue
            if (T.evaluations & 0xFF) == 0 and time.time() > deadline:
                T.budget_exhausted = True
                completed = False
                break
            try:
                self.run_case(sc, T, case)
            except Violation as v:
                self._record_failure(sc, json.loads(json.dumps(case)), str(v))
                completed = False
                break  # one failure per sub-check is enough
        T.exhaustive = completed and self.tier in sc.exhaustive_tiers

    def _run_hyp(self, sc: SubCheck, T: Tracker) -> None:
        import hypothesis
        from hypothesis import HealthCheck, Phase, given, settings
        from hypothesis.errors import FailedHealthCheck, Unsatisfiable

        n_total = sc.n[self.tier]
        n = max(1, math.ceil(n_total / self.nshards))
        deadline = time.time() + sc.budget_s[self.tier]
        phases = [Phase.explicit, Phase.generate, Phase.target]
        if sc.shrink:
            phases.append(Phase.shrink)
        last_fail: Dict[str, Any] = {}
        shrink_deadline = [None]

        def body(case):
            now = time.time()
            if not last_fail and now > deadline:
                T.budget_exhausted = True
                raise _Budget()
            if last_fail and shrink_deadline[0] is not None and now > shrink_deadline[0]:
                raise _Budget()
            try:
                self.run_case(sc, T, case)
            except Violation as v:
                if not last_fail:
                    shrink_deadline[0] = time.time() + 120.0
                last_fail["case"] = json.loads(json.dumps(case))
                last_fail["msg"] = str(v)
                raise

        test = given(sc.strategy)(body)
        test = settings(
            max_examples=n,
            database=None,
            deadline=None,
            derandomize=False,
            report_multiple_bugs=False,
            print_blob=False,
            phases=phases,
            suppress_health_check=[HealthCheck.too_slow, HealthCheck.data_too_large],
        )(test)
        sub_seed = (self.seed * 1000 + self.shard) * 1000 + (key_hash(sc.name) % 997)
        test = hypothesis.seed(sub_seed)(test)
        try:
            test()
        except _Budget:
            pass
        except Violation:
            pass
        except (FailedHealthCheck, Unsatisfiable) as e:
            raise HarnessError(f"{sc.name}: generator health check: {e}") from e
        except HarnessError:
            raise
        except Exception as e:  # noqa: BLE001
            if not last_fail:
                raise HarnessError(
                    f"{sc.name}: {type(e).__name__}: {e}\n" + "".join(traceback.format_exception(e))
                ) from e
        if last_fail:
            self._record_failure(sc, last_fail["case"], last_fail["msg"])

    # ------------------------------------------------------------ coverage-guided driver (atheris/libFuzzer)
    def run_cov(self, sc: SubCheck, runs: int, budget_s: float, out_path: Path, scratch: Path, corpus_seeded: bool) -> None:
        """Drive ``sc.strategy`` with libFuzzer mutations of Hypothesis' byte stream.  Never returns: the process
        ends with os._exit once ``runs`` executions were made, the budget ran out, or a violation was found (and
        shrunk by Hypothesis from its example database).  Results are written to ``out_path`` as a shard result
        whose tracker is named ``<sub>@cov``.  The caller must have imported odc.* under
        ``atheris.instrument_imports`` already."""
        import atheris
        import hypothesis
        from hypothesis import HealthCheck, Phase, given, settings
        from hypothesis.database import DirectoryBasedExampleDatabase

        name = sc.name + "@cov"
        T = self.trackers.setdefault(name, Tracker(name))
        T._known_active = set(self.known_active)
        t0 = time.time()
        deadline = t0 + budget_s
        last_fail: Dict[str, Any] = {}
        shrinking = [False]
        shrink_deadline = [None]
        db = DirectoryBasedExampleDatabase(str(scratch / "hdb"))

        def body(case):
            if shrinking[0] and shrink_deadline[0] is not None and time.time() > shrink_deadline[0]:
                raise _Budget()
            try:
                self.run_case(sc, T, case)
            except Violation as v:
                last_fail["case"] = json.loads(json.dumps(case))
                last_fail["msg"] = str(v)
                raise

        base = dict(database=db, deadline=None, derandomize=False, report_multiple_bugs=False, print_blob=False,
                    suppress_health_check=list(HealthCheck))
        test = settings(max_examples=1, phases=[Phase.reuse, Phase.shrink] if sc.shrink else [Phase.reuse], **base)(
            given(sc.strategy)(body))
        fuzz_one = test.hypothesis.fuzz_one_input
        calls = [0]
        last_dump = [t0]

        def dump() -> None:
            T.wall_s = time.time() - t0
            out = {"shard": self.shard, "trackers": [T.to_json()], "failures": self.failures,
                   "harness_errors": self.harness_errors, "cov": {"sub": sc.name, "libfuzzer_calls": calls[0]}}
            tmp = Path(str(out_path) + ".tmp")
            tmp.write_text(json.dumps(out))
            os.replace(tmp, out_path)

        def finish() -> None:
            dump()
            sys.stdout.flush()
            sys.stderr.flush()
            os._exit(0)

        def one(data: bytes) -> None:
            calls[0] += 1
            try:
                fuzz_one(data)
            except Violation:
                # replay the failure Hypothesis saved in its database and shrink it
                shrinking[0] = True
                shrink_deadline[0] = time.time() + 120.0
                try:
                    test()
                except BaseException:  # noqa: BLE001 - the shrunk case is in last_fail
                    pass
                self.failures.append({"subcheck": sc.name, "case": last_fail["case"],
                                      "message": ("[coverage-guided] " + last_fail["msg"])[:2000]})
                finish()
            except HarnessError as e:
                self.harness_errors.append(str(e))
                finish()
            now = time.time()
            if calls[0] >= runs:
                finish()
            if now > deadline:
                T.budget_exhausted = True
                finish()
            if now - last_dump[0] > 5.0:
                last_dump[0] = now
                dump()

        corpus = scratch / "corpus"
        corpus.mkdir(parents=True, exist_ok=True)
        sub_seed = (self.seed * 1000 + self.shard) * 1000 + (key_hash(sc.name) % 997)
        if corpus_seeded:
            # deterministic pseudo-random byte strings: under fuzz_one_input these decode to ordinary random
            # examples, so libFuzzer starts from long valid inputs instead of growing them from nothing
            import random as _random

            rng = _random.Random(sub_seed)
            for i in range(48):
                (corpus / f"seed{i:02d}").write_bytes(rng.randbytes(rng.choice([32, 128, 512, 2048])))
        dump()
        argv = [sys.argv[0], f"-seed={sub_seed % (2**31 - 1) or 1}", "-len_control=0", "-max_len=8192",
                "-rss_limit_mb=6000", "-timeout=1200", "-verbosity=0", "-print_final_stats=0",
                f"-artifact_prefix={scratch}/", str(corpus)]
        atheris.Setup(argv, one)
        atheris.Fuzz()
        finish()

    def run_replay_file(self, path: Path) -> Optional[str]:
        """Re-run a saved case. Returns violation message or None."""
        doc = json.loads(Path(path).read_text())
        sc = self.subs.get(doc["subcheck"])
        if sc is None:
            raise HarnessError(f"replay {path}: unknown subcheck {doc['subcheck']}")
        T = self.trackers.setdefault(sc.name, Tracker(sc.name))
        T._known_active = set(self.known_active)
        try:
            self.run_case(sc, T, doc["case"])
        except Violation as v:
            return str(v)
        return None

    def run_regress(self) -> None:
        d = ROOT / "replay" / self.pid / "regress"
        if not d.is_dir():
            return
        for p in sorted(d.glob("*.json")):
            doc = json.loads(p.read_text())
            msg = self.run_replay_file(p)
            if msg is not None:
                sc = self.subs[doc["subcheck"]]
                self.failures.append(
                    {"subcheck": sc.name, "case": doc["case"], "message": msg[:2000], "regress": p.name}
                )

    def run_all(self, only: Optional[List[str]] = None) -> dict:
        if self.shard == 0:
            try:
                self.run_regress()
            except HarnessError as e:
                self.harness_errors.append(str(e))
        for name, sc in self.subs.items():
            if only and name not in only:
                continue
            self.run_sub(sc)
        return {
            "shard": self.shard,
            "trackers": [t.to_json() for t in self.trackers.values()],
            "failures": self.failures,
            "harness_errors": self.harness_errors,
        }


def write_replay(pid: str, failure: dict) -> Path:
    d = ROOT / "replay" / pid
    d.mkdir(parents=True, exist_ok=True)
    body = json.dumps(
        {
            "property": pid,
            "subcheck": failure["subcheck"],
            "case": failure["case"],
            "message": failure["message"],
        },
        indent=1,
        sort_keys=True,
    )
    h = hashlib.sha1(json.dumps([failure["subcheck"], failure["case"]], sort_keys=True).encode()).hexdigest()[:10]
    p = d / f"{failure['subcheck']}-{h}.json"
    p.write_text(body + "\n")
    return p
