"""
Shared generators (all cases are JSON data) and exact-rational helpers.

CRS tag     : None | {"label": "4326", "spell": <spelling>}
GeoBox case : {"shape": [ny, nx], "affine": [a, b, c, d, e, f], "crs": <tag>, "family": "exact"|"general"}
"""
from __future__ import annotations

import math
import pickle
from fractions import Fraction as Fr
from typing import Any, List, Optional, Sequence, Tuple

from hypothesis import strategies as st

# ----------------------------------------------------------------------------- CRS pool
# label -> (kind, lon/lat box well inside area of use)
CRS_POOL = {
    "4326": ("geographic", (-170.0, -80.0, 170.0, 80.0)),
    "4283": ("geographic", (112.0, -42.0, 152.0, -12.0)),  # GDA94 lon/lat
    "3857": ("projected", (-170.0, -75.0, 170.0, 75.0)),
    "3577": ("projected", (115.0, -40.0, 150.0, -14.0)),  # Australian Albers
    "32633": ("projected", (12.5, 2.0, 17.5, 78.0)),  # UTM 33N
    "32755": ("projected", (144.5, -75.0, 149.5, -3.0)),  # UTM 55S
    "3035": ("projected", (-5.0, 38.0, 30.0, 65.0)),  # LAEA Europe
    "6933": ("projected", (-170.0, -75.0, 170.0, 75.0)),  # EASE grid 2 global
    "sinu": ("projected", (-170.0, -75.0, 170.0, 75.0)),  # no authority code
}
SINU_PROJ = "+proj=sinu +lon_0=0 +x_0=0 +y_0=0 +R=6371007.181 +units=m +no_defs +type=crs"
EPSG_LABELS = [k for k in CRS_POOL if k != "sinu"]
SPELLINGS = ["int", "str_lower", "str_upper", "str_mixed", "wkt2", "projjson", "pyproj", "odc", "pickle"]
SINU_SPELLINGS = ["proj", "wkt2", "projjson", "pyproj", "odc", "pickle"]


def crs_kind(label: Optional[str]) -> str:
    if label is None:
        return "none"
    return CRS_POOL[label][0]


# CRSs that resemble a registered one (same projection parameters) but are NOT it: the axes point the other way
# (westing/southing positive).  pyproj says they differ and maps the same ground point to (x, y) of opposite sign.
# Only used where named explicitly (label "like:..."), never drawn by crs_tags().
LOOKALIKES = {
    "like:utm33wsu": ("32633", "+proj=utm +zone=33 +datum=WGS84 +units=m +axis=wsu +no_defs +type=crs"),
    "like:utm55s_wsu": ("32755", "+proj=utm +zone=55 +south +datum=WGS84 +units=m +axis=wsu +no_defs +type=crs"),
}


def _pyproj(label: str):
    from pyproj import CRS as P

    if label == "sinu":
        return P.from_user_input(SINU_PROJ)
    if label in LOOKALIKES:
        return P.from_user_input(LOOKALIKES[label][1])
    return P.from_epsg(int(label))


def mk_crs_spec(tag) -> Any:
    """Build the *specification* (what a user passes as crs=...) for a tag."""
    if tag is None:
        return None
    from odc.geo.crs import CRS

    label, spell = tag["label"], tag["spell"]
    if label in LOOKALIKES:
        if spell == "proj":
            return LOOKALIKES[label][1]
        pp = _pyproj(label)
        return {"wkt2": lambda: pp.to_wkt(version="WKT2_2019"), "pyproj": lambda: pp}[spell]()
    if spell == "int":
        return int(label)
    if spell == "str_lower":
        return f"epsg:{label}"
    if spell == "str_upper":
        return f"EPSG:{label}"
    if spell == "str_mixed":
        return f"ePsG:{label}"
    if spell == "proj":
        assert label == "sinu"
        return SINU_PROJ
    pp = _pyproj(label)
    if spell == "wkt2":
        return pp.to_wkt(version="WKT2_2019")
    if spell == "projjson":
        return pp.to_json_dict()
    if spell == "pyproj":
        return pp
    if spell == "odc":
        return CRS(int(label)) if label != "sinu" else CRS(SINU_PROJ)
    if spell == "pickle":
        c = CRS(int(label)) if label != "sinu" else CRS(SINU_PROJ)
        return pickle.loads(pickle.dumps(c))
    raise ValueError(spell)


def mk_crs(tag):
    """odc.geo CRS object (or None) for a tag."""
    if tag is None:
        return None
    from odc.geo.crs import CRS

    return CRS(mk_crs_spec(tag))


@st.composite
def crs_tags(draw, labels: Optional[Sequence[str]] = None, allow_none: bool = True, spellings: Optional[Sequence[str]] = None):
    labels = list(labels) if labels is not None else list(CRS_POOL)
    opts: List[Any] = list(labels)
    if allow_none:
        opts.append(None)
    label = draw(st.sampled_from(opts))
    if label is None:
        return None
    sp = SINU_SPELLINGS if label == "sinu" else SPELLINGS
    if spellings is not None:
        sp = [s for s in sp if s in spellings] or [sp[0]]
    return {"label": label, "spell": draw(st.sampled_from(sp))}


def simple_tag(label: Optional[str]):
    if label is None:
        return None
    return {"label": label, "spell": "proj" if label == "sinu" else "int"}


# ----------------------------------------------------------------------------- numbers
def dyadic(lo: int, hi: int, bits: int = 4):
    """k / 2**bits with lo <= k/2**bits <= hi (exact in binary floating point)."""
    d = 2**bits
    return st.integers(lo * d, hi * d).map(lambda k: k / d)


SCALES_EXACT = [1.0, 10.0, 30.0, 0.25, 0.5, 2.0, 4.0, 100.0, 0.125]
SCALES_GENERAL = [1.0, 10.0, 30.0, 0.25, 1e-4, 0.1, 0.3, 7.3, 1 / 3.0, 1000.0]


@st.composite
def affines(draw, family: Optional[str] = None, rotated: Optional[bool] = None, max_t: float = 1e7):
    """[a,b,c,d,e,f] of a non-degenerate pixel->world map.  Returns (coeffs, family, klass)."""
    family = family or draw(st.sampled_from(["exact", "general"]))
    sgnx = draw(st.sampled_from([1, -1]))
    sgny = draw(st.sampled_from([-1, -1, 1]))
    if family == "exact":
        sx = draw(st.sampled_from(SCALES_EXACT)) * sgnx
        sy = draw(st.one_of(st.just(abs(sx)), st.sampled_from(SCALES_EXACT))) * sgny
        tx = draw(st.one_of(st.just(0.0), dyadic(-1000, 1000), st.integers(-(2**22), 2**22).map(float)))
        ty = draw(st.one_of(st.just(0.0), dyadic(-1000, 1000), st.integers(-(2**22), 2**22).map(float)))
    else:
        mag = st.one_of(st.sampled_from(SCALES_GENERAL), st.floats(1e-3, 1e3))
        sx = draw(mag) * sgnx
        sy = draw(st.one_of(st.just(abs(sx)), mag)) * sgny
        t = st.one_of(st.just(0.0), st.floats(-1e3, 1e3), st.floats(-max_t, max_t))
        tx, ty = draw(t), draw(t)
    rot = draw(st.booleans()) if rotated is None else rotated
    if rot and family == "general" and max(abs(sx), abs(sy)) > 1e3 * min(abs(sx), abs(sy)):
        # rotated/sheared pixels a million times longer than wide make the 2x2 matrix so ill-conditioned that the
        # library's own documented tolerances (1e-8 px, isclose) are below float rounding of the inverse: keep the
        # anisotropy of rotated grids below 1e3 (axis-aligned grids keep the full range)
        fac = draw(st.sampled_from([1.0, 2.0, 0.5, 7.0, 0.3]))
        if not 1e-3 <= abs(sx) * fac <= 1e3:  # stay inside the magnitude range of the family
            fac = 1.0 / fac
        sy = math.copysign(abs(sx) * fac, sy)
    klass = []
    if sgnx < 0:
        klass.append("mirror_x")
    if sgny > 0:
        klass.append("mirror_y")
    if abs(sx) != abs(sy):
        klass.append("nonsquare")
    if not rot:
        return [sx, 0.0, tx, 0.0, sy, ty], family, "+".join(klass) or "north_up"
    # rotation / shear
    if family == "exact":
        kind = draw(st.sampled_from(["r90", "r180", "r270", "shear", "pyth"]))
        if kind == "r90":
            R = (0.0, -1.0, 1.0, 0.0)
        elif kind == "r180":
            R = (-1.0, 0.0, 0.0, -1.0)
        elif kind == "r270":
            R = (0.0, 1.0, -1.0, 0.0)
        elif kind == "shear":
            w = draw(st.sampled_from([0.25, -0.5, 0.125]))
            R = (1.0, w, 0.0, 1.0)
        else:  # 3-4-5 rotation scaled by 5 -> exact
            R = (0.75, -1.0, 1.0, 0.75)
        klass.append(kind)
    else:
        ang = draw(st.one_of(st.sampled_from([90.0, 180.0, 270.0, 45.0, 10.0, 1.0]), st.floats(0.5, 359.5)))
        c, s = math.cos(math.radians(ang)), math.sin(math.radians(ang))
        w = draw(st.sampled_from([0.0, 0.0, 0.1, -0.3]))
        R = (c, -s + c * w, s, c + s * w)
        klass.append("rot" if w == 0 else "rot+shear")
    r0, r1, r2, r3 = R
    # A = T * R * S
    a, b = r0 * sx, r1 * sy
    d, e = r2 * sx, r3 * sy
    return [a, b, tx, d, e, ty], family, "+".join(klass)


@st.composite
def shapes(draw, max_side: int = 300, allow_unit: bool = True):
    def side():
        opts = [st.integers(2, 24), st.integers(2, 24), st.integers(25, max(25, max_side))]
        if allow_unit:
            opts.append(st.just(1))
        return st.one_of(*opts)

    return [draw(side()), draw(side())]


@st.composite
def geoboxes(draw, family=None, rotated=None, max_side=300, crs=True, allow_unit=True, labels=None):
    coeffs, fam, klass = draw(affines(family=family, rotated=rotated))
    shape = draw(shapes(max_side=max_side, allow_unit=allow_unit))
    tag = draw(crs_tags(labels=labels)) if crs else None
    return {"shape": shape, "affine": coeffs, "crs": tag, "family": fam, "klass": klass}


def mk_affine(c):
    from affine import Affine

    return Affine(*[float(v) for v in c[:6]])


def mk_geobox(case):
    from odc.geo.geobox import GeoBox

    return GeoBox(tuple(case["shape"]), mk_affine(case["affine"]), mk_crs_spec(case.get("crs")))


# ----------------------------------------------------------------------------- exact affine algebra
class FA:
    """Exact rational 2-D affine (a,b,c,d,e,f)."""

    __slots__ = ("m",)

    def __init__(self, *m):
        if len(m) == 1:
            m = tuple(m[0])[:6]
        self.m = tuple(Fr(v) for v in m)

    @staticmethod
    def of(A) -> "FA":
        return FA(*[Fr(float(v)) for v in tuple(A)[:6]])

    @staticmethod
    def translation(tx, ty) -> "FA":
        return FA(1, 0, tx, 0, 1, ty)

    @staticmethod
    def scale(sx, sy=None) -> "FA":
        return FA(sx, 0, 0, 0, sx if sy is None else sy, 0)

    def __mul__(self, o):
        a, b, c, d, e, f = self.m
        if isinstance(o, FA):
            A, B, C, D, E, F = o.m
            return FA(a * A + b * D, a * B + b * E, a * C + b * F + c, d * A + e * D, d * B + e * E, d * C + e * F + f)
        x, y = o
        x, y = Fr(x), Fr(y)
        return (a * x + b * y + c, d * x + e * y + f)

    def det(self):
        a, b, c, d, e, f = self.m
        return a * e - b * d

    def inv(self) -> "FA":
        a, b, c, d, e, f = self.m
        det = a * e - b * d
        ia, ib, id_, ie = e / det, -b / det, -d / det, a / det
        return FA(ia, ib, -(ia * c + ib * f), id_, ie, -(id_ * c + ie * f))

    def floats(self):
        return tuple(float(v) for v in self.m)


def coeff_close(got, want: FA, scale_hint: Sequence[float] = (), ulps: float = 64.0) -> Optional[str]:
    """Compare float affine ``got`` with exact ``want`` coefficient-wise.

    Tolerance per coefficient: ulps * eps * (|want| + magnitude of terms hinted).
    Returns None when close, else description.
    """
    eps = 2.220446049250313e-16
    g = [float(v) for v in tuple(got)[:6]]
    w = want.floats()
    # translation coefficients accumulate terms of size |lin coeff| * pixel count
    lin = max(abs(w[0]), abs(w[1]), abs(w[3]), abs(w[4]))
    hint = max([abs(float(s)) for s in scale_hint] + [0.0])
    for i, (x, y) in enumerate(zip(g, w)):
        if i in (2, 5):
            tol = ulps * eps * (abs(y) + lin * max(1.0, hint) + hint)
        else:
            tol = ulps * eps * (abs(y) + lin)
        if not abs(x - y) <= tol:
            return f"coefficient {'abcdef'[i]}: got {x!r} want {y!r} (|diff|={abs(x-y):.3g} tol={tol:.3g})"
    return None
