"""
Runner:  /venv/bin/python -m vf.run <ID> --tier quick|thorough
         /venv/bin/python -m vf.run <ID> --replay PATH

Exit 0: property held on everything explored (KNOWN-FINDING lines possible)
Exit 1: "VIOLATION property=<id> replay=<path>" printed
Exit 2: harness error (never a violation)
"""
from __future__ import annotations

import argparse
import importlib
import json
import os
import shutil
import subprocess
import sys
import tempfile
import time
from pathlib import Path

HERE = Path(__file__).resolve().parent
ROOT = HERE.parent


def _reexec_if_needed() -> None:
    if os.environ.get("PYTHONHASHSEED") != "0":
        env = dict(os.environ)
        env["PYTHONHASHSEED"] = "0"
        os.execve(sys.executable, [sys.executable, "-m", "vf.run", *sys.argv[1:]], env)


def _setup_imports() -> None:
    repo = os.environ.get("VERIF_REPO", "/repo")
    if repo in sys.path:
        sys.path.remove(repo)
    sys.path.insert(0, repo)
    if str(ROOT) not in sys.path:
        sys.path.insert(1, str(ROOT))
    import warnings

    warnings.filterwarnings("ignore")
    import odc.geo  # noqa

    real = os.path.realpath(odc.geo.__file__)
    if not real.startswith(os.path.realpath(repo) + os.sep):
        print(f"HARNESS-ERROR: odc.geo imported from {real}, expected under {repo}")
        sys.exit(2)


def _load(pid: str, tier: str, seed: int, shard: int, nshards: int):
    from vf.common import Check

    mod = importlib.import_module(f"vf.props.{pid.lower()}")
    chk = Check(pid, tier, seed, shard, nshards)
    mod.build(chk)
    return mod, chk


def shard_main(args) -> int:
    _setup_imports()
    mod, chk = _load(args.pid, args.tier, args.seed, args.shard, args.nshards)
    out = chk.run_all(only=args.only)
    Path(args.out).write_text(json.dumps(out))
    return 0


def cov_main(args) -> int:
    """One coverage-guided (atheris/libFuzzer) process for one sub-check; odc.* is instrumented at import."""
    import atheris

    with atheris.instrument_imports(include=["odc"]):
        _setup_imports()
        mod, chk = _load(args.pid, args.tier, args.seed, args.shard, args.nshards)
    sc = chk.subs[args.cov]
    scratch = Path(os.environ["VF_SCRATCH"])
    chk.run_cov(sc, args.cov_runs, args.cov_budget, Path(args.out), scratch, corpus_seeded=bool(args.shard % 2) or args.nshards == 1)
    return 0


def _have_atheris() -> bool:
    try:
        import importlib.util

        return importlib.util.find_spec("atheris") is not None
    except Exception:  # noqa: BLE001
        return False


def replay_main(args) -> int:
    _setup_imports()
    from vf.common import HarnessError

    tmp = None
    if not os.environ.get("VF_SCRATCH"):
        tmp = tempfile.mkdtemp(prefix=f"vf-replay-{args.pid}-")
        os.environ["VF_SCRATCH"] = tmp
    try:
        mod, chk = _load(args.pid, "quick", args.seed, 0, 1)
        try:
            msg = chk.run_replay_file(Path(args.replay))
        except HarnessError as e:
            print(f"HARNESS-ERROR: {e}")
            return 2
    finally:
        if tmp is not None:
            shutil.rmtree(tmp, ignore_errors=True)
    T = next(iter(chk.trackers.values()), None)
    if T is not None and T.known_hits:
        for fid in T.known_hits:
            print(f"KNOWN-FINDING: property={args.pid} {fid}")
    if msg is not None:
        print(f"replay: {msg}")
        print(f"VIOLATION property={args.pid} replay={args.replay}")
        return 1
    print(f"replay: property {args.pid} holds for {args.replay}")
    return 0


def parent_main(args) -> int:
    t0 = time.time()
    _setup_imports()
    from vf.common import write_replay

    mod = importlib.import_module(f"vf.props.{args.pid.lower()}")
    nshards = args.nshards or getattr(mod, "SHARDS", {}).get(args.tier, 4 if args.tier == "quick" else 16)
    nshards = max(1, min(nshards, os.cpu_count() or 1))
    tmp = Path(tempfile.mkdtemp(prefix=f"vf-{args.pid}-"))
    procs = []
    try:
        for i in range(nshards):
            out = tmp / f"shard{i}.json"
            sdir = tmp / f"scratch{i}"
            sdir.mkdir()
            env = dict(os.environ)
            env["VF_SCRATCH"] = str(sdir)
            env["TMPDIR"] = str(sdir)
            env.setdefault("OMP_NUM_THREADS", "1")
            env.setdefault("OPENBLAS_NUM_THREADS", "1")
            env.setdefault("GDAL_NUM_THREADS", "1")
            cmd = [
                sys.executable, "-m", "vf.run", args.pid, "--tier", args.tier,
                "--seed", str(args.seed), "--shard", str(i), "--nshards", str(nshards),
                "--out", str(out),
            ]
            if args.only:
                cmd += ["--only", *args.only]
            log = open(tmp / f"shard{i}.log", "w")
            procs.append((i, out, log, subprocess.Popen(cmd, cwd=str(ROOT), env=env, stdout=log, stderr=subprocess.STDOUT)))
        results = []
        harness_errors = []
        # ---- coverage-guided processes (sub-checks registered with cov={tier: runs}); quick: alongside the
        # Hypothesis shards, thorough: after them (they would otherwise fight for the same 16 cores)
        from vf.common import Check as _Check

        _chk = _Check(args.pid, args.tier, args.seed, 0, 1)
        mod.build(_chk)
        cov_subs = [(n, sc) for n, sc in _chk.subs.items()
                    if sc.cov.get(args.tier, 0) > 0 and (not args.only or n in args.only or n + "@cov" in args.only or "@cov" in args.only)]
        if args.no_cov or not cov_subs:
            cov_subs = []
        elif not _have_atheris():
            print("note: atheris is not installed - coverage-guided sub-checks skipped (run MANIFEST.setup_cmd)")
            cov_subs = []
        cov_jobs = []
        nproc = getattr(mod, "COV_PROCS", {}).get(args.tier, 1 if args.tier == "quick" else 2)
        for name, sc in cov_subs:
            for j in range(nproc):
                cov_jobs.append((name, sc, j, nproc))

        def _spawn_cov(k, name, sc, j, nproc):
            i = 1000 + k
            out = tmp / f"shard{i}.json"
            sdir = tmp / f"scratch{i}"
            sdir.mkdir()
            env = dict(os.environ)
            env["VF_SCRATCH"] = str(sdir)
            env["TMPDIR"] = str(sdir)
            env.setdefault("OMP_NUM_THREADS", "1")
            env.setdefault("OPENBLAS_NUM_THREADS", "1")
            env.setdefault("GDAL_NUM_THREADS", "1")
            runs = max(1, sc.cov[args.tier] // nproc)
            cmd = [sys.executable, "-m", "vf.run", args.pid, "--tier", args.tier, "--seed", str(args.seed),
                   "--shard", str(j), "--nshards", str(nproc), "--out", str(out), "--cov", name,
                   "--cov-runs", str(runs), "--cov-budget", str(sc.cov_budget_s[args.tier])]
            log = open(tmp / f"shard{i}.log", "w")
            return (i, out, log, subprocess.Popen(cmd, cwd=str(ROOT), env=env, stdout=log, stderr=subprocess.STDOUT))

        cov_procs = []
        if args.tier == "quick":
            cov_procs = [_spawn_cov(k, *job) for k, job in enumerate(cov_jobs)]
            procs += cov_procs
        for i, out, log, p in procs:
            rc = p.wait()
            log.close()
            if rc != 0 or not out.exists():
                tail = (tmp / f"shard{i}.log").read_text()[-3000:]
                harness_errors.append(f"shard {i} exit {rc}: {tail}")
                continue
            results.append(json.loads(out.read_text()))
        if args.tier != "quick" and cov_jobs:
            width = max(1, os.cpu_count() or 1)
            pending = list(enumerate(cov_jobs))
            running = []
            while pending or running:
                while pending and len(running) < width:
                    k, job = pending.pop(0)
                    pr = _spawn_cov(k, *job)
                    procs.append(pr)
                    running.append(pr)
                i, out, log, p = running.pop(0)
                rc = p.wait()
                log.close()
                if rc != 0 or not out.exists():
                    tail = (tmp / f"shard{i}.log").read_text()[-3000:]
                    harness_errors.append(f"cov shard {i} exit {rc}: {tail}")
                    continue
                results.append(json.loads(out.read_text()))
    finally:
        for _, _, _, p in procs:
            if p.poll() is None:
                p.kill()
        logs = {i: (tmp / f"shard{i}.log").read_text() if (tmp / f"shard{i}.log").exists() else "" for i, *_ in procs}
        shutil.rmtree(tmp, ignore_errors=True)

    # ---- merge
    subs = {}
    failures = []
    for r in results:
        harness_errors += r["harness_errors"]
        failures += r["failures"]
        for t in r["trackers"]:
            m = subs.setdefault(
                t["name"],
                {"evaluations": 0, "nt": set(), "classes": {}, "excluded": {}, "samples": [],
                 "known_hits": {}, "known_examples": {}, "budget_exhausted": False, "exhaustive": True, "wall_s": 0.0},
            )
            m["evaluations"] += t["evaluations"]
            m["nt"].update(t["nt"])
            for k in ("classes", "excluded", "known_hits"):
                for a, b in t[k].items():
                    m[k][a] = m[k].get(a, 0) + b
            for a, b in t["known_examples"].items():
                m["known_examples"].setdefault(a, b)
            if len(m["samples"]) < 3:
                m["samples"] += t["samples"][: 3 - len(m["samples"])]
            m["budget_exhausted"] |= t["budget_exhausted"]
            m["exhaustive"] &= t["exhaustive"]
            m["wall_s"] = max(m["wall_s"], t["wall_s"])

    # ---- report
    known_doc = {}
    kf = ROOT / "known_findings.json"
    if kf.exists():
        for e in json.loads(kf.read_text()).get("findings", []):
            known_doc[e["id"]] = e
    known_hits = {}
    for m in subs.values():
        for fid, n in m["known_hits"].items():
            known_hits[fid] = known_hits.get(fid, 0) + n
    for fid, n in sorted(known_hits.items()):
        what = known_doc.get(fid, {}).get("what", "")
        print(f"KNOWN-FINDING: property={args.pid} {fid}: {what} (hit {n}x this run)")

    seen = set()
    rc = 0
    nviol = 0
    # one replay per sub-check: shards usually shrink the same root cause to
    # slightly different cases; keep the smallest
    best = {}
    for f in failures:
        k = f["subcheck"] if "regress" not in f else (f["subcheck"], f["regress"])
        sz = len(json.dumps(f["case"]))
        if k not in best or sz < best[k][0]:
            best[k] = (sz, f)
    failures = [f for _, f in best.values()]
    for f in failures:
        p = write_replay(args.pid, f)
        if p in seen:
            continue
        seen.add(p)
        nviol += 1
        rel = os.path.relpath(p, ROOT)
        print(f"violation in {f['subcheck']}: {f['message'][:600]}")
        print(f"VIOLATION property={args.pid} replay={rel}")
        rc = 1

    all_nt = set()
    for name, m in subs.items():
        all_nt.update((name, h) for h in m["nt"])
    samples = []
    for name, m in subs.items():
        samples += m["samples"][:2]
    evaluations = sum(m["evaluations"] for m in subs.values())
    evidence = {
        "property_id": args.pid,
        "tier": args.tier,
        "seed": args.seed,
        "level": "exploration",
        "coverage": {
            "evaluations": evaluations,
            "distinct_nontrivial": len(all_nt),
            "rule": getattr(mod, "RULE", ""),
            "samples": samples[:12],
            "exhaustive": bool(subs) and all(m["exhaustive"] for m in subs.values()),
            "shards": nshards,
            "subchecks": {
                name: {
                    "evaluations": m["evaluations"],
                    "distinct_nontrivial": len(m["nt"]),
                    "classes": dict(sorted(m["classes"].items())),
                    "excluded": dict(sorted(m["excluded"].items())),
                    "known_findings_hit": m["known_hits"],
                    "budget_exhausted": m["budget_exhausted"],
                    "exhaustive": m["exhaustive"],
                    "wall_s": round(m["wall_s"], 2),
                }
                for name, m in subs.items()
            },
            "known_findings_hit": known_hits,
            "harness_errors": len(harness_errors),
        },
        "assumptions": getattr(mod, "ASSUMPTIONS", []),
        "wall_s": round(time.time() - t0, 2),
        "violations": nviol,
    }
    if harness_errors:
        for e in harness_errors[:5]:
            print("HARNESS-ERROR:", e[:3000])
        if rc == 0:
            rc = 2
    ev_dir = ROOT / "evidence"
    ev_dir.mkdir(exist_ok=True)
    if evaluations > 0:
        (ev_dir / f"{args.pid}.json").write_text(json.dumps(evidence, indent=1) + "\n")
    summary = ", ".join(f"{n}:{m['evaluations']}/{len(m['nt'])}" for n, m in subs.items())
    print(f"[{args.pid} {args.tier} seed={args.seed}] evaluations={evaluations} distinct_nontrivial={len(all_nt)} "
          f"violations={nviol} wall={evidence['wall_s']}s  ({summary})")
    if args.verbose:
        for name, m in subs.items():
            print(" ", name, "classes", dict(sorted(m["classes"].items())), "excluded", m["excluded"],
                  "budget_exhausted" if m["budget_exhausted"] else "")
    return rc


def main() -> int:
    ap = argparse.ArgumentParser()
    ap.add_argument("pid")
    ap.add_argument("--tier", default=os.environ.get("VERIF_TIER", "quick"), choices=["quick", "thorough"])
    ap.add_argument("--seed", type=int, default=int(os.environ.get("VERIF_SEED", "1") or 1))
    ap.add_argument("--replay")
    ap.add_argument("--shard", type=int)
    ap.add_argument("--nshards", type=int)
    ap.add_argument("--out")
    ap.add_argument("--only", nargs="*")
    ap.add_argument("--cov", help="(internal) run this sub-check under the coverage-guided driver")
    ap.add_argument("--cov-runs", type=int, default=1000)
    ap.add_argument("--cov-budget", type=float, default=60.0)
    ap.add_argument("--no-cov", action="store_true", help="skip coverage-guided sub-checks")
    ap.add_argument("-v", "--verbose", action="store_true")
    args = ap.parse_args()
    args.pid = args.pid.upper()
    _reexec_if_needed()
    if args.replay:
        return replay_main(args)
    if args.cov:
        return cov_main(args)
    if args.shard is not None:
        return shard_main(args)
    return parent_main(args)


if __name__ == "__main__":
    try:
        sys.exit(main())
    except SystemExit:
        raise
    except BaseException as e:  # noqa: BLE001
        import traceback

        traceback.print_exc()
        print(f"HARNESS-ERROR: {type(e).__name__}: {e}")
        sys.exit(2)
