#!/usr/bin/env python3
"""Run the repository's pinned suite and compare with /root/.vp/BASELINE.json stable_pass.

usage: tools/suite.py [repo_dir]     exit 0 iff every stable-pass test still passes
"""
import json, os, subprocess, sys, tempfile
import xml.etree.ElementTree as ET

repo = sys.argv[1] if len(sys.argv) > 1 else "/repo"
base = json.load(open("/root/.vp/BASELINE.json"))
want = set(base["stable_pass"])
with tempfile.TemporaryDirectory() as td:
    xml = os.path.join(td, "r.xml")
    cmd = ["/venv/bin/python", "-m", "pytest", "-q", "-p", "no:cacheprovider", "--timeout=900",
           "--continue-on-collection-errors", f"--junitxml={xml}", "-x" if "-x" in sys.argv else "-q"]
    env = dict(os.environ, PYTHONPATH=repo)
    r = subprocess.run(cmd, cwd=repo, env=env, stdout=subprocess.PIPE, stderr=subprocess.STDOUT, text=True)
    passed = set()
    failed = set()
    for tc in ET.parse(xml).getroot().iter("testcase"):
        name = f"{tc.get('classname')}::{tc.get('name')}"
        bad = any(ch.tag in ("failure", "error", "skipped") for ch in tc)
        (failed if bad else passed).add(name)
missing = sorted(want - passed)
print(f"passed={len(passed)} failed={len(failed)} baseline={len(want)} baseline_missing={len(missing)}")
newly = sorted(passed - want)
print(f"newly passing (not in baseline): {len(newly)}")
for m in missing[:40]:
    print("  MISSING", m)
sys.exit(1 if missing else 0)
