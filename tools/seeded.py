#!/usr/bin/env python3
"""
Confirm and evaluate an independently written breaking change.

usage: tools/seeded.py import CNN /tmp/seed-CNN-out      -> copies changeK.diff/demo_K.py/notes.md to seeded/CNN-K/
       tools/seeded.py eval [CNN-K ...] [--tier quick|thorough] [--no-suite]

eval, per seeded/<id>/: in a scratch clone of /repo (outside /repo and /verif, removed afterwards)
  1. demo passes on the unchanged tree, 2. patch applies, 3. demo fails with the patch,
  4. repository suite: every BASELINE stable-pass test still passes, 5. our check (quick, then thorough if quick
  stays green) reports a VIOLATION.  Results go to seeded/<id>/meta.json.
"""
import argparse
import json
import os
import shutil
import subprocess
import sys
import tempfile
import time
from pathlib import Path

ROOT = Path(__file__).resolve().parent.parent
sys.path.insert(0, str(ROOT / "tools"))
from mutate import run_check  # noqa: E402


def sh(cmd, **kw):
    return subprocess.run(cmd, stdout=subprocess.PIPE, stderr=subprocess.STDOUT, text=True, **kw)


def do_import(pid, src, offset=0):
    src = Path(src)
    n = 0
    for d in sorted(src.glob("change*.diff")):
        k = "".join(c for c in d.stem if c.isdigit()) or "1"
        out = ROOT / "seeded" / f"{pid}-{int(k) + offset}"
        out.mkdir(parents=True, exist_ok=True)
        shutil.copy(d, out / "patch.diff")
        for cand in (src / f"demo_{k}.py", src / f"demo{k}.py"):
            if cand.exists():
                shutil.copy(cand, out / "demo.py")
        if (src / "notes.md").exists():
            shutil.copy(src / "notes.md", out / "notes.md")
        meta = out / "meta.json"
        if not meta.exists():
            meta.write_text(json.dumps({"property": pid, "source": "independent sub-agent given only the property text and a scratch worktree"}, indent=1) + "\n")
        n += 1
    print(f"imported {n} change(s) for {pid}")


def do_eval(ids, tier_first="quick", suite=True, thorough=True):
    scratch = Path(tempfile.mkdtemp(prefix="odcgeo-seed-"))
    try:
        repo = scratch / "repo"
        subprocess.run(["git", "clone", "-q", "/repo", str(repo)], check=True)
        for sid in ids:
            d = ROOT / "seeded" / sid
            meta_p = d / "meta.json"
            meta = json.loads(meta_p.read_text()) if meta_p.exists() else {}
            pid = meta.get("property") or sid.split("-")[0]
            meta["property"] = pid
            ran = []
            env = dict(os.environ, PYTHONPATH=str(repo), PYTHONHASHSEED="0")
            subprocess.run(["git", "-C", str(repo), "checkout", "-q", "--", "."], check=True)
            subprocess.run(["git", "-C", str(repo), "clean", "-fdq"], check=True)
            r = sh(["/venv/bin/python", str(d / "demo.py")], cwd=str(repo), env=env, timeout=1800)
            meta["demo_on_unchanged_tree"] = "passes" if r.returncode == 0 else f"FAILS rc={r.returncode}"
            ran.append(f"demo.py on unchanged scratch clone: rc={r.returncode}")
            a = sh(["git", "-C", str(repo), "apply", "--whitespace=nowarn", str(d / "patch.diff")])
            meta["patch_applies"] = a.returncode == 0
            if a.returncode != 0:
                meta["error"] = a.stdout[-500:]
                meta_p.write_text(json.dumps(meta, indent=1) + "\n")
                print(f"[{sid}] patch does not apply: {a.stdout[-300:]}")
                continue
            r = sh(["/venv/bin/python", str(d / "demo.py")], cwd=str(repo), env=env, timeout=1800)
            meta["demo_with_patch"] = "fails" if r.returncode != 0 else "PASSES (not a breakage?)"
            ran.append(f"demo.py with patch: rc={r.returncode}")
            if suite:
                r = sh(["python3", str(ROOT / "tools" / "suite.py"), str(repo)])
                meta["repo_suite_with_patch"] = "no baseline test lost" if r.returncode == 0 else "BASELINE TESTS FAIL: " + r.stdout[-400:]
                ran.append("tools/suite.py <scratch>: " + r.stdout.strip().splitlines()[0] if r.stdout.strip() else "suite: no output")
            rc, wall, viol, out = run_check(pid, repo, tier_first)
            meta["check_quick"] = {"result": {0: "MISSED", 1: "caught", 2: "harness-error"}.get(rc, f"rc={rc}"), "wall_s": wall,
                                   "subchecks": sorted({v.split(":")[0].replace("violation in ", "") for v in viol if v.startswith("violation in")})}
            ran.append(f"VERIF_REPO=<scratch> vf.run {pid} --tier {tier_first}: rc={rc} in {wall}s")
            meta.pop("check_thorough", None)
            if rc == 0 and thorough:
                rc2, wall2, viol2, out2 = run_check(pid, repo, "thorough", timeout=3600)
                meta["check_thorough"] = {"result": {0: "MISSED", 1: "caught", 2: "harness-error"}.get(rc2, f"rc={rc2}"), "wall_s": wall2,
                                          "subchecks": sorted({v.split(":")[0].replace("violation in ", "") for v in viol2 if v.startswith("violation in")})}
                ran.append(f"VERIF_REPO=<scratch> vf.run {pid} --tier thorough: rc={rc2} in {wall2}s")
            if rc not in (0, 1):
                meta["check_output_tail"] = out[-800:]
            meta["what_i_ran"] = ran
            meta["evaluated_at_repo_commit"] = sh(["git", "-C", "/repo", "rev-parse", "--short", "HEAD"]).stdout.strip()
            meta_p.write_text(json.dumps(meta, indent=1) + "\n")
            print(f"[{sid}] demo unchanged={meta['demo_on_unchanged_tree']} patched={meta.get('demo_with_patch')} suite={meta.get('repo_suite_with_patch','-')[:25]} "
                  f"quick={meta['check_quick']['result']} {meta['check_quick']['subchecks']} thorough={meta.get('check_thorough',{}).get('result','-')}")
    finally:
        shutil.rmtree(scratch, ignore_errors=True)


if __name__ == "__main__":
    ap = argparse.ArgumentParser()
    ap.add_argument("cmd", choices=["import", "eval", "report"])
    ap.add_argument("args", nargs="*")
    ap.add_argument("--tier", default="quick")
    ap.add_argument("--no-suite", action="store_true")
    ap.add_argument("--no-thorough", action="store_true", help="do not fall back to the thorough tier when quick misses")
    ap.add_argument("--offset", type=int, default=0, help="import: add to the change number (round 2 -> --offset 2)")
    a = ap.parse_args()
    if a.cmd == "report":
        rows = ["# Independently written breaking changes (generated by tools/seeded.py report)", "",
                "Each change was written by a fresh sub-agent that saw only the property text and a scratch worktree; it passes the repository's suite and comes with a demo that fails with it and passes without. `quick`/`thorough` = verdict of our check on a scratch clone with the change applied.", "",
                "| id | property | what it breaks | needs to manifest | demo (unchanged/patched) | repo suite | quick | caught by | thorough |", "|---|---|---|---|---|---|---|---|---|"]
        for d in sorted((ROOT / "seeded").iterdir()):
            if not (d / "meta.json").exists():
                continue
            m = json.loads((d / "meta.json").read_text())
            q = m.get("check_quick", {})
            rows.append(f"| {d.name} | {m.get('property')} | {m.get('breaks','')} | {m.get('needs_to_manifest','')} | {m.get('demo_on_unchanged_tree','?')}/{m.get('demo_with_patch','?')} | {m.get('repo_suite_with_patch','?')[:22]} | {q.get('result','?')} ({q.get('wall_s','')}s) | {', '.join(q.get('subchecks', []))} | {m.get('check_thorough',{}).get('result','-')} |")
        (ROOT / "seeded" / "RESULTS.md").write_text("\n".join(rows) + "\n")
        print("\n".join(rows[-12:]))
    elif a.cmd == "import":
        do_import(a.args[0].upper(), a.args[1], a.offset)
    else:
        ids = a.args or sorted(p.name for p in (ROOT / "seeded").iterdir() if p.is_dir())
        do_eval(ids, a.tier, not a.no_suite, not a.no_thorough)
