#!/usr/bin/env python3
"""Regenerate MANIFEST.json from the table below (keeps it schema-valid at all times)."""
import json, sys
from pathlib import Path

ROOT = Path(__file__).resolve().parent.parent
PY = "/venv/bin/python"

# id -> (technique, level text, level note, design ref)
CLAIMED = {}

def claim(pid, technique, text, note, ref):
    CLAIMED[pid] = dict(technique=technique, text=text, note=note, ref=ref)

exec((ROOT / "tools" / "claims.py").read_text())

props = [json.loads(l) for l in (ROOT / "properties.jsonl").read_text().splitlines() if l.strip()]
checks = []
na = []
for p in props:
    pid = p["id"]
    if pid in CLAIMED:
        c = dict(CLAIMED[pid])
        if 'cov={' in (ROOT / "vf" / "props" / f"{pid.lower()}.py").read_text():
            c["technique"] += "; plus coverage-guided fuzzing (atheris/libFuzzer mutating the byte stream of the same Hypothesis strategies, odc.* instrumented, same oracle)"
        checks.append({
            "property_id": pid,
            "quick_cmd": f"{PY} -m vf.run {pid} --tier quick",
            "thorough_cmd": f"{PY} -m vf.run {pid} --tier thorough",
            "evidence_file": f"/verif/evidence/{pid}.json",
            "replay_cmd_template": f"{PY} -m vf.run {pid} --replay {{path}}",
            "engine": "vf",
            "level_claimed": {"category": "exploration", "text": c["text"], "design_ref": c["ref"]},
            "level_note": c["note"],
            "technique": c["technique"],
        })
    else:
        na.append({"property_id": pid, "reason": "check not built yet (work in progress; see DESIGN.md section 3 for the planned generator and oracle)"})

man = {
    "version": 1,
    "setup_cmd": "(/venv/bin/python -c 'import hypothesis' 2>/dev/null || /venv/bin/pip install --no-index --find-links /opt/veriftools/wheels hypothesis) && (/venv/bin/python -c 'import atheris' 2>/dev/null || /venv/bin/pip install --no-index --find-links /opt/veriftools/wheels atheris || echo 'atheris unavailable: coverage-guided sub-checks will be skipped')",
    "hooks": {
        "guard": "ODC_GEO_VERIF",
        "enable": "no hooks: checks import /repo's working tree directly (VERIF_REPO overrides the path) and instrument from outside by subclassing / attribute patching",
        "baseline_off_cmd": "cd /repo && /venv/bin/python -m pytest -ra -q -p no:cacheprovider --timeout=900 --continue-on-collection-errors",
        "source_commits": [],
        "add_only": True,
    },
    "engines": [{
        "name": "vf",
        "path": "/verif/vf",
        "serves_properties": sorted(CLAIMED),
        "kind_free_text": "Hypothesis 6.168 property-based testing (seeded, database=None) + exhaustive enumeration of finite sub-domains, sharded over subprocesses; coverage-guided fuzzing (atheris 3.1 / libFuzzer driving the same strategies through Hypothesis' fuzz_one_input, odc.* bytecode instrumented) for sub-checks registered with cov=; explicit oracles (numpy/shapely/pyproj/GDAL references, exact rational models, round trips, metamorphic relations); JSON replay files",
    }],
    "checks": checks,
    "notes": "All checks: exit 0 held / exit 1 + VIOLATION line / exit 2 harness error. VERIF_SEED seeds every Hypothesis run; PYTHONHASHSEED is forced to 0. known_findings.json lists repaired (fixed) and recorded (known) defects.",
    "not_applicable": na,
}
(ROOT / "MANIFEST.json").write_text(json.dumps(man, indent=1) + "\n")
try:
    import jsonschema
    jsonschema.validate(man, json.load(open("/root/.vp/MANIFEST.schema.json")))
    print("MANIFEST.json valid;", len(checks), "claimed,", len(na), "not applicable")
except ImportError:
    print("written (jsonschema not available to validate)")
