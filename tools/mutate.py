#!/usr/bin/env python3
"""
Sensitivity harness: apply each hand-written mutant of sensitivity/mutants.py (or each *.diff under
sensitivity/<ID>/ and seeded/*/patch.diff) to a scratch copy of /repo, run the property's quick check with
VERIF_REPO pointing at the copy, record killed / survived and the time to kill.

usage: tools/mutate.py C04 [C17 ...] [--only name] [--tier quick] [--suite]   (no ids = all)
Results: sensitivity/results/<ID>.json  (+ tools/mutate.py --report regenerates sensitivity/RESULTS.md)
"""
import argparse
import json
import os
import re
import shutil
import subprocess
import sys
import tempfile
import time
from pathlib import Path

ROOT = Path(__file__).resolve().parent.parent
sys.path.insert(0, str(ROOT))


def load_mutants():
    ns = {}
    exec((ROOT / "sensitivity" / "mutants.py").read_text(), ns)
    return ns["MUTANTS"]


def run_check(pid, repo, tier, seed=1, timeout=600):
    env = dict(os.environ, VERIF_REPO=str(repo), VERIF_SEED=str(seed), PYTHONHASHSEED="0")
    t0 = time.time()
    # run from a temp copy of ROOT's vf? No: evidence/replay written by a mutant run must not pollute /verif
    work = Path(tempfile.mkdtemp(prefix="vf-mut-"))
    try:
        shutil.copytree(ROOT / "vf", work / "vf", ignore=shutil.ignore_patterns("__pycache__"))
        shutil.copy(ROOT / "known_findings.json", work / "known_findings.json")
        if (ROOT / "replay" / pid / "regress").is_dir():
            shutil.copytree(ROOT / "replay" / pid / "regress", work / "replay" / pid / "regress")
        try:
            r = subprocess.run(
                ["/venv/bin/python", "-m", "vf.run", pid, "--tier", tier, "--seed", str(seed)],
                cwd=work, env=env, stdout=subprocess.PIPE, stderr=subprocess.STDOUT, text=True, timeout=timeout,
            )
            out, rc = r.stdout, r.returncode
        except subprocess.TimeoutExpired as e:
            out, rc = (e.stdout or "") + "\nTIMEOUT", 99
        keep = os.environ.get("MUTATE_KEEP_REPLAY")
        if keep and (work / "replay" / pid).is_dir():
            Path(keep).mkdir(parents=True, exist_ok=True)
            for f in (work / "replay" / pid).glob("*.json"):
                shutil.copy(f, Path(keep) / f.name)
    finally:
        shutil.rmtree(work, ignore_errors=True)
    viol = [l for l in out.splitlines() if l.startswith("VIOLATION") or l.startswith("violation in")]
    return rc, round(time.time() - t0, 1), viol, out


def apply_per_file(repo, diff):
    """Some kept diffs were taken in a scratch copy whose working tree already contained hunks that have since been
    committed to /repo: apply file by file, skipping files whose hunks are already in the tree (reverse-applies)."""
    import types

    text = Path(diff).read_text()
    head, *parts = re.split(r"(?m)^(?=diff --git )", text)
    if not parts:  # plain unified diff without git headers
        parts = re.split(r"(?m)^(?=--- a/)", text)[1:]
    applied = 0
    # split every file section into one patch per hunk
    pieces = []
    for part in parts:
        m = re.search(r"(?m)^@@ ", part)
        if not m:
            continue
        fhead, body = part[: m.start()], part[m.start():]
        for h in re.split(r"(?m)^(?=@@ )", body):
            if h.strip():
                pieces.append(fhead + h)
    for part in pieces:
        tmp = Path(tempfile.mkstemp(suffix=".diff")[1])
        tmp.write_text(part)
        try:
            a = subprocess.run(["git", "-C", str(repo), "apply", "--whitespace=nowarn", str(tmp)], capture_output=True, text=True)
            if a.returncode == 0:
                applied += 1
                continue
            rv = subprocess.run(["git", "-C", str(repo), "apply", "-R", "--check", "--whitespace=nowarn", str(tmp)], capture_output=True, text=True)
            if rv.returncode == 0:
                continue  # already in the tree
            return types.SimpleNamespace(returncode=1, stderr=a.stderr)
        finally:
            tmp.unlink()
    return types.SimpleNamespace(returncode=0 if applied else 1, stderr="nothing left to apply")


def main():
    ap = argparse.ArgumentParser()
    ap.add_argument("pids", nargs="*")
    ap.add_argument("--only")
    ap.add_argument("--tier", default="quick")
    ap.add_argument("--suite", action="store_true", help="also run the repo test-suite on each mutant")
    ap.add_argument("--report", action="store_true")
    ap.add_argument("--repo", default="/repo")
    args = ap.parse_args()
    resdir = ROOT / "sensitivity" / "results"
    resdir.mkdir(parents=True, exist_ok=True)
    if args.report:
        return report(resdir)
    muts = load_mutants()
    pids = [p.upper() for p in args.pids] or sorted(muts)
    scratch = Path(tempfile.mkdtemp(prefix="odcgeo-mut-"))
    try:
        repo = scratch / "repo"
        subprocess.run(["git", "clone", "-q", args.repo, str(repo)], check=True)
        # working tree state of /repo (uncommitted edits are not expected, but copy HEAD only)
        for pid in pids:
            res_path = resdir / f"{pid}.json"
            results = json.loads(res_path.read_text()) if res_path.exists() else {}
            items = list(muts.get(pid, []))
            # diff-based mutants
            for d in sorted((ROOT / "sensitivity" / pid).glob("*.diff")) if (ROOT / "sensitivity" / pid).is_dir() else []:
                if d.name.startswith("PROPOSED-FIX"):
                    continue
                items.append({"name": d.stem, "diff": str(d)})
            for m in items:
                if args.only and args.only != m["name"]:
                    continue
                subprocess.run(["git", "-C", str(repo), "checkout", "-q", "--", "."], check=True)
                if "diff" in m:
                    r = subprocess.run(["git", "-C", str(repo), "apply", "--whitespace=nowarn", m["diff"]], capture_output=True, text=True)
                    if r.returncode != 0:
                        r = apply_per_file(repo, m["diff"])
                    if r.returncode != 0:
                        print(f"[{pid}] {m['name']}: patch does not apply: {r.stderr.strip()[:200]}")
                        results[m["name"]] = {"status": "does-not-apply"}
                        continue
                else:
                    f = repo / m["file"]
                    s = f.read_text()
                    if s.count(m["old"]) != 1:
                        print(f"[{pid}] {m['name']}: anchor found {s.count(m['old'])}x in {m['file']} - skipped")
                        results[m["name"]] = {"status": "anchor-missing"}
                        continue
                    f.write_text(s.replace(m["old"], m["new"]))
                rc, wall, viol, out = run_check(pid, repo, args.tier)
                status = {0: "SURVIVED", 1: "killed", 2: "harness-error"}.get(rc, f"rc={rc}")
                entry = {"status": status, "wall_s": wall, "tier": args.tier, "by": sorted({v.split(":")[0].replace("violation in ", "") for v in viol if v.startswith("violation in")}), "what": m.get("what", "")}
                if args.suite:
                    r = subprocess.run(["python3", str(ROOT / "tools" / "suite.py"), str(repo)], capture_output=True, text=True)
                    entry["suite"] = "passes" if r.returncode == 0 else "fails"
                results[m["name"]] = entry
                print(f"[{pid}] {m['name']}: {status} in {wall}s by {entry['by']}" + (f" suite:{entry.get('suite')}" if args.suite else ""))
                if rc not in (0, 1):
                    print(out[-1500:])
            res_path.write_text(json.dumps(results, indent=1, sort_keys=True) + "\n")
    finally:
        shutil.rmtree(scratch, ignore_errors=True)


SURVIVOR_NOTES = {
    ("C03", "axis_overlap_floor_to_round"): "equivalent: compute_axis_overlap is only reached with a snapped transform (unit scale, integer translation), where floor == round",
    ("C03", "axis_overlap_ceil_to_floor"): "equivalent: same reason (integer arguments)",
    ("C03", "dst_out_floor"): "equivalent: same reason (integer arguments)",
    ("C03", "sampled_path_no_padding"): "equivalent w.r.t. the statement: with an exact (curvature-free) envelope, padding 0 still contains every needed pixel; padding is a safety margin for resampling kernels",
    ("C03", "diffcrs_padding_zero"): "equivalent w.r.t. the statement inside the decided domain (cases with envelope curvature > 0.25 px are excluded by the oracle-side filter)",
    ("C05", "SURVIVED-shrink2-ceil"): "equivalent: padding to 2^levels makes every halved size even",
    ("C08", "tol_ignored"): "allowed by C08 (full cover, still < 1+tol px larger than necessary); the same change is killed under C20 (snap_tol_ignored) where 'minimal' is stated",
    ("C17", "points_int32_again"): "equivalent by construction (values are clamped before the cast) - control mutant",
    ("C17", "touching_as_overlap"): "equivalent: both variants return empty index sets for touching slices (badly chosen mutant)",
    ("C19", "geobox_hash_no_affine"): "coherent: equal objects still have equal hashes (only hash quality changes)",
    ("C19", "gbtiles_eq_ignores_gbox"): "coherent under the statement: unhashable type, equal objects may have different tokens",
    ("C19", "gridspec_eq_ignores_bins"): "coherent under the statement: unhashable type, equal objects may have different tokens",
    ("C19", "xy_eq_asymmetric"): "ineffective: Python consults the subclass' reflected __eq__ first, behaviour unchanged",
    ("C20", "split_ge_half"): "within the contract: the fraction stays in [-0.5, 0.5] and the parts still sum to x",
}


def report(resdir):
    lines = ["# Sensitivity results (generated by tools/mutate.py --report)", "",
             "Each mutant is a small change to a scratch copy of the repository; `killed` = the property's check exited 1 with a VIOLATION line.", "",
             "| property | mutant | what | result | tier | wall s | sub-checks that fired | repo suite |", "|---|---|---|---|---|---|---|---|"]
    for p in sorted(resdir.glob("*.json")):
        for name, e in sorted(json.loads(p.read_text()).items()):
            note = SURVIVOR_NOTES.get((p.stem, name), "")
            what = e.get("what", "") + ((" - SURVIVOR: " + note) if e.get("status") == "SURVIVED" else "")
            lines.append(f"| {p.stem} | {name} | {what} | {e.get('status')} | {e.get('tier','')} | {e.get('wall_s','')} | {', '.join(e.get('by', []))} | {e.get('suite','')} |")
    (ROOT / "sensitivity" / "RESULTS.md").write_text("\n".join(lines) + "\n")
    print("\n".join(lines[-40:]))


if __name__ == "__main__":
    main()
