#!/usr/bin/env python3
"""tools/tryseed.py SEED-ID [--only sub ...] [--tier quick] [--seed N]: apply seeded/<id>/patch.diff to a scratch copy of
/repo's HEAD and run our check against it from a temp copy of vf/ (nothing in /verif or /repo is touched)."""
import argparse, os, shutil, subprocess, sys, tempfile, time
from pathlib import Path
ROOT = Path(__file__).resolve().parent.parent
ap = argparse.ArgumentParser()
ap.add_argument("sid"); ap.add_argument("--only", nargs="*"); ap.add_argument("--tier", default="quick"); ap.add_argument("--seed", default="1")
ap.add_argument("-v", action="store_true")
a = ap.parse_args()
pid = os.environ.get("TRYSEED_PROPERTY") or a.sid.split("-")[0]
scratch = Path(tempfile.mkdtemp(prefix="tryseed-"))
try:
    repo = scratch / "repo"
    subprocess.run(["git", "clone", "-q", "/repo", str(repo)], check=True)
    patch = ROOT / "seeded" / a.sid / "patch.diff" if not Path(a.sid).exists() else Path(a.sid)
    r = subprocess.run(["git", "-C", str(repo), "apply", "--whitespace=nowarn", str(patch)])
    if r.returncode:
        sys.exit("patch does not apply")
    work = scratch / "work"
    shutil.copytree(ROOT / "vf", work / "vf", ignore=shutil.ignore_patterns("__pycache__"))
    shutil.copy(ROOT / "known_findings.json", work / "known_findings.json")
    if (ROOT / "replay" / pid / "regress").is_dir():
        shutil.copytree(ROOT / "replay" / pid / "regress", work / "replay" / pid / "regress")
    cmd = ["/venv/bin/python", "-m", "vf.run", pid, "--tier", a.tier, "--seed", a.seed] + (["--only", *a.only] if a.only else []) + (["-v"] if a.v else [])
    t0 = time.time()
    r = subprocess.run(cmd, cwd=work, env=dict(os.environ, VERIF_REPO=str(repo), PYTHONHASHSEED="0"), stdout=subprocess.PIPE, stderr=subprocess.STDOUT, text=True)
    for l in r.stdout.splitlines():
        if l.startswith(("VIOLATION", "violation in", "[", "HARNESS", "KNOWN", "note")) or a.v:
            print(l[:700])
    print(f"rc={r.returncode} wall={time.time()-t0:.1f}s")
finally:
    shutil.rmtree(scratch, ignore_errors=True)
