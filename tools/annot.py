#!/usr/bin/env python3
"""tools/annot.py ID 'breaks' 'needs_to_manifest' [round] - set the descriptive fields of seeded/<ID>/meta.json"""
import json, sys
from pathlib import Path
ROOT = Path(__file__).resolve().parent.parent
sid, breaks, needs = sys.argv[1:4]
rnd = int(sys.argv[4]) if len(sys.argv) > 4 else 4
p = ROOT / "seeded" / sid / "meta.json"
m = json.loads(p.read_text())
m.update({"breaks": breaks, "needs_to_manifest": needs, "round": rnd})
p.write_text(json.dumps(m, indent=1) + "\n")
