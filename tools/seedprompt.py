#!/usr/bin/env python3
"""Print the prompt for an independent 'seeded breakage' sub-agent.

usage: tools/seedprompt.py CNN ROUND [N_CHANGES]

The prompt contains only: the property text (title, statement, anchors), the scratch worktree path, the output
directory, the rules, and one-line descriptions of the changes earlier agents already wrote for this property
(so that new ones differ).  Nothing about the checks in /verif.
"""
import json
import sys
from pathlib import Path

ROOT = Path(__file__).resolve().parent.parent
pid = sys.argv[1].upper()
rnd = int(sys.argv[2])
n = int(sys.argv[3]) if len(sys.argv) > 3 else 3

prop = None
for line in open(ROOT / "properties.jsonl"):
    p = json.loads(line)
    if p["id"] == pid:
        prop = p
assert prop, pid

taken = []
for d in sorted((ROOT / "seeded").glob(f"{pid}-*")):
    mp = d / "meta.json"
    if mp.exists():
        m = json.loads(mp.read_text())
        if m.get("breaks"):
            taken.append(f"- {m['breaks']} (needed: {m.get('needs_to_manifest', '?')})")

wt = f"/tmp/seed{rnd}-{pid}"
out = f"/tmp/seed{rnd}-{pid}-out"
mech = "\n".join(f"  - {m['name']}  [{m['where']}]" for m in prop["anchors"].get("mechanism", []))
state = "\n".join(f"  - {m['name']}: {m['meaning']}  [{m['where']}]" for m in prop["anchors"].get("state", []))

print(f"""You are testing how good a verification effort for the Python library **odc-geo** (opendatacube/odc-geo) is.
Your job: write {n} *different*, realistic code changes to odc-geo, each of which BREAKS the property below while the
library still imports and the repository's existing test suite still passes exactly as before.  I will then check
whether an independently built verifier notices them.  You see nothing of that verifier and must not look for it:
do NOT read anything under /verif, and do NOT touch /repo.  Work ONLY in your own scratch git worktree
`{wt}` (already created from /repo's HEAD) and write your results to `{out}/` (create it).

## The property ({pid}): {prop['title']}

{prop['statement']}

Files: {', '.join(prop['anchors']['files'])}
Mechanisms the property rests on (line numbers approximate):
{mech}
{('State:' + chr(10) + state) if state else ''}
Observed at: {'; '.join(prop['anchors'].get('observe_at', []))}

## What a good change looks like

* It looks like something a maintainer could plausibly commit: an "optimisation", a refactor, a tidy-up, a new fast
  path, a changed default, a caching layer, a reordered check, a boundary condition handled differently - not
  sabotage with a magic constant, not `if x == 1234`, not a random/time-dependent bug, not a syntax-level vandalism.
* It must need something SPECIFIC to manifest - a multi-step sequence of operations, an unusual but valid input
  (particular sign combination, size relation, axis order, dtype, empty/degenerate-but-legal value, a value just
  either side of a tolerance), a particular schedule/interleaving/merge order, a cache warmed in a particular order,
  or two cooperating edits in different functions that each look fine alone.  Ordinary use (and the existing tests)
  must not expose it at once.
* It must make the library violate the property statement as written (a clause of it), for inputs the library
  documents or visibly accepts - not merely change behaviour the statement does not talk about, and not only for
  inputs that are outside any reasonable domain (NaN coordinates, 1e300 sizes, etc. unless the statement mentions
  them).
* The {n} changes must differ from each other in root cause AND in the clause of the property they break, and
  should be spread over different functions/files of the mechanism list where possible.  Prefer clauses and code
  paths that earlier changes did not touch.
* Earlier agents already wrote the following changes for this property - do NOT repeat these ideas or close
  variants; find different code paths / clauses / triggers:
{chr(10).join(taken) if taken else '  (none)'}

## How to work

1. `cd {wt}`.  Python is `/venv/bin/python` (has numpy, shapely, pyproj, rasterio, xarray, dask, distributed,
   tifffile, pytest; NO network).  ALWAYS run with `PYTHONPATH={wt}` so that your worktree's `odc` package is the
   one imported (verify once: `PYTHONPATH={wt} /venv/bin/python -c "import odc.geo; print(odc.geo.__file__)"`).
2. Record the baseline first: `cd {wt} && PYTHONPATH={wt} /venv/bin/python -m pytest -q -p no:cacheprovider
   --timeout=900 --continue-on-collection-errors tests/ 2>&1 | tail -30` (about 40 s; a handful of tests fail/error
   on the unchanged tree for environment reasons - those do not matter; what matters is that no test that passes
   on the unchanged tree fails with your change).
3. For each change k = 1..{n}: edit the worktree, write `{out}/demo_k.py` - a small standalone program (no pytest
   needed; plain asserts; exit code 0 = property holds, non-zero = violated; it should state in a comment which
   clause of the property it checks and check it against an independent expectation, e.g. numpy/shapely/pyproj or
   hand-computed values) that PASSES on the unchanged worktree and FAILS with your change.  Run it both ways
   (`git diff > {out}/changek.diff`, then `git checkout -- .` to get back to the unchanged tree; never use
   `git stash`, never commit).  Run the full test suite with the change applied and confirm that the set of
   passing tests is the same as in the baseline.  If a test catches your change, the change is not acceptable:
   make it subtler or choose another.
4. Each `changek.diff` must apply with `git apply` to a clean checkout of HEAD on its own (the changes are
   alternatives, not a series).  Keep each diff small (typically < 40 changed lines); touch only library code under
   `odc/`, never tests.
5. Finish with the worktree clean (`git -C {wt} status --short` prints nothing) and write `{out}/notes.md`: per
   change - what was changed and the plausible rationale, which clause breaks, exactly what is needed for it to
   manifest, the commands you ran and their outcome (demo unchanged: rc 0; demo patched: rc != 0; suite: same
   passing set).

Your final message: a 3-6 line summary per change (file/function, clause broken, trigger).""")
